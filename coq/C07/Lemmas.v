(* C07/Lemmas.v -- proofs about bumps and included_at *)
From Coq Require Import ZArith List Bool Arith Lia Permutation.
From AK Require Import Common.Sx Common.Err gen.C07_Consts C07.Model C07.LemmasOrder.
Import ListNotations.

(* ------------------------------------------------------------------ *)
(* obligations on the clauses read from the source                      *)

(* get_rbuilds_in_bump prunes exactly at the from-builds (what [collect] models) *)
Lemma src_prune_ok : src_prune = PruneAtFrom.
Proof. reflexivity. Qed.

(* is_rbuild has the disjunct "non_trivial_bumps_present" *)
Lemma src_bump_clause : In ClBump src_is_rbuild.
Proof. vm_compute. tauto. Qed.

(* ... and exactly the three disjuncts the model's [finalise] uses *)
Lemma src_rbuild_clauses : forall c, In c src_is_rbuild <-> In c [ClNew; ClBump; ClMerge].
Proof. intros c. vm_compute. destruct c; tauto. Qed.

(* dependency cycles are reported as ValueError *)
Lemma src_cycle_err_ok : src_cycle_err = ValueErr.
Proof. reflexivity. Qed.

(* ------------------------------------------------------------------ *)
(* from a build tag to a build number                                   *)

Lemma src_tag_routes_ok : src_tag_routes = [RouteKnown; RouteGuessIsNotNone; RouteSaved].
Proof. reflexivity. Qed.

Lemma finalize_release_l : forall saved M m n, finalize_tag saved (TagRelease M m, n) = (M, m, n).
Proof. reflexivity. Qed.
Lemma finalize_full_l : forall saved M m n, finalize_tag saved (TagFull M m, n) = (M, m, n).
Proof. reflexivity. Qed.
Lemma finalize_word_l : forall n,
  (forall M m, finalize_tag (Some (M, m)) (TagWord, n) = (M, m, n)) /\
  finalize_tag None (TagWord, n) = (qm, qm, n).
Proof. intros n. split; reflexivity. Qed.

(* the build number is found in a version map under exactly its own key *)
Lemma bn_eqb_eq : forall a b : bn, bn_eqb a b = true <-> a = b.
Proof.
  intros [[a1 a2] a3] [[b1 b2] b3]. unfold bn_eqb. rewrite !andb_true_iff, !Z.eqb_eq.
  split; [intros [[-> ->] ->]; reflexivity | intros H; injection H as -> -> ->; auto].
Qed.

Definition int_bn (a : bn) : Prop := let '(a1, a2, a3) := a in (0 <= a1 /\ 0 <= a2 /\ 0 <= a3)%Z.
Definition lex_le (a b : bn) : Prop :=
  let '(a1, a2, a3) := a in let '(b1, b2, b3) := b in
  (a1 < b1 \/ (a1 = b1 /\ (a2 < b2 \/ (a2 = b2 /\ a3 <= b3))))%Z.

Lemma bn_leb_int : forall a b, int_bn a -> int_bn b -> (bn_leb a b = true <-> lex_le a b).
Proof.
  intros [[a1 a2] a3] [[b1 b2] b3] (A1 & A2 & A3) (B1 & B2 & B3).
  unfold bn_leb, lex_le, cmp_opt_ints, is_int.
  repeat match goal with |- context [Z.leb 0 ?x] => replace (Z.leb 0 x) with true by (symmetry; apply Z.leb_le; assumption) end.
  cbn [andb].
  destruct (Z.eqb (a1 - b1) 0) eqn:E1; cbn [negb].
  - apply Z.eqb_eq in E1. destruct (Z.eqb (a2 - b2) 0) eqn:E2; cbn [negb].
    + apply Z.eqb_eq in E2. rewrite Z.leb_le. lia.
    + apply Z.eqb_neq in E2. rewrite Z.ltb_lt. lia.
  - apply Z.eqb_neq in E1. rewrite Z.ltb_lt. lia.
Qed.

Lemma bn_leb_qm : forall a n, int_bn a ->
  bn_leb a (qm, qm, n) = true /\ bn_leb (qm, qm, n) a = false.
Proof.
  intros [[a1 a2] a3] n (A1 & A2 & A3). unfold bn_leb, cmp_opt_ints, is_int, qm.
  replace (Z.leb 0 a1) with true by (symmetry; apply Z.leb_le; assumption).
  split; reflexivity.
Qed.

Lemma cmp_opt_total : forall a b, (cmp_opt_ints a b <= 0 \/ cmp_opt_ints b a <= 0)%Z.
Proof.
  intros a b. unfold cmp_opt_ints, is_int.
  destruct (Z.leb 0 a) eqn:A, (Z.leb 0 b) eqn:B; cbn [andb]; lia.
Qed.
Lemma cmp_opt_anti : forall a b, (cmp_opt_ints a b = 0 <-> cmp_opt_ints b a = 0)%Z.
Proof.
  intros a b. unfold cmp_opt_ints, is_int.
  destruct (Z.leb 0 a) eqn:A, (Z.leb 0 b) eqn:B; cbn [andb]; lia.
Qed.
Lemma cmp_opt_sign : forall a b, (cmp_opt_ints a b < 0 <-> 0 < cmp_opt_ints b a)%Z.
Proof.
  intros a b. unfold cmp_opt_ints, is_int.
  destruct (Z.leb 0 a) eqn:A, (Z.leb 0 b) eqn:B; cbn [andb]; lia.
Qed.

Lemma bn_leb_total : forall a b, bn_leb a b = true \/ bn_leb b a = true.
Proof.
  intros [[a1 a2] a3] [[b1 b2] b3]. unfold bn_leb.
  pose proof (cmp_opt_anti a1 b1) as H1. pose proof (cmp_opt_sign a1 b1) as S1.
  pose proof (cmp_opt_anti a2 b2) as H2. pose proof (cmp_opt_sign a2 b2) as S2.
  pose proof (cmp_opt_total a3 b3) as T3. pose proof (cmp_opt_sign b1 a1) as S1'. pose proof (cmp_opt_sign b2 a2) as S2'.
  destruct (Z.eqb (cmp_opt_ints a1 b1) 0) eqn:E1, (Z.eqb (cmp_opt_ints b1 a1) 0) eqn:E1',
           (Z.eqb (cmp_opt_ints a2 b2) 0) eqn:E2, (Z.eqb (cmp_opt_ints b2 a2) 0) eqn:E2';
    rewrite ?Z.eqb_eq, ?Z.eqb_neq in *; cbn [negb]; rewrite ?Z.leb_le, ?Z.ltb_lt; lia.
Qed.

(* get_builds_numbers loses and invents nothing: a permutation of the finalized tags *)
Lemma bn_insert_perm : forall x l, Permutation (bn_insert x l) (x :: l).
Proof.
  intros x l. induction l as [|y r IH]; cbn [bn_insert]; [apply Permutation_refl|].
  destruct (bn_leb x y); [apply Permutation_refl|].
  eapply perm_trans; [apply perm_skip, IH | apply perm_swap].
Qed.
Lemma bn_sort_perm : forall l, Permutation (bn_sort l) l.
Proof.
  induction l as [|x r IH]; [apply Permutation_refl|]. unfold bn_sort in *. cbn [fold_right].
  eapply perm_trans; [apply bn_insert_perm | apply perm_skip, IH].
Qed.
Lemma builds_numbers_perm : forall saved tags,
  Permutation (builds_numbers saved tags) (map (finalize_tag saved) tags).
Proof. intros. apply bn_sort_perm. Qed.

(* a release tag is looked up by a pin iff the pin is its major.minor.build -- 0 is a number like any other *)
Lemma release_tag_pin_l : forall saved M m n pin,
  bn_eqb (finalize_tag saved (TagRelease M m, n)) pin = true <-> pin = (M, m, n).
Proof. intros. rewrite finalize_release_l, bn_eqb_eq. split; congruence. Qed.

(* ------------------------------------------------------------------ *)
(* the component's RBuild graph                                         *)

Section Graph.
Variable cg : cgraph.

(* y is x or an ancestor of x *)
Inductive anc : nat -> nat -> Prop :=
| anc_refl x : anc x x
| anc_step x p y : In p (cparents cg x) -> anc p y -> anc x y.

(* ... reached from x on a path none of whose builds (x and y included) is in [from] *)
Inductive apath (from : list nat) : nat -> nat -> Prop :=
| ap_refl x : ~ In x from -> apath from x x
| ap_step x p y : ~ In x from -> In p (cparents cg x) -> apath from p y -> apath from x y.

(* RBuild iids: a parent build has a smaller iid than its child *)
Definition wf : Prop := forall x p, In p (cparents cg x) -> p < x.

Lemma anc_trans x y z : anc x y -> anc y z -> anc x z.
Proof. induction 1 as [x|x p y Hp A IH]; intros B; [exact B|]. eapply anc_step; [exact Hp|apply IH; exact B]. Qed.

Lemma apath_anc from x y : apath from x y -> anc x y.
Proof. induction 1; [constructor|]. eapply anc_step; eauto. Qed.

Lemma apath_end from x y : apath from x y -> ~ In y from.
Proof. induction 1; auto. Qed.

(* a path that meets no from-build *)
Lemma anc_apath from x y :
  anc x y -> (forall f, In f from -> ~ anc f y) -> apath from x y.
Proof.
  induction 1 as [x|x p y Hp H IH]; intros N.
  - apply ap_refl. intros Hx. apply (N x Hx). constructor.
  - eapply ap_step; [|exact Hp|apply IH; exact N].
    intros Hx. apply (N x Hx). eapply anc_step; eauto.
Qed.

(* --- the fold over the parents --- *)
Lemma fold_collect (F : nat -> option (list nat)) (P : nat -> nat -> Prop) ps :
  (forall p, In p ps -> exists lp, F p = Some lp /\ forall y, In y lp <-> P p y) ->
  forall a, exists l,
    fold_left (fun acc p => match acc, F p with Some a, Some b => Some (a ++ b) | _, _ => None end) ps (Some a) = Some l
    /\ forall y, In y l <-> In y a \/ exists p, In p ps /\ P p y.
Proof.
  induction ps as [|p r IH]; intros H a; cbn [fold_left].
  - exists a. split; [reflexivity|]. intros y. split; [auto|]. intros [Hy|(p & [] & _)]. exact Hy.
  - destruct (H p (or_introl eq_refl)) as (lp & E & Hlp). rewrite E.
    destruct (IH (fun q Hq => H q (or_intror Hq)) (a ++ lp)) as (l & El & Hl).
    exists l. split; [exact El|]. intros y. rewrite Hl, in_app_iff, Hlp. split.
    + intros [[Hy|Hy]|(q & Hq & Py)]; [left; exact Hy|right; exists p; split; [left; reflexivity|exact Hy]|].
      right. exists q. split; [right; exact Hq|exact Py].
    + intros [Hy|(q & [<-|Hq] & Py)]; [left; left; exact Hy|left; right; exact Py|].
      right. exists q. split; assumption.
Qed.

(* what the DFS of get_rbuilds_in_bump collects *)
Lemma collect_spec from : wf -> forall fuel x, x < fuel ->
  exists l, collect fuel cg from x = Some l /\ forall y, In y l <-> apath from x y.
Proof.
  intros W. induction fuel as [|f IH]; intros x Hx; [lia|].
  cbn [collect]. destruct (nmem x from) eqn:M.
  - apply nmem_In in M. exists []. split; [reflexivity|]. intros y. split; [intros []|].
    intros H. exfalso. inversion H; subst; contradiction.
  - apply nmem_false in M.
    destruct (fold_collect (collect f cg from) (apath from) (rev (nsort (cparents cg x)))) with (a := @nil nat) as (l & E & Hl).
    { intros p Hp. apply in_rev in Hp. apply (proj1 (nsort_In _ _)) in Hp. apply IH. pose proof (W x p Hp). lia. }
    rewrite E. exists (l ++ [x]). split; [reflexivity|].
    intros y. rewrite in_app_iff, Hl. split.
    + intros [[[]|(p & Hp & A)]|[<-|[]]].
      * apply in_rev in Hp. apply (proj1 (nsort_In _ _)) in Hp. eapply ap_step; eauto.
      * apply ap_refl. exact M.
    + intros A. inversion A; subst.
      * right. left. reflexivity.
      * left. right. exists p. split; [|assumption]. rewrite <- in_rev. apply nsort_In. assumption.
Qed.

(* get_rbuilds_in_bump(): exactly the builds reached on a from-avoiding path, each once *)
Lemma rbuilds_in_bump_spec b t : wf -> b_to b = Some t ->
  exists l, rbuilds_in_bump cg b = Some l /\ NoDup l /\ forall y, In y l <-> apath (b_from b) t y.
Proof.
  intros W Et. unfold rbuilds_in_bump. rewrite Et.
  destruct (collect_spec (b_from b) W (S t) t ltac:(lia)) as (l & E & Hl). rewrite E.
  exists (nodup Nat.eq_dec l). split; [reflexivity|]. split; [apply NoDup_nodup|].
  intros y. rewrite nodup_In. apply Hl.
Qed.

Lemma rbuilds_in_bump_none b : b_to b = None -> rbuilds_in_bump cg b = Some [].
Proof. intros E. unfold rbuilds_in_bump. rewrite E. reflexivity. Qed.

(* ------------------------------------------------------------------ *)
(* bump_set                                                             *)

(* the set the property wants: ancestors*(to) \ ancestors*(from) *)
Definition bump_spec (from : list nat) (t y : nat) : Prop :=
  anc t y /\ forall f, In f from -> ~ anc f y.

(* the from-builds cut the graph: no path from [t] into their ancestry by-passes them *)
Definition separates (from : list nat) (t : nat) : Prop :=
  forall f y, In f from -> anc f y -> ~ apath from t y.

(* always: everything the property wants is collected *)
Lemma bump_set_complete from t y : bump_spec from t y -> apath from t y.
Proof. intros [A N]. apply anc_apath; assumption. Qed.

(* nothing else is collected exactly when the from-builds separate *)
Lemma bump_set_sound_iff from t :
  (forall y, apath from t y -> bump_spec from t y) <-> separates from t.
Proof.
  split.
  - intros H f y Hf A P. destruct (H y P) as [_ N]. exact (N f Hf A).
  - intros S y P. split; [eapply apath_anc; eauto|]. intros f Hf A. exact (S f y Hf A P).
Qed.

(* a linear history (at most one parent build each) with from-builds that the new
   pin contains is separated *)
Definition linear : Prop := forall x, length (cparents cg x) <= 1.

Lemma linear_unique x p q : linear -> In p (cparents cg x) -> In q (cparents cg x) -> p = q.
Proof.
  intros L Hp Hq. specialize (L x). destruct (cparents cg x) as [|a [|b r]]; cbn in *; try lia; try contradiction.
Qed.

(* in a linear history two ancestors of the same build are comparable *)
Lemma linear_chain x f y : linear -> anc x f -> anc x y -> anc f y \/ anc y f.
Proof.
  intros L A. revert y. induction A as [x|x p f Hp A IH]; intros y B.
  - left. exact B.
  - inversion B; subst.
    + right. eapply anc_step; eauto.
    + assert (p = p0) by (eapply linear_unique; eauto). subst p0. apply IH. assumption.
Qed.

Lemma anc_le x y : wf -> anc x y -> y <= x.
Proof. intros W. induction 1 as [x|x p y Hp _ IH]; [lia|]. pose proof (W x p Hp). lia. Qed.

Lemma anc_antisym x y : wf -> anc x y -> anc y x -> x = y.
Proof. intros W A B. pose proof (anc_le _ _ W A). pose proof (anc_le _ _ W B). lia. Qed.

(* on a linear history every path from t to y goes through every f between them *)
Lemma linear_through from t f y : linear -> wf -> In f from -> anc t f -> anc f y -> ~ apath from t y.
Proof.
  intros L W Hf Atf Afy P. revert f Hf Atf Afy. induction P as [x Hx|x p y Hx Hp P IH]; intros f Hf Atf Afy.
  - assert (f = x) by (apply anc_antisym; assumption). subst. contradiction.
  - inversion Atf; subst; [contradiction|].
    assert (p = p0) by (eapply linear_unique; eauto). subst p0. eapply IH; eauto.
Qed.

Lemma linear_separates from t : linear -> wf -> (forall f, In f from -> anc t f) -> separates from t.
Proof. intros L W H f y Hf A. eapply linear_through; eauto. Qed.

End Graph.

(* the statement at full strength (false for the current code, see bump_set_refuted) *)
Definition bump_set_statement : Prop :=
  forall cg b t l, wf cg -> b_to b = Some t -> (forall f, In f (b_from b) -> anc cg t f) ->
    rbuilds_in_bump cg b = Some l -> forall y, In y l <-> bump_spec cg (b_from b) t y.

(* proved: under the guard that the from-builds separate (necessary and sufficient) *)
Lemma bump_set_guarded cg b t : wf cg -> b_to b = Some t ->
  exists l, rbuilds_in_bump cg b = Some l /\ NoDup l /\
    (forall y, bump_spec cg (b_from b) t y -> In y l) /\
    (separates cg (b_from b) t <-> forall y, In y l -> bump_spec cg (b_from b) t y).
Proof.
  intros W Et. destruct (rbuilds_in_bump_spec cg b t W Et) as (l & E & ND & Hl).
  exists l. split; [exact E|]. split; [exact ND|]. split.
  - intros y S. apply Hl. apply bump_set_complete. exact S.
  - rewrite <- bump_set_sound_iff. split; intros H y Hy; apply H; apply Hl; exact Hy.
Qed.

Lemma bump_set_linear cg b t : wf cg -> linear cg -> b_to b = Some t ->
  (forall f, In f (b_from b) -> anc cg t f) ->
  exists l, rbuilds_in_bump cg b = Some l /\ NoDup l /\ forall y, In y l <-> bump_spec cg (b_from b) t y.
Proof.
  intros W L Et Hf. destruct (bump_set_guarded cg b t W Et) as (l & E & ND & C & S).
  exists l. split; [exact E|]. split; [exact ND|]. intros y. split; [|apply C].
  apply S. apply linear_separates; assumption.
Qed.

(* the witness: component builds 0 <- {1, 2} <- 3 (1 || 2), pin moves from 2 to 3:
   build 0, an ancestor of the from-build 2, is collected through 1 *)
Definition w_cg : cgraph := [(0, []); (1, [0]); (2, [0]); (3, [1; 2])].
Definition w_bump : bump := mkB [(1, 1, 5)%Z] (1, 1, 7)%Z [2] (Some 3).

Lemma w_wf : wf w_cg.
Proof.
  intros x p. unfold cparents, w_cg.
  destruct x as [|[|[|[|x]]]]; cbn; intros H; repeat (destruct H as [<-|H]; [lia|]); destruct H.
Qed.

Lemma bump_set_refuted_l : ~ bump_set_statement.
Proof.
  intros S.
  assert (rbuilds_in_bump w_cg w_bump = Some [0; 1; 3]) as E by (vm_compute; reflexivity).
  assert (forall f, In f (b_from w_bump) -> anc w_cg 3 f) as Hf.
  { intros f [<-|[]]. eapply anc_step; [|apply anc_refl]. cbn. auto. }
  pose proof (proj1 (S w_cg w_bump 3 _ w_wf eq_refl Hf E 0) ltac:(cbn; auto)) as [_ N].
  apply (N 2); [left; reflexivity|]. eapply anc_step; [|apply anc_refl]. cbn. auto.
Qed.

(* ------------------------------------------------------------------ *)
(* included_first: a chain of reported parent builds                    *)

(* the bumps of the successive reported builds of a linear parent branch:
   each bump's from-build is the previous bump's to-build, and pins only grow *)
Inductive chain (cg : cgraph) : option nat -> list bump -> Prop :=
| ch_nil p : chain cg p []
| ch_first b t r : b_to b = Some t -> b_from b = [] -> chain cg (Some t) r -> chain cg None (b :: r)
| ch_next p b t r : b_to b = Some t -> b_from b = [p] -> anc cg t p -> chain cg (Some t) r ->
                    chain cg (Some p) (b :: r).

(* the pinned version of the i-th reported build contains component build y *)
Definition ships (cg : cgraph) (bs : list bump) (i y : nat) : Prop :=
  exists b t, nth_error bs i = Some b /\ b_to b = Some t /\ anc cg t y.

Lemma chain_inv_none cg b r : chain cg None (b :: r) ->
  exists t, b_to b = Some t /\ b_from b = [] /\ chain cg (Some t) r.
Proof. intros C. inversion C; subst. eauto. Qed.

Lemma chain_inv_some cg p b r : chain cg (Some p) (b :: r) ->
  exists t, b_to b = Some t /\ b_from b = [p] /\ anc cg t p /\ chain cg (Some t) r.
Proof. intros C. inversion C; subst. eauto. Qed.

Lemma chain_first cg (W : wf cg) (L : linear cg) : forall bs p, chain cg p bs ->
  forall i b, nth_error bs i = Some b ->
  exists l, rbuilds_in_bump cg b = Some l /\ NoDup l /\
    forall y, In y l <->
      (ships cg bs i y /\ (forall j, j < i -> ~ ships cg bs j y) /\ (forall q, p = Some q -> ~ anc cg q y)).
Proof.
  induction bs as [|b0 r IH]; intros p C i b Hb; [destruct i; discriminate|].
  destruct i as [|i].
  - cbn in Hb. injection Hb as <-. destruct p as [p|].
    + destruct (chain_inv_some _ _ _ _ C) as (t & H1 & H2 & H3 & H4).
      destruct (bump_set_linear cg b0 t W L H1) as (l & E & ND & Hl).
      { rewrite H2. intros f [<-|[]]. assumption. }
      exists l. split; [exact E|]. split; [exact ND|]. intros y. rewrite Hl. unfold bump_spec. rewrite H2. split.
      * intros [A N]. split; [exists b0, t; cbn; auto|]. split; [intros j Hj; lia|].
        intros q [= <-]. apply N. left. reflexivity.
      * intros ((b' & t' & E1 & E2 & E3) & _ & N). cbn in E1. injection E1 as <-. rewrite H1 in E2. injection E2 as <-.
        split; [exact E3|]. intros f [<-|[]]. apply N. reflexivity.
    + destruct (chain_inv_none _ _ _ C) as (t & H1 & H2 & H4).
      destruct (bump_set_linear cg b0 t W L H1) as (l & E & ND & Hl).
      { rewrite H2. intros f []. }
      exists l. split; [exact E|]. split; [exact ND|]. intros y. rewrite Hl. unfold bump_spec. rewrite H2. split.
      * intros [A _]. split; [exists b0, t; cbn; auto|]. split; [intros j Hj; lia|]. intros q [=].
      * intros ((b' & t' & E1 & E2 & E3) & _). cbn in E1. injection E1 as <-. rewrite H1 in E2. injection E2 as <-.
        split; [exact E3|]. intros f [].
  - cbn in Hb.
    assert (exists t, b_to b0 = Some t /\ chain cg (Some t) r /\ (forall q, p = Some q -> anc cg t q)) as (t & Et & Cr & Hq).
    { destruct p as [p|].
      - destruct (chain_inv_some _ _ _ _ C) as (t & H1 & H2 & H3 & H4). exists t. split; [exact H1|]. split; [exact H4|].
        intros q [= <-]. exact H3.
      - destruct (chain_inv_none _ _ _ C) as (t & H1 & H2 & H4). exists t. split; [exact H1|]. split; [exact H4|].
        intros q [=]. }
    destruct (IH (Some t) Cr i b Hb) as (l & E & ND & Hl).
    exists l. split; [exact E|]. split; [exact ND|]. intros y. rewrite Hl. split.
    + intros ((b' & t' & E1 & E2 & E3) & N1 & N2). split; [exists b', t'; cbn; auto|]. split.
      * intros [|j] Hj.
        -- intros (b'' & t'' & F1 & F2 & F3). cbn in F1. injection F1 as <-. rewrite Et in F2. injection F2 as <-.
           apply (N2 t eq_refl). exact F3.
        -- intros (b'' & t'' & F1 & F2 & F3). apply (N1 j); [lia|]. exists b'', t''. cbn in F1. auto.
      * intros q Hp A. apply (N2 t eq_refl). eapply anc_trans; [apply Hq; exact Hp|exact A].
    + intros ((b' & t' & E1 & E2 & E3) & N1 & N2). split; [exists b', t'; cbn in E1; auto|]. split.
      * intros j Hj (b'' & t'' & F1 & F2 & F3). apply (N1 (S j)); [lia|]. exists b'', t''. cbn. auto.
      * intros q [= <-] A. apply (N1 0); [lia|]. exists b0, t. cbn. auto.
Qed.

(* ------------------------------------------------------------------ *)
(* the registration loop over one branch                                *)

Definition reg_step (ci : cinfo) (br : nat) (acc : option (list (nat * (nat * bn)))) (p : Z * rbuild) :=
  let rb := snd p in
  if bn_eqb (rb_bn rb) fake_not_merged then acc
  else match rb_bump rb with
       | None => acc
       | Some b => match acc, rbuilds_in_bump (ci_graph ci) b with
                   | Some a, Some l => Some (a ++ map (fun x => (x, (br, rb_bn rb))) l)
                   | _, _ => None
                   end
       end.

Lemma registrations_one ci br rbs :
  registrations ci [(br, rbs)] = fold_left (reg_step ci br) rbs (Some []).
Proof. reflexivity. Qed.

(* a registration is produced by some rbuild of the branch, from its own bump *)
Lemma reg_fold ci br rbs : forall a regs,
  fold_left (reg_step ci br) rbs (Some a) = Some regs ->
  forall y k, In (y, (br, k)) regs <->
    In (y, (br, k)) a \/
    exists p b l, In p rbs /\ rb_bn (snd p) = k /\ bn_eqb k fake_not_merged = false /\
                  rb_bump (snd p) = Some b /\ rbuilds_in_bump (ci_graph ci) b = Some l /\ In y l.
Proof.
  induction rbs as [|p r IH]; intros a regs H y k; cbn [fold_left] in H.
  - injection H as <-. split; [auto|]. intros [Hy|(p & b & l & [] & _)]. exact Hy.
  - unfold reg_step at 2 in H.
    destruct (bn_eqb (rb_bn (snd p)) fake_not_merged) eqn:F.
    + rewrite (IH _ _ H). split.
      * intros [Hy|(q & b & l & Hq & R)]; [left; exact Hy|]. right. exists q, b, l. split; [right; exact Hq|exact R].
      * intros [Hy|(q & b & l & [<-|Hq] & E1 & E2 & R)]; [left; exact Hy| |].
        -- subst k. congruence.
        -- right. exists q, b, l. tauto.
    + destruct (rb_bump (snd p)) as [b|] eqn:B.
      * destruct (rbuilds_in_bump (ci_graph ci) b) as [l|] eqn:R.
        -- rewrite (IH _ _ H), in_app_iff, in_map_iff. split.
           ++ intros [[Hy|(x & E & Hx)]|(q & b' & l' & Hq & R')].
              ** left. exact Hy.
              ** injection E as -> <-. right. exists p, b, l. split; [left; reflexivity|]. tauto.
              ** right. exists q, b', l'. split; [right; exact Hq|exact R'].
           ++ intros [Hy|(q & b' & l' & [<-|Hq] & E1 & E2 & E3 & E4 & E5)].
              ** left. left. exact Hy.
              ** left. right. rewrite B in E3. injection E3 as <-. rewrite R in E4. injection E4 as <-.
                 exists y. split; [rewrite E1; reflexivity|exact E5].
              ** right. exists q, b', l'. tauto.
        -- exfalso. clear -H. induction r as [|q r IH]; cbn in H; [discriminate|]. apply IH.
           unfold reg_step at 2 in H. destruct (bn_eqb _ _); [exact H|]. destruct (rb_bump (snd q)); exact H.
      * rewrite (IH _ _ H). split.
        -- intros [Hy|(q & b & l & Hq & R)]; [left; exact Hy|]. right. exists q, b, l. split; [right; exact Hq|exact R].
        -- intros [Hy|(q & b & l & [<-|Hq] & E1 & E2 & E3 & R)]; [left; exact Hy|congruence|].
           right. exists q, b, l. tauto.
Qed.

(* ------------------------------------------------------------------ *)
(* bump_reported                                                        *)

Lemma zfind_zput {V} k (v : V) m : zfind k (zput k v m) = Some v.
Proof.
  induction m as [|[k' v'] r IH]; cbn [zput].
  - unfold zfind. cbn. rewrite Z.eqb_refl. reflexivity.
  - destruct (Z.eqb k k') eqn:E.
    + unfold zfind. cbn. rewrite Z.eqb_refl. reflexivity.
    + destruct (Z.ltb k k') eqn:L.
      * unfold zfind. cbn. rewrite Z.eqb_refl. reflexivity.
      * unfold zfind in *. cbn. rewrite Z.eqb_sym, E. exact IH.
Qed.

Lemma set_err_cnt e g : g_cnt (set_err e g) = g_cnt g.
Proof. reflexivity. Qed.

Lemma find_new_cnt g heads : g_cnt (snd (find_new g heads)) = g_cnt g.
Proof.
  unfold find_new.
  destruct (fold_left _ (rev heads) (g_bpar g, [], false)) as [[bp nw] h].
  cbn [snd]. destruct h; reflexivity.
Qed.

(* _mk_rcommits: a build commit (or the branch head) whose bump of the component is
   not trivial becomes an RBuild carrying that bump, whatever else holds -- in
   particular without any matching commit of its own or below it *)
Lemma bump_reported_l ci head c cm g :
  (nonempty (c_tags cm) || (c =? head)) = true ->
  forall nw prb g1 b,
    find_new g (rc_parents_of g (c_parents cm)) = (nw, prb, g1) ->
    mk_bump ci g1 cm prb = Some b -> is_trivial b = false ->
    exists rb, zfind (g_cnt g) (g_cur (finalise ci head c cm g)) = Some rb /\
               rb_bump rb = Some b /\ rb_type rb = 0%Z /\ rb_parents rb = prb /\
               nfind c (g_selected (finalise ci head c cm g)) = Some (g_cnt g).
Proof.
  intros Hb nw prb g1 b EF EB ET.
  assert (nonempty (ci_bnmap ci) = true) as Hrel.
  { unfold mk_bump in EB. destruct (nonempty (ci_bnmap ci)); [reflexivity|discriminate]. }
  assert (g_cnt g1 = g_cnt g) as Hc.
  { pose proof (find_new_cnt g (rc_parents_of g (c_parents cm))) as H. rewrite EF in H. exact H. }
  unfold finalise. rewrite Hrel, Hb, EF, EB, ET.
  replace (negb (c_expl cm || true || nonempty (rc_parents_of g (c_parents cm)))) with false
    by (rewrite orb_true_r; reflexivity).
  cbn [negb]. rewrite !orb_true_r. cbn [orb].
  replace (c_expl cm || true) with true by (rewrite orb_true_r; reflexivity).
  cbn iota. rewrite Hc.
  eexists. cbn [g_cur g_selected]. split; [apply zfind_zput|]. cbn [rb_bump rb_type rb_parents].
  repeat split. unfold nfind. cbn [find fst snd]. rewrite Nat.eqb_refl. reflexivity.
Qed.

(* ------------------------------------------------------------------ *)
(* included_first on one linear parent branch                           *)

Lemma NoDup_map_inj {A B} (f : A -> B) l a b :
  NoDup (map f l) -> In a l -> In b l -> f a = f b -> a = b.
Proof.
  induction l as [|x r IH]; intros ND Ha Hb E; [destruct Ha|].
  cbn [map] in ND. apply NoDup_cons_iff in ND as [N ND].
  destruct Ha as [<-|Ha], Hb as [<-|Hb]; auto.
  - exfalso. apply N. rewrite E. apply in_map. exact Hb.
  - exfalso. apply N. rewrite <- E. apply in_map. exact Ha.
Qed.

Lemma included_first_l ci br rbs bs regs :
  wf (ci_graph ci) -> linear (ci_graph ci) ->
  map (fun p => rb_bump (snd p)) rbs = map Some bs ->
  (forall p, In p rbs -> bn_eqb (rb_bn (snd p)) fake_not_merged = false) ->
  NoDup (map (fun p => rb_bn (snd p)) rbs) ->
  chain (ci_graph ci) None bs ->
  registrations ci [(br, rbs)] = Some regs ->
  forall i p y, nth_error rbs i = Some p ->
    (In (y, (br, rb_bn (snd p))) regs <->
     ships (ci_graph ci) bs i y /\ forall j, j < i -> ~ ships (ci_graph ci) bs j y).
Proof.
  intros W L HB HF ND C R i p y Hp.
  rewrite registrations_one in R. rewrite (reg_fold _ _ _ _ _ R).
  assert (In p rbs) as Hin by (eapply nth_error_In; eauto).
  assert (exists b, nth_error bs i = Some b /\ rb_bump (snd p) = Some b) as (b & Hb & Hpb).
  { pose proof (map_nth_error (fun p => rb_bump (snd p)) _ _ Hp) as H. rewrite HB in H.
    destruct (nth_error bs i) as [b|] eqn:E.
    - rewrite (map_nth_error _ _ _ E) in H. injection H as H. eauto.
    - apply nth_error_None in E. assert (nth_error (map Some bs) i = None) as X by (apply nth_error_None; rewrite map_length; exact E).
      congruence. }
  destruct (chain_first _ W L _ _ C i b Hb) as (l & El & _ & Hl).
  split.
  - intros [[]|(q & b' & l' & Hq & E1 & _ & E3 & E4 & E5)].
    assert (q = p) by (eapply (NoDup_map_inj (fun p => rb_bn (snd p))); eauto). subst q.
    rewrite Hpb in E3. injection E3 as <-. rewrite El in E4. injection E4 as <-.
    apply Hl in E5. tauto.
  - intros [S N]. right. exists p, b, l. split; [exact Hin|]. split; [reflexivity|]. split; [apply HF; exact Hin|].
    split; [exact Hpb|]. split; [exact El|]. apply Hl. split; [exact S|]. split; [exact N|]. intros q [=].
Qed.

(* ------------------------------------------------------------------ *)
(* the full statement about a report, and its refutation                 *)

(* rb' is a proper ancestor build of rb within one branch of the parent *)
Inductive panc (rbs : list (Z * rbuild)) : Z -> Z -> Prop :=
| panc1 i rb j : In (i, rb) rbs -> In j (rb_parents rb) -> panc rbs i j
| pancS i rb j k : In (i, rb) rbs -> In j (rb_parents rb) -> panc rbs j k -> panc rbs i k.

Definition included_at (r : report) (y : nat) : list (nat * bn) :=
  match nfind y (r_included r) with Some l => l | None => [] end.

(* every bump's from-builds are contained in its to-build (pins never decrease) *)
Definition pins_grow (cg : cgraph) (r : report) : Prop :=
  forall br rbs i rb b t f, In (br, rbs) (r_branches r) -> In (i, rb) rbs -> rb_bump rb = Some b ->
    b_to b = Some t -> In f (b_from b) -> anc cg t f.

(* component build y is recorded at the reported parent build rb exactly when rb's pin
   contains y and no ancestor build of rb in that branch has a pin containing y *)
Definition included_first_statement : Prop :=
  forall ci commits heads r, wf (ci_graph ci) -> parent_report ci commits heads = Ok r ->
    pins_grow (ci_graph ci) r ->
    forall br rbs i rb b t y, In (br, rbs) (r_branches r) -> In (i, rb) rbs -> rb_type rb = 0%Z ->
      rb_bump rb = Some b -> b_to b = Some t ->
      (In (br, rb_bn rb) (included_at r y) <->
       anc (ci_graph ci) t y /\
       forall j rb' b' t', panc rbs i j -> In (j, rb') rbs -> rb_bump rb' = Some b' -> b_to b' = Some t' ->
                           ~ anc (ci_graph ci) t' y).

(* the witness of DESIGN.md section 7: component builds 1.1.4 <- {1.1.5, 1.1.6} <- 1.1.7
   (RBuild iids 0, 2, 1, 3), parent builds 5.1.1 / 5.1.2 / 5.1.3 pin 1.1.1 / 1.1.5 / 1.1.7 *)
Definition w_ci : cinfo :=
  mkCI [(0, ((1, 1, 4)%Z, [])); (1, ((1, 1, 6)%Z, [0])); (2, ((1, 1, 5)%Z, [0])); (3, ((1, 1, 7)%Z, [1; 2]))]
       [((1, 1, 4)%Z, (0, 0)); ((1, 1, 6)%Z, (0, 1)); ((1, 1, 5)%Z, (0, 2)); ((1, 1, 7)%Z, (0, 3))]
       [[0; 1; 2; 3]].
Definition w_commits : list commit :=
  [mkC [] false [(5, 1, 1)%Z] (Some (1, 1, 1)%Z);
   mkC [0] false [(5, 1, 2)%Z] (Some (1, 1, 5)%Z);
   mkC [1] false [(5, 1, 3)%Z] (Some (1, 1, 7)%Z)].
Definition w_heads : list (nat * nat) := [(0, 2)].

Lemma w_ci_wf : wf (ci_graph w_ci).
Proof. exact w_wf. Qed.

Lemma w_included :
  exists r, parent_report w_ci w_commits w_heads = Ok r /\
            included_at r 0 = [(0, (5, 1, 2)%Z); (0, (5, 1, 3)%Z)].
Proof. eexists. split; vm_compute; reflexivity. Qed.

Lemma included_first_refuted_l : ~ included_first_statement.
Proof.
  intros S.
  destruct (parent_report w_ci w_commits w_heads) as [r|e] eqn:E; [|vm_compute in E; discriminate].
  specialize (S w_ci w_commits w_heads r w_ci_wf E).
  vm_compute in E. injection E as <-.
  match type of S with pins_grow _ ?r -> _ => set (R := r) in * end.
  assert (pins_grow (ci_graph w_ci) R) as PG.
  { intros br rbs i rb b t f Hbr. destruct Hbr as [Hbr|[]]. injection Hbr as <- <-.
    intros [H|[H|[]]]; injection H as <- <-; cbn; intros [= <-] [= <-]; cbn; [intros []|].
    intros [<-|[]]. eapply anc_step; [|apply anc_refl]. cbn. auto. }
  specialize (S PG).
  (* the third parent build (iid 1, pin -> component RBuild 3) records component build 0 ... *)
  pose proof (S 0 _ 1%Z _ _ 3 0 (or_introl eq_refl) (or_intror (or_introl eq_refl)) eq_refl eq_refl eq_refl) as [H _].
  destruct H as [_ N]; [cbn; auto|].
  (* ... although its ancestor build (iid 0) pins component RBuild 2, which contains it *)
  eapply (N 0%Z _ _ 2).
  - eapply panc1; [right; left; reflexivity|]. cbn. auto.
  - left. reflexivity.
  - reflexivity.
  - reflexivity.
  - eapply anc_step; [|apply anc_refl]. cbn. auto.
Qed.

(* ------------------------------------------------------------------ *)
(* never missing: what the property wants recorded at a build IS recorded,
   for every shape of parent and component history                      *)

Lemma reg_fold_none ci br rbs : fold_left (reg_step ci br) rbs None = None.
Proof.
  induction rbs as [|q r IH]; [reflexivity|]. cbn [fold_left].
  assert (reg_step ci br None q = None) as ->; [|exact IH].
  unfold reg_step. destruct (bn_eqb _ _); [reflexivity|]. destruct (rb_bump (snd q)); reflexivity.
Qed.

Lemma reg_fold_keeps ci br rbs : forall a regs,
  fold_left (reg_step ci br) rbs (Some a) = Some regs -> forall x, In x a -> In x regs.
Proof.
  induction rbs as [|p r IH]; intros a regs H x Hx; cbn [fold_left] in H.
  - injection H as <-. exact Hx.
  - destruct (reg_step ci br (Some a) p) as [a'|] eqn:E; [|rewrite reg_fold_none in H; discriminate].
    apply (IH _ _ H). unfold reg_step in E.
    destruct (bn_eqb _ _); [injection E as <-; exact Hx|].
    destruct (rb_bump (snd p)); [|injection E as <-; exact Hx].
    destruct (rbuilds_in_bump _ _); [|discriminate]. injection E as <-. apply in_or_app. left. exact Hx.
Qed.

Definition reg_branches (ci : cinfo) (branches : list (nat * list (Z * rbuild))) acc :=
  fold_left (fun acc br => fold_left (reg_step ci (fst br)) (snd br) acc) branches acc.

Lemma registrations_unfold ci branches : registrations ci branches = reg_branches ci branches (Some []).
Proof. reflexivity. Qed.

Lemma reg_branches_none ci branches : reg_branches ci branches None = None.
Proof.
  induction branches as [|b r IH]; [reflexivity|]. unfold reg_branches in *. cbn [fold_left].
  rewrite reg_fold_none. exact IH.
Qed.

Lemma reg_branches_keeps ci branches : forall a regs,
  reg_branches ci branches (Some a) = Some regs -> forall x, In x a -> In x regs.
Proof.
  induction branches as [|b r IH]; intros a regs H x Hx; unfold reg_branches in *; cbn [fold_left] in H.
  - injection H as <-. exact Hx.
  - destruct (fold_left (reg_step ci (fst b)) (snd b) (Some a)) as [a'|] eqn:E.
    + apply (IH _ _ H). eapply reg_fold_keeps; eauto.
    + change (reg_branches ci r None = Some regs) in H. rewrite reg_branches_none in H. discriminate.
Qed.

Lemma never_missing_l ci branches regs : wf (ci_graph ci) ->
  registrations ci branches = Some regs ->
  forall br rbs p b t y, In (br, rbs) branches -> In p rbs ->
    bn_eqb (rb_bn (snd p)) fake_not_merged = false -> rb_bump (snd p) = Some b -> b_to b = Some t ->
    bump_spec (ci_graph ci) (b_from b) t y -> In (y, (br, rb_bn (snd p))) regs.
Proof.
  intros W R br rbs p b t y Hbr Hp HF HB HT HS. rewrite registrations_unfold in R.
  revert R. generalize (@nil (nat * (nat * bn))). induction branches as [|b0 r IH]; intros a R; [destruct Hbr|].
  unfold reg_branches in R. cbn [fold_left] in R.
  destruct (fold_left (reg_step ci (fst b0)) (snd b0) (Some a)) as [a'|] eqn:E;
    [|change (reg_branches ci r None = Some regs) in R; rewrite reg_branches_none in R; discriminate].
  destruct Hbr as [->|Hbr].
  - cbn [fst snd] in E. eapply reg_branches_keeps; [exact R|].
    apply (reg_fold _ _ _ _ _ E). right.
    destruct (rbuilds_in_bump_spec _ b t W HT) as (l & El & _ & Hl).
    exists p, b, l. split; [exact Hp|]. split; [reflexivity|]. split; [exact HF|]. split; [exact HB|]. split; [exact El|].
    apply Hl. apply bump_set_complete. exact HS.
  - eapply IH; eauto.
Qed.

(* ------------------------------------------------------------------ *)
(* _mk_bumps_info: where a bump starts from                              *)

Lemma nadd_In x y l : In x (nadd y l) <-> x = y \/ In x l.
Proof.
  induction l as [|z r IH]; cbn [nadd]; [cbn; intuition|].
  destruct (y =? z) eqn:E; [apply Nat.eqb_eq in E; subst; cbn; intuition|].
  destruct (y <? z); cbn [In]; [intuition|]. rewrite IH. intuition.
Qed.

Lemma nunion_In x a b : In x (nunion a b) <-> In x a \/ In x b.
Proof.
  unfold nunion. revert b. induction a as [|y r IH]; intros b; cbn [fold_left]; [cbn; intuition|].
  rewrite IH, nadd_In. cbn [In]. intuition.
Qed.

(* the from-builds of a new bump are the to-builds of the parent builds' bumps
   (or, for a parent whose pin resolved to nothing, what that parent started from) *)
Lemma bump_from_l ci g cm prb b : mk_bump ci g cm prb = Some b ->
  forall f, In f (b_from b) <->
    exists p rb pb, In p prb /\ get_rb g p = Some rb /\ rb_bump rb = Some pb /\
                    (b_to pb = Some f \/ (b_to pb = None /\ In f (b_from pb))).
Proof.
  unfold mk_bump. destruct (nonempty (ci_bnmap ci)); [|discriminate].
  destruct (c_pin cm) as [pin|]; [|discriminate].
  set (step := fun (acc : list bn * list nat) (p : Z) => _).
  assert (forall l acc f, In f (snd (fold_left step l acc)) <->
            In f (snd acc) \/ exists p rb pb, In p l /\ get_rb g p = Some rb /\ rb_bump rb = Some pb /\
                    (b_to pb = Some f \/ (b_to pb = None /\ In f (b_from pb)))) as K.
  { induction l as [|p r IH]; intros acc f; cbn [fold_left].
    - split; [auto|]. intros [H|(p & rb & pb & [] & _)]. exact H.
    - rewrite IH. unfold step. split.
      + intros [H|(q & rb & pb & Hq & R)].
        * destruct (get_rb g p) as [rb|] eqn:E1; [|left; exact H].
          destruct (rb_bump rb) as [pb|] eqn:E2; [|left; exact H]. cbn [snd] in H.
          destruct (b_to pb) as [t|] eqn:E3.
          -- apply nadd_In in H as [->|H]; [|left; exact H]. right. exists p, rb, pb. intuition.
          -- apply nunion_In in H as [H|H]; [left; exact H|]. right. exists p, rb, pb. intuition.
        * right. exists q, rb, pb. intuition.
      + intros [H|(q & rb & pb & [<-|Hq] & E1 & E2 & E3)].
        * left. destruct (get_rb g p) as [rb|]; [|exact H]. destruct (rb_bump rb) as [pb|]; [|exact H]. cbn [snd].
          destruct (b_to pb); [apply nadd_In; right; exact H|apply nunion_In; left; exact H].
        * left. rewrite E1, E2. cbn [snd]. destruct E3 as [E3|[E3 E4]]; rewrite E3.
          -- apply nadd_In. left. reflexivity.
          -- apply nunion_In. right. exact E4.
        * right. exists q, rb, pb. intuition. }
  destruct (fold_left step prb ([], [])) as [fbns frbs] eqn:EF.
  intros [= <-]. cbn [b_from]. intros f. specialize (K prb ([], []) f). rewrite EF in K. cbn [snd] in K.
  rewrite K. split; [intros [[]|H]; exact H|intros H; right; exact H].
Qed.
