"""bin/check <ID> quick|thorough   |   bin/check <ID> --replay <file>

Decision procedure of DESIGN.md section 2 (steps A-D) for one property.
"""
import collections
import importlib
import json
import os
import random
import sys
import time
import traceback

from harness.lib import coqrun, implrun, sx as SX

VERIF = coqrun.VERIF
KNOWN_FILE = os.path.join(VERIF, "KNOWN_FINDINGS.json")

GLOBAL_TRUSTED = [
    "Coq 8.16.1 kernel / coqc, including vm_compute (no native_compute)",
    "hand-written Gallina model of the anchored code, tied to /repo by the per-run correspondence check (harness/props/<id>.py, harness/lib/*.py) and by constants regenerated from the source with a fail-closed ast extractor",
    "Python harness: generators, canonicalisation, serialisation of cases to Coq terms, parsing of coqc output",
]


def log(*a):
    print(*a, flush=True)


def load_known(pid):
    try:
        data = json.load(open(KNOWN_FILE))
    except FileNotFoundError:
        return {}, []
    open_ = {}
    fixed = []
    for e in data.get("findings", []):
        if e.get("property") != pid:
            continue
        if e.get("status") == "open":
            open_[e["signature"]] = e
        else:
            fixed.append(e)
    return open_, fixed


def load_corpus(pid):
    d = os.path.join(VERIF, "corpus", pid)
    cases = []
    if os.path.isdir(d):
        for fn in sorted(os.listdir(d)):
            if fn.endswith(".json"):
                data = json.load(open(os.path.join(d, fn)))
                items = data if isinstance(data, list) else [data]
                for it in items:
                    c = it.get("case", it) if isinstance(it, dict) else it
                    cases.append(c)
    return cases


def write_replay(pid, name, payload):
    d = os.path.join(VERIF, "replays")
    os.makedirs(d, exist_ok=True)
    path = os.path.join(d, f"{pid}_{name}.json")
    payload = dict(payload)
    payload["property"] = pid
    with open(path, "w") as f:
        json.dump(payload, f, indent=1, sort_keys=True)
    return path


def step_proof(mod, ev):
    """A: regenerate constants, build, check Props files. -> (proof_ok, model_ok, broken[list of str])"""
    broken = []
    model_ok = True
    # constants from the current source (fail closed)
    try:
        gens = mod.gen_consts(implrun.REPO) if hasattr(mod, "gen_consts") else {}
        with coqrun.Lock():
            for name, text in (gens or {}).items():
                coqrun.write_gen(name, text)
    except Exception as e:  # extractor does not recognise the source shape
        broken.append(f"constant extractor failed on the current source: {type(e).__name__}: {e}")
        ev["extractor_error"] = traceback.format_exc()[-1500:]
        gens = None
    ok_m, log_m = coqrun.make(mod.MODEL_TARGETS)
    if not ok_m:
        model_ok = False
        broken.append("model does not build: " + _first_error(log_m))
    ok_p, log_p = coqrun.make(getattr(mod, "PROOF_TARGETS", []) or mod.MODEL_TARGETS)
    if not ok_p:
        broken.append("proof obligation no longer checks: " + _first_error(log_p))
    obligations = 0
    discharged = 0
    assumptions = {}
    allowed = set(getattr(mod, "ALLOWED_AXIOMS", []))
    thm_names = []
    for props in mod.PROPS:
        r = coqrun.check_props(props)
        n = len(r["printed"])
        obligations += n
        thm_names += r["printed"]
        if not r["ok"]:
            broken.append(f"{props} does not check: " + _first_error(r["log"]))
            continue
        for name in r["printed"]:
            a = r["assumptions"].get(name)
            assumptions[name] = a
            if a == "closed" or (isinstance(a, list) and set(a) <= allowed):
                discharged += 1
            else:
                broken.append(f"theorem {name} depends on unexpected axioms {a}")
        unprinted = [t for t in r["theorems"] if t not in r["printed"]]
        if unprinted:
            broken.append(f"{props}: theorems without Print Assumptions: {unprinted}")
    hits = coqrun.grep_forbidden([mod.COQ_DIR, "Common", "gen"] + list(getattr(mod, "EXTRA_COQ_DIRS", [])))
    if hits:
        broken.append("forbidden vernacular: " + "; ".join(hits[:5]))
    if obligations == 0:
        broken.append("no property theorem is stated in " + ", ".join(mod.PROPS))
    ev["obligations"] = obligations
    ev["discharged"] = discharged
    ev["theorems"] = thm_names
    ev["print_assumptions"] = assumptions
    return (not broken), model_ok, broken


def _first_error(text):
    lines = text.split("\n")
    for i, l in enumerate(lines):
        if l.startswith("Error") or "Error:" in l:
            return " | ".join(x.strip() for x in lines[max(0, i - 2): i + 4])[:600]
    return " | ".join(x.strip() for x in lines[-6:])[:600]


def run_batch(mod, cases, ev, model_ok, label):
    """B + C on a batch of cases. -> (failures, disagreements, stats)"""
    obs = implrun.run_cases(mod.MODNAME, cases, timeout=getattr(mod, "IMPL_TIMEOUT", 5.0))
    crashes = [(c, o) for c, o in zip(cases, obs) if isinstance(o, dict) and "__crash__" in o]
    if crashes:
        raise RuntimeError("harness error in impl_run: " + crashes[0][1]["__crash__"] + "\ncase: " + json.dumps(crashes[0][0])[:500])
    failures = []
    for i, (c, o) in enumerate(zip(cases, obs)):
        for sig, msg in mod.oracle(c, o):
            failures.append({"index": i, "sig": sig, "msg": msg, "case": c, "obs": o})
    disagreements = []
    model_errors = []
    compared = 0
    if model_ok:
        idxs = [i for i, (c, o) in enumerate(zip(cases, obs)) if mod.in_model(c, o)] if hasattr(mod, "in_model") else list(range(len(cases)))
        terms = [mod.coq_case(cases[i], obs[i]) for i in idxs]
        lines, errs = coqrun.eval_cases(mod.RUN_MOD, terms, shard=getattr(mod, "COQ_SHARD", 300),
                                        prelude=getattr(mod, "COQ_PRELUDE", ""))
        for (a, b, txt) in errs:
            model_errors.append(f"model evaluation failed for {label} cases {a}..{b}: " + _first_error(txt))
        for k, i in enumerate(idxs):
            if lines[k] is None:
                continue
            compared += 1
            exp = mod.expected_sx(cases[i], obs[i])
            if lines[k].strip() != exp.strip():
                disagreements.append({"index": i, "case": cases[i], "impl": exp, "model": lines[k].strip(), "obs": obs[i]})
    return obs, failures, disagreements, model_errors, compared


def main(argv):
    t0 = time.time()
    pid = argv[0].upper()
    mod = importlib.import_module("harness.props." + pid.lower())
    mod.MODNAME = pid.lower()
    if len(argv) >= 3 and argv[1] == "--replay":
        return replay(mod, pid, argv[2])
    tier = argv[1] if len(argv) > 1 else "quick"
    if os.environ.get("VERIF_TIER") in ("quick", "thorough"):
        tier = os.environ["VERIF_TIER"]
    seed = int(os.environ.get("VERIF_SEED", "0") or 0)
    rng = random.Random(seed * 1000003 + 17)
    known_open, known_fixed = load_known(pid)
    ev = {}
    try:
        rc = decide(mod, pid, tier, seed, rng, known_open, ev, t0)
    finally:
        coqrun.cleanup()
    return rc


def step_coqchk(mod, ev, broken):
    """thorough tier: the independent checker re-checks the compiled Props module and all it depends on"""
    allowed = set(getattr(mod, "ALLOWED_AXIOMS", []))
    res = {}
    for props in mod.PROPS:
        r = coqrun.coqchk(props)
        res[props] = {"ok": r["ok"], "axioms": r["axioms"], "seconds": r["seconds"]}
        if not r["ok"]:
            broken.append(f"coqchk does not accept {props}: " + _first_error(r["log"]))
        elif r["axioms"] and not set(a.split(":")[0].strip() for a in r["axioms"]) <= allowed:
            broken.append(f"coqchk -o lists axioms for {props}: {r['axioms'][:5]}")
    ev["coqchk"] = res
    return res


def decide(mod, pid, tier, seed, rng, known_open, ev, t0):
    proof_ok, model_ok, broken = step_proof(mod, ev)
    if tier == "thorough" and proof_ok and os.environ.get("VERIF_NO_COQCHK") != "1":
        step_coqchk(mod, ev, broken)
        proof_ok = not broken
    log(f"[{pid}] A proof: {'ok' if proof_ok else 'BROKEN'} obligations={ev['obligations']} discharged={ev['discharged']}")
    for b in broken:
        log(f"[{pid}]   broken: {b}")

    corpus = load_corpus(pid)
    gen = mod.gen_cases(rng, tier)
    cases = corpus + gen
    obs, failures, disagreements, model_errors, compared = run_batch(mod, cases, ev, model_ok, "main")
    corr_ok = model_ok and not disagreements and not model_errors
    log(f"[{pid}] B correspondence: {len(cases)} cases ({len(corpus)} corpus), compared={compared}, disagreements={len(disagreements)}, model_errors={len(model_errors)}")
    for d in disagreements[:5]:
        log(f"[{pid}]   disagreement on case {json.dumps(d['case'])[:300]}\n        impl : {d['impl'][:300]}\n        model: {d['model'][:300]}")
    for m in model_errors[:3]:
        log(f"[{pid}]   {m}")
    log(f"[{pid}] C oracle failures: {len(failures)}")

    # statistics
    kinds = collections.Counter(mod.kind(c) for c in cases) if hasattr(mod, "kind") else {}
    seen = set()
    nontrivial = 0
    errkinds = collections.Counter()
    for c, o in zip(cases, obs):
        key = json.dumps(c, sort_keys=True)
        if key in seen:
            continue
        seen.add(key)
        if mod.nontrivial(c, o):
            nontrivial += 1
        if hasattr(mod, "outcome"):
            errkinds[mod.outcome(c, o)] += 1

    all_failures = list(failures)
    searched = 0
    if (not proof_ok or not corr_ok) and not [f for f in failures if f["sig"] not in known_open]:
        # search for a concrete failing input (differential testing, never the decision)
        extra = []
        for d in disagreements:
            extra.append(d["case"])
        if hasattr(mod, "search_cases"):
            extra += mod.search_cases(rng, tier)
        else:
            extra += mod.gen_cases(random.Random(seed + 99991), "thorough")
        searched = len(extra)
        if extra:
            _, f2, _, _, _ = run_batch(mod, extra, ev, False, "search")
            all_failures += f2
        log(f"[{pid}] search: {searched} extra cases, oracle failures={len(all_failures) - len(failures)}")

    unknown = [f for f in all_failures if f["sig"] not in known_open]
    known_seen = sorted({f["sig"] for f in all_failures if f["sig"] in known_open})
    violations = 0
    rc = 0
    lines = []
    if unknown:
        by_sig = collections.OrderedDict()
        for f in unknown:
            by_sig.setdefault(f["sig"], f)
        for sig, f in by_sig.items():
            f = shrink_failure(mod, f)
            path = write_replay(pid, f"{sig}_seed{seed}", {"kind": "failing-input", "signature": sig,
                                "case": f["case"], "obs": f["obs"], "message": f["msg"], "seed": seed})
            lines.append(f"VIOLATION property={pid} replay={path}")
            log(f"[{pid}] failing input ({sig}): {f['msg'][:400]}")
            violations += 1
        rc = 1
    elif not proof_ok or not corr_ok:
        what = broken + [f"correspondence: model and implementation differ on {len(disagreements)} case(s)"] * bool(disagreements) + model_errors
        path = write_replay(pid, f"unproved_seed{seed}", {"kind": "broken-obligation", "broken": what,
                            "disagreements": disagreements[:5], "searched_cases": searched, "seed": seed})
        lines.append(f"VIOLATION property={pid} replay={path} no-failing-input-found")
        violations = 1
        rc = 1
    for sig in known_seen:
        log(f"KNOWN-FINDING: property={pid} {known_open[sig]['what']}")
    write_evidence(mod, pid, tier, seed, ev, cases, obs, kinds, errkinds, nontrivial, compared,
                   len(disagreements), violations, known_seen, time.time() - t0, searched, broken)
    for l in lines:
        log(l)
    if rc == 0:
        log(f"[{pid}] OK ({tier}, seed {seed}, {time.time() - t0:.1f}s)")
    return rc


def shrink_failure(mod, f):
    if not hasattr(mod, "shrink_candidates"):
        return f
    sig = f["sig"]
    cur = f
    budget = 200
    improved = True
    while improved and budget > 0:
        improved = False
        cands = list(mod.shrink_candidates(cur["case"]))[:40]
        if not cands:
            break
        budget -= len(cands)
        obs = implrun.run_cases(mod.MODNAME, cands, timeout=getattr(mod, "IMPL_TIMEOUT", 5.0))
        for c, o in zip(cands, obs):
            if isinstance(o, dict) and "__crash__" in o:
                continue
            try:
                fs = [x for x in mod.oracle(c, o) if x[0] == sig]
            except Exception:  # a shrink candidate may be an ill-formed case: skip it
                continue
            if fs:
                cur = {"sig": sig, "msg": fs[0][1], "case": c, "obs": o}
                improved = True
                break
    return cur


def _clip(x, limit=2500):
    """a sample is written out in full unless its JSON text is very long (then: its first part, as text)"""
    t = json.dumps(x, sort_keys=True, default=str)
    return x if len(t) <= limit else t[:limit] + f" ... [{len(t)} characters in all]"


def write_evidence(mod, pid, tier, seed, ev, cases, obs, kinds, errkinds, nontrivial, compared,
                   ndis, violations, known_seen, wall, searched, broken):
    samples = []
    step = max(1, len(cases) // 4)
    for i in range(0, len(cases), step):
        samples.append({"case": _clip(cases[i]), "observation": _clip(obs[i])})
        if len(samples) >= 4:
            break
    cov = {
        "obligations": ev.get("obligations", 0),
        "discharged": ev.get("discharged", 0),
        "checker_cmd": f"cd /verif && bin/check {pid} {tier}   (make -f Makefile.coq <targets of {pid}> ; coqc on {', '.join(mod.PROPS)} with Print Assumptions)",
        "trusted_base": GLOBAL_TRUSTED + list(getattr(mod, "TRUSTED_BASE", [])),
        "theorems": ev.get("theorems", []),
        "print_assumptions": ev.get("print_assumptions", {}),
        "coqchk": ev.get("coqchk", "not run in the quick tier (thorough: coqchk -silent -o on the Props module)"),
        "broken": broken,
        "evaluations": len(cases),
        "distinct_nontrivial": nontrivial,
        "rule": mod.RULE,
        "samples": samples,
        "model_vs_impl_compared": compared,
        "disagreements_checked": ndis,
        "search_cases": searched,
        "distribution": {"kinds": dict(kinds), "outcomes": dict(errkinds)},
        "known_findings_seen": known_seen,
        "modelled_not_verified": getattr(mod, "MODELLED", ""),
    }
    if hasattr(mod, "extra_coverage"):
        cov.update(mod.extra_coverage())
    doc = {
        "property_id": pid, "tier": tier, "seed": seed, "level": "proof",
        "coverage": cov,
        "assumptions": list(getattr(mod, "ASSUMPTIONS", [])),
        "wall_s": round(wall, 2),
        "violations": violations,
    }
    d = os.path.join(VERIF, "evidence")
    os.makedirs(d, exist_ok=True)
    with open(os.path.join(d, pid + ".json"), "w") as f:
        json.dump(doc, f, indent=1, sort_keys=True, default=str)


def replay(mod, pid, path):
    data = json.load(open(path))
    if data.get("kind") == "broken-obligation":
        log(f"[{pid}] replay names broken obligations / correspondence cases:")
        for b in data.get("broken", []):
            log("   " + b)
        cases = [d["case"] for d in data.get("disagreements", [])]
    else:
        cases = [data["case"]]
    rc = 0
    try:
        if cases:
            obs = implrun.run_cases(mod.MODNAME, cases, timeout=getattr(mod, "IMPL_TIMEOUT", 5.0))
            for c, o in zip(cases, obs):
                fs = mod.oracle(c, o)
                log(f"[{pid}] case {json.dumps(c)[:500]}\n   observation {json.dumps(o)[:500]}")
                for sig, msg in fs:
                    log(f"   FAILS ({sig}): {msg}")
                    rc = 1
                if not fs:
                    log("   property holds on this case")
    finally:
        coqrun.cleanup()
    return rc


if __name__ == "__main__":
    sys.exit(main(sys.argv[1:]))
