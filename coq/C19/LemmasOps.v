(* C19/LemmasOps.v -- add_argument: closed form of the propagation to the
   dependents and the invariant "a parser has exactly the options in scope". *)
From Coq Require Import ZArith List Bool Lia.
From AK Require Import gen.C19_Consts C19.Model C19.Lemmas.
Import ListNotations.
Open Scope Z_scope.

Definition add_opt (k : okind) (o : str) (pa : parser) : parser :=
  match k with
  | KFlag => set_flags pa (p_flags pa ++ [o])
  | KPos => set_poss pa (p_poss pa ++ [o])
  | KVal => set_vals pa (p_vals pa ++ [o])
  end.

(* the kinds that have an option string '--name' *)
Definition is_optional (k : okind) : bool := match k with KPos => false | _ => true end.

Definition okind_eqb (a b : okind) : bool :=
  match a, b with KFlag, KFlag | KPos, KPos | KVal, KVal => true | _, _ => false end.

(* the list of a parser that holds the arguments of kind k *)
Definition p_list (k : okind) (pa : parser) : list str :=
  match k with KFlag => p_flags pa | KPos => p_poss pa | KVal => p_vals pa end.

(* argparse raises for an option string that the parser already has *)
Definition fresh_for (nl : bool) (k : okind) (o : str) (pa : parser) : Prop :=
  is_optional k = true ->
  mem (flag_str o) (std_option_strings nl) = false /\ ~ In o (p_flags pa) /\ ~ In o (p_vals pa).

Lemma opt_taken_false nl o pa :
  opt_taken nl o pa = false <->
  mem (flag_str o) (std_option_strings nl) = false /\ ~ In o (p_flags pa) /\ ~ In o (p_vals pa).
Proof. unfold opt_taken. rewrite !orb_false_iff, <- !mem_false. tauto. Qed.

Lemma add_local_ok nl k o pa : fresh_for nl k o pa -> add_local nl k o pa = Ret (add_opt k o pa).
Proof.
  intros F. destruct k; cbn [add_local add_opt]; [|reflexivity|];
    rewrite (proj2 (opt_taken_false nl o pa) (F eq_refl)); reflexivity.
Qed.

Lemma add_local_conflict nl k o pa :
  ~ fresh_for nl k o pa -> add_local nl k o pa = Raise ArgumentError.
Proof.
  intros F. destruct (opt_taken nl o pa) eqn:E.
  - destruct k; cbn [add_local]; rewrite ?E; try reflexivity. exfalso. apply F. unfold fresh_for. cbn. intros [=].
  - exfalso. apply F. unfold fresh_for. intros _. apply opt_taken_false. exact E.
Qed.

Lemma add_opt_fields k o pa :
  p_id (add_opt k o pa) = p_id pa /\ p_internal (add_opt k o pa) = p_internal pa /\
  p_deps (add_opt k o pa) = p_deps pa /\
  forall k0, p_list k0 (add_opt k o pa) = p_list k0 pa ++ (if okind_eqb k k0 then [o] else []).
Proof.
  split; [destruct k; reflexivity|]. split; [destruct k; reflexivity|]. split; [destruct k; reflexivity|].
  intros k0. destruct k, k0; cbn; rewrite ?app_nil_r; reflexivity.
Qed.

(* propagation loop: "for dependent_parser in self._dependent_parsers.values()" *)
Lemma update_deps_closed nl k o (st : state) :
  (forall e, In e st -> fresh_for nl k o (snd e)) ->
  forall ds done, NoDup (done ++ ds) ->
  foldM (fun s d => st_mapM (fun q pa' => if str_eqb q d then add_local nl k o pa' else Ret pa') s) ds
        (map (fun e => (fst e, if mem (fst e) done then add_opt k o (snd e) else snd e)) st) =
  Ret (map (fun e => (fst e, if mem (fst e) (done ++ ds) then add_opt k o (snd e) else snd e)) st).
Proof.
  intros F. induction ds as [|d ds IH]; intros done ND; cbn [foldM].
  - rewrite app_nil_r. reflexivity.
  - rewrite (st_mapM_map _ _ (fun e => if mem (fst e) (done ++ [d]) then add_opt k o (snd e) else snd e)).
    + cbn [bind']. rewrite IH by (rewrite <- app_assoc; exact ND). rewrite <- app_assoc. reflexivity.
    + intros e He. rewrite mem_app. cbn [mem existsb]. rewrite orb_false_r.
      destruct (str_eqb_spec (fst e) d) as [E|N].
      * assert (mem (fst e) done = false) as ->.
        { apply mem_false. rewrite E. intros I. apply NoDup_remove_2 in ND. apply ND.
          apply in_or_app. left. exact I. }
        cbn [orb]. apply add_local_ok. apply F. exact He.
      * rewrite orb_false_r. reflexivity.
Qed.

Definition in_scope_b (t : target) (st : state) (q : str) : bool :=
  match t with
  | TGlobal => true
  | TCmd p => match lookup p st with
              | Some pa => str_eqb q p || mem q (dep_names pa)
              | None => false
              end
  end.

Lemma apply_op_closed nl (st : state) t k o :
  (forall e, In e st -> fresh_for nl k o (snd e)) ->
  match t with
  | TGlobal => True
  | TCmd p => exists pa, lookup p st = Some pa /\ NoDup (dep_names pa) /\ ~ In p (dep_names pa)
  end ->
  apply_op nl st (t, k, o) =
  Ret (map (fun e => (fst e, if in_scope_b t st (fst e) then add_opt k o (snd e) else snd e)) st).
Proof.
  intros F T. destruct t as [|p]; cbn [apply_op in_scope_b].
  - apply st_mapM_pure. intros e He. apply add_local_ok. apply F. exact He.
  - destruct T as (pa & L & ND & Hp). rewrite L.
    pose proof (update_deps_closed nl k o st F (dep_names pa) [] ND) as C. cbn [app mem existsb] in C.
    rewrite map_fst_snd in C. rewrite C. cbn [bind'].
    apply (st_mapM_map _ (fun e => if mem (fst e) (dep_names pa) then add_opt k o (snd e) else snd e)).
    intros e He. destruct (str_eqb_spec (fst e) p) as [E|N]; cbn [orb]; [|reflexivity].
    assert (mem (fst e) (dep_names pa) = false) as -> by (apply mem_false; rewrite E; exact Hp).
    apply add_local_ok. apply F. exact He.
Qed.

(* ------------------------------------------------------------------ *)
(* which commands an option reaches                                      *)

Definition in_scope (ds : list decl) (t : target) (c : str) : Prop :=
  match t with
  | TGlobal => True
  | TCmd p => c = p \/ anc ds p c
  end.

Definition oentry_ok (ds : list decl) (done : list op) (d : decl) (e : str * parser) : Prop :=
  fst e = d_name d /\ p_internal (snd e) = d_internal d /\
  NoDup (dep_names (snd e)) /\ ~ In (fst e) (dep_names (snd e)) /\
  (forall c, In c (dep_names (snd e)) <-> anc ds (d_name d) c) /\
  (forall k o, In o (p_list k (snd e)) <-> exists t, In (t, k, o) done /\ in_scope ds t (d_name d)).

Definition OInv (ds : list decl) (done : list op) (st : state) : Prop :=
  Forall2 (oentry_ok ds done) ds st.

Lemma Forall2_impl {A B} (P Q : A -> B -> Prop) la lb :
  (forall a b, P a b -> Q a b) -> Forall2 P la lb -> Forall2 Q la lb.
Proof. intros H. induction 1; constructor; auto. Qed.

Lemma OInv_init ds st : Inv ds st -> OInv ds [] st.
Proof.
  apply Forall2_impl. intros d e (E1 & E2 & E3 & E4 & E4v & E5 & E6 & E7).
  unfold oentry_ok.
  repeat (split; [assumption|]).
  intros k o. destruct k; cbn [p_list]; rewrite ?E3, ?E4, ?E4v; (split; [intros []|intros (t & [] & _)]).
Qed.

Lemma OInv_keys_gen ds0 done ds (st : state) :
  Forall2 (oentry_ok ds0 done) ds st -> keys st = names ds.
Proof.
  induction 1 as [|d e ds' st H _ IH]; [reflexivity|].
  unfold keys, names in *. cbn [map]. rewrite IH. destruct H as (-> & _). reflexivity.
Qed.

Lemma OInv_keys ds done st : OInv ds done st -> keys st = names ds.
Proof. apply OInv_keys_gen. Qed.

Definition op_ok (ds : list decl) (nl : bool) (x : op) : Prop :=
  match x with
  | (t, k, o) =>
      (match t with TGlobal => True | TCmd p => In p (names ds) end) /\
      (is_optional k = true -> mem (flag_str o) (std_option_strings nl) = false)
  end.

Definition op_name (x : op) : str := snd x.

Lemma clause_add ds (done : list op) t k o c k0 (L0 : list str) :
  in_scope ds t c ->
  (forall o', In o' L0 <-> exists t', In (t', k0, o') done /\ in_scope ds t' c) ->
  forall o', In o' (L0 ++ (if okind_eqb k k0 then [o] else [])) <->
             exists t', In (t', k0, o') (done ++ [(t, k, o)]) /\ in_scope ds t' c.
Proof.
  intros S H o'. rewrite in_app_iff, H. split.
  - intros [(t' & H1 & H2)|Hi].
    + exists t'. split; [apply in_or_app; left; exact H1|exact H2].
    + destruct k, k0; cbn [okind_eqb] in Hi; try (destruct Hi; fail); destruct Hi as [<-|[]];
        exists t; (split; [apply in_or_app; right; left; reflexivity|exact S]).
  - intros (t' & H1 & H2). apply in_app_or in H1 as [H1|[H1|[]]]; [left; eauto|].
    inversion H1. subst. right. destruct k0; left; reflexivity.
Qed.

Lemma clause_keep ds (done : list op) t k o c k0 (L0 : list str) :
  ~ in_scope ds t c ->
  (forall o', In o' L0 <-> exists t', In (t', k0, o') done /\ in_scope ds t' c) ->
  forall o', In o' L0 <-> exists t', In (t', k0, o') (done ++ [(t, k, o)]) /\ in_scope ds t' c.
Proof.
  intros S H o'. rewrite H. split.
  - intros (t' & H1 & H2). exists t'. split; [apply in_or_app; left; exact H1|exact H2].
  - intros (t' & H1 & H2). apply in_app_or in H1 as [H1|[H1|[]]]; [eauto|].
    inversion H1. subst. contradiction.
Qed.

Lemma OInv_step ds nl done st t k o :
  OInv ds done st -> op_ok ds nl (t, k, o) -> ~ In o (map op_name done) ->
  exists st', apply_op nl st (t, k, o) = Ret st' /\ OInv ds (done ++ [(t, k, o)]) st'.
Proof.
  intros I (Ht & Hk) Hfresh.
  assert (forall e, In e st -> fresh_for nl k o (snd e)) as F.
  { intros e He Ek. split; [apply Hk; exact Ek|].
    destruct (Forall2_in_r _ _ _ _ I He) as (d & Hd & (X1 & X2 & X3 & X4 & X5 & Fl)).
    split; intros Ho; [apply (Fl KFlag) in Ho|apply (Fl KVal) in Ho];
      destruct Ho as (t' & Ht' & Hs'); apply Hfresh;
      [change o with (op_name (t', KFlag, o))|change o with (op_name (t', KVal, o))]; apply in_map; exact Ht'. }
  assert (match t with
          | TGlobal => True
          | TCmd p => exists pa, lookup p st = Some pa /\ NoDup (dep_names pa) /\ ~ In p (dep_names pa) /\
                                 forall c, In c (dep_names pa) <-> anc ds p c
          end) as T.
  { destruct t as [|p]; [exact Logic.I|]. rewrite <- (OInv_keys _ _ _ I) in Ht.
    destruct (lookup_in_some _ _ Ht) as (pa & L). exists pa. split; [exact L|].
    apply lookup_some_in in L.
    destruct (Forall2_in_r _ _ _ _ I L) as (d & _ & (E1 & _ & E3 & E4 & E5 & _)). cbn [fst snd] in *.
    rewrite <- E1 in E5. auto. }
  eexists. split.
  - apply apply_op_closed; [exact F|]. destruct t as [|p]; [exact Logic.I|].
    destruct T as (pa & L & A & B & _). eauto.
  - unfold OInv. eapply Forall2_map_r; [exact I|].
    intros d0 e Hd0 (E1 & E2 & E3 & E4 & E5 & E6).
    assert (in_scope_b t st (fst e) = true <-> in_scope ds t (d_name d0)) as SC.
    { destruct t as [|p]; cbn [in_scope_b in_scope]; [tauto|].
      destruct T as (pa & -> & _ & _ & A). rewrite orb_true_iff, str_eqb_eq, mem_In, A, E1. tauto. }
    unfold oentry_ok. cbn [fst snd].
    destruct (in_scope_b t st (fst e)) eqn:Eb.
    + destruct (add_opt_fields k o (snd e)) as (_ & A2 & A3 & A4).
      unfold dep_names in *. rewrite A2, A3.
      repeat (split; [assumption|]).
      assert (in_scope ds t (d_name d0)) as S by (apply SC; reflexivity).
      intros k0. rewrite A4. apply clause_add; [exact S|apply E6].
    + repeat (split; [assumption|]).
      assert (~ in_scope ds t (d_name d0)) as S by (intros S; apply SC in S; discriminate).
      intros k0. apply clause_keep; [exact S|apply E6].
Qed.

Definition ops_ok (ds : list decl) (nl : bool) (ops : list op) : Prop :=
  NoDup (map op_name ops) /\ Forall (op_ok ds nl) ops.

Lemma apply_ops_from ds nl rest : forall done st,
  OInv ds done st -> NoDup (map op_name (done ++ rest)) -> Forall (op_ok ds nl) rest ->
  exists st', apply_ops nl st rest = Ret st' /\ OInv ds (done ++ rest) st'.
Proof.
  induction rest as [|[[t k] o] rest IH]; intros done st I ND F; cbn [apply_ops foldM].
  - exists st. rewrite app_nil_r. auto.
  - inversion F as [|x l Hx F']. subst.
    assert (~ In o (map op_name done)) as Hfresh.
    { rewrite map_app in ND. cbn [map op_name snd] in ND. apply NoDup_remove_2 in ND.
      intros Hi. apply ND. apply in_or_app. left. exact Hi. }
    destruct (OInv_step ds nl done st t k o I Hx Hfresh) as (st1 & E1 & I1).
    rewrite E1. cbn [bind'].
    destruct (IH (done ++ [(t, k, o)]) st1 I1) as (st' & E' & I').
    + rewrite <- app_assoc. exact ND.
    + exact F'.
    + exists st'. rewrite <- app_assoc in I'. auto.
Qed.

Lemma apply_ops_ok ds st nl ops :
  build ds = Ret st -> ops_ok ds nl ops ->
  exists st', apply_ops nl st ops = Ret st' /\ OInv ds ops st'.
Proof.
  intros E (ND & F). destruct (build_ret_wf ds st E) as (_ & I).
  apply (apply_ops_from ds nl ops [] st (OInv_init _ _ I) ND F).
Qed.

Lemma op_name_inj (ops : list op) t t' k k' o :
  NoDup (map op_name ops) -> In (t, k, o) ops -> In (t', k', o) ops -> t = t' /\ k = k'.
Proof.
  induction ops as [|x r IH]; intros ND H1 H2; [destruct H1|].
  cbn [map] in ND. inversion ND as [|y l Hy ND']. subst.
  destruct H1 as [->|H1]; destruct H2 as [E|H2].
  - inversion E. auto.
  - exfalso. apply Hy. exact (in_map op_name _ _ H2).
  - exfalso. apply Hy. subst x. exact (in_map op_name _ _ H1).
  - apply IH; assumption.
Qed.

(* state-level statement of the property: after the declarations [ds] and the
   add_argument calls [ops], the parser of [c] has the flag [o] iff the call
   that added [o] is in scope of [c] *)
Lemma option_scope_state_l ds st nl ops :
  build ds = Ret st -> ops_ok ds nl ops ->
  exists st', apply_ops nl st ops = Ret st' /\ keys st' = names ds /\
    forall c pa, In (c, pa) st' ->
      (exists d, In d ds /\ d_name d = c /\ p_internal pa = d_internal d) /\
      forall t k o, In (t, k, o) ops -> (In o (p_list k pa) <-> in_scope ds t c).
Proof.
  intros E OK. destruct (apply_ops_ok ds st nl ops E OK) as (st' & E' & I).
  exists st'. split; [exact E'|]. split; [eapply OInv_keys; exact I|].
  intros c pa H. destruct (Forall2_in_r _ _ _ _ I H) as (d & Hd & (E1 & E2 & _ & _ & _ & E6)).
  cbn [fst snd] in *. subst c. split; [exists d; auto|].
  intros t k o Ho. destruct OK as (ND & _). rewrite E6. split.
  - intros (t' & H1 & H2). destruct (op_name_inj ops t t' k k o ND Ho H1) as (-> & _). exact H2.
  - intros S. eauto.
Qed.
