(* C16/TransEq.v -- the id-format expression of _HttpConnImpl._generate_request_id, TRANSLATED from the
   current source (gen/C16_Translated.v, written by harness/lib/pytranslate.py through c16.gen_consts on
   every run), equals the hand model's [fmt]; hence the id is injective in the sequence number for the
   translated function itself. *)
From Coq Require Import ZArith List Bool Lia FinFun.
From AK Require Import Common.Sx Common.Err Common.PyLib Common.PyLibLemmas.
From AK Require Import C16.Instr gen.C16_Consts C16.Model C16.LemFmt C16.Lemmas gen.C16_Translated.
Import ListNotations.
Open Scope Z_scope.

Lemma translation_is_available : translation_available = true.
Proof. reflexivity. Qed.

(* Python's decimal text of a non-negative int is the model's [dec] *)
Lemma py_digits_le_eq fuel : forall n, 0 < n < 2 ^ Z.of_nat fuel -> py_digits_le fuel n = digits_le fuel n.
Proof.
  induction fuel as [|f IH]; intros n Hn; [cbn in Hn; lia|].
  cbn [py_digits_le digits_le]. destruct (Z.leb_spec n 0); [lia|].
  destruct (Z.ltb_spec n 10).
  - rewrite Z.mod_small, Z.div_small by lia. destruct f; reflexivity.
  - f_equal. apply IH. split; [apply Z.div_str_pos; lia|].
    apply Z.div_lt_upper_bound; [lia|]. rewrite Nat2Z.inj_succ, Z.pow_succ_r in Hn by lia. lia.
Qed.

Lemma py_str_of_nat_dec n : 0 <= n -> py_str_of_nat n = dec n.
Proof.
  intros H. unfold py_str_of_nat, dec. destruct (Z.leb_spec n 0).
  - assert (n = 0) as -> by lia. reflexivity.
  - f_equal. apply py_digits_le_eq. split; [lia|].
    rewrite Nat2Z.inj_succ, Z2Nat.id by apply Z.log2_nonneg. apply Z.log2_spec. lia.
Qed.

Lemma zero_pad_eq w n : 0 <= w -> 0 <= n -> py_format_int 48 61 w n = pad (Z.to_nat w) (dec n).
Proof.
  intros Hw H. rewrite py_format_int_zero_pad by exact H. rewrite py_str_of_nat_dec by exact H.
  unfold pad, py_len. f_equal. f_equal. lia.
Qed.

(* the translated expression, on a sequence number / on None (ids switched off).  The script does not
   mention the widths, the modulus or the separator: they are compared by conversion with the constants
   c16.py extracts from the same source. *)
Theorem translated_format_eq fuel cp n : 0 <= n ->
  T_request_id_format fuel cp (Some n) = Ok (VStr (fmt cp n)).
Proof.
  intros H. unfold T_request_id_format.
  rewrite py_mod_ok by (vm_compute; discriminate). cbn [bind].
  rewrite !zero_pad_eq; try exact H; try (vm_compute; discriminate);
    [|apply Z.mod_pos_bound; reflexivity].
  unfold fmt. rewrite <- !app_assoc. reflexivity.
Qed.

Theorem translated_format_none fuel cp : T_request_id_format fuel cp None = Ok VNone.
Proof. reflexivity. Qed.

Theorem id_injective_t fuel1 fuel2 cp1 cp2 n m : 0 <= n -> 0 <= m ->
  T_request_id_format fuel1 cp1 (Some n) = T_request_id_format fuel2 cp2 (Some m) -> n = m.
Proof.
  intros Hn Hm. rewrite !translated_format_eq by assumption. intros [= E].
  exact (id_injective_l cp1 cp2 n m Hn Hm E).
Qed.

(* the ids generated in any interleaving, computed by the TRANSLATED expression from the numbers handed
   out, are the model's ids and pairwise distinct *)

Theorem ids_distinct_t fuel cp c0 reqs sched : 0 <= c0 ->
  let st := exec cp impl_prog sched (init (Some c0) reqs) in
  let ids := map (fun n => T_request_id_format fuel cp (Some n)) (numbers st) in
  ids = map (fun s => Ok (VStr s)) (generated_ids st) /\ NoDup ids.
Proof.
  intros H0 st ids.
  destruct (unique_l cp impl_prog impl_well_locked_l c0 reqs sched) as [_ Hge]. fold st in Hge.
  assert (ids = map (fun s => Ok (VStr s)) (map (fmt cp) (numbers st))) as E.
  { unfold ids. rewrite map_map. apply map_ext_in. intros n Hn. apply translated_format_eq.
    specialize (Hge n Hn). lia. }
  split.
  - rewrite E. f_equal. symmetry. exact (generated_ids_fmt cp impl_prog c0 reqs sched impl_well_locked_l).
  - rewrite E. apply Injective_map_NoDup; [intros a b [= ->]; reflexivity|].
    exact (ids_distinct_l cp impl_prog impl_well_locked_l c0 reqs sched H0).
Qed.
