(* C19/Props.v -- the property theorems, nothing else.
   Command options are inherited exactly along the declared command graph.

   Vocabulary (C19/Model.v, Lemmas*.v):
     decl               (name, internal?, parents) -- one entry of commands=[...]
     wf ds              names are non-empty and new, every parent is an EARLIER name
                        (hence every acyclic declaration order, diamonds included)
     anc ds p c         p is a transitive parent of c in the declared graph
     build ds           _init_multicmd_parser on structured declarations
     init_multicmd      the same on the declaration strings '!name:parent, parent'
     apply_ops nl st ops   add_argument calls; op = (TGlobal | TCmd p, KFlag | KPos | KVal, name):
                        '--name' store_true, 'name' nargs='*', '--name VALUE'
     p_list k pa        the arguments of kind k that parser pa holds; is_optional k = k is not KPos
     in_scope ds t c    t = TGlobal, or t = TCmd p with c = p or anc ds p c
     parse_args sub ..  ArgParser.parse_args, [sub] = argparse for one command parser
     sub_spec sub       what is assumed of argparse; mini_sub = the stand-in compared
                        with the real argparse on every run
     sub_spec_vec sub   the same for multi-token vectors  --f.. w.. --g..  (flags, one
                        block of words for the nargs='*' positionals, flags)
     added_flags ops l  every (t, o) of l was added by the call (t, KFlag, o) of ops
     vec_tokens l       the tokens '--o' of l;  word w = w does not start with '-'
     scopes_meet ds t t'   some declared parser is in scope of both targets *)
From Coq Require Import ZArith List Bool.
From AK Require Import gen.C19_Consts C19.Model C19.Lemmas C19.LemmasOps C19.LemmasParse C19.LemmasDecl C19.LemmasVec C19.LemmasDup.
Import ListNotations.
Open Scope Z_scope.

(* the shape and literals read from ak/cli_tools.py meet what the proofs need:
   register_dependent is idempotent; the tokens exempt from default-command
   insertion are options; the appended help option is one of them *)
Theorem source_shape :
  reg_idempotent = true /\ forallb starts_dash help_choices = true /\
  mem help_appended help_choices = true /\ mem color_default color_choices = true.
Proof. exact (conj reg_idempotent_true (conj help_choices_dashed (conj help_appended_is_help color_default_is_choice))). Qed.
Print Assumptions source_shape.

(* ---- declarations -------------------------------------------------- *)

(* a declaration list is accepted iff it is well-formed: in particular no
   acyclic parent declaration (diamonds, a parent together with its own
   ancestor, repeated parents) raises ... *)
Theorem declare_never_fails : forall ds, wf ds <-> exists st, build ds = Ret st.
Proof. exact declare_never_fails_l. Qed.
Print Assumptions declare_never_fails.

(* ... and the only exception is AssertionError, for ill-formed lists *)
Theorem declare_fails_only_by_assertion : forall ds x,
  build ds = Raise x -> x = AssertionError /\ ~ wf ds.
Proof. exact build_raise. Qed.
Print Assumptions declare_fails_only_by_assertion.

(* the same for the constructor on declaration strings *)
Theorem constructor_never_fails : forall cmds dflt,
  cmds <> [] -> wf (map parse_decl cmds) ->
  exists st d, init_multicmd cmds dflt = Ret (st, d) /\ build (map parse_decl cmds) = Ret st.
Proof. exact init_ok_l. Qed.
Print Assumptions constructor_never_fails.

(* the declaration syntax: '!name:parent,parent' is read back as written (names
   without ':' and not starting with '!', parents without ',' and without
   surrounding white space, no repeated parent), so every well-formed structured
   declaration list can be written down and is accepted by the constructor *)
Theorem declaration_syntax : forall d, plain_decl d -> parse_decl (render d) = d.
Proof. exact parse_decl_render_l. Qed.
Print Assumptions declaration_syntax.

Theorem constructor_accepts_rendered : forall ds dflt,
  ds <> [] -> Forall plain_decl ds -> wf ds ->
  exists st d, init_multicmd (map render ds) dflt = Ret (st, d) /\ build ds = Ret st.
Proof. exact init_rendered_l. Qed.
Print Assumptions constructor_accepts_rendered.

Theorem constructor_fails_only_by_assertion : forall cmds dflt x,
  init_multicmd cmds dflt = Raise x -> x = AssertionError /\ (cmds = [] \/ ~ wf (map parse_decl cmds)).
Proof. exact init_raise_l. Qed.
Print Assumptions constructor_fails_only_by_assertion.

(* after the declarations, the dependents of every parser are exactly its
   transitive descendants, each registered once *)
Theorem dependents_are_descendants : forall ds st,
  build ds = Ret st ->
  keys st = names ds /\
  forall p pa, In (p, pa) st ->
    NoDup (dep_names pa) /\ forall q, In q (dep_names pa) <-> anc ds p q.
Proof. exact dependents_are_descendants_l. Qed.
Print Assumptions dependents_are_descendants.

(* ---- options -------------------------------------------------------- *)

(* add_argument calls with distinct names (flags and value options: not a
   standard option string) on declared parsers or on the ArgParser never raise,
   and afterwards the parser of c holds the argument o (of any of the three
   kinds) iff the call that added o is in scope of c *)
Theorem option_scope_state : forall ds st nl ops,
  build ds = Ret st -> ops_ok ds nl ops ->
  exists st', apply_ops nl st ops = Ret st' /\ keys st' = names ds /\
    forall c pa, In (c, pa) st' ->
      (exists d, In d ds /\ d_name d = c /\ p_internal pa = d_internal d) /\
      forall t k o, In (t, k, o) ops -> (In o (p_list k pa) <-> in_scope ds t c).
Proof. exact option_scope_state_l. Qed.
Print Assumptions option_scope_state.

(* observable form: for every argparse meeting sub_spec, every command d and
   every added flag o, "d --o" is accepted iff o was added to the ArgParser
   itself, to d, or to a transitive parent of d -- and rejected otherwise *)
Theorem option_scope : forall sub, sub_spec sub ->
  forall ds c0 ops st' dflt d,
  configured ds (c_no_log c0) ops st' ->
  In d ds -> d_internal d = false -> starts_dash (d_name d) = false ->
  forall t o, In (t, KFlag, o) ops -> ~ In ch_eq o ->
  (accepted (parse_args sub c0 st' dflt [d_name d; flag_str o]) <->
   (t = TGlobal \/ t = TCmd (d_name d) \/ exists p, t = TCmd p /\ anc ds p (d_name d))).
Proof.
  intros sub SS ds c0 ops st' dflt d C Hd Hi Hdash t o Ho Heq.
  rewrite (option_scope_l sub SS ds c0 ops st' dflt d C Hd Hi Hdash t o Ho Heq).
  destruct t as [|p]; cbn [in_scope].
  - split; auto.
  - split.
    + intros [->|A]; [auto|]. right. right. exists p. auto.
    + intros [H|[H|(q & H & A)]]; [discriminate| |]; inversion H; subst; auto.
Qed.
Print Assumptions option_scope.

(* the standard colour and verbosity options are accepted by every command
   (verbosity unless the ArgParser was created with _no_log) *)
Theorem std_options_everywhere : forall sub, sub_spec sub ->
  forall ds c0 ops st' dflt d,
  configured ds (c_no_log c0) ops st' ->
  In d ds -> d_internal d = false -> starts_dash (d_name d) = false ->
  accepted (parse_args sub c0 st' dflt [d_name d]) /\
  accepted (parse_args sub c0 st' dflt [d_name d; opt_color]) /\
  accepted (parse_args sub c0 st' dflt [d_name d; opt_no_color]) /\
  (forall v, In v color_choices -> accepted (parse_args sub c0 st' dflt [d_name d; opt_color ++ ch_eq :: v])) /\
  (c_no_log c0 = false ->
   accepted (parse_args sub c0 st' dflt [d_name d; opt_verbose_short]) /\
   accepted (parse_args sub c0 st' dflt [d_name d; opt_verbose_long])).
Proof. exact std_options_l. Qed.
Print Assumptions std_options_everywhere.

(* the hypotheses about argparse are satisfiable: the executable stand-in that
   the correspondence check compares with the real argparse meets them *)
Theorem argparse_model_meets_spec : sub_spec mini_sub.
Proof. exact mini_sub_spec. Qed.
Print Assumptions argparse_model_meets_spec.

(* ---- multi-token vectors and namespace contents ---------------------- *)

(* the stand-in also meets the multi-token assumptions *)
Theorem argparse_model_meets_vector_spec : sub_spec_vec mini_sub.
Proof. exact mini_sub_spec_vec. Qed.
Print Assumptions argparse_model_meets_vector_spec.

(* "d --f1 .. --fk w1 .. wm --g1 .. --gj" (added flags, words) is accepted iff
   EVERY flag was added to the ArgParser, to d or to a transitive parent of d
   and, when there are words, some nargs='*' positional was *)
Theorem option_scope_vector : forall sub, sub_spec_vec sub ->
  forall ds c0 ops st' dflt d,
  configured ds (c_no_log c0) ops st' ->
  In d ds -> d_internal d = false -> starts_dash (d_name d) = false ->
  forall tos1 ws tos2, added_flags ops (tos1 ++ tos2) -> Forall word ws ->
  (accepted (parse_args sub c0 st' dflt (d_name d :: vec_tokens tos1 ++ ws ++ vec_tokens tos2)) <->
   Forall (fun x => in_scope ds (fst x) (d_name d)) (tos1 ++ tos2) /\
   (ws = [] \/ exists t p, In (t, KPos, p) ops /\ in_scope ds t (d_name d))).
Proof. exact option_scope_vec_l. Qed.
Print Assumptions option_scope_vector.

(* ... and the namespace: command = d; its flag attributes are exactly the
   flags in scope of d, True iff given; the words go to the first positional in
   scope, the other positionals are empty; the value options in scope of d are
   there with None; verbosity and colour at their defaults *)
Theorem vector_namespace : forall sub, sub_spec_vec sub ->
  forall ds c0 ops st' dflt d,
  configured ds (c_no_log c0) ops st' ->
  In d ds -> d_internal d = false -> starts_dash (d_name d) = false ->
  forall tos1 ws tos2, added_flags ops (tos1 ++ tos2) -> Forall word ws ->
  forall n, parse_args sub c0 st' dflt (d_name d :: vec_tokens tos1 ++ ws ++ vec_tokens tos2) = Ret n ->
  ns_command n = d_name d /\
  (forall o b, In (o, b) (ns_flags n) <->
     (exists t, In (t, KFlag, o) ops /\ in_scope ds t (d_name d)) /\ b = mem o (map snd (tos1 ++ tos2))) /\
  (ws <> [] -> exists p0 rest, ns_poss n = (p0, ws) :: rest /\
     (exists t, In (t, KPos, p0) ops /\ in_scope ds t (d_name d)) /\ Forall (fun e => snd e = []) rest) /\
  (forall o x, In (o, x) (ns_vals n) <->
     (exists t, In (t, KVal, o) ops /\ in_scope ds t (d_name d)) /\ x = None) /\
  ns_verbose n = (if c_no_log c0 then None else Some 0%nat) /\ ns_color n = CStr color_default.
Proof. exact vec_namespace_l. Qed.
Print Assumptions vector_namespace.

(* options that take a value: "d --o VALUE" and "d --o=VALUE" are accepted iff
   the call that added o is in scope of d, and the namespace holds VALUE for o
   and None for the other value options in scope of d *)
Theorem value_option_scope : forall sub, sub_spec_vec sub ->
  forall ds c0 ops st' dflt d,
  configured ds (c_no_log c0) ops st' ->
  In d ds -> d_internal d = false -> starts_dash (d_name d) = false ->
  forall t o v, In (t, KVal, o) ops -> ~ In ch_eq o -> word v ->
  (accepted (parse_args sub c0 st' dflt [d_name d; flag_str o; v]) <-> in_scope ds t (d_name d)) /\
  (forall n, parse_args sub c0 st' dflt [d_name d; flag_str o; v] = Ret n ->
     ns_command n = d_name d /\
     forall o' x, In (o', x) (ns_vals n) <->
       (exists t', In (t', KVal, o') ops /\ in_scope ds t' (d_name d)) /\ x = (if str_eqb o' o then Some v else None)) /\
  (plain_names ops ->
   (accepted (parse_args sub c0 st' dflt [d_name d; flag_str o ++ ch_eq :: v]) <-> in_scope ds t (d_name d)) /\
   (forall n, parse_args sub c0 st' dflt [d_name d; flag_str o ++ ch_eq :: v] = Ret n ->
      ns_command n = d_name d /\
      forall o' x, In (o', x) (ns_vals n) <->
        (exists t', In (t', KVal, o') ops /\ in_scope ds t' (d_name d)) /\ x = (if str_eqb o' o then Some v else None))).
Proof. exact value_option_scope_l. Qed.
Print Assumptions value_option_scope.

(* ---- add_argument that raises ----------------------------------------- *)

(* the only exceptions: ValueError for a name get_cmd_parser does not know,
   ArgumentError (argparse) for an argument with an option string *)
Theorem add_argument_exceptions : forall nl (st : state) t k o e,
  apply_op nl st (t, k, o) = Raise e ->
  (e = ValueError /\ exists p, t = TCmd p /\ ~ In p (keys st)) \/ (e = ArgumentError /\ is_optional k = true).
Proof. exact apply_op_raises. Qed.
Print Assumptions add_argument_exceptions.

Theorem get_cmd_parser_unknown_name : forall nl (st : state) p k o,
  apply_op nl st (TCmd p, k, o) = Raise ValueError <-> ~ In p (keys st).
Proof. exact get_cmd_parser_unknown. Qed.
Print Assumptions get_cmd_parser_unknown_name.

(* duplicated option strings: after the declarations and the calls [ops], adding
   the option string '--o' (added before by the call on t, as a flag or as a
   value option) once more on t' (as either) raises ArgumentError iff some
   parser is in scope of both t and t'; otherwise the call returns *)
Theorem duplicate_option_conflict : forall ds nl ops st' t k o t' k',
  configured ds nl ops st' -> In (t, k, o) ops -> is_optional k = true -> is_optional k' = true -> target_ok ds t' ->
  (scopes_meet ds t t' -> apply_op nl st' (t', k', o) = Raise ArgumentError) /\
  (~ scopes_meet ds t t' -> exists st'', apply_op nl st' (t', k', o) = Ret st'') /\
  (apply_op nl st' (t', k', o) = Raise ArgumentError <-> scopes_meet ds t t').
Proof. exact duplicate_flag_l. Qed.
Print Assumptions duplicate_option_conflict.

(* the standard option strings cannot be added to any target *)
Theorem std_option_conflict : forall ds nl ops st' k o t',
  configured ds nl ops st' -> ds <> [] -> target_ok ds t' -> is_optional k = true ->
  mem (flag_str o) (std_option_strings nl) = true ->
  apply_op nl st' (t', k, o) = Raise ArgumentError.
Proof. exact std_flag_conflict_l. Qed.
Print Assumptions std_option_conflict.

(* ---- default command ------------------------------------------------- *)

(* without default_command= the default is the first command that is not an
   internal option set *)
Theorem default_is_first_command : forall cmds st d,
  init_multicmd cmds None = Ret (st, d) -> d = hd_error (command_names st).
Proof. exact init_default_l. Qed.
Print Assumptions default_is_first_command.

(* property text: "arguments that do not start with a command name are parsed
   as the default command" *)
Definition default_command_statement : Prop :=
  forall (sub : subparser) c0 (st : state) d argv,
    ~ (argv = [] /\ c_help_if_no_args c0 = true) ->
    (forall a, hd_error argv = Some a -> ~ In a help_choices /\ ~ In a (command_names st)) ->
    parse_args sub c0 st (Some d) argv = parse_args sub c0 st (Some d) (d :: argv).

(* proved under the explicit guard: the first argument is not the name of ANY
   declared parser, i.e. not the name of an internal option set either *)
Theorem default_command : forall (sub : subparser) c0 (st : state) d argv,
  ~ (argv = [] /\ c_help_if_no_args c0 = true) ->
  (forall a, hd_error argv = Some a -> ~ In a help_choices /\ ~ In a (keys st)) ->
  parse_args sub c0 st (Some d) argv = parse_args sub c0 st (Some d) (d :: argv).
Proof. exact default_command_guarded_l. Qed.
Print Assumptions default_command.

(* ... which means: by the default command's own parser, on all of argv *)
Theorem default_command_subparse : forall (sub : subparser) c0 (st : state) d argv pa,
  ~ (argv = [] /\ c_help_if_no_args c0 = true) ->
  (forall a, hd_error argv = Some a -> ~ In a help_choices /\ ~ In a (keys st)) ->
  starts_dash d = false -> lookup d st = Some pa -> p_internal pa = false ->
  parse_args sub c0 st (Some d) argv =
  match sub (c_no_log c0) (p_flags pa) (p_poss pa) (p_vals pa) argv with
  | Some s => Ret (finish c0 d s)
  | None => Raise SystemExit
  end.
Proof. exact default_command_subparse_l. Qed.
Print Assumptions default_command_subparse.

(* the default command on vectors of added flags and words: accepted iff every
   flag is in scope of the default command and (for words) it has a positional;
   the namespace names the default command and its first positional takes the words *)
Theorem default_command_vector : forall sub, sub_spec_vec sub ->
  forall ds c0 ops st' d,
  configured ds (c_no_log c0) ops st' ->
  In d ds -> d_internal d = false -> starts_dash (d_name d) = false ->
  forall tos1 ws tos2, added_flags ops (tos1 ++ tos2) -> Forall word ws ->
  ~ (vec_tokens tos1 ++ ws ++ vec_tokens tos2 = [] /\ c_help_if_no_args c0 = true) ->
  (forall a, hd_error (vec_tokens tos1 ++ ws ++ vec_tokens tos2) = Some a -> ~ In a (keys st')) ->
  (accepted (parse_args sub c0 st' (Some (d_name d)) (vec_tokens tos1 ++ ws ++ vec_tokens tos2)) <->
   Forall (fun x => in_scope ds (fst x) (d_name d)) (tos1 ++ tos2) /\
   (ws = [] \/ exists t p, In (t, KPos, p) ops /\ in_scope ds t (d_name d))) /\
  forall n, parse_args sub c0 st' (Some (d_name d)) (vec_tokens tos1 ++ ws ++ vec_tokens tos2) = Ret n ->
    ns_command n = d_name d /\
    (forall o b, In (o, b) (ns_flags n) <->
       (exists t, In (t, KFlag, o) ops /\ in_scope ds t (d_name d)) /\ b = mem o (map snd (tos1 ++ tos2))) /\
    (ws <> [] -> exists p0 rest, ns_poss n = (p0, ws) :: rest /\
       (exists t, In (t, KPos, p0) ops /\ in_scope ds t (d_name d)) /\ Forall (fun e => snd e = []) rest).
Proof. exact default_command_vec_l. Qed.
Print Assumptions default_command_vector.

(* the open finding delimited exactly.  (1) The property's own wording (guard:
   not a COMMAND name) holds for every default command WITHOUT a positional: a
   first argument that names an internal option set is rejected either way ... *)
Theorem default_command_without_positional : forall sub, sub_spec_vec sub ->
  forall c0 (st : state) d pa argv,
  lookup d st = Some pa -> p_internal pa = false -> p_poss pa = [] -> starts_dash d = false ->
  ~ (argv = [] /\ c_help_if_no_args c0 = true) ->
  (forall a, hd_error argv = Some a ->
     ~ In a help_choices /\ ~ In a (command_names st) /\ (In a (keys st) -> word a)) ->
  parse_args sub c0 st (Some d) argv = parse_args sub c0 st (Some d) (d :: argv).
Proof. exact default_no_positional_l. Qed.
Print Assumptions default_command_without_positional.

(* ... (2) and fails for EVERY default command with a nargs='*' positional and
   every internal option set s, on the vector [s] *)
Theorem default_internal_name_disagrees : forall sub, sub_spec_vec sub ->
  forall c0 (st : state) d pa s ps,
  lookup d st = Some pa -> p_internal pa = false -> p_poss pa <> [] -> starts_dash d = false ->
  lookup s st = Some ps -> p_internal ps = true -> word s ->
  parse_args sub c0 st (Some d) [s] = Raise SystemExit /\
  accepted (parse_args sub c0 st (Some d) [d; s]).
Proof. exact default_internal_name_disagrees_l. Qed.
Print Assumptions default_internal_name_disagrees.

(* the guard's complement is a defect of the current code (open finding
   default-internal-set-name): ArgParser([('ca', ..), ('!sa', ..)]),
   get_cmd_parser('ca').add_argument('paa', nargs='*'), parse_args(['sa'])
   exits although 'sa' is not a command and ['ca', 'sa'] is accepted *)
Theorem default_command_internal_name_refuted :
  exists cmds ops argv st d st',
    init_multicmd cmds None = Ret (st, Some d) /\
    apply_ops false st ops = Ret st' /\
    (forall a, hd_error argv = Some a -> ~ In a help_choices /\ ~ In a (command_names st')) /\
    parse_args mini_sub (mkCfg false false false) st' (Some d) argv = Raise SystemExit /\
    accepted (parse_args mini_sub (mkCfg false false false) st' (Some d) (d :: argv)).
Proof. exists w_cmds, w_ops, w_argv. exact default_internal_name_refuted_l. Qed.
Print Assumptions default_command_internal_name_refuted.

Theorem default_command_statement_refuted : ~ default_command_statement.
Proof.
  intros S. destruct default_internal_name_refuted_l as (st & d & st' & _ & _ & G & E1 & (n & E2)).
  specialize (S mini_sub cfg0 st' d w_argv). rewrite E1, E2 in S.
  assert (@Raise ns SystemExit = Ret n) as X; [apply S; [intros (H & _); discriminate|exact G]|discriminate].
Qed.
Print Assumptions default_command_statement_refuted.

(* ---- non-vacuity: the diamond a, b:a, c:a, d:b,c ---------------------- *)

Definition ex_a : str := [97].  Definition ex_b : str := [98].
Definition ex_c : str := [99].  Definition ex_d : str := [100].
Definition ex_diamond : list decl :=
  [mkDecl ex_a false []; mkDecl ex_b false [ex_a]; mkDecl ex_c false [ex_a]; mkDecl ex_d false [ex_b; ex_c]].
Definition ex_ops : list op :=
  [(TCmd ex_a, KFlag, [111; 97]); (TCmd ex_b, KFlag, [111; 98]); (TGlobal, KFlag, [111; 103])].

Example diamond_wf : wf ex_diamond /\ map parse_decl [[97]; [98; 58; 97]; [99; 58; 97]; [100; 58; 98; 44; 99]] = ex_diamond.
Proof. split; [apply declare_never_fails_l; eexists; vm_compute; reflexivity|vm_compute; reflexivity]. Qed.
Print Assumptions diamond_wf.

Example diamond_plain :
  Forall plain_decl ex_diamond /\
  map render ex_diamond = [[97]; [98; 58; 97]; [99; 58; 97]; [100; 58; 98; 44; 99]].
Proof.
  split; [|vm_compute; reflexivity].
  repeat constructor; try discriminate; cbn; try tauto;
    try (intros H; repeat (destruct H as [H|H]; [discriminate|]); exact H).
Qed.
Print Assumptions diamond_plain.

Example diamond_dependents :
  exists st, build ex_diamond = Ret st /\
    map (fun e => (fst e, dep_names (snd e))) st =
    [(ex_a, [ex_b; ex_c; ex_d]); (ex_b, [ex_d]); (ex_c, [ex_d]); (ex_d, [])].
Proof. eexists. split; vm_compute; reflexivity. Qed.
Print Assumptions diamond_dependents.

Example diamond_configured :
  exists st', configured ex_diamond false ex_ops st' /\
    map (fun e => (fst e, p_flags (snd e))) st' =
    [(ex_a, [[111; 97]; [111; 103]]); (ex_b, [[111; 97]; [111; 98]; [111; 103]]);
     (ex_c, [[111; 97]; [111; 103]]); (ex_d, [[111; 97]; [111; 98]; [111; 103]])] /\
    accepted (parse_args mini_sub (mkCfg false false false) st' (Some ex_a) [ex_d; flag_str [111; 98]]) /\
    parse_args mini_sub (mkCfg false false false) st' (Some ex_a) [ex_c; flag_str [111; 98]] = Raise SystemExit.
Proof.
  eexists. split; [|split; [|split]].
  - eexists. split; [vm_compute; reflexivity|]. split; [|vm_compute; reflexivity].
    split.
    + vm_compute. repeat constructor; intros H; repeat (destruct H as [H|H]; [discriminate|]); exact H.
    + repeat constructor; try (vm_compute; auto; fail); intros _; vm_compute; reflexivity.
  - vm_compute. reflexivity.
  - eexists. vm_compute. reflexivity.
  - vm_compute. reflexivity.
Qed.
Print Assumptions diamond_configured.

(* ---- non-vacuity of the vector and duplicate theorems ------------------- *)

(* a takes the positional 'pa'; b has the value option '--vb' *)
Definition ex_ops2 : list op := ex_ops ++ [(TCmd ex_a, KPos, [112; 97]); (TCmd ex_b, KVal, [118; 98])].
Definition ex_vec (c : str) : list str :=
  c :: vec_tokens [(TCmd ex_a, [111; 97])] ++ [[120]; [121]] ++ vec_tokens [(TCmd ex_b, [111; 98])].

(* "d --oa x y --ob" is accepted with pa = [x, y]; "c --oa x y --ob" is not (ob
   was added to b); the words alone go to the default command a *)
Example diamond_vector :
  exists st', configured ex_diamond false ex_ops2 st' /\
    added_flags ex_ops2 ([(TCmd ex_a, [111; 97])] ++ [(TCmd ex_b, [111; 98])]) /\
    Forall word [[120]; [121]] /\
    (exists n, parse_args mini_sub (mkCfg false false false) st' (Some ex_a) (ex_vec ex_d) = Ret n /\
       ns_poss n = [([112; 97], [[120]; [121]])] /\
       ns_flags n = [([111; 97], true); ([111; 98], true); ([111; 103], false)]) /\
    parse_args mini_sub (mkCfg false false false) st' (Some ex_a) (ex_vec ex_c) = Raise SystemExit /\
    (exists n, parse_args mini_sub (mkCfg false false false) st' (Some ex_a) [[120]; [121]] = Ret n /\
       ns_command n = ex_a /\ ns_poss n = [([112; 97], [[120]; [121]])]) /\
    (* "d --vb x" and "d --vb=x" give vb = x; c does not have --vb *)
    (exists n, parse_args mini_sub (mkCfg false false false) st' (Some ex_a) [ex_d; flag_str [118; 98]; [120]] = Ret n /\
       ns_vals n = [([118; 98], Some [120])]) /\
    (exists n, parse_args mini_sub (mkCfg false false false) st' (Some ex_a) [ex_d; flag_str [118; 98] ++ ch_eq :: [120]] = Ret n /\
       ns_vals n = [([118; 98], Some [120])]) /\
    parse_args mini_sub (mkCfg false false false) st' (Some ex_a) [ex_c; flag_str [118; 98]; [120]] = Raise SystemExit /\
    plain_names ex_ops2.
Proof.
  eexists. split; [|split; [|split; [|split; [|split; [|split; [|split; [|split; [|split]]]]]]]].
  - eexists. split; [vm_compute; reflexivity|]. split; [|vm_compute; reflexivity].
    split.
    + vm_compute. repeat constructor; intros H; repeat (destruct H as [H|H]; [discriminate|]); exact H.
    + repeat constructor; try (vm_compute; auto; fail); intros _; vm_compute; reflexivity.
  - repeat constructor; try (vm_compute; auto 10; fail);
      intros H; repeat (destruct H as [H|H]; [discriminate|]); exact H.
  - repeat constructor.
  - eexists. split; [vm_compute; reflexivity|]. split; vm_compute; reflexivity.
  - vm_compute. reflexivity.
  - eexists. split; [vm_compute; reflexivity|]. split; vm_compute; reflexivity.
  - eexists. split; vm_compute; reflexivity.
  - eexists. split; vm_compute; reflexivity.
  - vm_compute. reflexivity.
  - repeat constructor; vm_compute; intros H; repeat (destruct H as [H|H]; [discriminate|]); exact H.
Qed.
Print Assumptions diamond_vector.

(* duplicated option strings: in the diamond the scopes of b and c meet (in d),
   and adding b's flag once more on c raises ... *)
Example duplicate_scopes_meet :
  scopes_meet ex_diamond (TCmd ex_b) (TCmd ex_c) /\
  exists st', configured ex_diamond false ex_ops st' /\
    apply_op false st' (TCmd ex_c, KFlag, [111; 98]) = Raise ArgumentError.
Proof.
  split.
  - exists ex_d. split; [cbn; auto|].
    split; right; apply anc_parent; exists (mkDecl ex_d false [ex_b; ex_c]); cbn; auto 6.
  - eexists. split.
    + eexists. split; [vm_compute; reflexivity|]. split; [|vm_compute; reflexivity].
      split.
      * vm_compute. repeat constructor; intros H; repeat (destruct H as [H|H]; [discriminate|]); exact H.
      * repeat constructor; try (vm_compute; auto; fail); intros _; vm_compute; reflexivity.
    + vm_compute. reflexivity.
Qed.
Print Assumptions duplicate_scopes_meet.

(* ... while two unrelated commands may both have an option of the same name *)
Definition ex_pair : list decl := [mkDecl ex_a false []; mkDecl ex_b false []].
Definition ex_pair_ops : list op := [(TCmd ex_a, KFlag, [111; 97])].

Example pair_configured :
  exists st', configured ex_pair false ex_pair_ops st' /\
    exists st'', apply_op false st' (TCmd ex_b, KFlag, [111; 97]) = Ret st''.
Proof.
  eexists. split.
  - eexists. split; [vm_compute; reflexivity|]. split; [|vm_compute; reflexivity].
    split.
    + vm_compute. repeat constructor; intros H; repeat (destruct H as [H|H]; [discriminate|]); exact H.
    + repeat constructor; try (vm_compute; auto; fail); intros _; vm_compute; reflexivity.
  - eexists. vm_compute. reflexivity.
Qed.
Print Assumptions pair_configured.

Example duplicate_scopes_disjoint : ~ scopes_meet ex_pair (TCmd ex_a) (TCmd ex_b).
Proof.
  destruct pair_configured as (st' & C & st'' & E). intros M.
  destruct (duplicate_flag_l ex_pair false ex_pair_ops st' (TCmd ex_a) KFlag [111; 97] (TCmd ex_b) KFlag C) as (R & _).
  - left. reflexivity.
  - reflexivity.
  - reflexivity.
  - cbn. auto.
  - rewrite (R M) in E. discriminate.
Qed.
Print Assumptions duplicate_scopes_disjoint.
