(* C04/Props.v -- the property theorems, nothing else.
   Source positions are exact and cover the text (ak/llparser.py).

   Vocabulary (C04/Model.v, Lemmas*.v):
     line               list of code points; a text is a list of lines
     tok_lines inp      the lines the tokenizer sees (str: split on '\n', each line rstrip()ped; list: verbatim)
     orig_lines inp     the lines get_orig_text slices (str: split on '\n', NOT stripped; list: verbatim)
     prefix_of a b      a is a prefix of b (holds line by line between tok_lines and orig_lines)
     matcher text col   the compiled tokenizer pattern: Some (group, end, value) = pattern.match(text, col)
     span_of g          the compiled span body pattern of group g (self.span_matchers.get), bm text col = Some (end, value)
     matcher_ok / spans_ok   what is assumed of re: col < end <= len(text), resp. col <= end <= len(text)
     tokenize .. ls     _Tokenizer.tokenize: LOk tokens ($END$ last, skipped ones included) | LErr pos text unclosed | LHang
     P l c              the 1-based position of 0-based line index l and column index c
     get_orig_text      TElement.get_orig_text (AssertionError = Err AssertErr)
     region ols l0 c0 l1 c1  the text between two positions: a slice of one line, or tail of line l0, the lines between, head of line l1
     part_on T tx t     the characters of line T (content tx) lying inside the span of token t
     covers toks t i j  tree t matched exactly the tokens i .. j-1 of the (non-skipped) token list, all its spans being
                        leaf: the token's span; inner node: start(token i) .. end(token j-1); empty node: start(token i) twice
     clone t            TElement.clone (positions passed on explicitly)
     flatten_seq seqs t the in-parse flattening of ProdSequence elements (values re-arranged, positions untouched)
     preorder t         TElement.find_all(exclude_root=False): the elements depth first
     surviving t ks     the elements of the cleaned tree = elements ks of the raw tree (cleanup works in place)
     tobj, sstep, step, run_steps, final_state   (C04/Session.v) one parser object used several times on one text OBJECT:
                        TStr / TLines / TIter = a str, a container of lines, an iterator over the lines still to come;
                        steps SNew (re-bind), SEdit (in-place edit ESet / EIns / EDel / EFill), SNext, and the calls STok,
                        SParse, SOrig k (get_orig_text(T) of the elements of the k-th result); edits_of / apply_edits *)
From Coq Require Import ZArith List Bool.
From AK Require Import Common.Err LLP.Base LLP.Parse LLP.Build gen.C04_Consts
  C04.Model C04.LemmasText C04.LemmasLex C04.LemmasCover C04.LemmasTree C04.LemmasConc C04.LemmasNode C04.LemmasOps C04.Session C04.LemmasSess C04.LemmasBig C04.Run.
Import ListNotations.
Open Scope Z_scope.

(* the constants read from ak/llparser.py are the ones of the model *)
Theorem consts_ok : end_token_name = END_TOKEN /\ default_skip = [[83;80;65;67;69]; [67;79;77;77;69;78;84]].
Proof. split; reflexivity. Qed.
Print Assumptions consts_ok.

(* the tokenizer loop of the source starts every non-empty line (outside a span) with
   prev_end_pos = SrcPos(src_name, line_id, 1); without that statement line_start_column is false
   and the soundness lemmas of C04/LemmasLex.v do not check *)
Theorem source_shape : line_start_reset = true.
Proof. reflexivity. Qed.
Print Assumptions source_shape.

(* ------------------------------------------------------------------ leaves *)
(* Every token (skipped ones included) is the product of pattern matches at exactly the
   reported positions, and get_orig_text gives back exactly the matched characters:
   - plain token: matched at column col of line ln up to e: span (P ln col, P ln e), text = line[col:e];
   - span token: opener matched at (l0, c0), body pattern matched at (l1, c1) up to e1 on the same or a
     later line: span (P l0 c0, P l1 e1), text = the whole region from the opener to the closer;
   - $END$ is last, empty, and its text is empty. *)
Theorem leaf_text : forall matcher span_of syn kw, matcher_ok matcher -> spans_ok span_of ->
  forall ls ols toks, Forall2 prefix_of ls ols ->
  tokenize matcher span_of syn kw ls = LOk toks ->
  exists body p, toks = body ++ [mkTok END_TOKEN [] p p] /\
    Forall (fun t => plain_leaf matcher span_of syn kw ls ols t \/ span_leaf matcher span_of syn ls ols t) body /\
    (ls <> [] -> get_orig_text ols (p, p) = Ok []).
Proof. exact leaf_text_l. Qed.
Print Assumptions leaf_text.

(* the same for a text handed in as str or as list of lines *)
Theorem leaf_text_input : forall matcher span_of syn kw, matcher_ok matcher -> spans_ok span_of ->
  forall inp toks, tokenize matcher span_of syn kw (tok_lines inp) = LOk toks ->
  exists body p, toks = body ++ [mkTok END_TOKEN [] p p] /\
    Forall (fun t => plain_leaf matcher span_of syn kw (tok_lines inp) (orig_lines inp) t \/
                     span_leaf matcher span_of syn (tok_lines inp) (orig_lines inp) t) body.
Proof.
  intros matcher span_of syn kw Hm Hs inp toks H.
  destruct (leaf_text_l _ _ _ _ Hm Hs _ _ _ (tok_orig_prefix inp) H) as [body [p [E [F _]]]]. eauto.
Qed.
Print Assumptions leaf_text_input.

(* a span token closed on the line where it was opened: the region is the slice opener .. closer of that line *)
Theorem span_region_same_line : forall ls ols l text c0 e1, Forall2 prefix_of ls ols ->
  nth_error ls l = Some text -> (e1 <= length text)%nat -> region ols l c0 l e1 = slice text c0 e1.
Proof. exact region_same_line. Qed.
Print Assumptions span_region_same_line.

(* ------------------------------------------------------------------ order of the tokens *)
(* consecutive tokens: if the second starts on the line where the first ends they are adjacent;
   otherwise the second starts at column 1 of a later line *)
Theorem adjacent_in_line : forall matcher span_of syn kw, matcher_ok matcher -> spans_ok span_of ->
  forall ls toks i t u, tokenize matcher span_of syn kw ls = LOk toks ->
  nth_error toks i = Some t -> nth_error toks (S i) = Some u ->
  fst (tstart u) = fst (tend t) -> tstart u = tend t.
Proof. intros. eapply adjacent_l; eauto. Qed.
Print Assumptions adjacent_in_line.

Theorem line_start_column : forall matcher span_of syn kw, matcher_ok matcher -> spans_ok span_of ->
  forall ls toks, tokenize matcher span_of syn kw ls = LOk toks ->
  (exists u r, toks = u :: r /\ snd (tstart u) = 1) /\
  (forall i t u, nth_error toks i = Some t -> nth_error toks (S i) = Some u ->
     fst (tstart u) <> fst (tend t) -> fst (tend t) < fst (tstart u) /\ snd (tstart u) = 1).
Proof.
  intros matcher span_of syn kw Hm Hs ls toks H. split.
  - destruct (first_token_l _ _ _ _ Hm Hs _ _ H) as [u [r [E [A|[_ A]]]]]; exists u, r; split; auto.
    rewrite A. reflexivity.
  - intros. eapply adjacent_l; eauto.
Qed.
Print Assumptions line_start_column.

(* positions never move backwards: start <= end for every token, end <= start of every later token;
   every token but $END$ is non-empty *)
Theorem spans_monotone : forall matcher span_of syn kw, matcher_ok matcher -> spans_ok span_of ->
  forall ls toks, tokenize matcher span_of syn kw ls = LOk toks ->
  Forall (fun u => pos_le (tstart u) (tend u)) toks /\
  (forall i j t u, (i < j)%nat -> nth_error toks i = Some t -> nth_error toks j = Some u ->
     pos_le (tend t) (tstart u)) /\
  (exists body p, toks = body ++ [mkTok END_TOKEN [] p p] /\
     Forall (fun u => pos_lt (tstart u) (tend u)) body).
Proof.
  intros matcher span_of syn kw Hm Hs ls toks H.
  destruct (monotone_l _ _ _ _ Hm Hs _ _ H) as [A B]. split; [|split]; auto.
  exact (nonempty_l _ _ _ _ Hm Hs _ _ H).
Qed.
Print Assumptions spans_monotone.

(* every reported position is a position of the text (line exists, column inside or just behind the line) *)
Theorem positions_valid : forall matcher span_of syn kw, matcher_ok matcher -> spans_ok span_of ->
  forall ls toks, ls <> [] -> tokenize matcher span_of syn kw ls = LOk toks ->
  Forall (fun t => valid_pos ls (tstart t) /\ valid_pos ls (tend t)) toks.
Proof. exact positions_valid_l. Qed.
Print Assumptions positions_valid.

(* ------------------------------------------------------------------ cover *)
(* for every line: concatenating the parts of the tokens (skipped ones included) that lie on
   this line gives back the line *)
Theorem tokens_cover : forall matcher span_of syn kw, matcher_ok matcher -> spans_ok span_of ->
  forall ls toks T tx, tokenize matcher span_of syn kw ls = LOk toks -> nth_error ls T = Some tx ->
  concat (map (part_on T tx) toks) = tx.
Proof. exact tokens_cover_l. Qed.
Print Assumptions tokens_cover.

(* for a str the tokenizer sees rstrip()ped lines: what is not covered is trailing white space only *)
Theorem str_lines_stripped : forall l, exists t, l = rstrip l ++ t /\ forallb is_space t = true.
Proof. exact rstrip_spec. Qed.
Print Assumptions str_lines_stripped.

(* ------------------------------------------------------------------ errors, termination *)
(* LexicalError for an unmatched character: src_pos names the line (1-based) that holds the
   character, text is that line, no pattern matches at the reported (0-based) column *)
Theorem lex_error_line : forall matcher span_of syn kw ls p text,
  tokenize matcher span_of syn kw ls = LErr p text false ->
  exists ln c, p = (Z.of_nat ln + 1, Z.of_nat c) /\ nth_error ls ln = Some text /\
               (c < length text)%nat /\ matcher text c = None.
Proof. exact tokenize_err_char. Qed.
Print Assumptions lex_error_line.

(* "span is never closed": src_pos is the position of the opener, text its line *)
Theorem unclosed_span_error_line : forall matcher span_of syn kw, matcher_ok matcher -> spans_ok span_of ->
  forall ls p text, tokenize matcher span_of syn kw ls = LErr p text true ->
  exists l0 c0 g bm e0 v0, p = P l0 c0 /\ nth_error ls l0 = Some text /\
    matcher text c0 = Some (g, e0, v0) /\ span_of g = Some bm.
Proof. exact tokenize_unclosed. Qed.
Print Assumptions unclosed_span_error_line.

(* under the hypotheses on re the tokenizer always returns: tokens or a LexicalError *)
Theorem tokenize_terminates : forall matcher span_of syn kw, matcher_ok matcher -> spans_ok span_of ->
  forall ls, tokenize matcher span_of syn kw ls <> LHang.
Proof. exact tokenize_total. Qed.
Print Assumptions tokenize_terminates.

(* outside the quantifier: a pattern that matches the empty string makes the loop spin *)
Example tokenize_hangs_on_empty_match :
  tokenize (fun _ col => Some ([88], col, [])) (fun _ => None) (fun g => g) (fun _ _ => None) [[97]] = LHang.
Proof. vm_compute. reflexivity. Qed.
Print Assumptions tokenize_hangs_on_empty_match.

(* ------------------------------------------------------------------ nodes *)
(* mk_node (the TElement of a completed production) keeps the invariant ... *)
Theorem mk_node_wf : forall toks f,
  covers_list toks (fvals f) (fstart f) (fcur f) -> (fstart f < length toks)%nat ->
  covers toks (mk_node toks f) (fstart f) (fcur f).
Proof. exact mk_node_covers. Qed.
Print Assumptions mk_node_wf.

(* ... hence every tree returned by the parse loop (any table, any alternatives, roll-backs and
   suffix splicing included) covers the tokens 0 .. j-1, and so does each of its nodes its own range *)
Theorem parse_spans : forall toks is_term table sfxs,
  (forall s, mem s sfxs = true -> is_term s = false) ->
  forall k start root, toks <> [] ->
  parse is_term table sfxs toks k start = Ok root -> exists j, covers toks root 0 j.
Proof. exact parse_covers. Qed.
Print Assumptions parse_spans.

Theorem every_node_covered : forall toks s t, subtree s t -> forall i j, covers toks t i j ->
  exists i' j', covers toks s i' j' /\ (i <= i')%nat /\ (j' <= j)%nat.
Proof. exact covers_subtree. Qed.
Print Assumptions every_node_covered.

(* a leaf carries name-matching token i, its value and its span *)
Theorem leaf_span : forall toks n v sp i j, covers toks (Leaf n v sp) i j ->
  exists tk, nth_error toks i = Some tk /\ j = S i /\ v = tvalue tk /\ sp = (tstart tk, tend tk) /\
             sym_eqb (tname tk) n = true.
Proof. exact leaf_span_l. Qed.
Print Assumptions leaf_span.

(* inner node: start of its first token .. end of its last token *)
Theorem node_span : forall toks n ch sp i j, covers toks (Node n ch sp) i j -> (i < j)%nat ->
  exists a b, nth_error toks i = Some a /\ nth_error toks (j - 1) = Some b /\ sp = (tstart a, tend b).
Proof. exact node_span_l. Qed.
Print Assumptions node_span.

(* a node that matched nothing: the empty span at the following token (which exists) *)
Theorem empty_node_span : forall toks n ch sp i, covers toks (Node n ch sp) i i ->
  exists a, nth_error toks i = Some a /\ sp = (tstart a, tstart a).
Proof. exact empty_node_span_l. Qed.
Print Assumptions empty_node_span.

(* tokenizer and parser together: get_orig_text of every covered node is defined and is the
   region of the original text between the node's two positions *)
Theorem node_text : forall matcher span_of syn kw, matcher_ok matcher -> spans_ok span_of ->
  forall ls ols all skip t i j, ls <> [] -> Forall2 prefix_of ls ols ->
  tokenize matcher span_of syn kw ls = LOk all ->
  covers (drop_skipped skip all) t i j ->
  exists l0 c0 l1 c1, tree_span t = (P l0 c0, P l1 c1) /\
    get_orig_text ols (tree_span t) = Ok (region ols l0 c0 l1 c1).
Proof. exact node_text_l. Qed.
Print Assumptions node_text.

(* ------------------------------------------------------------------ trees obtained through the tree API *)
(* clone() copies name, value and both positions of every element: the copy is the same tree *)
Theorem clone_exact : forall t, clone t = t.
Proof. exact clone_id_l. Qed.
Print Assumptions clone_exact.

(* flattening the elements of a ProdSequence keeps every span exact: the sequence element covers
   exactly the tokens of its items *)
Theorem flatten_spans : forall toks seqs t i j, covers toks t i j -> covers toks (flatten_seq seqs t) i j.
Proof. exact flatten_covers_l. Qed.
Print Assumptions flatten_spans.

(* every element that find_all lists, and every element that survives the cleanup, is a node of the tree ... *)
Theorem listed_is_subtree : forall t s, In s (preorder t) -> subtree s t.
Proof. exact preorder_subtree. Qed.
Print Assumptions listed_is_subtree.

Theorem surviving_is_subtree : forall t ks s, In (Some s) (surviving t ks) -> subtree s t.
Proof. exact surviving_subtree. Qed.
Print Assumptions surviving_is_subtree.

(* ... hence the span of every element of the clone of the (flattened) parse result, of every element listed by
   find_all on it and of every element left by the cleanup delimits exactly its tokens, and get_orig_text
   returns the region between its two positions *)
Theorem api_node_exact : forall matcher span_of syn kw, matcher_ok matcher -> spans_ok span_of ->
  forall ls ols all skip seqs t i j, ls <> [] -> Forall2 prefix_of ls ols ->
  tokenize matcher span_of syn kw ls = LOk all ->
  covers (drop_skipped skip all) t i j ->
  forall s, subtree s (clone (flatten_seq seqs t)) ->
  (exists i' j', covers (drop_skipped skip all) s i' j' /\ (i <= i')%nat /\ (j' <= j)%nat) /\
  exists l0 c0 l1 c1, tree_span s = (P l0 c0, P l1 c1) /\
    get_orig_text ols (tree_span s) = Ok (region ols l0 c0 l1 c1).
Proof.
  intros matcher span_of syn kw Hm Hs ls ols all skip seqs t i j NE F T C s S.
  rewrite clone_id_l in S. apply (flatten_covers_l _ seqs) in C.
  destruct (covers_subtree _ _ _ S _ _ C) as [i' [j' [C' [A B]]]].
  split; [eauto|]. eapply node_text_l; eauto.
Qed.
Print Assumptions api_node_exact.

(* ------------------------------------------------------------------ one text object, used again after it changed *)
(* (strengthening round 2: the seeded change C04-m6 kept the tokens of the last text OBJECT on the parser and
   used them again when the same object - a list of lines edited in place - was parsed once more.)
   In the model nothing is kept between two calls; the theorems below say what that means for a history of calls
   and edits, and the correspondence check runs such histories against the implementation. *)

(* a call leaves a str / a container of lines as it is ... *)
Theorem call_leaves_text_object : forall cfg skip p fuel seqs st s, is_call s = true -> not_iter (s_obj st) ->
  s_obj (snd (step cfg skip p fuel seqs st s)) = s_obj st.
Proof. exact call_keeps_object. Qed.
Print Assumptions call_leaves_text_object.

(* ... and uses an iterator up: the next call on it sees no line (after a LexicalError for an unmatched
   character: the lines behind the line of the error) *)
Theorem iterator_used_up : forall cfg skip p fuel seqs spans ls,
  let rest := match tok_call cfg (TIter ls) with LErr ps _ false => skipn (Z.to_nat (fst ps)) ls | _ => [] end in
  s_obj (snd (step cfg skip p fuel seqs (mkSt (TIter ls) spans) STok)) = TIter rest /\
  s_obj (snd (step cfg skip p fuel seqs (mkSt (TIter ls) spans) SParse)) = TIter rest.
Proof. intros. split; [apply tok_consumes_iterator|apply parse_consumes_iterator]. Qed.
Print Assumptions iterator_used_up.

(* what a step gives depends on the state reached by the steps before it *)
Theorem session_results_by_state : forall cfg skip p fuel seqs steps1 steps2 st,
  run_steps cfg skip p fuel seqs st (steps1 ++ steps2) =
  run_steps cfg skip p fuel seqs st steps1 ++ run_steps cfg skip p fuel seqs (final_state cfg skip p fuel seqs st steps1) steps2.
Proof. exact run_steps_app. Qed.
Print Assumptions session_results_by_state.

(* a buffer of lines that stays the same object: whatever calls were made (tokenize, parse, get_orig_text of old
   results, in any number and order), its contents are what the edits made of it ... *)
Theorem buffer_after_session : forall cfg skip p fuel seqs steps ls spans,
  forallb (fun s => negb (is_rebind s)) steps = true ->
  s_obj (final_state cfg skip p fuel seqs (mkSt (TLines ls) spans) steps) = TLines (apply_edits (edits_of steps) ls).
Proof. exact lines_after_steps. Qed.
Print Assumptions buffer_after_session.

(* ... and a tokenize call made at that moment gives the tokens of THOSE contents: each token the product of pattern
   matches at exactly the reported positions of the present lines, get_orig_text(buffer) its matched characters *)
Theorem session_tokens_exact : forall c, lexicon_ok (c_lex c) ->
  forall skip p fuel seqs steps ls spans, forallb (fun s => negb (is_rebind s)) steps = true ->
  let cur := apply_edits (edits_of steps) ls in
  exists r, fst (step c skip p fuel seqs (final_state c skip p fuel seqs (mkSt (TLines ls) spans) steps) STok) = Some (RTok cur r) /\
    r <> LHang /\
    forall toks, r = LOk toks ->
      exists body q, toks = body ++ [mkTok END_TOKEN [] q q] /\
        Forall (fun t => plain_leaf (lex_matcher (c_lex c)) (cfg_span_of c) (cfg_syn c) (cfg_kw c) cur cur t \/
                         span_leaf (lex_matcher (c_lex c)) (cfg_span_of c) (cfg_syn c) cur cur t) body.
Proof.
  intros c OK skip p fuel seqs steps ls spans H cur.
  exists (cfg_tokenize c cur). split; [apply tok_after_steps; exact H|].
  pose proof (lex_matcher_ok _ OK) as Hm. pose proof (cfg_spans_ok c) as Hs.
  split; [apply tokenize_total; assumption|].
  intros toks E.
  destruct (leaf_text_l _ _ _ _ Hm Hs _ _ _ (prefix_refl_lines cur) E) as [body [q [E1 [F _]]]]. eauto.
Qed.
Print Assumptions session_tokens_exact.

(* the same for a parse call: every element of the tree it returns delimits characters of the PRESENT contents *)
Theorem session_tree_exact : forall c, lexicon_ok (c_lex c) ->
  forall skip p fuel seqs, (forall s, mem s (p_sfxs p) = true -> mem s (p_terminals p) = false) ->
  mem END_TOKEN skip = false ->
  forall steps ls spans, forallb (fun s => negb (is_rebind s)) steps = true ->
  let cur := apply_edits (edits_of steps) ls in
  exists r, fst (step c skip p fuel seqs (final_state c skip p fuel seqs (mkSt (TLines ls) spans) steps) SParse) = Some (RParse cur r) /\
    forall t, r = LOk (Ok t) -> cur <> [] ->
      forall s, subtree s t ->
        exists l0 c0 l1 c1, tree_span s = (P l0 c0, P l1 c1) /\ get_orig_text cur (tree_span s) = Ok (region cur l0 c0 l1 c1).
Proof.
  intros c OK skip p fuel seqs SF ES steps ls spans H cur.
  exists (parse_call c skip p fuel seqs (TLines cur)). split; [apply parse_after_steps; exact H|].
  pose proof (lex_matcher_ok _ OK) as Hm. pose proof (cfg_spans_ok c) as Hs.
  intros t E NE s S. unfold parse_call, tok_call in E. cbn [obj_input tok_lines] in E.
  destruct (cfg_tokenize c cur) as [toks| |] eqn:T; try discriminate.
  destruct (p_parse p fuel (drop_skipped skip toks)) as [t0|] eqn:PP; [|discriminate].
  assert (t = flatten_seq seqs t0) by congruence. subst t.
  destruct (leaf_text_l _ _ _ _ Hm Hs _ _ _ (prefix_refl_lines cur) T) as [body [q [E1 _]]].
  assert (NN : drop_skipped skip toks <> []).
  { subst toks. unfold drop_skipped. rewrite filter_app. cbn [filter].
    replace (mem (tname (end_tok q)) skip) with false by (symmetry; exact ES). cbn [negb].
    intro A. apply app_eq_nil in A. destruct A as [_ A]. discriminate. }
  unfold p_parse in PP. destruct (parse_covers _ _ _ _ SF _ _ _ NN PP) as [j C].
  apply (flatten_covers_l _ seqs) in C.
  destruct (covers_subtree _ _ _ S _ _ C) as [i' [j' [C' _]]].
  eapply node_text_l; eauto using prefix_refl_lines.
Qed.
Print Assumptions session_tree_exact.

(* get_orig_text slices the text it is GIVEN and looks at nothing but the lines from the element's start line to its
   end line: two texts that agree there give the same characters *)
Theorem orig_text_is_local : forall (a b : list line) sp,
  (forall i, (Z.to_nat (fst (fst sp) - 1) <= i <= Z.to_nat (fst (snd sp) - 1))%nat -> nth_error a i = nth_error b i) ->
  get_orig_text a sp = get_orig_text b sp.
Proof. exact get_orig_text_local. Qed.
Print Assumptions orig_text_is_local.

(* an element returned BEFORE the buffer was edited: if it ends above the line that is replaced / inserted / deleted,
   get_orig_text(edited buffer) still gives its characters; replacing a line outside its lines changes nothing either *)
Theorem stale_element_above_edit : forall e i ls sp, edit_index e = Some i ->
  (Z.to_nat (fst (snd sp) - 1) < i)%nat -> (Z.to_nat (fst (snd sp) - 1) < length ls)%nat ->
  get_orig_text (apply_edit e ls) sp = get_orig_text ls sp.
Proof. exact edit_below_keeps_text. Qed.
Print Assumptions stale_element_above_edit.

Theorem stale_element_line_replaced_elsewhere : forall i l ls sp,
  (i < Z.to_nat (fst (fst sp) - 1) \/ Z.to_nat (fst (snd sp) - 1) < i)%nat ->
  get_orig_text (apply_edit (ESet i l) ls) sp = get_orig_text ls sp.
Proof. exact set_outside_keeps_text. Qed.
Print Assumptions stale_element_line_replaced_elsewhere.

(* ------------------------------------------------------------------ the harness lexicon *)
(* the concrete matcher compared with re on every run meets the hypotheses, for every lexicon
   whose literals are non-empty and every span table *)
Theorem harness_matcher_ok : forall c, lexicon_ok (c_lex c) ->
  matcher_ok (lex_matcher (c_lex c)) /\ spans_ok (cfg_span_of c).
Proof. intros c H. split; [apply lex_matcher_ok; exact H|apply cfg_spans_ok]. Qed.
Print Assumptions harness_matcher_ok.

(* its token values are the lexemes (a quoted pattern: lexeme = quote value quote) *)
Theorem harness_value_is_lexeme : forall lx text col g e v,
  lex_matcher lx text col = Some (g, e, v) ->
  exists p, In (g, p) lx /\
    match p with
    | PQuoted q => slice text col e = q :: v ++ [q]
    | _ => slice text col e = v
    end.
Proof. exact lex_matcher_lexeme. Qed.
Print Assumptions harness_value_is_lexeme.

(* ------------------------------------------------------------------ non-vacuity, regression witnesses *)
Definition demo_cfg : lexcfg :=
  mkCfg [([83;80;65;67;69], PSpace); ([67;79;77;77;69;78;84], PEol [47;47]); ([67;77;76], PLit [47;42]);
         ([87;79;82;68], PRange 97 122); ([78;85;77], PRange 48 57); ([68;81], PQuoted 34)]
        [([67;77;76], [42;47])] [] [].

Example demo_meets_hypotheses :
  matcher_ok (lex_matcher (c_lex demo_cfg)) /\ spans_ok (cfg_span_of demo_cfg).
Proof. apply harness_matcher_ok. unfold lexicon_ok, demo_cfg, c_lex. repeat constructor; discriminate. Qed.
Print Assumptions demo_meets_hypotheses.

(* witness of the repaired defect cb4f7ca: "ab\ncd 12" -- 'cd' starts at (2,1), its text is "cd" *)
Example witness_line_start :
  let inp := IStr [97;98;10;99;100;32;49;50] in
  match cfg_tokenize demo_cfg (tok_lines inp) with
  | LOk (_ :: cd :: _) =>
      (tstart cd, tend cd) = ((2, 1), (2, 3)) /\ get_orig_text (orig_lines inp) (tstart cd, tend cd) = Ok [99;100]
  | _ => False
  end.
Proof. vm_compute. split; reflexivity. Qed.
Print Assumptions witness_line_start.

(* a span token over three lines (blank line inside, trailing blanks in the str):
   "a /* x  \n\n y */ 1" -- span ((1,3),(3,6)), text = the whole region incl. the stripped blanks *)
Example witness_multiline_span :
  let inp := IStr [97;32;47;42;32;120;32;32;10;10;32;121;32;42;47;32;49] in
  match cfg_tokenize demo_cfg (tok_lines inp) with
  | LOk (_ :: _ :: c :: _) =>
      (tstart c, tend c) = ((1, 3), (3, 6)) /\
      get_orig_text (orig_lines inp) (tstart c, tend c) = Ok [47;42;32;120;32;32;10;10;32;121;32;42;47]
  | _ => False
  end.
Proof. vm_compute. split; reflexivity. Qed.
Print Assumptions witness_multiline_span.

(* witness of the repaired defect 8a077e3: E -> A NUM; A -> WORD B; B -> WORD | eps on "ab   12":
   A = ((1,1),(1,3)) (ends at its last token), B is empty at the following token (1,6) *)
Example witness_trailing_empty_child :
  let W := [87;79;82;68] in let N := [78;85;77] in
  let ug := [([69], [[[65]; N]]); ([65], [[W; [66]]]); ([66], [[W]; []])] in
  let inp := IStr [97;98;32;32;32;49;50] in
  match build ug (cfg_terminals demo_cfg) true [69], cfg_tokenize demo_cfg (tok_lines inp) with
  | Ok p, LOk toks =>
      match p_parse p 10 (drop_skipped [[83;80;65;67;69]; [67;79;77;77;69;78;84]] toks) with
      | Ok (Node _ [Node _ [_; Node _ [] spB] spA; _] spE) =>
          spA = ((1, 1), (1, 3)) /\ spB = ((1, 6), (1, 6)) /\ spE = ((1, 1), (1, 8))
      | _ => False
      end
  | _, _ => False
  end.
Proof. vm_compute. repeat split. Qed.
Print Assumptions witness_trailing_empty_child.

(* the hypothesis of parse_spans on a grammar with a common prefix (suffix symbols exist and are
   not terminals); E -> WORD NUM | WORD on "ab 12": E = ((1,1),(1,6)) *)
Example witness_suffix_symbols :
  let W := [87;79;82;68] in let N := [78;85;77] in
  let ug := [([69], [[W; N]; [W]])] in
  match build ug (cfg_terminals demo_cfg) false [69], cfg_tokenize demo_cfg (tok_lines (IStr [97;98;32;49;50])) with
  | Ok p, LOk toks =>
      p_sfxs p <> [] /\ forallb (fun s => negb (mem s (p_terminals p))) (p_sfxs p) = true /\
      match p_parse p 10 (drop_skipped [[83;80;65;67;69]] toks) with
      | Ok (Node _ [Leaf _ _ _; Leaf _ _ _] spE) => spE = ((1, 1), (1, 6))
      | _ => False
      end
  | _, _ => False
  end.
Proof. vm_compute. repeat split. discriminate. Qed.
Print Assumptions witness_suffix_symbols.

(* a lexical error on the second line names line 2 *)
Example witness_lex_error : cfg_tokenize demo_cfg (tok_lines (IStr [97;10;98;32;64])) = LErr (2, 2) [98;32;64] false.
Proof. vm_compute. reflexivity. Qed.
Print Assumptions witness_lex_error.

(* the clone of the tree of witness_trailing_empty_child (the seeded change C04-m4 re-derived the span of a cloned
   inner node from its children): A still ends at its last token *)
Example witness_clone_trailing_empty_child :
  let W := [87;79;82;68] in let N := [78;85;77] in
  let ug := [([69], [[[65]; N]]); ([65], [[W; [66]]]); ([66], [[W]; []])] in
  let inp := IStr [97;98;32;32;32;49;50] in
  match build ug (cfg_terminals demo_cfg) true [69], cfg_tokenize demo_cfg (tok_lines inp) with
  | Ok p, LOk toks =>
      match p_parse p 10 (drop_skipped [[83;80;65;67;69]; [67;79;77;77;69;78;84]] toks) with
      | Ok t =>
          match clone t, surviving t [1%nat; 3%nat] with
          | Node _ [Node _ [_; Node _ [] spB] spA; _] spE, [Some a; Some b] =>
              spA = ((1, 1), (1, 3)) /\ spB = ((1, 6), (1, 6)) /\ spE = ((1, 1), (1, 8)) /\
              tree_span a = spA /\ tree_span b = spB /\
              get_orig_text (orig_lines inp) spA = Ok [97;98]
          | _, _ => False
          end
      | _ => False
      end
  | _, _ => False
  end.
Proof. vm_compute. repeat split. Qed.
Print Assumptions witness_clone_trailing_empty_child.

(* a ProdSequence  S = ProdSequence(WORD, NUM), i.e.  S -> (S__E, S) | (),  S__E -> (WORD,) | (NUM,),  under
   E -> (S, B), B -> (DQ,) | ():  "ab 12  " -- the flattened S holds the two items and spans "ab 12" exactly,
   the empty B sits at $END$ *)
Example witness_sequence :
  let W := [87;79;82;68] in let N := [78;85;77] in
  let S := [83] in let SE := [83;95;95;69] in
  let ug := [([69], [[S; [66]]]); (S, [[SE; S]; []]); (SE, [[W]; [N]]); ([66], [[[68;81]]; []])] in
  let inp := IStr [97;98;32;49;50;32;32] in
  match build_t ug [S; SE] (cfg_terminals demo_cfg) true [69], cfg_tokenize demo_cfg (tok_lines inp) with
  | Ok p, LOk toks =>
      match p_parse p 10 (drop_skipped [[83;80;65;67;69]; [67;79;77;77;69;78;84]] toks) with
      | Ok t =>
          match flatten_seq [S] t with
          | Node _ [Node _ [Leaf _ _ sp1; Leaf _ _ sp2] spS; Node _ [] spB] _ =>
              sp1 = ((1, 1), (1, 3)) /\ sp2 = ((1, 4), (1, 6)) /\ spS = ((1, 1), (1, 6)) /\ spB = ((1, 6), (1, 6))
          | _ => False
          end
      | _ => False
      end
  | _, _ => False
  end.
Proof. vm_compute. repeat split. Qed.
Print Assumptions witness_sequence.

(* the situation of the seeded change C04-m6: E -> WORD NUM on the buffer ["ab 12"; "cd"]; the first line is replaced
   in place by "  foo 3" and the SAME list is parsed again: the new tree spans "foo 3" ((1,3),(1,8)); the elements of
   the old tree, asked for their text in the edited buffer, give the characters between their old positions *)
Example witness_buffer_edited_in_place :
  let W := [87;79;82;68] in let N := [78;85;77] in
  let ug := [([69], [[W; N]])] in
  let skip := [[83;80;65;67;69]; [67;79;77;77;69;78;84]] in
  match build ug (cfg_terminals demo_cfg) true [69] with
  | Ok p =>
      match run_steps demo_cfg skip p 10 [] (mkSt (TLines [[97;98;32;49;50]]) [])
              [SParse; SEdit (ESet 0 [32;32;102;111;111;32;51]); SParse; SOrig 0] with
      | [RParse _ (LOk (Ok t1)); RParse ol (LOk (Ok t2)); ROrig true txs] =>
          tree_span t1 = ((1, 1), (1, 6)) /\ tree_span t2 = ((1, 3), (1, 8)) /\
          ol = [[32;32;102;111;111;32;51]] /\
          map (fun s => get_orig_text ol (tree_span s)) (preorder t2) = [Ok [102;111;111;32;51]; Ok [102;111;111]; Ok [51]] /\
          txs = [Ok [32;32;102;111;111]; Ok [32;32]; Ok [111;111]]
      | _ => False
      end
  | _ => False
  end.
Proof. vm_compute. repeat split. Qed.
Print Assumptions witness_buffer_edited_in_place.

(* an iterator handed over twice: the second call sees no line: only $END$ at (1,1); after a LexicalError on line 2
   the next call gets line 3 as its line 1 *)
Example witness_iterator_twice :
  match run_steps demo_cfg [] (mkParser [] [] [] [] (make_tables [] [] [])) 0 [] (mkSt (TIter [[97;98]; [99]]) []) [STok; STok],
        run_steps demo_cfg [] (mkParser [] [] [] [] (make_tables [] [] [])) 0 [] (mkSt (TIter [[97]; [64]; [32;98]]) []) [STok; STok] with
  | [RTok _ (LOk [a; b; e]); RTok _ (LOk [e'])], [RTok _ (LErr ps _ false); RTok ol (LOk [sp; b'; e''])] =>
      (tstart e', tend e') = ((1, 1), (1, 1)) /\ tname e' = END_TOKEN /\ fst ps = 2 /\
      ol = [[32;98]] /\ (tstart b', tend b') = ((1, 2), (1, 3))
  | _, _ => False
  end.
Proof. vm_compute. repeat split. Qed.
Print Assumptions witness_iterator_twice.

(* ------------------------------------------------------------------ round 4: magnitudes and the first character *)
(* two positions on ONE line - whatever its number, whatever the columns: get_orig_text is the slice of that line
   and has c1 - c0 characters (the seeded change C04-m7 took the several-lines branch for lines beyond 257) *)
Theorem orig_text_one_line : forall lines l c0 c1,
  (l < length lines)%nat -> (c0 <= c1)%nat -> (c1 <= length (nth l lines []))%nat ->
  get_orig_text lines (P l c0, P l c1) = Ok (slice (nth l lines []) c0 c1)
  /\ length (slice (nth l lines []) c0 c1) = (c1 - c0)%nat.
Proof. exact orig_text_one_line_l. Qed.
Print Assumptions orig_text_one_line.

(* a str is tokenized as the list of its rstrip()ped lines; every line the tokenizer sees - the first one included -
   is a PREFIX of the line get_orig_text (and the caller) sees: nothing is removed in front, columns agree
   (the seeded change C04-m8 dropped a leading U+FEFF of a str) *)
Theorem str_is_its_stripped_lines : forall s,
  tok_lines (IStr s) = tok_lines (ILines (map rstrip (split_nl s)))
  /\ Forall2 prefix_of (tok_lines (IStr s)) (orig_lines (IStr s))
  /\ exists l0 rest, split_nl s = l0 :: rest /\ tok_lines (IStr s) = rstrip l0 :: map rstrip rest.
Proof. exact str_is_its_stripped_lines_l. Qed.
Print Assumptions str_is_its_stripped_lines.

(* 299 empty lines, then " ab 12": the leaves of line 300 *)
Example witness_line_300 :
  let inp := IStr (repeat 10 299 ++ [32;97;98;32;49;50]) in
  match cfg_tokenize demo_cfg (tok_lines inp) with
  | LOk [_; ab; _; n; e] =>
      (tstart ab, tend ab) = ((300, 2), (300, 4)) /\ get_orig_text (orig_lines inp) (tstart ab, tend ab) = Ok [97;98]
      /\ (tstart n, tend n) = ((300, 5), (300, 7)) /\ get_orig_text (orig_lines inp) (tstart n, tend n) = Ok [49;50]
  | _ => False
  end.
Proof. vm_compute. repeat split; reflexivity. Qed.
Print Assumptions witness_line_300.

(* 299 blanks, then "ab": columns 300..302 *)
Example witness_column_300 :
  let inp := ILines [repeat 32 299 ++ [97;98]] in
  match cfg_tokenize demo_cfg (tok_lines inp) with
  | LOk [_; ab; e] =>
      (tstart ab, tend ab) = ((1, 300), (1, 302)) /\ get_orig_text (orig_lines inp) (tstart ab, tend ab) = Ok [97;98]
  | _ => False
  end.
Proof. vm_compute. repeat split; reflexivity. Qed.
Print Assumptions witness_column_300.

(* U+FEFF in front of "ab".  No pattern matches it: LexicalError on line 1 (0-based column 0), for the str and for the
   list of lines alike.  A pattern matches it (uni_cfg: [U+0080-U+FFFD]+): it is a token at (1,1)..(1,2) and 'ab' sits
   at (1,2)..(1,4), where the caller's text has it *)
Definition uni_cfg : lexcfg :=
  mkCfg [([83;80;65;67;69], PSpace); ([85;78;73], PRange 128 65533); ([87;79;82;68], PRange 97 122)] [] [] [].

Example witness_leading_bom :
  cfg_tokenize demo_cfg (tok_lines (IStr [65279;97;98])) = LErr (1, 0) [65279;97;98] false
  /\ cfg_tokenize demo_cfg (tok_lines (ILines [[65279;97;98]])) = LErr (1, 0) [65279;97;98] false
  /\ match cfg_tokenize uni_cfg (tok_lines (IStr [65279;97;98])) with
     | LOk [b; ab; _] => (tstart b, tend b) = ((1, 1), (1, 2)) /\ (tstart ab, tend ab) = ((1, 2), (1, 4))
         /\ get_orig_text (orig_lines (IStr [65279;97;98])) (tstart ab, tend ab) = Ok [97;98]
     | _ => False
     end.
Proof. vm_compute. repeat split; reflexivity. Qed.
Print Assumptions witness_leading_bom.
