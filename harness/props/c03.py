"""C03  Left-recursive grammars are rejected; accepted grammars always terminate (ak/llparser.py)"""
import itertools
import random
import signal

from harness.lib import sx as SX
from harness.props import llp_common as L

ID = "C03"
COQ_DIR = "C03"
EXTRA_COQ_DIRS = ["LLP"]
RUN_MOD = "C03.Run"
MODEL_TARGETS = ["C03/Run.vo"]
PROOF_TARGETS = ["C03/LemmasRC.vo", "C03/LemmasParse.vo", "C03/LemmasTerm.vo", "C03/LemmasInst.vo", "C03/LemmasNull.vo"]
PROPS = ["C03/Props.v"]
ALLOWED_AXIOMS = []
IMPL_TIMEOUT = 60.0        # whole case (a batch of up to SWEEP_CHUNK grammars); constructor and parses have their own budgets
CTOR_BUDGET = 2.0          # seconds for one constructor call (normal: < 5 ms)
PARSE_BUDGET = 0.4         # seconds for one parse of a <= 3 token input of a swept grammar (normal: < 1 ms)
PARSE_BUDGET_FULL = 1.0    # seconds for one parse of a random larger grammar (normal: < 10 ms)
CONFIRM_BUDGET = 1.5       # a parse that blew its budget is run once more with this budget before it counts as Hang
MAX_HANGS = 2              # per case: after that many confirmed hangs the remaining parses are not run
COQ_SHARD = 24
SWEEP_CHUNK = 20000
MODEL_PER_CHUNK = 40       # grammars of every sweep chunk that also go through the Coq model

RULE = ("(1) sweep: every grammar of the classes 2x2 (non-terminals A,B, terminals a,b, 1-2 ORDERED alternatives of "
        "length <= 2: 441^2 grammars) and 3x1 (non-terminals A,B,C, terminal a, 1-2 alternatives of length <= 2 as "
        "sets, the order of the two alternatives alternating with the index: 231^3 grammars), each with every start "
        "symbol; both classes are closed under renaming of the non-terminals, so every grammar shape occurs under "
        "every assignment of the names A<B<C (all 2 / 6 permutations); thorough = the whole classes, quick = a random "
        "sample of indices; constructor outcome of every grammar, and for the accepted ones parse of every terminal "
        "string of length <= 2 (2x2) / <= 3 (3x1) under a wall budget.  (2) random larger grammars: a cycle of 1-4 "
        "non-terminals whose links sit behind 0-3 nullable symbols (direct, chained and nested nullables), broken in "
        "about half of the cases by a terminal or a non-nullable symbol in a prefix, plus unrelated productions, "
        "names drawn at random from a pool that mixes early and late letters; and the C01 generator with 25% "
        "left-recursive choices; up to 8 inputs each (sentences, mutated sentences, random strings).  "
        "Non-trivial = a left-recursive grammar whose every cycle needs a nullable prefix, or an accepted grammar "
        "with a nullable symbol of which at least one input was parsed to a tree.")
TRUSTED_BASE = [
    "tokenisation is outside this model: the model's parse receives the generator's token list; the implementation "
    "tokenises the rendered text (tokenizer covered by C04)",
    "GrammarError checks of _verify_grammar_structure_part1 (unknown symbols, terminals with productions, $END$/$START$ "
    "used by the user) are outside the model; the theorems assume their outcome as hypotheses (every production symbol "
    "is a terminal or has productions, terminals have none); generated grammars never trigger them",
    "a parse that does not return within the wall budget (0.4 s for the swept grammars / 1 s for the larger ones, confirmed "
    "once with 1.5 s; constructor: 2 s) is taken for a hang; normal parses of the generated inputs take < 10 ms",
]
ASSUMPTIONS = ["grammars use plain productions (templates are C05's subject)"]
MODELLED = ("ak/llparser.py: LLParser._verify_grammar_structure_part2 (lines 1876-1950) as LLP/RecCheck.v; the main loop of "
            "parse (1679-1800) as LLP/Parse.v; _get_nullables as LLP/Table.v:nullables; constructor pipeline as LLP/Build.v")


# ------------------------------------------------------------------ sweep classes
def _alt_lists(symbols, ordered):
    prods = [()] + [(s,) for s in symbols] + [(s, t) for s in symbols for t in symbols]
    out = [[p] for p in prods]
    if ordered:
        out += [[p, q] for p in prods for q in prods if p != q]
    else:
        k = 0
        for i, p in enumerate(prods):
            for q in prods[i + 1:]:
                out.append([p, q] if k % 2 == 0 else [q, p])
                k += 1
    return out


class SweepClass:
    def __init__(self, name, nts, terms, ordered, max_input):
        self.name, self.nts, self.terms = name, nts, terms
        self.alts = _alt_lists(nts + terms, ordered)
        self.m = len(self.alts)
        self.size = self.m ** len(nts) * len(nts)
        self.perms = list(itertools.permutations(range(len(nts))))
        self.inputs = [list(t) for n in range(max_input + 1) for t in itertools.product(terms, repeat=n)]

    def grammar(self, idx):
        """index -> (productions in dict insertion order, start, smart)"""
        n = len(self.nts)
        h = (idx * 2654435761 + 12345) >> 5
        start = self.nts[idx % n]
        r = idx // n
        digs = []
        for _ in range(n):
            digs.append(r % self.m)
            r //= self.m
        digs.reverse()
        perm = self.perms[h % len(self.perms)]
        prods = [[self.nts[i], [list(a) for a in self.alts[digs[i]]]] for i in perm]
        return prods, start, bool((h >> 9) & 1)


CLASSES = {
    "2x2": SweepClass("2x2", ["A", "B"], ["a", "b"], True, 2),
    "3x1": SweepClass("3x1", ["A", "B", "C"], ["a"], False, 3),
}


def _chunk_indices(case):
    if "idx" in case:
        return case["idx"]
    return range(case["lo"], case["hi"])


def _model_sample(case):
    """positions (within the chunk) of the grammars that also go through the Coq model"""
    n = len(_chunk_indices(case))
    if n <= MODEL_PER_CHUNK:
        return list(range(n))
    rng = random.Random(case.get("lo", 0) * 7919 + n)
    return sorted(rng.sample(range(n), MODEL_PER_CHUNK))


# ------------------------------------------------------------------ random larger grammars
NAME_POOL = (["A", "B", "C", "D", "E", "F", "G", "H", "M", "N", "P", "Q", "S", "T", "U", "V", "W", "X", "Y", "Z"]
             + ["AA", "AZ", "BA", "ZA", "ZZ", "E1", "E2", "Q_R", "K9", "Lx"])


def gen_hidden(rng):
    """a would-be cycle C0 -> pre0 C1 .., C1 -> pre1 C2 .., ..., Ck-1 -> pre C0 .. whose prefixes consist of
    nullable symbols; sometimes broken; names in random order relative to each other"""
    n_cyc = rng.randint(1, 4)
    n_nul = rng.randint(1, 4)
    n_oth = rng.randint(0, 2)
    n_t = rng.randint(2, 4)
    names = rng.sample(NAME_POOL, n_cyc + n_nul + n_oth)
    cyc, nul, oth = names[:n_cyc], names[n_cyc:n_cyc + n_nul], names[n_cyc + n_nul:]
    terms = list(L.T_NAMES[:n_t])
    prods = {}
    # nullable symbols: eps alternative, or a sequence of other nullables (chained), plus non-empty alternatives
    for i, nm in enumerate(nul):
        alts = []
        if i == 0 or rng.random() < 0.6:
            alts.append([])
        else:
            alts.append([rng.choice(nul[:i]) for _ in range(rng.randint(1, 2))])
        for _ in range(rng.randint(0, 2)):
            alts.append([rng.choice(terms)] + [rng.choice(terms + nul[:i] + oth) for _ in range(rng.randint(0, 2))])
        rng.shuffle(alts)
        prods[nm] = alts
    for nm in oth:
        alts = []
        for _ in range(rng.randint(1, 2)):
            alts.append([rng.choice(terms)] + [rng.choice(terms + nul + oth + cyc) for _ in range(rng.randint(0, 2))])
        prods[nm] = alts
    broken = rng.random() < 0.45
    brk = rng.randrange(n_cyc) if broken else -1
    for i, nm in enumerate(cyc):
        nxt = cyc[(i + 1) % n_cyc]
        pre = [rng.choice(nul) for _ in range(rng.randint(0, 3))]
        if i == brk:
            how = rng.random()
            if how < 0.4 or not oth:
                pre.insert(rng.randint(0, len(pre)), rng.choice(terms))
            elif how < 0.8:
                pre.insert(rng.randint(0, len(pre)), rng.choice(oth))
            else:
                pre = [rng.choice(terms)]
        post = [rng.choice(terms + nul + oth) for _ in range(rng.randint(0, 2))]
        rec_alt = pre + [nxt] + post
        alts = [rec_alt]
        # an exit so that sentences exist
        for _ in range(rng.randint(1, 2)):
            alts.append([rng.choice(terms)] + [rng.choice(terms + nul + oth) for _ in range(rng.randint(0, 1))])
        if rng.random() < 0.3:
            alts.append([rng.choice(nul)] + [rng.choice(terms)])
        rng.shuffle(alts)
        # no exact duplicates (the factorization asserts on them in rare shapes; not this property's subject)
        seen, uniq = set(), []
        for a in alts:
            if tuple(a) not in seen:
                seen.add(tuple(a))
                uniq.append(a)
        prods[nm] = uniq
    order = list(prods)
    rng.shuffle(order)
    start = rng.choice(cyc + oth) if rng.random() < 0.8 else rng.choice(order)
    return {"nts": order, "terms": terms, "prods": [[nt, prods[nt]] for nt in order], "start": start,
            "smart": rng.random() < 0.5}


def gen_sentence(rng, g, budget=120, max_len=8):
    """random derivation with a budget of expansions (llp_common.gen_sentence is exponential on
    left-recursive / nullable loops); out of budget -> shortest alternatives, then give up"""
    prods = dict((nt, alts) for nt, alts in g["prods"])
    out = []
    left = [budget]

    def expand(sym, depth):
        if len(out) > max_len or left[0] < -3 * budget or depth > 60:
            return
        if sym not in prods:
            out.append(sym)
            return
        left[0] -= 1
        alts = prods[sym]
        if left[0] < 0 or depth > 12:
            alts = sorted(alts, key=len)[:1]
        for s in rng.choice(alts):
            expand(s, depth + 1)
    expand(g["start"], 0)
    return out[:max_len]


def gen_inputs(rng, g, n):
    terms = g["terms"]
    seen, out = set(), []
    for _ in range(n):
        r = rng.random()
        if r < 0.55:
            s = gen_sentence(rng, g)
        elif r < 0.8:
            s = gen_sentence(rng, g)
            if s and rng.random() < 0.5:
                s[rng.randrange(len(s))] = rng.choice(terms)
            elif s and rng.random() < 0.5:
                del s[rng.randrange(len(s))]
            else:
                s.insert(rng.randint(0, len(s)), rng.choice(terms))
        else:
            s = [rng.choice(terms) for _ in range(rng.randint(0, 6))]
        inp = [[t, t + (str(rng.randint(0, 99)) if rng.random() < 0.4 else "")] for t in s]
        k = tuple(map(tuple, inp))
        if k not in seen:
            seen.add(k)
            out.append(inp)
    return out


def _full_case(rng, g, n_inputs):
    return {"k": "full", "g": g, "inputs": gen_inputs(rng, g, n_inputs)}


def gen_cases(rng, tier):
    big = tier == "thorough"
    cases = []
    # (1) sweep
    if big:
        for cname, cls in CLASSES.items():
            for lo in range(0, cls.size, SWEEP_CHUNK):
                cases.append({"k": "sweep", "cls": cname, "lo": lo, "hi": min(cls.size, lo + SWEEP_CHUNK)})
    else:
        for cname, n_chunks, per in (("2x2", 6, 5000), ("3x1", 20, 5000)):
            cls = CLASSES[cname]
            for _ in range(n_chunks):
                cases.append({"k": "sweep", "cls": cname, "idx": sorted(rng.randrange(cls.size) for _ in range(per))})
    # (2) random larger grammars
    for _ in range(6000 if big else 500):
        cases.append(_full_case(rng, gen_hidden(rng), 8))
    for _ in range(2000 if big else 150):
        cases.append(_full_case(rng, L.gen_grammar(rng, allow_leftrec=0.25), 8))
    # the implementation runner cuts the case list into consecutive shards: spread the (expensive) sweep chunks
    rng.shuffle(cases)
    return cases


def search_cases(rng, tier):
    cases = []
    for cname in CLASSES:
        cls = CLASSES[cname]
        for _ in range(10):
            cases.append({"k": "sweep", "cls": cname, "idx": sorted(rng.randrange(cls.size) for _ in range(4000))})
    for _ in range(1500):
        cases.append(_full_case(rng, gen_hidden(rng), 6))
    return cases


# ------------------------------------------------------------------ independent reference
def _prods_dict(prods):
    return {nt: [list(a) for a in alts] for nt, alts in prods}


def _has_duplicates(prods):
    return any(len(set(map(tuple, alts))) != len(alts) for _nt, alts in prods)


def ref_hidden_only(prods):
    """left-recursive, but not through first symbols alone: every cycle needs a nullable prefix"""
    if not L.ref_left_recursive(prods):
        return False
    first_only = {nt: [a[:1] for a in alts] for nt, alts in prods.items()}
    # with only the first symbol of every alternative kept no nullable prefix can be skipped ...
    # (a kept first symbol may itself be nullable, but nothing stands behind it any more)
    return not L.ref_left_recursive(first_only)


# ------------------------------------------------------------------ implementation side
def _is_hang(e):
    return type(e).__name__ == "Hang"


def _timed_parse(p, llparser, text, budget):
    """-> ('ok', tree) | ('err', name) ; name 'Hang' when the budget (and the confirmation budget) was blown"""
    for attempt, b in enumerate((budget, CONFIRM_BUDGET)):
        signal.setitimer(signal.ITIMER_REAL, b)
        try:
            try:
                t = p.parse(text, do_cleanup=False)
            finally:
                signal.setitimer(signal.ITIMER_REAL, 0)
            return "ok", t
        except llparser.Error as e:
            return "err", SX.exc_name(e)
        except BaseException as e:  # noqa
            if _is_hang(e) or isinstance(e, (MemoryError, RecursionError)):
                if attempt == 0 and _is_hang(e):
                    continue
                return "err", "Hang"
            return "err", SX.exc_name(e)
    return "err", "Hang"


def _ctor(llparser, terms, prods, start, smart):
    pd = {nt: [tuple(a) if a else None for a in alts] for nt, alts in prods}
    signal.setitimer(signal.ITIMER_REAL, CTOR_BUDGET)
    try:
        try:
            return llparser.LLParser(L.tokenizer_str(terms), productions=pd, start_symbol_name=start,
                                     smart_factorization=smart), None
        finally:
            signal.setitimer(signal.ITIMER_REAL, 0)
    except BaseException as e:  # noqa
        if _is_hang(e) or isinstance(e, MemoryError):
            return None, "Hang"
        return None, SX.exc_name(e)


def impl_run(case):
    from ak import llparser
    if case["k"] == "sweep":
        cls = CLASSES[case["cls"]]
        out, ref, hangs, n_parsed, n_trees, ctor_hangs = [], [], [], 0, 0, 0
        for idx in _chunk_indices(case):
            prods, start, smart = cls.grammar(idx)
            ref.append("1" if L.ref_left_recursive(_prods_dict(prods)) else "0")
            if ctor_hangs >= MAX_HANGS:
                out.append("?")          # not run: the constructor hung MAX_HANGS times in this chunk already
                continue
            p, err = _ctor(llparser, cls.terms, prods, start, smart)
            if p is None:
                out.append("R" if err == "GrammarIsRecursive" else "H" if err == "Hang" else "E")
                ctor_hangs += err == "Hang"
                continue
            out.append(".")
            if len(hangs) >= MAX_HANGS:
                continue
            for inp in cls.inputs:
                r = _timed_parse(p, llparser, " ".join(inp), PARSE_BUDGET)
                n_parsed += 1
                if r[0] == "ok":
                    n_trees += 1
                elif r[1] == "Hang":
                    hangs.append([idx, inp])
                    break
                elif r[1] != "ParsingError":
                    hangs.append([idx, inp, r[1]])
                    break
        return {"out": "".join(out), "ref": "".join(ref), "hangs": hangs, "parsed": n_parsed, "trees": n_trees}
    g = case["g"]
    p, err = _ctor(llparser, g["terms"], g["prods"], g["start"], g["smart"])
    if p is None:
        return {"ctor": ["err", err]}
    res = {"ctor": ["ok"], "amb": bool(p.is_ambiguous()), "res": []}
    for inp in case["inputs"]:
        if "hang_at" in res:
            res["res"].append(["err", "NotRun"])
            continue
        r = _timed_parse(p, llparser, " ".join(v for _, v in inp), PARSE_BUDGET_FULL)
        if r[0] == "ok":
            res["res"].append(["ok", L.tree_obs(r[1])])
        else:
            res["res"].append(["err", r[1]])
            if r[1] == "Hang":
                res["hang_at"] = len(res["res"]) - 1
    return res


# ------------------------------------------------------------------ model side
def _coq_ug(prods):
    return SX.clist(
        "(" + L.coq_sym(nt) + ", " + SX.clist(SX.clist(L.coq_sym(s) for s in alt) if alt else "(@nil (list Z))" for alt in alts) + ")"
        for nt, alts in prods)


def coq_case(case, obs):
    if case["k"] == "sweep":
        cls = CLASSES[case["cls"]]
        idxs = list(_chunk_indices(case))
        items = []
        for pos in _model_sample(case):
            prods, start, smart = cls.grammar(idxs[pos])
            items.append(f"({_coq_ug(prods)}, {SX.cbool(smart)}, {L.coq_sym(start)})")
        return f"Ctors {SX.clist(L.coq_sym(t) for t in cls.terms)} {SX.clist(items)}"
    return L.coq_case(case, obs)


_OUT_CODE = {".": 0, "R": SX.ERR_CODES["GrammarIsRecursive"], "E": SX.ERR_OTHER, "H": SX.ERR_CODES["Hang"], "?": 98}


def expected_sx(case, obs):
    if "__hang__" in obs:        # the worker died / the whole case blew IMPL_TIMEOUT
        if case["k"] == "sweep":
            return SX.dumps([SX.ERR_CODES["Hang"] for _ in _model_sample(case)])
        return SX.dumps(SX.err("Hang") + [True])
    if case["k"] == "sweep":
        return SX.dumps([_OUT_CODE[obs["out"][pos]] for pos in _model_sample(case)])
    # the third field is the model's evaluation of the theorems' hypotheses (part1_okb) on the factorized
    # grammar: expected to hold on every generated grammar
    if obs["ctor"][0] == "err":
        return SX.dumps(SX.err(obs["ctor"][1]) + [True])
    res = []
    for r in obs["res"]:
        res.append(SX.ok(L.tree_sx(r[1])) if r[0] == "ok" else SX.err(r[1]))
    return SX.dumps([0, obs["amb"], True, res])


# ------------------------------------------------------------------ oracle (the statement, independently of the model)
STATS = {"swept": 0, "swept_leftrec": 0, "swept_accepted": 0, "swept_parses": 0, "swept_trees": 0,
         "full_leftrec": 0, "full_hidden": 0, "full_accepted": 0}


def oracle(case, obs):
    if "__hang__" in obs:
        return [("ctor-hang", "the constructor (or the whole batch) did not return within the budget")]
    out = []
    if case["k"] == "sweep":
        cls = CLASSES[case["cls"]]
        idxs = list(_chunk_indices(case))
        o, ref = obs["out"], obs["ref"]
        STATS["swept"] += len(idxs)
        STATS["swept_leftrec"] += ref.count("1")
        STATS["swept_accepted"] += o.count(".")
        STATS["swept_parses"] += obs["parsed"]
        STATS["swept_trees"] += obs["trees"]
        # the reference was evaluated beside the implementation (in the worker); re-evaluate a sample of it here
        for pos in _model_sample(case):
            prods, _s, _m = cls.grammar(idxs[pos])
            if ("1" if L.ref_left_recursive(_prods_dict(prods)) else "0") != ref[pos]:
                raise RuntimeError("harness error: reference left-recursion differs between worker and parent")
        want = ref.replace("1", "R").replace("0", ".")
        if want != o:
            for pos, (w, got) in enumerate(zip(want, o)):
                if w != got and got != "?":
                    prods, start, smart = cls.grammar(idxs[pos])
                    desc = f"class {cls.name} index {idxs[pos]}: productions {prods} start {start} smart={smart}"
                    if w == "R" and got == ".":
                        out.append(("leftrec-accepted", desc + ": left-recursive, but the constructor accepted it"))
                    elif w == "." and got == "R":
                        out.append(("spurious-recursive", desc + ": not left-recursive, but GrammarIsRecursive was raised"))
                    elif got == "H":
                        out.append(("ctor-hang", desc + ": the constructor did not return"))
                    elif w == "R":
                        # the swept classes have no duplicated alternatives, nothing else makes the constructor fail
                        out.append(("leftrec-other-error", desc + ": left-recursive, but the constructor raised "
                                                                  "another error than GrammarIsRecursive"))
                    if len(out) >= 3:
                        break
        for h in obs["hangs"]:
            prods, start, smart = cls.grammar(h[0])
            what = "did not return" if len(h) == 2 else f"raised {h[2]}"
            sig = "parse-hang" if len(h) == 2 else "parse-error-type"
            out.append((sig, f"class {cls.name} index {h[0]}: productions {prods} start {start} smart={smart}: "
                             f"accepted, but parse of {' '.join(h[1])!r} {what}"))
        return out[:4]
    g = case["g"]
    prods = _prods_dict(g["prods"])
    rec = L.ref_left_recursive(prods)
    desc = f"productions {g['prods']} start {g['start']} smart={g['smart']}"
    if obs["ctor"][0] == "ok":
        STATS["full_accepted"] += 1
        if rec:
            out.append(("leftrec-accepted", desc + ": left-recursive, but the constructor accepted it"))
        for inp, r in zip(case["inputs"], obs["res"]):
            if r == ["err", "Hang"]:
                out.append(("parse-hang", desc + f": accepted, but parse of {' '.join(v for _, v in inp)!r} did not return"))
            elif r[0] == "err" and r[1] not in ("ParsingError", "NotRun"):
                out.append(("parse-error-type", desc + f": parse of {' '.join(v for _, v in inp)!r} raised {r[1]}"))
    else:
        if rec:
            STATS["full_leftrec"] += 1
            if ref_hidden_only(prods):
                STATS["full_hidden"] += 1
        if obs["ctor"][1] == "GrammarIsRecursive" and not rec:
            out.append(("spurious-recursive", desc + ": not left-recursive, but GrammarIsRecursive was raised"))
        elif obs["ctor"][1] == "Hang":
            out.append(("ctor-hang", desc + ": the constructor did not return"))
        elif obs["ctor"][1] != "GrammarIsRecursive" and rec and not _has_duplicates(g["prods"]):
            # (a grammar with a duplicated alternative is rejected by an assertion of the factorization before
            # the recursion check runs; that is outside the statement)
            out.append(("leftrec-other-error", desc + f": left-recursive, but the constructor raised {obs['ctor'][1]}"))
    return out[:3]


def extra_coverage():
    return {"c03_counts": dict(STATS)}


def kind(case):
    if case["k"] == "sweep":
        return "sweep:" + case["cls"]
    prods = _prods_dict(case["g"]["prods"])
    rec = L.ref_left_recursive(prods)
    return f"full:leftrec={int(rec)} hidden={int(rec and ref_hidden_only(prods))} nullable={int(bool(L.ref_nullable(prods)))}"


def nontrivial(case, obs):
    if "__hang__" in obs:
        return False
    if case["k"] == "sweep":
        return "R" in obs["out"] and "." in obs["out"] and obs["trees"] > 0
    prods = _prods_dict(case["g"]["prods"])
    if obs["ctor"][0] != "ok":
        return ref_hidden_only(prods)
    return bool(L.ref_nullable(prods)) and any(r[0] == "ok" for r in obs["res"])


def outcome(case, obs):
    if "__hang__" in obs:
        return "hang"
    if case["k"] == "sweep":
        return "sweep"
    if obs["ctor"][0] != "ok":
        return "ctor:" + obs["ctor"][1]
    if any(r == ["err", "Hang"] for r in obs["res"]):
        return "ctor:ok parse:Hang"
    return "ctor:ok parsed=" + ("some" if any(r[0] == "ok" for r in obs["res"]) else "none")


def shrink_candidates(case):
    if case["k"] == "sweep":
        idxs = list(_chunk_indices(case))
        if len(idxs) > 1:
            half = len(idxs) // 2
            yield {"k": "sweep", "cls": case["cls"], "idx": idxs[:half]}
            yield {"k": "sweep", "cls": case["cls"], "idx": idxs[half:]}
        return
    g = case["g"]
    if len(case["inputs"]) > 1:
        for i in range(len(case["inputs"])):
            yield {"k": "full", "g": g, "inputs": [case["inputs"][i]]}
    for i, (nt, alts) in enumerate(g["prods"]):
        if len(alts) > 1:
            for j in range(len(alts)):
                g2 = dict(g)
                g2["prods"] = [list(x) for x in g["prods"]]
                g2["prods"][i] = [nt, alts[:j] + alts[j + 1:]]
                yield {"k": "full", "g": g2, "inputs": case["inputs"]}


TECHNIQUE = ("Coq proof (DFS invariant + potential function for the explicit-stack recursion check; stack invariant, spine "
             "bound and a base-B numeral measure for the parse loop) over hand-written Gallina models + per-run "
             "correspondence (vm_compute vs implementation) + exhaustive small-grammar sweep against an independent "
             "cycle detection")
LEVEL_TEXT = ("Full on the models, relative to the factorized grammar fg. First sentence: reccheck_sound, reccheck_complete, "
              "reccheck_total, reccheck_exact are proved for EVERY visiting order (the order is a universally quantified "
              "list that contains the keys, so every assignment of names) and every exact nullable list; nullables_exact "
              "proves the model of _get_nullables exact; rec_check_exact / build_exact: the constructor raises "
              "GrammarIsRecursive iff fg is left-recursive (inductive definition: a cycle of A |> B, A -> pre B post with "
              "pre nullable) and returns a parser iff it is not; the step budget of the model's loop is proved sufficient. "
              "Second sentence: spine_bound (stack elements starting at the same token position form a |> path, at most "
              "#keys+1 of them), stack_depth_bound, parse_terminates (explicit bound: 2^k iterations with k <= B^(D+1)), "
              "accepted_parse_terminates (build = Ok p -> every input: no Hang). NOT proved, tested only: that fg is "
              "left-recursive iff the user's grammar is (the oracle decides left recursion on the USER's productions with "
              "an independent algorithm; thorough tier: all 37.4 million grammars of the two swept classes, i.e. every "
              "shape under every name permutation; quick: 130 000 sampled + 650 random larger grammars with hidden "
              "cycles); the hypotheses part1_ok (outcome of _verify_grammar_structure_part1, outside the model) are "
              "evaluated by the model on every generated grammar; template productions are outside the model.")
LEVEL_NOTE = ("Trusted: Coq kernel + vm_compute; fidelity of the hand-written models LLP/RecCheck.v, Table.v:nullables, "
              "Parse.v, Build.v (checked on every run by the correspondence: constructor outcome of every case, "
              "is_ambiguous, parse trees / error classes / Hang of the random cases); part1 checks and tokenizer outside "
              "the model; a wall budget (0.4 s / 1 s, confirmed with 1.5 s; constructor 2 s) stands for 'does not "
              "return' on the implementation side.  Print Assumptions: closed under the global context for every theorem.")
DESIGN_REF = "DESIGN.md section 8, C03"
