(* C14/LemWorld.v -- the module state (C14/World.v): whenever the API calls return, every
   synced palette carries the current formatters of the global configuration, and every
   configuration object is the result of a registration history (so the theorems about
   histories - resolve_correct, order_independent, ... - speak about it). *)
From Coq Require Import ZArith List Bool Arith Lia.
From AK Require Import Common.Sx Common.Err C14.Model C14.World C14.LemBase C14.LemLoop C14.LemHist C14.Lemmas.
Import ListNotations.
Open Scope Z_scope.

(* ------------------------------------------------------------------ lists *)
Lemma set_nth_length {A} (x : A) : forall l n, length (set_nth n x l) = length l.
Proof. induction l as [|y l IH]; intros [|n]; cbn; auto. Qed.

Lemma nth_error_set_nth_neq {A} (x : A) : forall l n j, n <> j -> nth_error (set_nth n x l) j = nth_error l j.
Proof.
  induction l as [|y l IH]; intros [|n] [|j] H; cbn; auto; try congruence.
Qed.

Lemma nth_error_set_nth_eq {A} (x : A) : forall l n y, nth_error l n = Some y -> nth_error (set_nth n x l) n = Some x.
Proof. induction l as [|z l IH]; intros [|n] y H; cbn in *; try discriminate; eauto. Qed.

Lemma nth_error_set_nth {A} (x : A) l n j y :
  nth_error (set_nth n x l) j = Some y -> (n = j /\ y = x) \/ (n <> j /\ nth_error l j = Some y).
Proof.
  destruct (Nat.eq_dec n j) as [->|N].
  - destruct (nth_error l j) as [z|] eqn:E.
    + rewrite (nth_error_set_nth_eq x l j z E). intros H. left. split; congruence.
    + intros H. exfalso. apply nth_error_None in E.
      assert (nth_error (set_nth j x l) j = None) as E'.
      { apply nth_error_None. rewrite set_nth_length. exact E. }
      congruence.
  - rewrite nth_error_set_nth_neq by exact N. auto.
Qed.

Lemma map_set_nth_same {A B} (f : A -> B) (x : A) : forall l n y,
  nth_error l n = Some y -> f x = f y -> map f (set_nth n x l) = map f l.
Proof.
  induction l as [|z l IH]; intros [|n] y H E; cbn in *; try discriminate.
  - inversion H; subst. rewrite E. reflexivity.
  - f_equal. eapply IH; eauto.
Qed.

Lemma nth_error_snoc {A} (l : list A) x j y :
  nth_error (l ++ [x]) j = Some y -> nth_error l j = Some y \/ (j = length l /\ y = x).
Proof.
  destruct (lt_dec j (length l)) as [L|L].
  - rewrite nth_error_app1 by exact L. auto.
  - rewrite nth_error_app2 by lia. destruct (j - length l)%nat as [|d] eqn:E; cbn.
    + intros H. right. split; [lia|congruence].
    + destruct d; discriminate.
Qed.

Lemma nth_error_snoc_old {A} (l : list A) x j y : nth_error l j = Some y -> nth_error (l ++ [x]) j = Some y.
Proof.
  intros H. rewrite nth_error_app1; [exact H|]. apply nth_error_Some. congruence.
Qed.

(* ------------------------------------------------------------------ any_modif *)
Lemma list_eqb_eq {A} (eqb : A -> A -> bool) :
  (forall a b, eqb a b = true -> a = b) -> forall l1 l2, list_eqb eqb l1 l2 = true -> l1 = l2.
Proof.
  intros H. induction l1 as [|x l1 IH]; intros [|y l2] E; cbn in E; try discriminate; [reflexivity|].
  apply andb_true_iff in E as [E1 E2]. f_equal; auto.
Qed.

Lemma ofmt_eqb_eq a b : ofmt_eqb a b = true -> a = b.
Proof.
  destruct a as [x|], b as [y|]; cbn; try discriminate; auto.
  intros E. f_equal. revert E. apply list_eqb_eq. intros s t. apply str_eqb_eq.
Qed.

Lemma any_modif_false m m' : any_modif m m' = false -> fmts m = fmts m'.
Proof.
  unfold any_modif. intros E. apply negb_false_iff in E. revert E. apply list_eqb_eq.
  intros [k1 f1] [k2 f2]. cbn [fst snd]. intros E. apply andb_true_iff in E as [E1 E2].
  apply str_eqb_eq in E1. apply ofmt_eqb_eq in E2. congruence.
Qed.

Lemma lookup_fmts id : forall m, lookup id (fmts m) = option_map e_fmt (lookup id m).
Proof.
  induction m as [|[k e] m IH]; cbn; [reflexivity|]. destruct (str_eqb id k); [reflexivity|exact IH].
Qed.

Lemma get_color_fmts c c' id : fmts (c_map c) = fmts (c_map c') -> get_color c id = get_color c' id.
Proof.
  intros E. unfold get_color.
  pose proof (lookup_fmts id (c_map c)) as H1. pose proof (lookup_fmts id (c_map c')) as H2.
  pose proof (lookup_fmts dflt_id (c_map c)) as D1. pose proof (lookup_fmts dflt_id (c_map c')) as D2.
  rewrite E in H1, D1. rewrite H1 in H2. rewrite D1 in D2.
  destruct (lookup id (c_map c)) as [e|], (lookup id (c_map c')) as [e'|]; cbn in H2; try discriminate.
  - inversion H2 as [H3]. rewrite H3. reflexivity.
  - destruct (lookup dflt_id (c_map c)) as [e|], (lookup dflt_id (c_map c')) as [e'|]; cbn in D2; try discriminate.
    + inversion D2 as [H3]. rewrite H3. reflexivity.
    + reflexivity.
Qed.

(* ------------------------------------------------------------------ the invariants *)
(* the synced palette sp carries the current formatters of the global configuration *)
Definition cur1 (w : world) (sp : spal) : Prop :=
  exists pc wc, nth_error (w_classes w) (sp_cls sp) = Some pc /\
                nth_error (w_confs w) (w_global w) = Some wc /\
                sp_attrs sp = map (get_color (wc_conf wc)) (pc_acc pc) /\
                sp_ptr sp = w_global w.

Definition cur_upto (n : nat) (w : world) : Prop :=
  forall j sp, (j < n)%nat -> nth_error (w_synced w) j = Some sp -> cur1 w sp.

Definition current (w : world) : Prop :=
  forall j sp, nth_error (w_synced w) j = Some sp -> cur1 w sp.

(* a configuration object is what a history of registration batches / get_palette calls
   makes of an empty one *)
Definition reachable (c : conf) : Prop := exists nc h, run_hops (conf0 nc) h = Ok c.
Definition allreach (w : world) : Prop :=
  forall i wc, nth_error (w_confs w) i = Some wc -> reachable (wc_conf wc).

Definition same_struct (w w' : world) : Prop :=
  w_classes w' = w_classes w /\ map sp_cls (w_synced w') = map sp_cls (w_synced w) /\
  length (w_confs w') = length (w_confs w) /\ w_global w' = w_global w.

Definition pres (w w' : world) : Prop :=
  same_struct w w' /\ (forall n, cur_upto n w -> cur_upto n w') /\ (allreach w -> allreach w').

(* what a call of set_global_colors_config(confs[i]) achieves *)
Definition sg_post (w : world) (i : nat) (w' : world) : Prop :=
  w_classes w' = w_classes w /\ map sp_cls (w_synced w') = map sp_cls (w_synced w) /\
  length (w_confs w') = length (w_confs w) /\ w_global w' = i /\
  current w' /\ (allreach w -> allreach w').

Definition rec_ok (rec : world -> nat -> res world) : Prop :=
  forall w i w', rec w i = Ok w' -> sg_post w i w'.

Lemma same_struct_refl w : same_struct w w.
Proof. repeat split. Qed.

Lemma same_struct_trans w1 w2 w3 : same_struct w1 w2 -> same_struct w2 w3 -> same_struct w1 w3.
Proof. intros (A1 & A2 & A3 & A4) (B1 & B2 & B3 & B4). repeat split; congruence. Qed.

Lemma pres_refl w : pres w w.
Proof. split; [apply same_struct_refl|]. split; auto. Qed.

Lemma pres_trans w1 w2 w3 : pres w1 w2 -> pres w2 w3 -> pres w1 w3.
Proof.
  intros (S1 & C1 & R1) (S2 & C2 & R2). split; [eapply same_struct_trans; eauto|]. split; auto.
Qed.

Lemma current_upto w n : current w -> cur_upto n w.
Proof. intros H j sp _ E. eapply H; eauto. Qed.

Lemma upto_current w : cur_upto (length (w_synced w)) w -> current w.
Proof. intros H j sp E. apply (H j sp); [|exact E]. apply nth_error_Some. congruence. Qed.

Lemma reachable_add c items c' : reachable c -> add_new_items c items = Ok c' -> reachable c'.
Proof.
  intros (nc & h & Hr) Ha. exists nc, (h ++ [HReg items]).
  rewrite run_hops_app, Hr. cbn [bind run_hops]. rewrite Ha. reflexivity.
Qed.

Lemma reachable_pal c : reachable c -> reachable (fst (get_palette c)).
Proof.
  intros (nc & h & Hr). exists nc, (h ++ [HPal]).
  rewrite run_hops_app, Hr. cbn [bind run_hops]. reflexivity.
Qed.

Lemma reachable_new nc init b c : new_conf nc init b = Ok c -> reachable c.
Proof. intros H. exists nc, [HReg (flatten init); HReg (flatten b)]. rewrite <- new_conf_hops. exact H. Qed.

(* replacing configuration i by one with the same colours *)
Lemma set_wconf_pres w i wc wc' :
  nth_error (w_confs w) i = Some wc ->
  (i = w_global w -> forall id, get_color (wc_conf wc') id = get_color (wc_conf wc) id) ->
  (reachable (wc_conf wc) -> reachable (wc_conf wc')) ->
  pres w (set_wconf w i wc').
Proof.
  intros Hi Hcol Hre. split; [|split].
  - unfold same_struct, set_wconf. cbn. rewrite set_nth_length. repeat split.
  - intros n Hc j sp Lj Ej. cbn [set_wconf w_synced] in Ej.
    destruct (Hc j sp Lj Ej) as (pc & wcg & Hpc & Hg & Ha & Hp).
    unfold cur1. cbn [set_wconf w_classes w_confs w_global].
    destruct (Nat.eq_dec i (w_global w)) as [E|N].
    + exists pc, wc'. split; [exact Hpc|]. split.
      { rewrite <- E. eapply nth_error_set_nth_eq; eauto. }
      split; [|exact Hp]. rewrite Ha. apply map_ext. intros id.
      assert (wcg = wc) by congruence. subst wcg. symmetry. apply Hcol. exact E.
    + exists pc, wcg. split; [exact Hpc|]. split; [|split; assumption].
      rewrite nth_error_set_nth_neq by exact N. exact Hg.
  - intros Hr j wcj Ej. cbn [set_wconf w_confs] in Ej.
    apply nth_error_set_nth in Ej as [[-> ->]|[N Ej]].
    + apply Hre. eapply Hr; eauto.
    + eapply Hr; eauto.
Qed.

(* ------------------------------------------------------------------ add_new_items / register *)
Section Rec.
  Variable rec : world -> nat -> res world.
  Hypothesis Hrec : rec_ok rec.

  Lemma add_items_pres w i items w' : w_add_items rec w i items = Ok w' -> pres w w'.
  Proof.
    unfold w_add_items. destruct (nth_error (w_confs w) i) as [wc|] eqn:Ei; [|discriminate].
    destruct (add_new_items (wc_conf wc) items) as [c'|] eqn:Ea; cbn [bind]; [|discriminate].
    set (wc' := mk_wconf c' (wc_reg wc) (if fresh_ids (wc_conf wc) items then [] else wc_pals wc)).
    destruct (any_modif (c_map (wc_conf wc)) (c_map c')) eqn:Em; cbn [andb].
    - destruct (i =? w_global w)%nat eqn:Eg.
      + (* the global configuration was modified: everything is re-synced *)
        apply Nat.eqb_eq in Eg. intros Hr. apply Hrec in Hr.
        destruct Hr as (A1 & A2 & A3 & A4 & A5 & A6).
        cbn [set_wconf w_classes w_synced w_confs w_global] in *. rewrite set_nth_length in A3.
        split; [repeat split; congruence|]. split.
        * intros n _. apply current_upto. exact A5.
        * intros Hr. apply A6. intros j wcj Ej. cbn [w_confs] in Ej.
          apply nth_error_set_nth in Ej as [[-> ->]|[N Ej]]; [|eapply Hr; eauto].
          cbn [wc_conf wc']. eapply reachable_add; [|exact Ea]. eapply Hr; eauto.
      + intros H. inversion H; subst w'. apply Nat.eqb_neq in Eg.
        apply set_wconf_pres with (wc := wc); [exact Ei|intros E; contradiction|].
        cbn [wc_conf wc']. intros Hr. eapply reachable_add; eauto.
    - intros H. inversion H; subst w'.
      apply set_wconf_pres with (wc := wc); [exact Ei| |].
      + intros _ id. cbn [wc_conf wc']. symmetry. apply get_color_fmts. apply any_modif_false. exact Em.
      + cbn [wc_conf wc']. intros Hr. eapply reachable_add; eauto.
  Qed.

  Lemma fold_register_pres (f : world -> nat -> res world) :
    (forall w p w', f w p = Ok w' -> pres w w') ->
    forall ps w w', fold_left (fun acc p => bind acc (fun w1 => f w1 p)) ps (Ok w) = Ok w' -> pres w w'.
  Proof.
    intros Hf. induction ps as [|p ps IH]; intros w w' H; cbn [fold_left] in H.
    - inversion H. apply pres_refl.
    - cbn [bind] in H. destruct (f w p) as [w1|e] eqn:E1.
      + eapply pres_trans; [eapply Hf; eauto|apply IH; exact H].
      + exfalso. clear -H. induction ps as [|q ps IH]; cbn in H; [discriminate|auto].
  Qed.

  Lemma register_pres : forall pf w k i w', w_register rec pf w k i = Ok w' -> pres w w'.
  Proof.
    induction pf as [|pf IH]; intros w k i w' H; cbn [w_register] in H; [discriminate|].
    destruct (nth_error (w_classes w) k) as [pc|]; [|discriminate].
    destruct (nth_error (w_confs w) i) as [wc|]; [|discriminate].
    destruct (mem_nat k (wc_reg wc)); [inversion H; apply pres_refl|].
    destruct (fold_left _ (pc_parents pc) (Ok w)) as [w1|] eqn:Ef; cbn [bind] in H; [|discriminate].
    assert (pres w w1) as P1.
    { eapply (fold_register_pres (fun w1 p => w_register rec pf w1 p i)); [|exact Ef].
      intros a p b Hab. eapply IH; eauto. }
    destruct (pc_defaults pc) as [d|]; [|inversion H; subst; exact P1].
    destruct (nth_error (w_confs w1) i) as [wc1|] eqn:E1; [|discriminate].
    destruct (mem_nat k (wc_reg wc1)).
    { destruct reg_recheck; [inversion H; subst; exact P1|discriminate]. }
    eapply pres_trans; [exact P1|]. eapply pres_trans; [|eapply add_items_pres; exact H].
    apply set_wconf_pres with (wc := wc1); [exact E1|intros _ id; reflexivity|auto].
  Qed.

  (* ---------------------------------------------------------------- the re-sync loop *)
  Lemma set_spal_struct w j sp sp' :
    nth_error (w_synced w) j = Some sp -> sp_cls sp' = sp_cls sp -> same_struct w (set_spal w j sp').
  Proof.
    intros E Hc. unfold same_struct, set_spal. cbn. repeat split.
    eapply map_set_nth_same; eauto.
  Qed.

  Lemma cur1_set_spal w j sp' sp : cur1 w sp -> cur1 (set_spal w j sp') sp.
  Proof. intros H. exact H. Qed.

  Lemma set_spal_upto w j sp' n : (n <= j)%nat -> cur_upto n w -> cur_upto n (set_spal w j sp').
  Proof.
    intros L H j' sp Lj E. cbn [set_spal w_synced] in E.
    rewrite nth_error_set_nth_neq in E by lia. apply cur1_set_spal. eapply H; eauto.
  Qed.

  Lemma sync_pres w j w' :
    w_sync rec w j (w_global w) = Ok w' ->
    same_struct w w' /\ (cur_upto j w -> cur_upto (S j) w') /\ (allreach w -> allreach w').
  Proof.
    unfold w_sync. destruct (nth_error (w_synced w) j) as [sp|] eqn:Ej; [|discriminate].
    set (w0 := set_spal w j (mk_spal (sp_cls sp) (sp_attrs sp) (w_global w))).
    destruct (w_register rec (reg_fuel w0) w0 (sp_cls sp) (w_global w)) as [w1|] eqn:Er; cbn [bind]; [|discriminate].
    apply register_pres in Er. destruct Er as (S1 & C1 & R1).
    assert (same_struct w w0) as S0 by (apply (set_spal_struct w j sp); [exact Ej|reflexivity]).
    destruct (nth_error (w_confs w1) (w_global w)) as [wc|] eqn:Ec; [|discriminate].
    destruct (nth_error (w_classes w1) (sp_cls sp)) as [pc|] eqn:Ep; [|discriminate].
    intros H. inversion H; subst w'. clear H.
    pose proof (same_struct_trans _ _ _ S0 S1) as S01.
    assert (exists sp1, nth_error (w_synced w1) j = Some sp1 /\ sp_cls sp1 = sp_cls sp) as (sp1 & Ej1 & Ecls).
    { destruct S01 as (_ & M & _ & _).
      assert (nth_error (map sp_cls (w_synced w1)) j = Some (sp_cls sp)) as Hm.
      { rewrite M. rewrite nth_error_map, Ej. reflexivity. }
      rewrite nth_error_map in Hm. destruct (nth_error (w_synced w1) j) as [sp1|]; cbn in Hm; [|discriminate].
      exists sp1. split; [reflexivity|congruence]. }
    split; [|split].
    - eapply same_struct_trans; [exact S01|]. apply (set_spal_struct w1 j sp1); [exact Ej1|cbn; congruence].
    - intros Hc. assert (cur_upto j w1) as Hc1.
      { apply C1. apply set_spal_upto; [lia|exact Hc]. }
      intros j' sp' Lj E. cbn [set_spal w_synced] in E.
      destruct (Nat.eq_dec j j') as [<-|N].
      + rewrite (nth_error_set_nth_eq _ _ _ _ Ej1) in E. inversion E; subst sp'. clear E.
        exists pc, wc. cbn [set_spal w_classes w_confs w_global sp_cls sp_attrs sp_ptr].
        destruct S01 as (_ & _ & _ & G). rewrite G. repeat split; assumption.
      + rewrite nth_error_set_nth_neq in E by exact N. apply cur1_set_spal. apply (Hc1 j' sp'); [lia|exact E].
    - intros Hr. assert (allreach w0) as Hr0 by exact Hr. exact (R1 Hr0).
  Qed.

  Lemma sync_all_pres : forall b a w w',
    w_sync_all rec w (w_global w) (seq a b) = Ok w' -> cur_upto a w ->
    same_struct w w' /\ cur_upto (a + b) w' /\ (allreach w -> allreach w').
  Proof.
    induction b as [|b IH]; intros a w w' H Hc; cbn [seq w_sync_all] in H.
    - inversion H; subst. rewrite Nat.add_0_r. split; [apply same_struct_refl|]. split; auto.
    - destruct (w_sync rec w a (w_global w)) as [w1|] eqn:Es; cbn [bind] in H; [|discriminate].
      apply sync_pres in Es. destruct Es as (S1 & C1 & R1).
      assert (w_global w1 = w_global w) as G by (destruct S1 as (_ & _ & _ & G); exact G).
      rewrite <- G in H. apply IH in H; [|apply C1; exact Hc].
      destruct H as (S2 & C2 & R2). split; [eapply same_struct_trans; eauto|].
      split; [|auto]. replace (a + S b)%nat with (S a + b)%nat by lia. exact C2.
  Qed.

  Lemma body_ok : rec_ok (w_set_global_body rec).
  Proof.
    intros w i w' H. unfold w_set_global_body in H.
    set (w0 := set_global_idx w i) in *.
    change i with (w_global w0) in H at 1.
    change (length (w_synced w)) with (length (w_synced w0)) in H.
    apply sync_all_pres in H; [|intros j sp Lj; lia].
    destruct H as ((A1 & A2 & A3 & A4) & C & R).
    unfold sg_post. split; [exact A1|]. split; [exact A2|]. split; [exact A3|]. split; [exact A4|].
    split; [|exact R]. apply upto_current. cbn [Nat.add] in C.
    assert (length (w_synced w') = length (w_synced w0)) as L.
    { rewrite <- (map_length sp_cls (w_synced w')), A2, map_length. reflexivity. }
    rewrite L. exact C.
  Qed.
End Rec.

Lemma set_global_ok : forall fuel, rec_ok (w_set_global fuel).
Proof.
  induction fuel as [|f IH]; intros w i w' H; cbn [w_set_global] in H; [discriminate|].
  eapply body_ok; eauto.
Qed.

(* ------------------------------------------------------------------ the API calls *)
Definition winv (w : world) : Prop := current w /\ allreach w.

Lemma pres_winv w w' : pres w w' -> winv w -> winv w'.
Proof.
  intros (S & C & R) (Hc & Hr). split; [|auto].
  apply upto_current. apply C. apply current_upto. exact Hc.
Qed.

Lemma add_wconf_winv w wc : winv w -> reachable (wc_conf wc) -> winv (add_wconf w wc).
Proof.
  intros (Hc & Hr) Hwc. split.
  - intros j sp E. destruct (Hc j sp E) as (pc & wcg & A & B & C & D).
    exists pc, wcg. cbn [add_wconf w_classes w_confs w_global]. repeat split; try assumption.
    apply nth_error_snoc_old. exact B.
  - intros i wci E. cbn [add_wconf w_confs] in E. apply nth_error_snoc in E as [E|[_ ->]]; [eapply Hr; eauto|exact Hwc].
Qed.

Lemma get_palette_colors c id : get_color (fst (get_palette c)) id = get_color c id.
Proof. apply get_color_map. apply (proj1 (get_palette_map c)). Qed.

Lemma pal_winv w i wc :
  nth_error (w_confs w) i = Some wc -> winv w ->
  winv (set_wconf w i (mk_wconf (fst (get_palette (wc_conf wc))) (wc_reg wc) (wc_pals wc))).
Proof.
  intros Ei. apply pres_winv. apply set_wconf_pres with (wc := wc); [exact Ei| |].
  - intros _ id. cbn [wc_conf]. apply get_palette_colors.
  - cbn [wc_conf]. apply reachable_pal.
Qed.

Lemma step_winv w o w' x : winv w -> w_step w o = Ok (w', x) -> winv w'.
Proof.
  intros Hw H. pose proof (set_global_ok (sg_fuel w)) as Hsg. fold (sg w) in Hsg.
  destruct o as [nc init b|[i|]|k|r items|k r|k r|r]; cbn [w_step] in H.
  - (* WNew *)
    destruct (new_conf nc init _) as [c|] eqn:En; cbn [bind] in H; [|discriminate].
    inversion H; subst. apply add_wconf_winv; [exact Hw|]. cbn [wc_conf]. eapply reachable_new; eauto.
  - (* WSetGlobal (Some i) *)
    destruct (i <? length (w_confs w))%nat; [|discriminate].
    destruct (sg w w i) as [w1|] eqn:Es; cbn [bind] in H; [|discriminate]. inversion H; subst.
    apply Hsg in Es. destruct Es as (_ & _ & _ & _ & C & R). split; [exact C|apply R; apply Hw].
  - (* WSetGlobal None *)
    destruct (new_conf false [] builtin_config) as [c|] eqn:En; cbn [bind] in H; [|discriminate].
    destruct (sg w _ _) as [w1|] eqn:Es; cbn [bind] in H; [|discriminate]. inversion H; subst.
    apply Hsg in Es. destruct Es as (_ & _ & _ & _ & C & R). split; [exact C|]. apply R.
    apply add_wconf_winv; [exact Hw|]. cbn [wc_conf]. eapply reachable_new; eauto.
  - (* WSynced *)
    destruct (find_spal k (w_synced w) 0); [inversion H; subst; exact Hw|].
    destruct (w_register (sg w) (reg_fuel w) w k (w_global w)) as [w1|] eqn:Er; cbn [bind] in H; [|discriminate].
    apply (register_pres _ Hsg) in Er. pose proof (pres_winv _ _ Er Hw) as (C1 & R1).
    unfold class_attrs in H.
    destruct (nth_error (w_classes w1) k) as [pc|] eqn:Ek; [|discriminate].
    destruct (nth_error (w_confs w1) (w_global w)) as [wc|] eqn:Eg; cbn [bind] in H; [|discriminate].
    inversion H; subst. clear H. split; [|exact R1].
    assert (w_global w1 = w_global w) as G by (destruct Er as ((_ & _ & _ & G) & _); exact G).
    intros j sp E. cbn [add_spal w_synced] in E. apply nth_error_snoc in E as [E|[_ ->]].
    + exact (C1 j sp E).
    + exists pc, wc. cbn [add_spal w_classes w_confs w_global sp_cls sp_attrs sp_ptr].
      rewrite G. repeat split; assumption.
  - (* WReg *)
    destruct (w_add_items (sg w) w (cref w r) items) as [w1|] eqn:Ea; cbn [bind] in H; [|discriminate].
    inversion H; subst. eapply pres_winv; [eapply add_items_pres; eauto|exact Hw].
  - (* WRegCls *)
    destruct (w_register (sg w) (reg_fuel w) w k (cref w r)) as [w1|] eqn:Er; cbn [bind] in H; [|discriminate].
    inversion H; subst. eapply pres_winv; [eapply register_pres; eauto|exact Hw].
  - (* WUse *)
    destruct (nth_error (w_confs w) (cref w r)) as [wc|] eqn:Ei; [|discriminate].
    destruct (k =? 0)%nat.
    { destruct (get_palette (wc_conf wc)) as [c' snap] eqn:Eg. inversion H; subst.
      replace c' with (fst (get_palette (wc_conf wc))) by (rewrite Eg; reflexivity).
      apply pal_winv; assumption. }
    destruct (lookup_nat k (wc_pals wc)); [inversion H; subst; exact Hw|].
    destruct (w_register (sg w) (reg_fuel w) w k (cref w r)) as [w1|] eqn:Er; cbn [bind] in H; [|discriminate].
    destruct (class_attrs w1 k (cref w r)) as [attrs|]; cbn [bind] in H; [|discriminate].
    destruct (nth_error (w_confs w1) (cref w r)) as [wc1|] eqn:E1; [|discriminate].
    inversion H; subst. clear H.
    apply (register_pres _ Hsg) in Er. pose proof (pres_winv _ _ Er Hw) as Hw1.
    revert Hw1. apply pres_winv. apply set_wconf_pres with (wc := wc1); [exact E1|intros _ id; reflexivity|auto].
  - (* WPal *)
    destruct (nth_error (w_confs w) (cref w r)) as [wc|] eqn:Ei; [|discriminate].
    destruct (get_palette (wc_conf wc)) as [c' snap] eqn:Eg. inversion H; subst.
    replace c' with (fst (get_palette (wc_conf wc))) by (rewrite Eg; reflexivity).
    apply pal_winv; assumption.
Qed.

Lemma run_winv : forall ops w w', winv w -> w_run w ops = Ok w' -> winv w'.
Proof.
  induction ops as [|o ops IH]; intros w w' Hw H; cbn [w_run] in H; [inversion H; subst; exact Hw|].
  destruct (w_step w o) as [[w1 x]|] eqn:Es; cbn [bind fst] in H; [|discriminate].
  eapply IH; [|exact H]. eapply step_winv; eauto.
Qed.

Lemma init_winv classes w : w_init classes = Ok w -> winv w.
Proof.
  unfold w_init. destruct (new_conf false [] builtin_config) as [c0|] eqn:En; cbn [bind]; [|discriminate].
  intros H. inversion H; subst. clear H. split.
  - intros [|[|j]] sp E; cbn in E; try discriminate. inversion E; subst.
    exists gp_class, (mk_wconf c0 [] []). cbn. repeat split.
  - intros [|[|i]] wc E; cbn in E; try discriminate. inversion E; subst. cbn [wc_conf]. eapply reachable_new; eauto.
Qed.

(* the statements of Props.v *)
Lemma synced_current_l classes ops w0 w :
  w_init classes = Ok w0 -> w_run w0 ops = Ok w ->
  forall j sp, nth_error (w_synced w) j = Some sp ->
    exists pc wc, nth_error (w_classes w) (sp_cls sp) = Some pc /\
                  nth_error (w_confs w) (w_global w) = Some wc /\
                  sp_attrs sp = map (get_color (wc_conf wc)) (pc_acc pc) /\
                  sp_ptr sp = w_global w.
Proof.
  intros Hi Hr. apply init_winv in Hi. destruct (run_winv ops w0 w Hi Hr) as (C & _). exact C.
Qed.

Lemma world_confs_histories_l classes ops w0 w :
  w_init classes = Ok w0 -> w_run w0 ops = Ok w ->
  forall i wc, nth_error (w_confs w) i = Some wc -> exists nc h, run_hops (conf0 nc) h = Ok (wc_conf wc).
Proof.
  intros Hi Hr. apply init_winv in Hi. destruct (run_winv ops w0 w Hi Hr) as (_ & R). exact R.
Qed.

(* ... so the accessor attributes of a synced palette are what the description set of the
   global configuration demands (C14/Lemmas.v resolve_correct_l) *)
Lemma synced_resolved_l classes ops w0 w :
  w_init classes = Ok w0 -> w_run w0 ops = Ok w ->
  forall j sp, nth_error (w_synced w) j = Some sp ->
    exists pc wc nc h,
      nth_error (w_classes w) (sp_cls sp) = Some pc /\
      nth_error (w_confs w) (w_global w) = Some wc /\
      run_hops (conf0 nc) h = Ok (wc_conf wc) /\
      sp_attrs sp = map (get_color (wc_conf wc)) (pc_acc pc) /\
      (valid_hops h -> LemLoop.acyclic (union_hops [] h) ->
       forall id, spec_color nc (union_hops [] h) id (get_color (wc_conf wc) id)).
Proof.
  intros Hi Hr j sp E.
  destruct (synced_current_l classes ops w0 w Hi Hr j sp E) as (pc & wc & A & B & C & _).
  destruct (world_confs_histories_l classes ops w0 w Hi Hr _ wc B) as (nc & h & Hh).
  exists pc, wc, nc, h. repeat split; try assumption.
  intros Hv Hac id. destruct (Lemmas.resolve_correct_l nc h Hv Hac) as (c & Hc & _ & _ & _ & G).
  assert (c = wc_conf wc) by congruence. subst c. apply G.
Qed.
