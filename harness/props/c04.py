"""C04  Source positions are exact and cover the text  (ak/llparser.py)"""
import ast
import os
import re

from harness.lib import sx as SX
from harness.props import llp_common as L

ID = "C04"
COQ_DIR = "C04"
EXTRA_COQ_DIRS = ["LLP"]
RUN_MOD = "C04.Run"
MODEL_TARGETS = ["C04/Run.vo"]
PROOF_TARGETS = ["C04/LemmasText.vo", "C04/LemmasLex.vo", "C04/LemmasCover.vo", "C04/LemmasTree.vo", "C04/LemmasConc.vo", "C04/LemmasNode.vo", "C04/LemmasOps.vo", "C04/LemmasSess.vo", "C04/LemmasBig.vo"]
PROPS = ["C04/Props.v"]
ALLOWED_AXIOMS = []
IMPL_TIMEOUT = 10.0
COQ_SHARD = 40
FUEL = 16            # model budget of the parse loop: 2^FUEL iterations

RULE = ("texts rendered from the harness lexicon (words, numbers, quoted strings whose value excludes the quotes, "
        "one-character literals, // or # end-of-line comments, span tokens /* */ or << >>) with explicit control of the "
        "line structure: 1-7 lines, blank and white-space-only lines at the start / middle / end, leading and trailing "
        "white space per line (blanks, tabs, CR, NBSP, U+2003), un-indented first tokens, tokens glued without a "
        "separator, span tokens closing on the same line / a later line (over blank lines, with the opener or closer at "
        "the edge of a line) / never, a foreign character inserted at a chosen position (first line, later line, after a "
        "span, inside a span), the same text as str, as list of lines and as list of lines that keep their '\\n'; seven "
        "tokenizer configurations (pattern order, synonyms incl. the span symbol, keywords, skip sets: default, empty, "
        "explicit, unusual); seven grammars (flat list of any token; nullable children at the start, in the middle and "
        "at the end of a production; an inner node whose children are all empty; common prefixes whose remainder is "
        "nullable, both smart_factorization values; nesting) and three template grammars (nested ListProds with brackets and "
        "delimiter whose items end in an optional part; nested MapProds whose keys are inner nodes; ProdSequence of tokens and "
        "inner nodes) fed with sampled sentences and with broken ones.  Every case is ONE history on ONE parser object: "
        "optionally another text first (before, or in the middle of the token generator of the observed text: a suspended "
        "tokenizer generator plus a complete parse of a text that ends in a LexicalError / an unclosed span / a ParsingError / "
        "many lines), tokenize(text), parse(text, do_cleanup=False), and - when a tree is returned - the public tree API on it: "
        "find_all, get_orig_text with the text as str / list / tuple, clone() of the tree and of every sub-tree, a second parse + "
        "cleanup() in place (surviving objects identified), cleanup() of the clone, the first tree again, parse(text) with the "
        "default cleanup and random keep_symbols, clone() of the cleaned tree, parse(tuple(lines)); fixed tree probes with "
        "blanks / line breaks / comments between an element's last token and the next token for every grammar.  "
        "SESSIONS (420 quick / 2600 thorough): one parser object and ONE TEXT OBJECT used several times while the object changes - "
        "a list / list subclass / deque of lines edited in place between the calls (line replaced, by another one of the same length, "
        "inserted, appended, deleted, popped, two lines swapped, list reversed, cleared and refilled, slice-assigned, refilled with the "
        "same number of lines, a foreign character put into a line, a line blanked), a tuple / str / str subclass / str subclass whose "
        "instances all compare equal and hash alike (the variable is re-bound to a new object, the old one dropped first - so that the "
        "new object may get its id - or kept; often of the same size), an iterator / generator of lines handed over twice (nothing left, "
        "or the lines behind the line of a LexicalError), re-bound, partly consumed by the caller; calls tokenize / "
        "parse(do_cleanup=False) / parse with the default cleanup under the same and under another src_name, two calls in a row, "
        "another text in between, get_orig_text(the object as it is now) of every element of an EARLIER result; the expectation is "
        "always the model's result for the contents the object has at the time of the call; next to every call the same call is made "
        "by a new parser object on a new plain copy of the contents.  "
        "ROUND 4 (about 690 quick / 1700 thorough cases, appended): invisible and format characters (U+FEFF byte order mark, "
        "U+200B, U+00A0, U+2060, U+00AD, a combining mark behind a letter, a ligature) as first character of the text, twice, as "
        "first / last / only character of a later line, behind leading white space, in the middle - under configurations where the "
        "character is white space, a foreign character (LexicalError naming its line), a token of the grammar (configuration H: a "
        "pattern [U+0080-U+FFFD]+ behind SPACE) or a skipped token (I: the same pattern in front of SPACE, in skip_tokens), as str and "
        "as list of lines, also in front of random texts and in sessions on a str object; for every str the list of its rstrip()ped "
        "lines is tokenized too and must give the same tokens and positions.  Sizes beyond 256: texts of 257-514 lines whose tokens sit "
        "on lines 257.. only / every few dozen lines / on the lines 256-260, span tokens on one line beyond 257, from line 250 to 260, "
        "over two lines beyond 257, unclosed from line 300, a foreign character beyond line 257, columns beyond 256 (a run of 255-300 "
        "blanks in front, a token of 258-303 characters), more than 256 tokens (one per line, '( )' pairs with an empty node inside "
        "one per line, all on one line; grammar tseq whose raw tree is flat), sessions on a buffer of 262 lines edited beyond line 257; "
        "random texts moved down / right by 256-290.  "
        "ROUND 5 (4 cases): positions beyond 65535 - ONE line of 66 000+ characters (a 66 000-character word on line 2 followed by "
        "short tokens and an unmatched character; the same word followed by tokens that are no sentence; 66 000 blanks in front of "
        "the tokens, so that every node of the tree lies beyond column 65536) and a text of 65 600 empty lines in front of its tokens.  "
        "Non-trivial = distinct case with at least two lines or a span token or a foreign character, and at least three tokens; a "
        "session: at least two calls that returned three or more elements for different contents.")
TRUSTED_BASE = [
    "re (CPython 3.12): pattern.match(line, col) returns the first alternative that matches at col, end() lies in (col, len(line)] "
    "for the main pattern and in [col, len(line)] for a span body pattern.  In the theorems the compiled patterns are universally "
    "quantified functions (matcher, span_of) with exactly these bounds as hypotheses; the concrete matcher for the harness lexicon "
    "(coq/C04/Model.v lex_matcher, close_matcher) is proved to satisfy them and is compared with the real re on every run",
    "str.isspace / \\s (the same table, regenerated from the running interpreter into gen/C04_Consts.v), str.split('\\n'), str.rstrip()",
    "gen/C04_Consts.v: the default end_token_name, LLParser._END_TOKEN_NAME, the default skip list and the presence of the statement "
    "'if cur_span_symbol is None and text_line: prev_end_pos = SrcPos(src_name, line_id, 1)' in front of the per-line loop "
    "(line_start_reset, on which the model's line_start and the soundness lemmas depend) are read from ak/llparser.py by "
    "harness/props/c04.py:gen_consts (ast, fail closed)",
    "the suffix symbols of the factorised grammar are never terminals (hypothesis of parse_spans; the constructor reserves names with '__')",
    "template grammars: the productions ListProds / MapProds / ProdSequence generate are written out by the harness (grammars_for: "
    "'prods' next to 'tprods'; gen_productions itself is C05's subject) and fed to the model through C04/Run.v build_t (the "
    "constructor pipeline of LLP/Build.v with the '__' name assertion restricted to the user's own symbols, as in "
    "_create_productions); a wrong expansion shows as a disagreement of the raw trees on the unchanged tree",
    "which objects survive the cleanup (and under which name / in which container) is taken from the implementation: the harness "
    "identifies every TElement of the cleaned tree with an element of the raw tree by object identity (the raw elements are kept "
    "alive) and passes the depth-first indices to the model (surviving); the model answers with the spans and texts those raw "
    "elements have.  An element that is not an object of the raw tree is checked by the oracle only (its span must be a span of "
    "the raw tree and its text the slice)",
    "sessions: Python's list / deque item assignment, insert, del, clear+extend, slice assignment, reverse (the harness applies the "
    "edit to the real object and to a plain list and stops if they differ; the model gets ESet / EIns / EDel, or EFill with the "
    "resulting lines for the re-arrangements), iterator protocol (enumerate takes one line at a time; list(it) in get_orig_text "
    "takes all), CPython's allocator for the 'new object with the id of the dropped one' situations (best effort, not needed for "
    "a verdict on the unchanged tree)",
    "LLP/Build.v (constructor pipeline: factorization, tables, recursion check) is used unverified to obtain the parse table of the "
    "correspondence cases; the node-span theorems hold for ANY table (they are about LLP/Parse.v step/mk_node)",
]
ASSUMPTIONS = [
    "no alternative of the tokenizer pattern matches the empty string (then the real loop never advances: the generator yields the "
    "same empty token for ever and parse() does not return; the model answers LHang; see tokenize_hangs_on_empty_match)",
    "every span body pattern has a named group (match.group(match.lastgroup) is otherwise an IndexError)",
    "text given as list: the same list is handed to get_orig_text; for a str the tokenizer sees the rstrip()ped lines while "
    "get_orig_text slices the unstripped ones (modelled; the theorems are stated for any pair of line lists related by 'is a prefix of')",
    "sessions: the contents of a text object at a call are a definite thing - edits happen between calls, never while a token "
    "generator of that object is suspended; an iterator is a plain one-pass iterator over a list that is not edited meanwhile; "
    "get_orig_text is documented for 'the whole source text': asked with another text (the buffer after an edit) it is expected to "
    "slice THAT text between the element's positions or to raise AssertionError when they lie outside it (modelled; oracle "
    "orig-text-given)",
    "the VALUES of the cleaned tree (which elements are squashed, list / dict contents) are C05's subject: here every TElement "
    "reachable in the cleaned tree (list items, dict keys and values included) is examined for its span and text only",
    "ListProds without brackets or delimiter, optional templates and AnyTokenExcept are not among the generated grammars",
]
MODELLED = ("ak/llparser.py: _Tokenizer.tokenize 240-334 (line splitting, rstrip, the per-line loop, span tokens, synonyms, keywords, "
            "LexicalError positions, $END$), the skip_tokens filter of LLParser.parse 1649-1652, TElement.get_orig_text 460-517, node "
            "positions 1686-1709 and 1752-1756 (LLP/Parse.v mk_node / step), TElement.clone 519-540 (Model.v clone), "
            "LLParser._process_seq_telement 1987-2014 (flatten_seq), find_all / iter_all 645-741 (preorder), the in-place nature of "
            "StdCleanuper._cleanup 2506-2585 and ListProds / MapProds.transform_t_elem (surviving); that tokenize / parse / "
            "get_orig_text keep nothing between two calls and read the text object anew each time (coq/C04/Session.v: text object "
            "= str | container of lines | iterator, in-place edits, re-binding, consumption of an iterator by enumerate / list())")


class ExtractError(Exception):
    pass


# ------------------------------------------------------------------ constants
def _cls(tree, name):
    for n in tree.body:
        if isinstance(n, ast.ClassDef) and n.name == name:
            return n
    raise ExtractError(f"class {name} not found")


def _meth(cls, name):
    for n in cls.body:
        if isinstance(n, ast.FunctionDef) and n.name == name:
            return n
    raise ExtractError(f"method {cls.name}.{name} not found")


_RESET_STMT = """
if cur_span_symbol is None and text_line:
    prev_end_pos = SrcPos(src_name, line_id, 1)
"""


def _line_start_reset(fn):
    """is  `if cur_span_symbol is None and text_line: prev_end_pos = SrcPos(src_name, line_id, 1)`  the statement
    in front of the  while  loop of the per-line loop of tokenize?  (True / False; any other shape: fail closed)"""
    loops = [n for n in ast.walk(fn) if isinstance(n, ast.For) and isinstance(n.target, ast.Tuple)
             and [getattr(e, "id", None) for e in n.target.elts] == ["line_id", "text_line"]]
    if len(loops) != 1:
        raise ExtractError("tokenize: the loop 'for line_id, text_line in ...' was not found")
    body = loops[0].body
    idx = [i for i, st in enumerate(body) if isinstance(st, ast.While)]
    if len(idx) != 1:
        raise ExtractError("tokenize: the per-line while loop was not found")
    head = body[:idx[0]]
    want = ast.dump(ast.parse(_RESET_STMT).body[0])
    ifs = [st for st in head if isinstance(st, ast.If)]
    others = [st for st in head if not isinstance(st, ast.If)]
    if not (len(others) == 1 and isinstance(others[0], ast.Assign) and ast.dump(others[0]) == ast.dump(ast.parse("col = 0").body[0])):
        raise ExtractError("tokenize: unrecognised statements in front of the per-line while loop")
    if not ifs:
        return False
    if len(ifs) == 1 and ast.dump(ifs[0]) == want:
        return True
    raise ExtractError("tokenize: unrecognised line-start statement (the model's line_start must be revised)")


def gen_consts(repo):
    src = open(os.path.join(repo, "ak", "llparser.py")).read()
    tree = ast.parse(src)
    tk = _cls(tree, "_Tokenizer")
    init = _meth(tk, "__init__")
    end_name = None
    for a, d in zip(init.args.kwonlyargs, init.args.kw_defaults):
        if a.arg == "end_token_name":
            if not (isinstance(d, ast.Constant) and isinstance(d.value, str)):
                raise ExtractError("_Tokenizer.__init__: end_token_name default is not a string literal")
            end_name = d.value
    if end_name is None:
        raise ExtractError("_Tokenizer.__init__: no end_token_name keyword")
    lp = _cls(tree, "LLParser")
    end2 = None
    for n in lp.body:
        if isinstance(n, ast.Assign) and len(n.targets) == 1 and isinstance(n.targets[0], ast.Name) \
                and n.targets[0].id == "_END_TOKEN_NAME":
            if not (isinstance(n.value, ast.Constant) and isinstance(n.value.value, str)):
                raise ExtractError("LLParser._END_TOKEN_NAME is not a string literal")
            end2 = n.value.value
    if end2 is None:
        raise ExtractError("LLParser._END_TOKEN_NAME not found")
    if end2 != end_name:
        raise ExtractError(f"tokenizer end token {end_name!r} differs from LLParser._END_TOKEN_NAME {end2!r}")
    skip = None
    for n in ast.walk(_meth(lp, "__init__")):
        if isinstance(n, ast.If) and isinstance(n.test, ast.Compare) and isinstance(n.test.left, ast.Name) \
                and n.test.left.id == "skip_tokens" and len(n.test.ops) == 1 and isinstance(n.test.ops[0], ast.Is):
            for st in n.body:
                if isinstance(st, ast.Assign) and isinstance(st.value, ast.SetComp):
                    it = st.value.generators[0].iter
                    if isinstance(it, (ast.List, ast.Tuple)) and all(
                            isinstance(e, ast.Constant) and isinstance(e.value, str) for e in it.elts):
                        skip = [e.value for e in it.elts]
    if skip is None:
        raise ExtractError("LLParser.__init__: default skip_tokens list not recognised")
    reset = _line_start_reset(_meth(tk, "tokenize"))
    spaces = [c for c in range(0x110000) if chr(c).isspace()]
    if spaces != [c for c in range(0x3100) if re.match(r"\s", chr(c))]:
        raise ExtractError("str.isspace and \\s disagree")
    text = ("(* generated from ak/llparser.py and the running interpreter by harness/props/c04.py -- do not edit *)\n"
            "From Coq Require Import ZArith List.\nImport ListNotations.\n"
            f"Definition space_chars : list Z := {SX.cZlist(spaces)}.\n"
            f"Definition end_token_name : list Z := {SX.cstr(end_name)}.\n"
            f"Definition default_skip : list (list Z) := {SX.clist(SX.cstr(s) for s in skip) if skip else '(@nil (list Z))'}.\n"
            f"Definition line_start_reset : bool := {SX.cbool(reset)}.\n")
    return {"C04_Consts": text}


# ------------------------------------------------------------------ tokenizer configurations
# a lexicon entry: [group name, kind, arg]; kinds: lit s | range "az" | space | eol s | quoted q
def _base_lex():
    return [["SPACE", "space", ""], ["COMMENT", "eol", "//"], ["COMMENT_ML", "lit", "/*"],
            ["WORD", "range", "az"], ["NUM", "range", "09"], ["DQ", "quoted", '"'],
            ["PLUS", "lit", "+"], ["SEMI", "lit", ";"], ["LP", "lit", "("], ["RP", "lit", ")"], ["DIV", "lit", "/"]]


# kinds -> lexemes used by the text generator
KIND_LEXEMES = {
    "word": ["a", "ab", "cd", "x", "foo", "zz", "q"],
    "kw_if": ["if"], "kw_end": ["end"],
    "num": ["0", "12", "7", "345"],
    "str": ['""', '"x y"', '"a+b"', '"//"', '"/*"', '"#"'],
    "plus": ["+"], "semi": [";"], "lp": ["("], "rp": [")"], "div": ["/"],
    "uni": ["\ufeff", "\u00e9", "\u200b\u4e2d", "\u2060"],
}

CONFIGS = {
    # default: SPACE and COMMENT skipped, the span token COMMENT_ML is a terminal of the grammar
    "A": {"lex": _base_lex(), "spans": [["COMMENT_ML", "*/"]], "syn": [], "kw": [], "skip": None,
          "open": "/*", "close": "*/", "eol": "//",
          "names": {"word": "WORD", "num": "NUM", "str": "DQ", "plus": "PLUS", "semi": "SEMI", "lp": "LP", "rp": "RP",
                    "div": "DIV", "mlc": "COMMENT_ML"}},
    # synonyms (also for the span symbol: multi-line comments become COMMENT and are skipped) and keywords
    "B": {"lex": _base_lex(), "spans": [["COMMENT_ML", "*/"]],
          "syn": [["PLUS", "+"], ["SEMI", ";"], ["DQ", "STRING"], ["COMMENT_ML", "COMMENT"], ["LP", "("], ["RP", ")"]],
          "kw": [["WORD", "if", "IF"], ["WORD", "end", "END"], ["STRING", "x y", "XY"]], "skip": None,
          "open": "/*", "close": "*/", "eol": "//",
          "names": {"word": "WORD", "num": "NUM", "str": "STRING", "plus": "+", "semi": ";", "lp": "(", "rp": ")",
                    "div": "DIV", "kw_if": "IF", "kw_end": "END"}},
    # nothing is skipped: white space and comments are leaves of the tree
    "C": {"lex": _base_lex(), "spans": [["COMMENT_ML", "*/"]], "syn": [], "kw": [], "skip": [],
          "open": "/*", "close": "*/", "eol": "//",
          "names": {"word": "WORD", "num": "NUM", "str": "DQ", "plus": "PLUS", "semi": "SEMI", "lp": "LP", "rp": "RP",
                    "div": "DIV", "mlc": "COMMENT_ML"}},
    # explicit skip set incl. the span token
    "D": {"lex": _base_lex(), "spans": [["COMMENT_ML", "*/"]], "syn": [], "kw": [["WORD", "if", "IF"]],
          "skip": ["SPACE", "COMMENT", "COMMENT_ML"],
          "open": "/*", "close": "*/", "eol": "//",
          "names": {"word": "WORD", "num": "NUM", "str": "DQ", "plus": "PLUS", "semi": "SEMI", "lp": "LP", "rp": "RP",
                    "div": "DIV", "kw_if": "IF"}},
    # another lexicon: only the blank is white space (a tab is a foreign character), '#' comments,
    # span << >> (a terminal), literals before the classes, upper-case identifiers
    "E": {"lex": [["BLOB", "lit", "<<"], ["LT", "lit", "<"], ["SPACE", "lit", " "], ["NUM", "range", "09"],
                  ["COMMENT", "eol", "#"], ["WORD", "range", "az"], ["ID", "range", "AZ"], ["SQ", "quoted", "'"],
                  ["PLUS", "lit", "+"], ["SEMI", "lit", ";"], ["LP", "lit", "("], ["RP", "lit", ")"], ["DIV", "lit", "/"]],
          "spans": [["BLOB", ">>"]], "syn": [["SQ", "STR"]], "kw": [], "skip": None,
          "open": "<<", "close": ">>", "eol": "#",
          "names": {"word": "WORD", "num": "NUM", "str": "STR", "plus": "PLUS", "semi": "SEMI", "lp": "LP", "rp": "RP",
                    "div": "DIV", "mlc": "BLOB"}, "quote": "'"},
    # unusual skip set: words are skipped, white space is not
    "F": {"lex": _base_lex(), "spans": [["COMMENT_ML", "*/"]], "syn": [["PLUS", "+"]], "kw": [], "skip": ["WORD", "COMMENT"],
          "open": "/*", "close": "*/", "eol": "//",
          "names": {"num": "NUM", "str": "DQ", "plus": "+", "semi": "SEMI", "lp": "LP", "rp": "RP",
                    "div": "DIV", "mlc": "COMMENT_ML", "space": "SPACE"}},
    # no span tokens at all, comment pattern after DIV (never wins: '//' is two DIV tokens)
    "G": {"lex": [["SPACE", "space", ""], ["WORD", "range", "az"], ["NUM", "range", "09"], ["DIV", "lit", "/"],
                  ["COMMENT", "eol", "//"], ["PLUS", "lit", "+"], ["SEMI", "lit", ";"], ["LP", "lit", "("], ["RP", "lit", ")"],
                  ["DQ", "quoted", '"']],
          "spans": [], "syn": [], "kw": [], "skip": None, "open": None, "close": None, "eol": None,
          "names": {"word": "WORD", "num": "NUM", "str": "DQ", "plus": "PLUS", "semi": "SEMI", "lp": "LP", "rp": "RP",
                    "div": "DIV"}},
}

# configurations of the round-4 cases (kept apart: sorted(CONFIGS) drives the random stream of the older cases).
# A pattern that matches every character from U+0080 to U+FFFD: the invisible / format characters (U+FEFF, U+200B,
# U+2060, U+00AD, combining marks, ligatures) are then TOKENS - terminals of the grammar (H: after SPACE, so the white
# space among them stays white space) or skipped tokens (I: before SPACE; the way a user makes the tokenizer ignore a
# byte order mark - its column is still counted)
XCONFIGS = {
    "H": {"lex": _base_lex()[:1] + [["UNI", "range", "\x80\ufffd"]] + _base_lex()[1:], "spans": [["COMMENT_ML", "*/"]],
          "syn": [], "kw": [], "skip": None, "open": "/*", "close": "*/", "eol": "//",
          "names": {"word": "WORD", "num": "NUM", "str": "DQ", "plus": "PLUS", "semi": "SEMI", "lp": "LP", "rp": "RP",
                    "div": "DIV", "mlc": "COMMENT_ML", "uni": "UNI"}},
    "I": {"lex": [["UNI", "range", "\x80\ufffd"]] + _base_lex(), "spans": [["COMMENT_ML", "*/"]],
          "syn": [["PLUS", "+"]], "kw": [["WORD", "if", "IF"]], "skip": ["SPACE", "COMMENT", "UNI"],
          "open": "/*", "close": "*/", "eol": "//",
          "names": {"word": "WORD", "num": "NUM", "str": "DQ", "plus": "+", "semi": "SEMI", "lp": "LP", "rp": "RP",
                    "div": "DIV", "mlc": "COMMENT_ML", "kw_if": "IF"}},
}


def config(cid):
    return CONFIGS[cid] if cid in CONFIGS else XCONFIGS[cid]


def cfg_terminals(cfg):
    syn = dict(cfg["syn"])
    t = set(e[0] for e in cfg["lex"]) - set(syn)
    t |= set(syn.values())
    t |= set(k[2] for k in cfg["kw"])
    return sorted(t)


def cfg_skip(cfg):
    if cfg["skip"] is None:
        terms = cfg_terminals(cfg)
        return [t for t in ["SPACE", "COMMENT"] if t in terms]
    return list(cfg["skip"])


def pattern_of(entry):
    name, kind, arg = entry
    if kind == "lit":
        return f"(?P<{name}>{re.escape(arg)})"
    if kind == "range":
        return f"(?P<{name}>[{re.escape(arg[0])}-{re.escape(arg[1])}]+)"
    if kind == "space":
        return f"(?P<{name}>\\s+)"
    if kind == "eol":
        return f"(?P<{name}>{re.escape(arg)}.*)"
    if kind == "quoted":
        q = re.escape(arg)
        return f"{q}(?P<{name}>[^{q}]*){q}"
    raise ValueError(kind)


def tokenizer_str(cfg):
    return "\n|".join(pattern_of(e) for e in cfg["lex"])


def span_matchers(cfg):
    return {g: "(?P<BODY>(?s:.*?))" + re.escape(closer) for g, closer in cfg["spans"]}


# ------------------------------------------------------------------ grammars (in token kinds)
def grammars_for(cfg):
    """-> {gid: {"prods": [[nt, [alts]]], "start": "E"}} for the grammars whose kinds the configuration offers"""
    nm = cfg["names"]
    skip = set(cfg_skip(cfg))
    out = {}
    # flat: any sequence of non-skipped tokens
    terms = [t for t in cfg_terminals(cfg) if t not in skip]
    out["flat"] = {"prods": [["E", [["T", "E"], []]], ["T", [[t] for t in terms]]], "start": "E"}

    def have(*kinds):
        return all(k in nm and nm[k] not in skip for k in kinds)
    if have("word", "num"):
        w, n = nm["word"], nm["num"]
        # witness of 8a077e3: trailing empty child
        out["tail"] = {"prods": [["E", [["A", n]]], ["A", [[w, "B"]]], ["B", [[w], []]]], "start": "E"}
    if have("word", "num", "plus", "semi"):
        w, n, p, s = nm["word"], nm["num"], nm["plus"], nm["semi"]
        # empty children at the start, in the middle, at the end
        out["sme"] = {"prods": [["E", [["S", "E"], []]], ["S", [["OPT", w, "MID", n, "TAIL"]]],
                                ["OPT", [[p], []]], ["MID", [[w], []]], ["TAIL", [[s], []]]], "start": "E"}
        # an inner node whose children are all empty
        out["allempty"] = {"prods": [["E", [["A", "B", n, "A"]]], ["A", [["X", "Y"]]], ["X", [[w], []]], ["Y", [[p], []]],
                                     ["B", [[s], []]]], "start": "E"}
        # common prefixes, remainder nullable (suffix symbols are spliced)
        out["prefix"] = {"prods": [["E", [["ITEM", "E"], []]], ["ITEM", [[w, n, p], [w, n], [w], [s, "OPT"], [s, "OPT", n]]],
                                   ["OPT", [[p], []]]], "start": "E"}
    if have("word", "num", "lp", "rp"):
        w, n, lp, rp = nm["word"], nm["num"], nm["lp"], nm["rp"]
        out["nest"] = {"prods": [["E", [[lp, "LST", rp]]], ["LST", [["V", "LST"], []]], ["V", [[w], [n], ["E"]]]], "start": "E"}
    if have("mlc", "word", "num"):
        w, n, m = nm["word"], nm["num"], nm["mlc"]
        # span tokens as first / last token of inner nodes
        out["span"] = {"prods": [["E", [["C", "E"], []]], ["C", [["OM", w, "OM"], [n, m]]], ["OM", [[m], []]]], "start": "E"}
    if have("word", "num", "plus", "semi", "lp", "rp"):
        w, n, p, s, lp, rp = nm["word"], nm["num"], nm["plus"], nm["semi"], nm["lp"], nm["rp"]
        # production templates.  "tprods" is what the constructor gets, "prods" the same grammar with the
        # productions of the templates written out in place (what _create_productions yields; used by the
        # model and by the sentence sampler), "gen" the generated symbols, "seqs" the ProdSequence symbols.
        # ListProds with brackets and delimiter, nested; an item's last child may be empty
        out["tlist"] = {
            "prods": [["E", [["LST", "TAILOPT"]]],
                      ["LST", [[lp, rp], [lp, "ITEM", "LST__TAIL", rp]]],
                      ["LST__TAIL", [[s, "ITEM", "LST__TAIL"], [s], []]],
                      ["ITEM", [[w, "OPT"], ["LST"]]], ["OPT", [[n], []]], ["TAILOPT", [[p], []]]],
            "tprods": [["E", [["LST", "TAILOPT"]]], ["LST", {"list": [lp, "ITEM", s, rp]}],
                       ["ITEM", [[w, "OPT"], ["LST"]]], ["OPT", [[n], []]], ["TAILOPT", [[p], []]]],
            "gen": ["LST", "LST__TAIL"], "seqs": [], "start": "E"}
        # MapProds whose keys are inner nodes (they stay TElement objects, used as dict keys), nested
        out["tmap"] = {
            "prods": [["E", [["M", "OPT"]]],
                      ["M", [[lp, rp], [lp, "M__KV_PAIR", "M__ELEMENTS", rp]]],
                      ["M__ELEMENTS", [[s, "M__KV_PAIR", "M__ELEMENTS"], [s], []]],
                      ["M__KV_PAIR", [["KEY", p, "VAL"]]],
                      ["KEY", [[w, "OPT"]]], ["VAL", [[w, "OPT"], ["M"]]], ["OPT", [[n], []]]],
            "tprods": [["E", [["M", "OPT"]]], ["M", {"map": [lp, "KEY", p, "VAL", s, rp]}],
                       ["KEY", [[w, "OPT"]]], ["VAL", [[w, "OPT"], ["M"]]], ["OPT", [[n], []]]],
            "gen": ["M", "M__ELEMENTS", "M__KV_PAIR"], "seqs": [], "start": "E"}
        # ProdSequence of tokens and inner nodes (flattened while parsing), followed by an optional part
        out["tseq"] = {
            "prods": [["E", [["S", "TAILOPT"]]], ["S", [["S__ELEMENT", "S"], []]], ["S__ELEMENT", [[w], ["PAIR"]]],
                      ["PAIR", [[lp, "OPT", rp]]], ["OPT", [[n], []]], ["TAILOPT", [[p], []]]],
            "tprods": [["E", [["S", "TAILOPT"]]], ["S", {"seq": [w, "PAIR"]}],
                       ["PAIR", [[lp, "OPT", rp]]], ["OPT", [[n], []]], ["TAILOPT", [[p], []]]],
            "gen": ["S", "S__ELEMENT"], "seqs": ["S"], "start": "E"}
    return out


def kind_of_terminal(cfg):
    return {v: k for k, v in cfg["names"].items()}


# ------------------------------------------------------------------ text generation
# white space that is NOT a line break for split('\n') but is one for str.splitlines(): \r \x0b \x0c \x1c-\x1e \x85 \u2028 \u2029
LINEISH = ["\r", "\x0b", "\x0c", "\x1c", "\x1d", "\x1e", "\x85", "\u2028", "\u2029"]
WS_IN = [" ", "  ", "\t", " \t ", " ", " ", " ", "  ", "\t", " ", "\r", "\x0c ", "\u2028", " \x85"]
WS_TRAIL = ["", "", " ", "  ", "\t", " \r", "\r", "  "]
FOREIGN = ["@", "é", "$", "中", "~", "\t", "A", "\U0001f600"]


def lexeme_for(rng, cfg, kind):
    if kind == "mlc":
        return span_text(rng, cfg, rng.choice(["same", "same", "later", "later2", "edge"]))
    if kind == "space":
        return rng.choice([" ", "  "])
    lx = rng.choice(KIND_LEXEMES[kind])
    if kind == "str" and cfg.get("quote"):
        lx = lx.replace('"', cfg["quote"])
    return lx


def span_text(rng, cfg, how):
    o, c = cfg["open"], cfg["close"]
    body_words = ["x", "a b", "12", "+", "", o, "//", c[0], "  y  "]
    if how == "same":
        return o + rng.choice(["", " ", "x", " a b ", c[0], o]) + c
    if how == "later":
        return o + rng.choice(body_words) + "\n" + rng.choice(["", " ", "  z ", "\t"]) + c
    if how == "later2":
        mid = rng.choice(["", "", "mid", "  mid  ", " "])
        return o + rng.choice(body_words) + "\n" + mid + "\n" + rng.choice(["", " q "]) + c
    if how == "edge":       # opener is the last thing of its line, closer the first of its line
        return o + "\n" + rng.choice(["", "\n", "w\n"]) + c
    raise ValueError(how)


def glue_ok(a, b):
    """may the lexemes a, b follow each other without a separator and stay two tokens (roughly)"""
    ca, cb = a[-1], b[0]
    if ca.isalpha() and cb.isalpha():
        return False
    if ca.isdigit() and cb.isdigit():
        return False
    if ca in "/<" or cb in "/*<>#":
        return False
    return True


def render(rng, cfg, lexemes, *, style):
    """lexemes -> text; style picks how lines are broken and padded"""
    out = []
    # leading part
    has_ws_class = any(e[1] == "space" for e in cfg["lex"])
    lead = rng.choice(["", "", "", " ", "\n", "\n\n", "  \n", "\t"]) if style != "oneline" else rng.choice(["", "", " "])
    if not has_ws_class:
        lead = lead.replace("\t", " ")
    out.append(lead)
    ws_in = WS_IN if has_ws_class else [" ", "  "]
    trail = WS_TRAIL if has_ws_class else ["", "", "", " ", "  ", "\r"]
    for i, lx in enumerate(lexemes):
        out.append(lx)
        if i + 1 == len(lexemes):
            break
        nxt = lexemes[i + 1]
        r = rng.random()
        if style == "oneline" or r < 0.45:
            if glue_ok(lx, nxt) and rng.random() < 0.3:
                sep = ""
            else:
                sep = rng.choice(ws_in)
                if cfg["open"] and rng.random() < 0.12:
                    sep += span_text(rng, cfg, rng.choice(["same", "later", "later2", "edge"])) + rng.choice(["", " "])
                    if sep.endswith(cfg["close"]) and not glue_ok(cfg["close"], nxt):
                        sep += " "
        else:
            # line break, with or without indentation of the next line
            t = rng.choice(trail)
            if cfg["eol"] and rng.random() < 0.2:
                t = rng.choice(["", " "]) + cfg["eol"] + rng.choice(["", " c", " " + (cfg["open"] or "")]) + t
                if not glue_ok(lx, t.lstrip() or "x") and not t[0].isspace():
                    t = " " + t
            blank = rng.choice(["", "", "", "\n", "\n\n", "\n  \n", "\n\t\n"]) if has_ws_class else rng.choice(["", "", "\n", "\n  \n"])
            indent = "" if (style == "unindented" or rng.random() < 0.5) else rng.choice(ws_in)
            sep = t + "\n" + blank + indent
        out.append(sep)
    tail = rng.choice(["", "", " ", "\n", "\n\n", "  \n  ", " \n"])
    if cfg["eol"] and rng.random() < 0.1:
        tail = " " + cfg["eol"] + " last" + tail
    out.append(tail)
    return "".join(out)


def sentence_kinds(rng, cfg, g):
    """sample a sentence of grammar g -> list of kinds (or None when a terminal has no kind)"""
    gg = {"prods": g["prods"], "start": g["start"]}
    toks = L.gen_sentence(rng, gg, max_depth=6, max_len=14)
    k_of = kind_of_terminal(cfg)
    kinds = []
    for t in toks:
        if t not in k_of:
            return None
        kinds.append(k_of[t])
    return kinds


def mk_case(cid, gid, text, as_list, smart=True, keepends=False, note="", keep=None, prev=None):
    cfg = config(cid)
    g = grammars_for(cfg)[gid]
    if as_list:
        lines = text.split("\n")
        if keepends:
            lines = [l + "\n" for l in lines[:-1]] + ([lines[-1]] if lines[-1] else [])
        t = lines
    else:
        t = text
    return {"cfg": cid, "lex": cfg["lex"], "spans": cfg["spans"], "syn": cfg["syn"], "kw": cfg["kw"], "skip": cfg["skip"],
            "gid": gid, "prods": g["prods"], "start": g["start"], "smart": bool(smart),
            "tprods": g.get("tprods"), "gen": g.get("gen", []), "seqs": g.get("seqs", []),
            "keep": keep, "prev": prev,
            "text": t, "note": note}


# texts a parser object is used on BEFORE (or in the middle of) the observed text: the positions of the
# observed text must not depend on them (a LexicalError in the middle of a line / inside a span, an unclosed
# span, many lines, a ParsingError)
def prev_texts(cfg):
    o = cfg["open"]
    out = ["a b\nc d\n\n e 1 2\n f", "x\n\n\n  @", "1 2 3 ; ;\n( ( (\n", ["p", "q r", "", "s"], "\n\n\n\n\nzz 9"]
    if o:
        out += [f"a\nb {o} never closed\n\nc", f"{o} x\n y {cfg['close']} z\n@"]
    return out


def _rand_text(rng, cfg, gs, gid):
    """a random text for grammar gid of configuration cfg -> (text, note)"""
    kinds = None
    if gid != "flat" and rng.random() < 0.85:
        kinds = sentence_kinds(rng, cfg, gs[gid])
        if kinds is not None and kinds and rng.random() < 0.2:
            # break the sentence
            i = rng.randrange(len(kinds))
            if rng.random() < 0.5:
                del kinds[i]
            else:
                kinds.insert(i, rng.choice([k for k in cfg["names"] if k in KIND_LEXEMES]))
    if kinds is None:
        pool = [k for k in cfg["names"] if k in KIND_LEXEMES or k == "mlc"]
        kinds = [rng.choice(pool) for _ in range(rng.randint(0, 9))]
    lexemes = [lexeme_for(rng, cfg, k) for k in kinds]
    style = rng.choice(["oneline", "multi", "multi", "unindented", "unindented"])
    text = render(rng, cfg, lexemes, style=style)
    r = rng.random()
    note = style
    if r < 0.12 and text:
        # a foreign character at a chosen position
        pos = rng.choice([0, len(text), rng.randrange(len(text) + 1), text.find("\n") + 1, max(0, text.rfind("\n"))])
        text = text[:pos] + rng.choice(FOREIGN) + text[pos:]
        note += "+foreign"
    elif r < 0.2 and cfg["open"]:
        # a span that is never closed
        pos = rng.choice([len(text), rng.randrange(len(text) + 1)])
        text = text[:pos] + rng.choice(["", " "]) + cfg["open"] + text[pos:].replace(cfg["close"], cfg["close"][0] + " ")
        note += "+unclosed"
    return text, note


def gen_cases(rng, tier, n=None, n_sess=None):
    n = n or (14000 if tier == "thorough" else 1800)
    cases = []
    cids = sorted(CONFIGS)
    # fixed probes (every configuration)
    for cid in cids:
        cfg = CONFIGS[cid]
        o, c, e = cfg["open"], cfg["close"], cfg["eol"]
        probes = ["", "\n", "  ", "\n\n ab", "ab\ncd 12", "ab   12", " ab\n cd\n", "ab \n\ncd\t\n\n", "a\n\n\nb", "12ab+;(x)",
                  "a @ b", "a\n@", "ab\n  é cd", "中", "a\r\nb\r\n", "x y", '"unterminated', "a\tb"]
        # one line for split('\n'), several for splitlines()
        probes += [f"a{c}b" for c in LINEISH] + ["ab\r\rcd 12\nx", "a\x0c\nb\u2028 c\n\x1d@", "\r\x0b a\n b"]
        if o:
            probes += [f"a {o} x {c} b", f"a {o} x\n y {c} b\nc", f"{o}\n{c}", f"a {o} never", f"a\n{o}\n\nnever\n", f"{o}{c}{o}{c}",
                       f"a {o} x\n\n\n {c}", f"{o} @ {c} @", f"{o}\n @ \n{c}\n@", f"{o}{c[0]}{c}", f"a{o}b\n{c}c{o}d\n\n{c}e"]
        if e:
            probes += [f"a {e} c @ \nb", f"{e}\n{e} x\na", f"a {e} {o or ''} b\nc"]
        for p in probes:
            for as_list in (False, True):
                cases.append(mk_case(cid, "flat", p, as_list, note="probe"))
    # fixed probes of the tree operations (clone, cleanup, find_all) on every grammar family: skipped text
    # (blanks, line breaks, comments) between an element's last token and the next token
    TREE_PROBES = {
        "tail": ["ab   12", "ab\n\n  12", "ab cd   12"],
        "sme": ["ab  12  ;  cd 3", "+ a b 1\n\n  c  2 ;"],
        "allempty": ["  12  ", "a  ;\n 12   +"],
        "prefix": ["a 1   b  ;  2", "; \n 3 a"],
        "tlist": ["( a  ; b 1 ;\n c  )  +", "(  )", "( ( a  ) ; ( b 2  ; ) ;  )\n"],
        "tmap": ["( a  + x  ; b 2 + ( c + d  ) ;  )  7", "( )\n\n"],
        "tseq": ["a ( ) b (  3 )   +", " a  \n  ", "(  )  \n  ( 1 )  "],
    }
    for cid in cids:
        cfg = CONFIGS[cid]
        gs = grammars_for(cfg)
        for gid, texts in sorted(TREE_PROBES.items()):
            if gid not in gs:
                continue
            nts = [nt for nt, _ in (gs[gid].get("tprods") or gs[gid]["prods"])]
            for i, t in enumerate(texts):
                if cfg["eol"] and i == 0:
                    t = t.replace("  ", f" {cfg['eol']} c\n ", 1)
                for as_list in (False, True):
                    cases.append(mk_case(cid, gid, t, as_list, smart=(i % 2 == 0), note="tree-probe",
                                         keep=(nts if i == 1 else None),
                                         prev=({"text": prev_texts(cfg)[i], "mode": "interleave", "k": 2} if as_list else None)))
    while len(cases) < n:
        cid = rng.choice(cids)
        cfg = CONFIGS[cid]
        gs = grammars_for(cfg)
        gid = rng.choice(sorted(gs))
        text, note = _rand_text(rng, cfg, gs, gid)
        as_list = rng.random() < 0.45
        keepends = as_list and rng.random() < 0.2
        keep = None
        if rng.random() < 0.4:
            nts = [nt for nt, _ in (gs[gid].get("tprods") or gs[gid]["prods"])]
            keep = sorted(nt for nt in nts if rng.random() < 0.5)
        prev = None
        if rng.random() < 0.4:
            prev = {"text": rng.choice(prev_texts(cfg)), "mode": rng.choice(["before", "interleave"]), "k": rng.randint(0, 4)}
            note += "+prev"
        cases.append(mk_case(cid, gid, text, as_list, smart=rng.random() < 0.6, keepends=keepends, note=note,
                             keep=keep, prev=prev))
    # sessions: one parser object, one text OBJECT, calls with in-place edits in between (drawn after the
    # single-text cases, which therefore stay what they were)
    cases += gen_sessions(rng, n_sess if n_sess is not None else (2600 if tier == "thorough" else 420))
    # round 4: invisible / format characters at the start of the text and of lines, line / column / token numbers > 256
    cases += gen_exotic(rng, 1200 if tier == "thorough" else 160)
    return cases


# ------------------------------------------------------------------ sessions on one text object
# flavour of the text object -> what it is for the model (Session.v tobj)
FLAVOR_KIND = {"list": "lines", "listsub": "lines", "deque": "lines", "tuple": "lines",
               "str": "str", "strsub": "str", "eqstr": "str", "iter": "iter", "gen": "iter"}
MUTABLE = ("list", "listsub", "deque")
FLAVOR_POOL = ["list"] * 6 + ["listsub", "listsub", "deque", "deque", "tuple", "str", "str", "strsub", "eqstr",
                              "iter", "iter", "gen", "gen"]


class _Lines(list):
    """a user's subclass of list"""


class _Str(str):
    """a user's subclass of str"""


class _EqStr(str):
    """a subclass of str all of whose instances compare equal and hash alike: whatever is remembered under
    the text itself as key takes one text for another"""

    def __eq__(self, other):
        return isinstance(other, _EqStr)

    def __ne__(self, other):
        return not isinstance(other, _EqStr)

    def __hash__(self):
        return 7


def _same_len(rng, line):
    """another line of the same length"""
    parts = line.split(" ")
    if len(set(parts)) > 1:
        k = rng.randrange(1, len(parts))
        cand = " ".join(parts[k:] + parts[:k])
        if cand != line:
            return cand
    tr = str.maketrans("abcdxq0123457", "zzyxabx9876543"[:13])
    return line.translate(tr)


def gen_edit(rng, cur, pool):
    """an in-place edit of the list of lines cur -> step (with the contents afterwards)"""
    n = len(cur)
    for _ in range(6):
        how = rng.choice(["set", "set", "samelen", "samelen", "ins", "ins", "del", "fill", "fill_slice", "fill_same_n",
                          "append", "swap", "reverse", "pop", "break", "blank"])
        st = None
        if how in ("set", "samelen", "break", "blank") and n:
            i = rng.randrange(n)
            if how == "set":
                line = rng.choice(pool) if pool else "x"
            elif how == "samelen":
                line = _same_len(rng, cur[i])
            elif how == "break":
                k = rng.randrange(len(cur[i]) + 1)
                line = cur[i][:k] + rng.choice(FOREIGN) + cur[i][k:]
            else:
                line = rng.choice(["", "  ", "\t"])
            st = {"op": "edit", "how": "set", "i": i, "line": line, "coq": ["set", i, line],
                  "after": cur[:i] + [line] + cur[i + 1:]}
        elif how == "ins":
            i = rng.randint(0, n)
            line = rng.choice((pool or ["y"]) + ["", ""])
            st = {"op": "edit", "how": "ins", "i": i, "line": line, "coq": ["ins", i, line],
                  "after": cur[:i] + [line] + cur[i:]}
        elif how == "append":
            line = rng.choice((pool or ["y"]) + [""])
            st = {"op": "edit", "how": "append", "line": line, "coq": ["ins", n, line], "after": cur + [line]}
        elif how in ("del", "pop") and (n >= 2 or (n == 1 and rng.random() < 0.1)):
            i = n - 1 if how == "pop" else rng.randrange(n)
            st = {"op": "edit", "how": how, "i": i, "coq": ["del", i], "after": cur[:i] + cur[i + 1:]}
        elif how in ("fill", "fill_slice", "fill_same_n"):
            lines = list(pool) or [""]
            if how == "fill_same_n" and n:
                lines = (lines * n)[:n]
            st = {"op": "edit", "how": "fill" if how != "fill_slice" else "fill_slice", "lines": lines,
                  "coq": ["fill", lines], "after": list(lines)}
        elif how == "swap" and n >= 2:
            i, j = rng.sample(range(n), 2)
            after = list(cur)
            after[i], after[j] = after[j], after[i]
            st = {"op": "edit", "how": "swap", "i": i, "j": j, "coq": ["fill", after], "after": after}
        elif how == "reverse" and n >= 2:
            st = {"op": "edit", "how": "reverse", "coq": ["fill", cur[::-1]], "after": cur[::-1]}
        if st is not None and st["after"] != cur:
            return st
    line = (cur[0] if cur else "") + " q"
    return {"op": "edit", "how": "fill", "lines": [line] + cur[1:], "coq": ["fill", [line] + cur[1:]], "after": [line] + cur[1:]}


def gen_session(rng, cid):
    cfg = config(cid)
    gs = grammars_for(cfg)
    gid = "flat" if rng.random() < 0.5 else rng.choice(sorted(gs))
    flavor = rng.choice(FLAVOR_POOL)
    fk = FLAVOR_KIND[flavor]

    def lines_of():
        t, _ = _rand_text(rng, cfg, gs, gid)
        ls = t.split("\n")
        return ls[:7]

    cur = lines_of()
    init = "\n".join(cur) if fk == "str" else list(cur)
    steps = []
    last = [None]

    def call():
        whats = ["parse", "parse", "parse", "tok"] + (["parsed"] if fk != "iter" else [])
        what = last[0] if (last[0] and rng.random() < 0.55) else rng.choice(whats)
        last[0] = what
        steps.append({"op": "call", "what": what, "src": "src" if rng.random() < 0.75 else "another source"})

    def orig():
        steps.append({"op": "orig", "k": rng.choice([0, 0, 0, 1, 2])})

    call()
    if flavor in MUTABLE:
        for _ in range(rng.randint(1, 3)):
            if rng.random() < 0.08:
                steps.append({"op": "burn", "text": rng.choice(prev_texts(cfg))})
            pool = lines_of()
            for _ in range(rng.choice([1, 1, 1, 2])):
                e = gen_edit(rng, cur, pool)
                steps.append(e)
                cur = e["after"]
            if rng.random() < 0.35:
                orig()
            call()
            if rng.random() < 0.25:
                call()
    elif fk != "iter":
        for _ in range(rng.randint(1, 3)):
            pool = lines_of()
            r = rng.random()
            if r < 0.4 and cur:
                # another text of the same size (a new object of the same size is likely to get the address of the old one)
                new = list(cur)
                for i in rng.sample(range(len(cur)), rng.randint(1, len(cur))):
                    new[i] = _same_len(rng, cur[i])
                if new == cur:
                    new = cur[::-1] if cur[::-1] != cur else [l.swapcase() for l in cur]
            elif r < 0.7:
                new = gen_edit(rng, cur, pool)["after"]
            else:
                new = pool
            cur = new
            steps.append({"op": "new", "contents": "\n".join(new) if fk == "str" else list(new), "drop": rng.random() < 0.75})
            if rng.random() < 0.35:
                orig()
            call()
            if rng.random() < 0.3:
                # the same object once more, under another name
                steps.append({"op": "call", "what": last[0], "src": "src" if steps[-1]["src"] != "src" else "another source"})
    else:
        call()          # the same iterator once more: nothing is left (or what follows the line of a LexicalError)
        if rng.random() < 0.5:
            orig()
        if rng.random() < 0.7:
            new = lines_of()
            steps.append({"op": "new", "contents": list(new), "drop": rng.random() < 0.7})
            if rng.random() < 0.4:
                steps.append({"op": "next", "n": rng.randint(0, 2)})
            call()
            if rng.random() < 0.6:
                call()
    if rng.random() < 0.4:
        orig()
    c = mk_case(cid, gid, "", False, smart=rng.random() < 0.6, note="session")
    c["text"] = init
    c["sess"] = {"flavor": flavor, "init": init, "steps": steps}
    return c


def gen_sessions(rng, n):
    cids = sorted(CONFIGS)
    out = []
    # fixed probes: the buffer of lines of an editor, parsed again after every kind of edit, by every kind of call
    for cid in cids:
        for flavor in MUTABLE:
            for what in ("parse", "tok", "parsed"):
                cur = ["ab 12", "cd", "x 3 y"]
                steps = [{"op": "call", "what": what, "src": "src"}]
                for e in ({"how": "set", "i": 0, "line": "  foo 345 ; q", "coq": ["set", 0, "  foo 345 ; q"]},
                          {"how": "ins", "i": 1, "line": "", "coq": ["ins", 1, ""]},
                          {"how": "del", "i": 2, "coq": ["del", 2]},
                          {"how": "set", "i": 0, "line": "  zz 12 q ; 7", "coq": ["set", 0, "  zz 12 q ; 7"]},
                          {"how": "fill", "lines": ["q", "", " a 1"], "coq": ["fill", ["q", "", " a 1"]]}):
                    e = dict(e, op="edit")
                    after = list(cur)
                    if e["how"] == "set":
                        after[e["i"]] = e["line"]
                    elif e["how"] == "ins":
                        after.insert(e["i"], e["line"])
                    elif e["how"] == "del":
                        del after[e["i"]]
                    else:
                        after = list(e["lines"])
                    e["after"] = cur = after
                    steps += [e, {"op": "call", "what": what, "src": "src"}]
                steps.append({"op": "orig", "k": 0})
                c = mk_case(cid, "flat", "", False, note="session-probe")
                c["text"] = ["ab 12", "cd", "x 3 y"]
                c["sess"] = {"flavor": flavor, "init": ["ab 12", "cd", "x 3 y"], "steps": steps}
                out.append(c)
    while len(out) < n:
        out.append(gen_session(rng, rng.choice(cids)))
    return out[:n] if n < len(out) else out



# ------------------------------------------------------------------ round 4: sizes and characters off the beaten track
# invisible / format characters: byte order mark (what a file saved "with BOM" starts with after decoding), zero width
# space, NBSP (white space for str.isspace and \s), word joiner, soft hyphen, a combining mark (NFC would merge it into
# the letter in front of it), a ligature (NFKC would make two letters of it)
INVISIBLE = ["\ufeff", "\u200b", "\u00a0", "\u2060", "\u00ad", "\u0301", "\ufb01"]
XCIDS = ["A", "B", "C", "E", "G", "H", "I"]


def _invisible_texts(c):
    return [c + "ab 12\ncd",                    # first character of the text
            c + c + "ab\n" + c + "cd 12",         # twice; first character of a later line
            "ba" + c + "\n" + c,                  # last character of a line (behind a letter a combining mark would
                                                  # merge with under NFC); alone on the last line
            " " + c + " ab 12",                   # behind leading white space
            c + "\n\nab",                         # alone on line 1
            "ab " + c + c + " 12" + c]            # in the middle and at the end


def _long_texts(rng, cfg, cid, heavy):
    """texts whose line numbers, column numbers and token counts exceed 256 (nothing in CPython makes two equal ints
    above 256 the same object; a table / cache sized 256 ends there) -> [(gid, text, note)].  Cheap ones: many empty
    lines, one long run of blanks; dense ones (heavy: a few configurations only) for the grammar whose raw tree is
    flat (tseq) - with the nested nodes of the other grammars the observation grows with the square of the text."""
    o, c, e = cfg["open"], cfg["close"], cfg["eol"]
    sp = "" if cfg["skip"] == [] else " "
    gs = grammars_for(cfg)
    out = []
    k = rng.choice([256, 257, 258, 300, 513])
    # tokens on line k+1.. only (single-line leaves and nodes, a node over two lines)
    out.append(("flat", "\n" * k + "ab 12\ncd" + sp + "x\n", f"long:lines>{k}"))
    # sparse: token lines around line 257 and far apart, blank and white-space-only lines between
    lines = []
    for i in range(1, 335):
        lines.append("x" if i in (1, 129, 256, 257, 258, 259, 300) else f"({sp}{i}{sp})" if i in (2, 260, 334)
                     else " " if i % 50 == 0 else "")
    if "tseq" in gs:
        out.append(("tseq", "\n".join(lines), "long:sparse"))
    else:
        out.append(("flat", "\n".join(l for l in lines if not l.startswith("(")), "long:sparse"))
    if o:
        # span tokens: on one line beyond 257, from line 250 over line 257, two lines beyond 257
        lines = [""] * 270
        lines[249] = f"a{sp}{o} from 250"
        lines[256] = "over"
        lines[259] = f" to 260 {c}{sp}b"
        lines[262] = f"{o} one line {c}{sp}12"
        lines[264] = f"q{sp}{o}"
        lines[265] = f"{c}"
        out.append(("flat", "\n".join(lines), "long:spans"))
        out.append(("flat", "\n" * 299 + f"a{sp}{o} never closed\n\nb", "long:unclosed"))
    if e:
        out.append(("flat", "\n" * 280 + f"a{sp}{e} comment\nb", "long:comment"))
    out.append(("flat", "\n" * (k + 3) + "ab" + sp + "@\n12", "long:foreign"))
    # columns beyond 256 (start and end), a token longer than 256, also on a line beyond 257
    w = rng.choice([255, 256, 257, 300])
    if sp:
        out.append(("flat", " " * w + "ab" + " " * 3 + "12", "long:columns"))
        out.append(("flat", "\n" * 260 + " " * (w + 7) + "cd 7", "long:columns-far"))
    out.append(("flat", "a" * (w + 3) + ";" + "1" * w, "long:token"))
    if "tseq" in gs and heavy:
        n = rng.choice([258, 262])
        # more than 256 tokens, one per line: leaf #k sits on line k; the empty TAILOPT follows token n
        out.append(("tseq", "a\n" * n, "long:dense-lines"))
        out.append(("tseq", (f"({sp})\n" * 130) + "+", "long:dense-empty-nodes"))
        out.append(("tseq", sp.join(["ab"] * 200 + ["(", "7", ")"] * 20) if sp else "(7)" * 90, "long:dense-one-line"))
    if "tail" in gs and sp:
        out.append(("tail", "\n" * k + "ab cd   12", "long:tail"))
        out.append(("tail", " " * w + "ab" + " " * w + "12", "long:tail-columns"))
    return out


# round 5: positions beyond 65535 (a column / line number kept in 16 bits, packed with the other coordinate into one
# int, stored in an array('H') / a struct field).  The cost of a case is the size of its Coq term (about 40 s of coqc
# per MB when the term is a few very long list literals): ONE very long line, few tokens, and the long token placed so
# that no inner node of the raw tree carries it in its text (LexicalError behind it / ParsingError behind it / skipped
# white space in front of all tokens); beyond HUGE characters the other representations of the text are not asked.
HUGE = 60000


def _huge_texts():
    w = 66000
    return [
        # a 66 000-character word on LINE 2, short tokens, then an unmatched character at 0-based column 66004:
        # (2 << 16) | 66004 has bit 16 set - line AND column of the LexicalError are wrong under a 16-bit column
        mk_case("A", "flat", "\n" + "a" * w + " 12 @", False, note="huge:word-lexerr-line2"),
        # more than 65 536 lines (empty ones: cheap), tokens on the lines behind
        mk_case("A", "flat", "\n" * 65600 + "ab 12\ncd x\n", False, smart=False, note="huge:many-lines"),
        # a 66 000-character word first, short tokens behind it, no sentence of the grammar: tokens only (list of lines)
        mk_case("E", "tail", "a" * w + " b c 12", True, smart=False, note="huge:word-parseerr"),
        # 66 000 blanks, then the tokens: every leaf and every node of the tree starts and ends beyond column 65536
        mk_case("A", "flat", " " * w + "ab 12\n  cd", False, note="huge:blanks-first"),
    ]


def gen_exotic(rng, n_rand):
    """appended after the older cases (their random stream stays what it was)"""
    out = []
    # ---- invisible characters, under configurations where the character is white space / a foreign character /
    # a token of the grammar / a skipped token
    for cid in XCIDS:
        for ch in (INVISIBLE if cid in "AHI" else INVISIBLE[:3]):
            for i, t in enumerate(_invisible_texts(ch)):
                for as_list in (False, True):
                    out.append(mk_case(cid, "flat", t, as_list, smart=(i % 2 == 0), note="invisible"))
    # ---- long texts (the big ones spread among the small ones: the model evaluates the cases in shards)
    big = []
    for cid in sorted(CONFIGS) + sorted(XCONFIGS):
        cfg = config(cid)
        for j, (gid, t, note) in enumerate(_long_texts(rng, cfg, cid, cid in "AI")):
            dense = note.startswith("long:dense")
            both = (not dense and cid in "ACH") or note == "long:dense-lines"
            for as_list in ((False, True) if both else (rng.random() < 0.5,)):
                prev = None
                if as_list and j % 3 == 0:
                    prev = {"text": prev_texts(cfg)[j % 5], "mode": "interleave", "k": 1}
                if note == "long:token" and cid not in "AEH":
                    continue
                (big if dense or note == "long:token" else out).append(mk_case(cid, gid, t, as_list, smart=(j % 2 == 0), note=note, prev=prev))
    big += _huge_texts()
    step = max(1, len(out) // (len(big) + 1))
    for i, c in enumerate(big):
        out.insert(min(len(out), 7 + i * (step + 1)), c)
    # ---- random texts with such characters at the start of the text / of a line / anywhere, random long offsets
    cids = sorted(CONFIGS) + sorted(XCONFIGS) * 3
    for _ in range(n_rand):
        cid = rng.choice(cids)
        cfg = config(cid)
        gs = grammars_for(cfg)
        gid = rng.choice(sorted(gs))
        text, note = _rand_text(rng, cfg, gs, gid)
        r = rng.random()
        ch = rng.choice(INVISIBLE) * rng.choice([1, 1, 2])
        if r < 0.45:
            text = ch + text
            note += "+invisible-first"
        elif r < 0.6:
            k = text.find("\n") + 1
            text = text[:k] + ch + text[k:]
            note += "+invisible-line"
        elif r < 0.75:
            k = rng.randrange(len(text) + 1)
            text = text[:k] + ch + text[k:]
            note += "+invisible"
        else:
            # the text moved down / to the right by more than 256
            text = "\n" * rng.choice([256, 257, 270]) + text
            if cfg["skip"] != [] and rng.random() < 0.5:
                text = text.replace("\n", "\n" + " " * rng.choice([256, 257, 290]), 1) if rng.random() < 0.5 else " " * 257 + text
            note += "+far"
        as_list = rng.random() < 0.45
        prev = None
        if rng.random() < 0.25:
            prev = {"text": rng.choice(prev_texts(cfg)), "mode": rng.choice(["before", "interleave"]), "k": rng.randint(0, 3)}
        out.append(mk_case(cid, gid, text, as_list, smart=rng.random() < 0.6, note=note, prev=prev))
    # ---- sessions on a long buffer of lines / a str that starts with an invisible character
    for cid in ("A", "E", "H"):
        for flavor in ("list", "deque", "str"):
            fk = FLAVOR_KIND[flavor]
            cur = [""] * 259 + ["ab 12", "cd", "x 3 y"]
            steps = [{"op": "call", "what": "parse", "src": "src"}]
            if fk == "lines":
                for e in ({"how": "set", "i": 260, "line": "  foo 345 ; q", "coq": ["set", 260, "  foo 345 ; q"]},
                          {"how": "del", "i": 3, "coq": ["del", 3]},
                          {"how": "ins", "i": 258, "line": "zz", "coq": ["ins", 258, "zz"]}):
                    e = dict(e, op="edit")
                    after = list(cur)
                    if e["how"] == "set":
                        after[e["i"]] = e["line"]
                    elif e["how"] == "ins":
                        after.insert(e["i"], e["line"])
                    else:
                        del after[e["i"]]
                    e["after"] = cur = after
                    steps += [e, {"op": "orig", "k": 0}, {"op": "call", "what": "tok", "src": "src"}]
                init = [""] * 259 + ["ab 12", "cd", "x 3 y"]
            else:
                init = "\ufeffab 12\n\u200bcd" + "\n" * 257 + "x 3 y"
                for new in ("ab 12\n\ufeffcd" + "\n" * 257 + "x 3 y", "\ufeff\ufeffq 1\n" + "\n" * 257 + "zz"):
                    steps += [{"op": "new", "contents": new, "drop": True}, {"op": "orig", "k": 0},
                              {"op": "call", "what": "parse", "src": "src"}]
            c = mk_case(cid, "flat", "", False, note="session-long")
            c["text"] = init
            c["sess"] = {"flavor": flavor, "init": init, "steps": steps}
            out.append(c)
    return out


def search_cases(rng, tier):
    return gen_cases(rng, "thorough", n=3000, n_sess=900)


def kind(case):
    if case.get("sess"):
        return f"session cfg={case['cfg']} g={case['gid']} {case['sess']['flavor']}"
    t = case["text"]
    nl = len(t) if isinstance(t, list) else t.count("\n") + 1
    return f"cfg={case['cfg']} g={case['gid']} {'list' if isinstance(t, list) else 'str'} lines={min(nl, 4)}{'+' if nl > 4 else ''}"


# ------------------------------------------------------------------ implementation
def _orig_obs(t, text):
    try:
        return ["ok", t.get_orig_text(text)]
    except BaseException as e:  # noqa
        if type(e).__name__ == "Hang":
            raise
        return ["err", SX.exc_name(e)]


def _span_obs(t):
    sp = t.span
    return [list(sp[0]), list(sp[1])]


def _tree_obs(t, text):
    orig = _orig_obs(t, text)
    sp = _span_obs(t)
    v = t.value
    if v is None:
        return [1, t.name, [], sp, orig]
    if isinstance(v, str):
        return [0, t.name, v, sp, orig]
    return [1, t.name, [_tree_obs(c, text) for c in v], sp, orig]


def _preorder(t):
    """the elements of a raw tree, an element before its children (own recursion, not find_all)"""
    out = [t]
    if isinstance(t.value, list):
        for c in t.value:
            out += _preorder(c)
    return out


def _clean_obs(x, text, idx, TE, seen):
    """a cleaned tree: ["T", name, is_leaf, span, orig, index of the object in the raw tree or None, value] for an
    element; a value is ["N"] | ["S", str] | ["L", items] | ["D", [[key, value]]] | ["?", type]"""
    if isinstance(x, TE):
        seen.append(x)
        return ["T", x.name, bool(x.is_leaf()), _span_obs(x), _orig_obs(x, text), idx.get(id(x)),
                _clean_obs_val(x.value, text, idx, TE, seen)]
    return _clean_obs_val(x, text, idx, TE, seen)


def _clean_obs_val(v, text, idx, TE, seen):
    if v is None:
        return ["N"]
    if isinstance(v, str):
        return ["S", v]
    if isinstance(v, list):
        return ["L", [_clean_obs(i, text, idx, TE, seen) for i in v]]
    if isinstance(v, dict):
        return ["D", [[_clean_obs(k, text, idx, TE, seen), _clean_obs(w, text, idx, TE, seen)] for k, w in v.items()]]
    if isinstance(v, TE):
        return _clean_obs(v, text, idx, TE, seen)
    return ["?", type(v).__name__]


def _strip_idx(o):
    if isinstance(o, list) and o and o[0] == "T":
        return o[:5] + [None, _strip_idx(o[6])]
    if isinstance(o, list):
        return [_strip_idx(e) for e in o]
    return o


def alt_texts(text):
    """other representations of the same text (get_orig_text must not care): -> [(tag, text)]"""
    if (len(text) if isinstance(text, str) else sum(len(l) + 1 for l in text)) > HUGE:
        return []       # round 5: the text is part of the model's case term once per representation (cost)
    if isinstance(text, str):
        return [("list", text.split("\n")), ("tuple", tuple(text.split("\n")))]
    out = [("tuple", tuple(text))]
    if text and not any("\n" in l for l in text):
        out.append(("str", "\n".join(text)))
    return out


def _flat(nodes, text):
    return [[n.name, _span_obs(n), _orig_obs(n, text)] for n in nodes]


def _tree_ops(llparser, p, raw, text):
    """what the public tree API gives for the freshly parsed tree `raw` (one parser object, one history)"""
    TE = llparser.TElement
    o = {}
    raw0 = _tree_obs(raw, text)
    own = _preorder(raw)
    # find_all lists the same objects
    found = raw.find_all(exclude_root=False)
    same = len(found) == len(own) and all(a is b for a, b in zip(found, own))
    o["find_raw"] = None if same else [_flat(found, text), _flat(own, text)]
    # get_orig_text with the same text in another representation
    # (asked of the elements find_all lists: the model answers for its own depth-first list)
    o["alt"] = [[_orig_obs(n, alt) for n in found] for _, alt in alt_texts(text)]
    # the same lines handed to parse() as another kind of iterable
    o["tuple_parse"] = None
    if isinstance(text, list):
        rt = _tree_obs(p.parse(tuple(text), do_cleanup=False), text)
        o["tuple_parse"] = None if rt == raw0 else rt
    # clone of the whole tree, clones of every sub-tree
    c = raw.clone()
    o["clone"] = _tree_obs(c, text)
    sub = []
    for k, n in enumerate(own):
        m = n.clone()
        a, b = _flat([n], text)[0], _flat([m], text)[0]
        if a != b:
            sub.append([k, a, b])
    o["subclone_diff"] = sub
    # the default cleanup, applied in place to a second parse of the text: which objects survive, with which positions
    raw2 = p.parse(text, do_cleanup=False)
    r2 = _tree_obs(raw2, text)
    o["reparse"] = None if r2 == raw0 else r2
    own2 = _preorder(raw2)           # kept alive: ids of dropped elements must not be re-used by new objects
    idx = {id(n): k for k, n in enumerate(own2)}
    p.cleanup(raw2)
    seen = []
    o["clean"] = _clean_obs(raw2, text, idx, TE, seen)
    found = raw2.find_all(exclude_root=False)
    same = len(found) == len(seen) and all(a is b for a, b in zip(found, seen))
    o["find_clean"] = None if same else [_flat(found, text), _flat(seen, text)]
    assert all(own2[idx[id(x)]] is x for x in seen if id(x) in idx)
    # cleanup of the clone gives the same; clone + cleanup of the clone must not have touched the original
    p.cleanup(c)
    cobs = _clean_obs(c, text, {}, TE, [])
    o["clone_cleaned"] = None if cobs == _strip_idx(o["clean"]) else cobs
    raw1 = _tree_obs(raw, text)
    o["raw_after"] = None if raw1 == raw0 else raw1
    # parse with the default cleanup: the same tree as cleanup(raw)
    d = p.parse(text)
    seen_d = []
    dobs = _clean_obs(d, text, {}, TE, seen_d)
    o["default_clean"] = None if dobs == _strip_idx(o["clean"]) else dobs
    # clone of the cleaned tree (list, dict and None values)
    e = d.clone()
    eobs = _clean_obs(e, text, {}, TE, [])
    o["clone_clean"] = None if eobs == dobs else eobs
    return o


def _productions(case, llparser):
    tp = case.get("tprods")
    if not tp:
        return {nt: [tuple(a) if a else None for a in alts] for nt, alts in case["prods"]}
    prods = {}
    for nt, spec in tp:
        if isinstance(spec, dict):
            if "list" in spec:
                prods[nt] = llparser.ListProds(*spec["list"])
            elif "map" in spec:
                prods[nt] = llparser.MapProds(*spec["map"])
            else:
                prods[nt] = llparser.ProdSequence(*spec["seq"])
        else:
            prods[nt] = [tuple(a) if a else None for a in spec]
    return prods


def _burn(p, text, keepalive):
    """use the parser object on another text: a tokenizer generator that is left suspended after two tokens, and a
    complete parse (whatever they raise)"""
    try:
        g = p.tokenizer.tokenize(text, "previous text")
        keepalive.append(g)
        next(g)
        next(g)
    except BaseException as e:  # noqa
        if type(e).__name__ == "Hang":
            raise
    try:
        keepalive.append(p.parse(text))
    except BaseException as e:  # noqa
        if type(e).__name__ == "Hang":
            raise


def _mk_parser(case, llparser):
    kwargs = {}
    if case["skip"] is not None:
        kwargs["skip_tokens"] = set(case["skip"])
    if case.get("keep") is not None:
        kwargs["keep_symbols"] = set(case["keep"])
    return llparser.LLParser(
        tokenizer_str(case), productions=_productions(case, llparser), start_symbol_name=case["start"],
        synonyms=dict(case["syn"]) or None,
        keywords={(n, v): k for n, v, k in case["kw"]} or None,
        span_matchers=span_matchers(case) or None,
        smart_factorization=case["smart"], **kwargs)


# ---- sessions
def _mk_obj(flavor, contents, track):
    """a NEW text object of the flavour with the contents (a str / a list of lines)"""
    import collections
    if flavor == "list":
        return list(contents)
    if flavor == "listsub":
        return _Lines(contents)
    if flavor == "deque":
        return collections.deque(contents)
    if flavor == "tuple":
        return tuple(contents)
    if flavor == "str":
        return "".join(list(contents))
    if flavor == "strsub":
        return _Str(contents)
    if flavor == "eqstr":
        return _EqStr(contents)
    track["backing"] = list(contents)
    track["n"] = 0
    if flavor == "iter":
        return iter(track["backing"])

    def counting(lines, tr):
        for l in lines:
            tr["n"] += 1
            yield l
    return counting(track["backing"], track)


def _snap(flavor, T, track):
    """the present contents of the text object, as plain str / list of lines (nothing is consumed)"""
    fk = FLAVOR_KIND[flavor]
    if fk == "str":
        return "".join(list(T))       # a copy: T[:] of an exact str is T itself and would keep it alive
    if fk == "lines":
        return list(T)
    b = track["backing"]
    if flavor == "iter":
        return b[len(b) - T.__length_hint__():]
    return b[track["n"]:]


def _apply_edit(T, st):
    how = st["how"]
    if how == "set":
        T[st["i"]] = st["line"]
    elif how == "ins":
        T.insert(st["i"], st["line"])
    elif how == "append":
        T.append(st["line"])
    elif how == "del":
        del T[st["i"]]
    elif how == "pop":
        T.pop()
    elif how == "fill":
        T.clear()
        T.extend(st["lines"])
    elif how == "fill_slice":
        if isinstance(T, list):
            T[:] = st["lines"]
        else:
            T.clear()
            for l in st["lines"]:
                T.append(l)
    elif how == "swap":
        T[st["i"]], T[st["j"]] = T[st["j"]], T[st["i"]]
    elif how == "reverse":
        T.reverse()
    else:
        raise ValueError(how)
    if list(T) != st["after"]:
        raise RuntimeError(f"harness: edit {how} gave {list(T)!r}, expected {st['after']!r}")


def _names_of(*positions):
    return sorted({p.src_name for p in positions if p is not None})


def _call_tok(llparser, p, T, src, otext_of):
    """-> (lex observation, elements (tokens as TElement) or None, src names seen)"""
    try:
        toks = list(p.tokenizer.tokenize(T, src))
    except llparser.LexicalError as e:
        return ["err", "LexicalError", list(e.src_pos.coords), e.text], None, _names_of(e.src_pos)
    except BaseException as e:  # noqa
        if type(e).__name__ == "Hang":
            raise
        return ["err", SX.exc_name(e), None, None], None, []
    otext = otext_of()
    els, tl, names = [], [], set()
    for t in toks:
        te = llparser.TElement(t.name, t.value, start_pos=t.start_pos, end_pos=t.end_pos)
        els.append(te)
        names.update(_names_of(t.start_pos, t.end_pos))
        tl.append([t.name, t.value, [list(t.span[0]), list(t.span[1])], _orig_obs(te, otext)])
    return ["ok", tl], els, sorted(names)


def _call_parse(llparser, p, T, src, otext_of):
    try:
        raw = p.parse(T, src_name=src, do_cleanup=False)
    except llparser.LexicalError as e:
        return ["err", "LexicalError", list(e.src_pos.coords), e.text], None, _names_of(e.src_pos)
    except llparser.ParsingError as e:
        return ["err", "ParsingError", list(e.src_pos.coords), None], None, _names_of(e.src_pos)
    except BaseException as e:  # noqa
        if type(e).__name__ == "Hang":
            raise
        return ["err", SX.exc_name(e), None, None], None, []
    els = _preorder(raw)
    names = set()
    for x in els:
        names.update(_names_of(x.start_pos, x.end_pos))
    return ["ok", _tree_obs(raw, otext_of())], els, sorted(names)


def _call_parsed(llparser, p, T, src, otext_of):
    """parse with the default cleanup -> (observation of the cleaned tree, src names)"""
    try:
        d = p.parse(T, src_name=src)
    except llparser.LexicalError as e:
        return ["err", "LexicalError", list(e.src_pos.coords), e.text], _names_of(e.src_pos)
    except llparser.ParsingError as e:
        return ["err", "ParsingError", list(e.src_pos.coords), None], _names_of(e.src_pos)
    except BaseException as e:  # noqa
        if type(e).__name__ == "Hang":
            raise
        return ["err", SX.exc_name(e), None, None], []
    seen = []
    o = _clean_obs(d, otext_of(), {}, llparser.TElement, seen)
    names = set()
    for x in seen:
        names.update(_names_of(x.start_pos, x.end_pos))
    return ["ok", o], sorted(names)


def _session_run(case, llparser, p, out):
    """one parser object p, one text object T: calls, in-place edits / re-binding in between.  Next to every call
    the same call is made by a NEW parser object on a NEW plain copy of the present contents."""
    import gc
    ss = case["sess"]
    flavor = ss["flavor"]
    fk = FLAVOR_KIND[flavor]
    track = {}
    T = _mk_obj(flavor, ss["init"], track)
    results = []          # elements of the successful tok / parse(do_cleanup=False) calls
    keep = []
    steps = []
    for st in ss["steps"]:
        op = st["op"]
        rec = {"op": op}
        if op == "edit":
            _apply_edit(T, st)
        elif op == "new":
            if st["drop"]:
                # the old object is dropped first: the new one may get its address (id)
                old = id(T)
                T = None
                gc.collect()
                tries = []
                for _ in range(25):
                    T = _mk_obj(flavor, st["contents"], track)
                    if id(T) == old:
                        break
                    tries.append(T)
                del tries
            else:
                keep.append(T)
                T = _mk_obj(flavor, st["contents"], track)
        elif op == "next":
            for _ in range(st["n"]):
                next(T, None)
        elif op == "burn":
            _burn(p, st["text"], keep)
        elif op == "call":
            snap = _snap(flavor, T, track)
            live = T
            otext_of = (lambda: list(snap)) if fk == "iter" else (lambda: live)
            rec.update(what=st["what"], src=st["src"], snap=snap)
            if st["what"] == "tok":
                rec["shared"], els, rec["srcs"] = _call_tok(llparser, p, T, st["src"], otext_of)
            elif st["what"] == "parse":
                rec["shared"], els, rec["srcs"] = _call_parse(llparser, p, T, st["src"], otext_of)
            else:
                els = None
                rec["shared"], rec["srcs"] = _call_parsed(llparser, p, T, st["src"], otext_of)
            if els is not None:
                results.append(els)
            # the same call, nothing shared with what went before
            pf = _mk_parser(case, llparser)
            Tf = snap if fk == "str" else list(snap)
            rec["fresh_lex"] = _call_tok(llparser, pf, Tf, st["src"], lambda: Tf)[0]
            rec["fresh_parse"] = _call_parse(llparser, pf, Tf, st["src"], lambda: Tf)[0]
            if st["what"] == "parsed":
                rec["fresh_clean"] = _call_parsed(llparser, pf, Tf, st["src"], lambda: Tf)[0]
            live = otext_of = els = None      # nothing but T refers to the text object
        elif op == "orig":
            k = st["k"]
            rec["k"] = k
            rec["snap"] = _snap(flavor, T, track)
            if k < len(results):
                rec["spans"] = [_span_obs(x) for x in results[k]]
                rec["res"] = [_orig_obs(x, T) for x in results[k]]
            else:
                rec["spans"] = rec["res"] = None
        else:
            raise ValueError(op)
        steps.append(rec)
    out["steps"] = steps
    return out


def impl_run(case):
    from ak import llparser
    text = case["text"]
    try:
        p = _mk_parser(case, llparser)
    except BaseException as e:  # noqa
        if type(e).__name__ == "Hang":
            raise
        return {"ctor": ["err", SX.exc_name(e)]}
    out = {"ctor": ["ok"], "skip": sorted(p.skip_tokens)}
    if case.get("sess"):
        return _session_run(case, llparser, p, out)
    prev = case.get("prev")
    keepalive = []
    if prev and prev["mode"] == "before":
        _burn(p, prev["text"], keepalive)
    # every token, skipped ones included
    try:
        toks = []
        gen = iter(p.tokenizer.tokenize(text, "src"))
        while True:
            if prev and prev["mode"] == "interleave" and len(toks) == prev["k"] and not keepalive:
                _burn(p, prev["text"], keepalive)
            try:
                toks.append(next(gen))
            except StopIteration:
                break
        tl = []
        for t in toks:
            te = llparser.TElement(t.name, t.value, start_pos=t.start_pos, end_pos=t.end_pos)
            tl.append([t.name, t.value, [list(t.span[0]), list(t.span[1])], _orig_obs(te, text)])
        out["lex"] = ["ok", tl]
    except llparser.LexicalError as e:
        out["lex"] = ["err", "LexicalError", list(e.src_pos.coords), e.text]
    except BaseException as e:  # noqa
        if type(e).__name__ == "Hang":
            raise
        out["lex"] = ["err", SX.exc_name(e), None, None]
    raw = None
    try:
        raw = p.parse(text, do_cleanup=False)
        out["parse"] = ["ok", _tree_obs(raw, text)]
    except llparser.LexicalError as e:
        out["parse"] = ["err", "LexicalError", list(e.src_pos.coords), e.text]
    except llparser.ParsingError as e:
        out["parse"] = ["err", "ParsingError", list(e.src_pos.coords), None]
    except BaseException as e:  # noqa
        if type(e).__name__ == "Hang":
            raise
        out["parse"] = ["err", SX.exc_name(e), None, None]
    if raw is not None:
        try:
            out["ops"] = ["ok", _tree_ops(llparser, p, raw, text)]
        except BaseException as e:  # noqa
            if type(e).__name__ == "Hang":
                raise
            out["ops"] = ["err", SX.exc_name(e), repr(e)[:200]]
    if isinstance(text, str) and (out["lex"][0] == "ok" or out["lex"][1] == "LexicalError"):
        # a str is its lines: the list of the rstrip()ped lines must give the same tokens at the same positions
        out["as_lines"] = _call_tok(llparser, p, [l.rstrip() for l in text.split("\n")], "src", lambda: text)[0]
    return out


# ------------------------------------------------------------------ model side
def _csym(s):
    return SX.cstr(s)


def _cpat(kind, arg):
    if kind == "lit":
        return f"PLit {SX.cstr(arg)}"
    if kind == "range":
        return f"PRange {ord(arg[0])} {ord(arg[1])}"
    if kind == "space":
        return "PSpace"
    if kind == "eol":
        return f"PEol {SX.cstr(arg)}"
    if kind == "quoted":
        return f"PQuoted {ord(arg)}"
    raise ValueError(kind)


def _clist(items, ty):
    items = list(items)
    return SX.clist(items) if items else f"(@nil {ty})"


def _cobj(fk, contents):
    if fk == "str":
        return f"(TStr {SX.cstr(contents)})"
    return f"({'TLines' if fk == 'lines' else 'TIter'} " + _clist((SX.cstr(l) for l in contents), "(list Z)") + ")"


def _csteps(case):
    fk = FLAVOR_KIND[case["sess"]["flavor"]]
    out = []
    for st in case["sess"]["steps"]:
        op = st["op"]
        if op == "edit":
            c = st["coq"]
            if c[0] == "set":
                out.append(f"SEdit (ESet {c[1]}%nat {SX.cstr(c[2])})")
            elif c[0] == "ins":
                out.append(f"SEdit (EIns {c[1]}%nat {SX.cstr(c[2])})")
            elif c[0] == "del":
                out.append(f"SEdit (EDel {c[1]}%nat)")
            else:
                out.append("SEdit (EFill " + _clist((SX.cstr(l) for l in c[1]), "(list Z)") + ")")
        elif op == "new":
            out.append(f"SNew {_cobj(fk, st['contents'])}")
        elif op == "next":
            out.append(f"SNext {st['n']}%nat")
        elif op == "call" and st["what"] == "tok":
            out.append("STok")
        elif op == "call" and st["what"] == "parse":
            out.append("SParse")
        elif op == "orig":
            out.append(f"SOrig {st['k']}%nat")
        # "burn" (another text in between) and "parsed" (default cleanup; its values are C05's) leave the text
        # object alone and are not steps of the model
    return _clist(out, "sstep")


def coq_case(case, obs):
    lex = _clist((f"({_csym(n)}, {_cpat(k, a)})" for n, k, a in case["lex"]), "(list Z * pat)")
    spans = _clist((f"({_csym(g)}, {SX.cstr(c)})" for g, c in case["spans"]), "(list Z * list Z)")
    syn = _clist((f"({_csym(a)}, {_csym(b)})" for a, b in case["syn"]), "(list Z * list Z)")
    kw = _clist((f"({_csym(n)}, ({SX.cstr(v)}, {_csym(k)}))" for n, v, k in case["kw"]), "(list Z * (list Z * list Z))")
    skip = "None" if case["skip"] is None else "(Some " + _clist((_csym(s) for s in case["skip"]), "(list Z)") + ")"
    ug = SX.clist("(" + _csym(nt) + ", " + SX.clist(SX.clist(_csym(s) for s in alt) if alt else "(@nil (list Z))" for alt in alts) + ")"
                  for nt, alts in case["prods"])
    gen = _clist((_csym(x) for x in case.get("gen") or []), "(list Z)")
    seqs = _clist((_csym(x) for x in case.get("seqs") or []), "(list Z)")
    if case.get("sess"):
        o0 = _cobj(FLAVOR_KIND[case["sess"]["flavor"]], case["sess"]["init"])
        return (f"Sess (mkCfg {lex} {spans} {syn} {kw}) {skip} {ug} {SX.cbool(case['smart'])} {_csym(case['start'])} "
                f"{FUEL}%nat {gen} {seqs} {o0} {_csteps(case)} ({_csx(observation(case, obs))})")
    inp = _cinput(case["text"])
    alts = _clist((_cinput(a) for _, a in alt_texts(case["text"])), "input")
    ks = _clist((f"{k}%nat" for k in surviving_indices(obs)), "nat")
    return (f"Case (mkCfg {lex} {spans} {syn} {kw}) {skip} {ug} {SX.cbool(case['smart'])} {_csym(case['start'])} "
            f"{FUEL}%nat {gen} {seqs} {inp} {alts} {ks} ({_csx(observation(case, obs))})")


def _cinput(t):
    if isinstance(t, (list, tuple)):
        return "(ILines " + _clist((SX.cstr(l) for l in t), "(list Z)") + ")"
    return f"(IStr {SX.cstr(t)})"


def clean_elements(o):
    """the elements ["T", ...] of a cleaned-tree observation, an element before the elements inside its value"""
    out = []

    def walk(x):
        if isinstance(x, list) and x and x[0] == "T":
            out.append(x)
            walk(x[6])
        elif isinstance(x, list) and x and x[0] == "L":
            for e in x[1]:
                walk(e)
        elif isinstance(x, list) and x and x[0] == "D":
            for k, v in x[1]:
                walk(k)
                walk(v)
    walk(o)
    return out


def surviving_indices(obs):
    ops = obs.get("ops")
    if not ops or ops[0] != "ok":
        return []
    return [e[5] for e in clean_elements(ops[1]["clean"]) if e[5] is not None]


def _sx_text(o):
    return SX.ok(SX.s(o[1])) if o[0] == "ok" else SX.err(o[1])


def _sx_span(sp):
    return [[sp[0][0], sp[0][1]], [sp[1][0], sp[1][1]]]


def _sx_tree(t):
    if t[0] == 0:
        return [0, SX.s(t[1]), SX.s(t[2]), _sx_span(t[3]), _sx_text(t[4])]
    return [1, SX.s(t[1]), [_sx_tree(c) for c in t[2]], _sx_span(t[3]), _sx_text(t[4])]


def _sx_step(st):
    """one call of a session, in the encoding of C04/Run.v sx_callres"""
    if st["op"] == "orig":
        if st["res"] is None:
            return [6]
        return [5, [_sx_text(t) for t in st["res"]]]
    r = st["shared"]
    if r[0] == "err" and r[1] == "LexicalError":
        return [1, [r[2][0], r[2][1]], SX.s(r[3])]
    if st["what"] == "tok":
        if r[0] == "err":
            return [9, SX.err(r[1])[1]]
        return [0, [[SX.s(n), SX.s(v if v is not None else ""), _sx_span(sp), _sx_text(o)] for n, v, sp, o in r[1]]]
    return [0, SX.ok(_sx_tree(r[1])) if r[0] == "ok" else SX.err(r[1])]


def observation(case, obs):
    """the canonical observation (nested lists of ints) of what the implementation did"""
    if obs["ctor"][0] == "err":
        return [3, SX.err(obs["ctor"][1])[1]]
    if case.get("sess"):
        return [4, [_sx_step(st) for st in obs["steps"]
                    if (st["op"] == "call" and st["what"] in ("tok", "parse")) or st["op"] == "orig"]]
    lex = obs["lex"]
    if lex[0] == "err":
        if lex[1] != "LexicalError":
            return [9, SX.err(lex[1])[1]]
        return [1, [lex[2][0], lex[2][1]], SX.s(lex[3])]
    toks = [[SX.s(n), SX.s(v if v is not None else ""), _sx_span(sp), _sx_text(o)] for n, v, sp, o in lex[1]]
    pr = obs["parse"]
    if pr[0] == "ok":
        prs = SX.ok(_sx_tree(pr[1]))
    else:
        prs = SX.err(pr[1])
    # the trees obtained through the tree API: clone, elements surviving the cleanup (index in the raw tree, span,
    # text), get_orig_text of every element under the other representations of the text
    ops = obs.get("ops")
    if pr[0] != "ok":
        opx = []
    elif not ops or ops[0] != "ok":
        opx = [9, SX.err(ops[1] if ops else "OtherError")[1]]
    else:
        o = ops[1]
        opx = [_sx_tree(o["clone"]),
               [[e[5], _sx_span(e[3]), _sx_text(e[4])] for e in clean_elements(o["clean"]) if e[5] is not None],
               [[_sx_text(t) for t in lst] for lst in o["alt"]]]
    return [0, toks, prs, opx]


def _csx(x):
    if isinstance(x, bool):
        return "SZ 1" if x else "SZ 0"
    if isinstance(x, int):
        return f"SZ {SX.cZ(x)}"
    return "SL [" + "; ".join(_csx(e) for e in x) + "]"


def expected_sx(case, obs):
    # the comparison with observation(case, obs) is made inside Coq (C04/Run.v run): () = identical
    return "()"


def in_model(case, obs):
    return "__hang__" not in obs


# ------------------------------------------------------------------ oracle: the statement, independently of model and of get_orig_text
def _doc(text):
    """-> (lines as the tokenizer must see them, lines of the original text)"""
    if isinstance(text, str):
        orig = text.split("\n")
        return [l.rstrip() for l in orig], orig
    return list(text), list(text)


class _Offsets:
    """absolute offsets in '\\n'.join(lines) <-> (line, col), 1-based"""

    def __init__(self, lines):
        self.lines = lines
        self.doc = "\n".join(lines)
        self.starts = []
        off = 0
        for l in lines:
            self.starts.append(off)
            off += len(l) + 1

    def off(self, pos):
        l, c = pos
        if not (1 <= l <= len(self.lines)) or not (1 <= c <= len(self.lines[l - 1]) + 1):
            return None
        return self.starts[l - 1] + c - 1

    def region(self, sp):
        a, b = self.off(sp[0]), self.off(sp[1])
        if a is None or b is None or a > b:
            return None
        return self.doc[a:b]


def ref_tokenize(case):
    """Reference tokenizer working on absolute offsets of the joined document (positions are derived from offsets,
    never carried from token to token).  -> ("ok", [(name, value_or_None, (sl, sc), (el, ec), first_on_line)]) |
    ("err", line, text_of_line)"""
    tlines, _ = _doc(case["text"])
    syn = dict(case["syn"])
    kw = {(n, v): k for n, v, k in case["kw"]}
    spans = dict(case["spans"])
    alts = [(e[0], re.compile(pattern_of(e), re.VERBOSE)) for e in case["lex"]]
    toks = []
    open_span = None          # (group, start line, start col(0-based), first?)
    last = (1, 1)
    for li, line in enumerate(tlines, 1):
        col = 0
        first = True
        while col < len(line):
            if open_span is not None:
                g, sl, sc, fst = open_span
                k = line.find(spans[g], col)
                if k < 0:
                    break
                end = k + len(spans[g])
                toks.append([syn.get(g, g), None, (sl, sc + 1), (li, end + 1), fst, g, True])
                last = (li, end + 1)
                open_span = None
                col = end
                first = False
                continue
            m = None
            for name, rx in alts:
                m = rx.match(line, col)
                if m is not None:
                    break
            if m is None:
                return ("err", li, line)
            g = m.lastgroup
            if g in spans:
                open_span = (g, li, col, first)
            else:
                n = syn.get(g, g)
                v = m.group(g)
                n = kw.get((n, v), n)
                toks.append([n, v, (li, col + 1), (li, m.end() + 1), first, g, False])
                last = (li, m.end() + 1)
            first = False
            col = m.end()
    if open_span is not None:
        return ("err", open_span[1], tlines[open_span[1] - 1])
    toks.append(["$END$", None, last, last, False, None, False])
    return ("ok", toks)


def oracle(case, obs):
    if "__hang__" in obs:
        return [("hang", "constructor / tokenizer / parse did not return")]
    if obs["ctor"][0] != "ok":
        return [("ctor-error", f"LLParser constructor raised {obs['ctor'][1]} for a grammar of the fixed family")]
    if case.get("sess"):
        return _oracle_session(case, obs)
    return _oracle_single(case, obs)


def _describe(st):
    if st["op"] == "call":
        return {"tok": "tokenize", "parse": "parse(do_cleanup=False)", "parsed": "parse"}[st["what"]] + f"[{st['src']}]"
    if st["op"] == "edit":
        return "edit:" + st["how"]
    return st["op"]


def _oracle_session(case, obs):
    """the statement at every call of the session, for the contents the text object has AT THAT CALL; the same call
    made by a new parser object on a new copy of the contents must give the same; get_orig_text slices the text it is
    given"""
    out = []
    ss = case["sess"]
    fk = FLAVOR_KIND[ss["flavor"]]
    base = {k: v for k, v in case.items() if k != "sess"}
    hist = []
    for i, (st, rec) in enumerate(zip(ss["steps"], obs["steps"])):
        hist.append(_describe(st))
        where = f"step #{i} of the session on one {ss['flavor']} object [{' ; '.join(hist)}]"
        if rec["op"] == "call":
            what = rec["what"]
            fresh = rec["fresh_clean"] if what == "parsed" else rec["fresh_lex"] if what == "tok" else rec["fresh_parse"]
            fs = []
            if what != "parsed":
                pc = dict(base)
                pc["text"] = rec["snap"]
                po = {"ctor": ["ok"], "skip": obs["skip"],
                      "lex": rec["shared"] if what == "tok" else rec["fresh_lex"],
                      "parse": rec["shared"] if what == "parse" else rec["fresh_parse"]}
                fs = _oracle_single(pc, po, ops=False)
                out += [(sig, f"{where}: present contents {rec['snap']!r}: {msg}") for sig, msg in fs]
            if rec["shared"] != fresh and not fs:
                out.append(("history-dependent", f"{where}: the contents of the text object are {rec['snap']!r}; the call gives "
                            f"{_first_diff(fresh, rec['shared'])} (a new parser on a copy of the contents vs this parser on the object)"))
            if rec["shared"][0] == "ok" or rec["shared"][1] in ("LexicalError", "ParsingError"):
                if rec["srcs"] != [rec["src"]]:
                    out.append(("src-name", f"{where}: positions carry the source names {rec['srcs']}, the call said {rec['src']!r}"))
        elif rec["op"] == "orig" and rec["res"] is not None:
            snap = rec["snap"]
            olines = snap.split("\n") if fk == "str" else list(snap)
            offs = _Offsets(olines)
            none = _Offsets([])
            for j, (sp, got) in enumerate(zip(rec["spans"], rec["res"])):
                o = none if (fk == "iter" and j > 0) else offs
                reg = o.region((tuple(sp[0]), tuple(sp[1]))) if o.lines else None
                want = ["ok", reg] if reg is not None else ["err", "AssertionError"]
                if got != want:
                    out.append(("orig-text-given", f"{where}: element #{j} of result {rec['k']} with span {sp}: get_orig_text of the "
                                f"text object as it is now ({snap!r}) gives {got}, the characters between the two positions "
                                f"are {want}"))
                    break
    seen, res = set(), []
    for sig, msg in out:
        if sig not in seen:
            seen.add(sig)
            res.append((sig, msg))
    return res[:5]


def _oracle_single(case, obs, ops=True):
    out = []
    text = case["text"]
    if isinstance(text, list) and not text:
        # a text of zero lines is outside the quantifier ("one or many lines"): the $END$ token and the empty
        # root node sit at (1,1), a line that does not exist, and get_orig_text raises AssertionError (modelled)
        return []
    tlines, olines = _doc(text)
    offs = _Offsets(olines)
    ref = ref_tokenize(case)
    lex = obs["lex"]
    # ---- lexical errors name the line
    for where, r in (("tokenize", lex), ("parse", obs["parse"])):
        if ref[0] == "err":
            if r[0] != "err" or r[1] != "LexicalError":
                out.append(("lex-error-missing", f"{where}: line {ref[1]} {ref[2]!r} has a character no pattern matches (or a span "
                            f"that is never closed) but the result is {r[:2]}"))
            elif r[2][0] != ref[1] or (r[3] is not None and r[3] != ref[2]):
                out.append(("lex-error-line", f"{where}: LexicalError names line {r[2][0]} {r[3]!r}; the offending line is {ref[1]} {ref[2]!r}"))
        elif r[0] == "err" and r[1] == "LexicalError":
            out.append(("lex-error-spurious", f"{where}: LexicalError at {r[2]} but every character of the text is matched"))
    if out or ref[0] == "err" or lex[0] != "ok":
        if lex[0] == "err" and lex[1] != "LexicalError":
            out.append(("tokenize-raises", f"tokenize raised {lex[1]}"))
        out += _str_vs_lines(obs)
        return out[:3]
    toks = lex[1]
    rtoks = ref[1]
    # ---- token sequence and spans against the reference
    if [t[0] for t in toks] != [t[0] for t in rtoks]:
        out.append(("token-names", f"token names {[t[0] for t in toks][:12]} differ from {[t[0] for t in rtoks][:12]}"))
        return out
    for i, (t, r) in enumerate(zip(toks, rtoks)):
        sp = (tuple(t[2][0]), tuple(t[2][1]))
        if sp[0] != r[2]:
            sig = "line-start-column" if r[4] else "token-start"
            out.append((sig, f"token #{i} {t[0]} {t[1]!r}: start {sp[0]}, must be {r[2]}"
                        + (" (first token of its line: column 1 of that line)" if r[4] else "")))
        if sp[1] != r[3]:
            out.append(("token-end", f"token #{i} {t[0]} {t[1]!r}: end {sp[1]}, must be {r[3]}"))
        if r[1] is not None and t[1] != r[1]:
            out.append(("token-value", f"token #{i} {t[0]}: value {t[1]!r}, must be {r[1]!r}"))
    # ---- the statement on the reported positions themselves
    spans = dict(case["spans"])
    opener = {e[0]: e[2] for e in case["lex"]}
    quoted = {e[0]: e[2] for e in case["lex"] if e[1] == "quoted"}
    prev_end = None
    covered = {}
    for i, (t, r) in enumerate(zip(toks, rtoks)):
        name, value, sp, orig = t
        s, e = tuple(sp[0]), tuple(sp[1])
        if s > e:
            out.append(("monotone", f"token #{i} {name}: start {s} after end {e}"))
        if prev_end is not None:
            if s < prev_end:
                out.append(("monotone", f"token #{i} {name} starts at {s}, before the end {prev_end} of its predecessor"))
            if s[0] == prev_end[0] and s != prev_end:
                out.append(("adjacent", f"token #{i} {name} starts at {s} on the line where its predecessor ends at {prev_end}"))
        reg = offs.region((s, e))
        if reg is None:
            out.append(("span-invalid", f"token #{i} {name}: span {(s, e)} is not a region of the text"))
            prev_end = e
            continue
        if orig != ["ok", reg]:
            out.append(("orig-text", f"token #{i} {name}: get_orig_text gives {orig}, the text between {s} and {e} is {reg!r}"))
        if name == "$END$":
            if i != len(toks) - 1 or s != e:
                out.append(("end-token", f"$END$ token #{i} with span {(s, e)}"))
        elif r[6]:
            op, closer = opener[r[5]], spans[r[5]]
            body = reg[len(op):]
            if not reg.startswith(op) or len(reg) < len(op) + len(closer) \
                    or _first_closer(body, closer) != len(body) - len(closer):
                out.append(("leaf-text", f"span token #{i} {name}: the text of its span is {reg!r}, not opener .. first closer"))
        else:
            q = quoted.get(r[5])
            want = q + value + q if q is not None else value
            if reg != want:
                out.append(("leaf-text", f"token #{i} {name} {value!r}: the text of its span {(s, e)} is {reg!r}"))
        a, b = offs.off(s), offs.off(e)
        for k in range(a, b):
            covered[k] = covered.get(k, 0) + 1
        prev_end = e
    # every character of every (stripped) line belongs to exactly one token; no character belongs to two
    for li, (tl, ol) in enumerate(zip(tlines, olines), 1):
        base = offs.starts[li - 1]
        bad = [c for c in range(len(ol)) if covered.get(base + c, 0) != 1 and (c < len(tl) or covered.get(base + c, 0) > 1)]
        if bad:
            out.append(("cover", f"character {bad[0] + 1} of line {li} {ol!r} belongs to {covered.get(base + bad[0], 0)} tokens"))
            break
    out += _str_vs_lines(obs)
    # ---- tree
    pr = obs["parse"]
    skip = set(obs["skip"])
    ns = [t for t in toks if t[0] not in skip]
    if pr[0] == "ok":
        info = []
        out += _check_tree(pr[1], ns, offs, info)
        if ops:
            out += _check_ops(obs, pr[1], info, offs)
    elif pr[1] == "ParsingError":
        if tuple(pr[2]) not in [tuple(t[2][0]) for t in ns]:
            out.append(("parse-error-pos", f"ParsingError.src_pos {pr[2]} is not the start of a token"))
    else:
        out.append(("parse-raises", f"parse raised {pr[1]}"))
    # de-duplicate signatures
    seen, res = set(), []
    for sig, msg in out:
        if sig not in seen:
            seen.add(sig)
            res.append((sig, msg + f"   [cfg {case['cfg']}, grammar {case['gid']}, text {text!r}]"))
    return res[:5]


def _str_vs_lines(obs):
    """text given as str: tokenize(text) and tokenize([line.rstrip() for line in text.split('\\n')]) agree on token
    names, values, spans (and on the LexicalError)"""
    al = obs.get("as_lines")
    if al is None:
        return []
    lex = obs["lex"]
    a = [t[:3] for t in lex[1]] if lex[0] == "ok" else lex
    b = [t[:3] for t in al[1]] if al[0] == "ok" else al
    if a != b:
        return [("str-vs-lines", f"the text as str and as the list of its rstrip()ped lines are tokenized differently: "
                 f"{_first_diff(b, a)} (list vs str)")]
    return []


def _first_closer(body, closer):
    """first occurrence of the closer that does not straddle a line break (lines are searched one by one)"""
    off = 0
    for part in body.split("\n"):
        k = part.find(closer)
        if k >= 0:
            return off + k
        off += len(part) + 1
    return -1


def _check_tree(tree, ns, offs, info=None):
    """info (if given) receives, per element in depth-first order, (first token, token behind the last, the span the
    statement demands or None)"""
    out = []
    k = [0]
    if info is None:
        info = []

    def walk(t):
        kindt, name, val, sp, orig = t
        s, e = tuple(sp[0]), tuple(sp[1])
        me = len(info)
        info.append((k[0], k[0], None))
        reg = offs.region((s, e))
        if reg is None:
            out.append(("span-invalid", f"node {name}: span {(s, e)} is not a region of the text"))
        elif orig != ["ok", reg]:
            out.append(("orig-text", f"node {name}: get_orig_text gives {orig}, the text between {s} and {e} is {reg!r}"))
        if kindt == 0:
            if k[0] >= len(ns):
                out.append(("leaf-span", f"leaf {name} {val!r} has no token"))
                return
            tk = ns[k[0]]
            if [name, val, sp] != [tk[0], tk[1], tk[2]]:
                out.append(("leaf-span", f"leaf {name} {val!r} {sp} is not token #{k[0]} {tk[:3]}"))
            info[me] = (k[0], k[0] + 1, (tuple(tk[2][0]), tuple(tk[2][1])))
            k[0] += 1
            return
        i = k[0]
        for c in val:
            walk(c)
        j = k[0]
        if i >= len(ns):
            out.append(("node-span", f"node {name} lies behind the last token"))
            return
        info[me] = (i, j, (tuple(ns[i][2][0]), tuple(ns[i][2][0])) if i == j else (tuple(ns[i][2][0]), tuple(ns[j - 1][2][1])))
        if i == j:
            want = (tuple(ns[i][2][0]), tuple(ns[i][2][0]))
            if (s, e) != want:
                out.append(("empty-node-span", f"node {name} matched nothing; its span is {(s, e)}, the following token "
                            f"{ns[i][0]} starts at {want[0]}"))
        else:
            want = (tuple(ns[i][2][0]), tuple(ns[j - 1][2][1]))
            if (s, e) != want:
                last_empty = bool(val) and _n_leaves(val[-1]) == 0
                sig = "node-span-trailing-empty" if (s == want[0] and last_empty and j < len(ns) and e == tuple(ns[j][2][0])) else "node-span"
                out.append((sig, f"node {name} matched tokens #{i}..#{j - 1}; its span is {(s, e)}, must be {want} "
                            f"(start of its first token .. end of its last token)"))
    walk(tree)
    return out


def _pre_obs(t):
    """the elements of a raw-tree observation in depth-first order"""
    out = [t]
    if t[0] == 1:
        for c in t[2]:
            out += _pre_obs(c)
    return out


def _first_diff(a, b, path=""):
    """first place where two observations differ -> (path, a-part, b-part) | None"""
    if type(a) is not type(b):
        return (path, a, b)
    if isinstance(a, list):
        if len(a) != len(b):
            return (path + f"[len {len(a)} vs {len(b)}]", a[:6], b[:6])
        for i, (x, y) in enumerate(zip(a, b)):
            d = _first_diff(x, y, f"{path}.{i}")
            if d:
                return d
        return None
    return None if a == b else (path, a, b)


def _check_ops(obs, raw, info, offs):
    """the statement on the trees obtained from the parsed tree through the public tree API: the clone, the clones of
    all sub-trees, the tree after the default cleanup (cleanup(tree) and parse(text)), its clone, the find_all lists,
    get_orig_text under another representation of the text; and the original tree afterwards"""
    ops = obs.get("ops")
    if not ops:
        return [("tree-op-missing", "no observation of the tree operations")]
    if ops[0] != "ok":
        return [("tree-op-raises", f"clone / cleanup / find_all / parse(text) raised {ops[1]}: {ops[2]}")]
    o = ops[1]
    out = []
    pre = _pre_obs(raw)
    raw_spans = {(tuple(t[3][0]), tuple(t[3][1])) for t in pre}

    def exact(what, name, sp, orig, want):
        s, e = tuple(sp[0]), tuple(sp[1])
        reg = offs.region((s, e))
        if want is not None and (s, e) != want:
            out.append(("api-node-span", f"{what}: element {name} has span {(s, e)}; the tokens it was matched from give {want}"
                        + (f", its get_orig_text is {orig}" if orig else "")))
        elif reg is None:
            out.append(("span-invalid", f"{what}: element {name}: span {(s, e)} is not a region of the text"))
        elif orig != ["ok", reg]:
            out.append(("orig-text", f"{what}: element {name}: get_orig_text gives {orig}, the text between {s} and {e} is {reg!r}"))

    # ---- clone(): the same elements with the same spans
    cl = _pre_obs(o["clone"])
    if len(cl) != len(pre) or any(a[:2] != b[:2] for a, b in zip(cl, pre)):
        out.append(("clone-shape", f"clone() has another shape than the tree: {_first_diff(raw, o['clone'])}"))
    else:
        for k, (a, b) in enumerate(zip(cl, pre)):
            exact("clone() of the parsed tree", a[1], a[3], a[4], info[k][2] if k < len(info) else None)
    for k, a, b in o["subclone_diff"]:
        n0 = len(out)
        exact(f"clone() of sub-tree #{k}", b[0], b[1], b[2], info[k][2] if k < len(info) else None)
        if len(out) == n0:
            out.append(("clone-shape", f"clone() of sub-tree #{k} {a} is {b}"))
    # ---- the elements after the default cleanup are elements of the raw tree, each still exact
    def cleaned(what, tree):
        for e in clean_elements(tree):
            k = e[5]
            want = info[k][2] if k is not None and k < len(info) else None
            exact(what, e[1], e[3], e[4], want)
            if k is None and (tuple(e[3][0]), tuple(e[3][1])) not in raw_spans:
                out.append(("api-node-span", f"{what}: element {e[1]} has span {e[3]}, which no element of the freshly parsed tree has"))
    cleaned("cleanup() of the parsed tree", o["clean"])
    if o["reparse"] is not None:
        out.append(("reparse-differs", f"a second parse(text, do_cleanup=False) gives another tree: {_first_diff(raw, o['reparse'])}"))
    if o["clone_cleaned"] is not None:
        n0 = len(out)
        cleaned("cleanup() of the cloned tree", o["clone_cleaned"])
        if len(out) == n0:
            out.append(("clone-shape", f"cleanup(tree.clone()) and cleanup(tree) differ: "
                        f"{_first_diff(_strip_idx(o['clean']), o['clone_cleaned'])}"))
    if o["default_clean"] is not None:
        n0 = len(out)
        cleaned("parse(text) with the default cleanup", o["default_clean"])
        if len(out) == n0:
            out.append(("cleanup-paths-differ", f"parse(text) and cleanup(parse(text, do_cleanup=False)) differ: "
                        f"{_first_diff(_strip_idx(o['clean']), o['default_clean'])}"))
    if o["clone_clean"] is not None:
        n0 = len(out)
        cleaned("clone() of the cleaned tree", o["clone_clean"])
        if len(out) == n0:
            ref = o["default_clean"] if o["default_clean"] is not None else _strip_idx(o["clean"])
            out.append(("clone-shape", f"clone() of the cleaned tree differs from it: {_first_diff(ref, o['clone_clean'])}"))
    # ---- find_all lists the elements of the tree, with their spans
    for key, what in (("find_raw", "parsed"), ("find_clean", "cleaned")):
        if o[key] is not None and o[key][0] != o[key][1]:
            out.append(("api-node-span", f"find_all(exclude_root=False) on the {what} tree lists (name, span, text) "
                        f"{_first_diff(o[key][1], o[key][0])} (elements of the tree vs listed)"))
    if o["tuple_parse"] is not None:
        out.append(("reparse-differs", f"parse(tuple(lines)) gives another tree than parse(lines): {_first_diff(raw, o['tuple_parse'])}"))
    # ---- get_orig_text does not depend on how the text is handed over
    for lst in o["alt"]:
        for k, (tx, t) in enumerate(zip(lst, pre)):
            if tx != t[4]:
                out.append(("orig-text-repr", f"element #{k} {t[1]} {t[3]}: get_orig_text gives {t[4]} for the text as it was parsed "
                            f"and {tx} for the same text as list of lines / str"))
                break
    # ---- clone, cleanup of the clone and a second parse leave the tree alone
    if o["raw_after"] is not None:
        out.append(("tree-mutated", f"the parsed tree changed after clone() / cleanup of the clone: {_first_diff(raw, o['raw_after'])}"))
    return out


def _n_leaves(t):
    if t[0] == 0:
        return 1
    return sum(_n_leaves(c) for c in t[2])


def nontrivial(case, obs):
    if "__hang__" in obs or obs["ctor"][0] != "ok":
        return False
    if case.get("sess"):
        # at least two calls that returned tokens / a tree of three or more elements, the contents differing
        good = [r for r in obs["steps"] if r["op"] == "call" and r["shared"][0] == "ok"
                and (r["what"] == "parsed" or len(r["shared"][1] if r["what"] == "tok" else _pre_obs(r["shared"][1])) >= 3)]
        return len(good) >= 2 and any(a["snap"] != b["snap"] for a, b in zip(good, good[1:]))
    t = case["text"]
    s = "\n".join(t) if isinstance(t, list) else t
    multi = (len(t) if isinstance(t, list) else t.count("\n") + 1) >= 2
    opener = {e[0]: e[2] for e in case["lex"]}
    has_span = any(opener[g] in s for g, _ in case["spans"])
    if obs["lex"][0] == "ok":
        return (multi or has_span) and len(obs["lex"][1]) >= 3
    return obs["lex"][1] == "LexicalError"


def outcome(case, obs):
    if "__hang__" in obs:
        return "hang"
    if obs["ctor"][0] != "ok":
        return "ctor:" + obs["ctor"][1]
    if case.get("sess"):
        calls = [r for r in obs["steps"] if r["op"] == "call"]
        return "session:" + ("ok" if all(r["shared"][0] == "ok" for r in calls) else "some-call-raises")
    if obs["lex"][0] != "ok":
        return "lex:" + obs["lex"][1]
    return "parse:" + (obs["parse"][0] if obs["parse"][0] == "ok" else obs["parse"][1])


def shrink_candidates(case):
    if case.get("sess"):
        # shorter histories: cut the end, drop calls that change nothing
        steps = case["sess"]["steps"]
        for n in range(len(steps) - 1, 0, -1):
            c = dict(case)
            c["sess"] = dict(case["sess"], steps=steps[:n])
            yield c
        for i, st in enumerate(steps):
            if st["op"] in ("burn", "orig") or (st["op"] == "call" and i + 1 < len(steps)):
                c = dict(case)
                c["sess"] = dict(case["sess"], steps=steps[:i] + steps[i + 1:])
                yield c
        return
    t = case["text"]
    if isinstance(t, list):
        for i in range(len(t)):
            c = dict(case)
            c["text"] = t[:i] + t[i + 1:]
            yield c
        for i, l in enumerate(t):
            for j in range(len(l)):
                c = dict(case)
                c["text"] = t[:i] + [l[:j] + l[j + 1:]] + t[i + 1:]
                yield c
    else:
        n = len(t)
        step = max(1, n // 8)
        while step >= 1:
            for i in range(0, n, step):
                c = dict(case)
                c["text"] = t[:i] + t[i + step:]
                yield c
            if step == 1:
                break
            step //= 2


TECHNIQUE = ("Coq proof (trace relation of the tokenizer loop + induction over lines; stack invariant of the parse loop) on a "
             "hand-written Gallina model, generic in the compiled regular expressions + per-run correspondence check (vm_compute "
             "vs implementation) + an offset-based reference tokenizer as oracle")
LEVEL_TEXT = ("Full for the statement's clauses, as theorems about the model for ALL texts (any number of lines >= 1 of any code points, "
              "str or list input) and ALL tokenizer configurations, the compiled patterns being universally quantified functions "
              "with the hypotheses 'a match of the main pattern consumes >= 1 character and stays in the line' (matcher_ok) and 'a span "
              "body match stays in the line' (spans_ok): leaf_text / leaf_text_input (every token, skipped ones included, is tied to the "
              "pattern matches that produced it, its span is exactly the matched region and get_orig_text returns exactly those "
              "characters; a span token: opener start .. closer end across lines, the whole region), adjacent_in_line, "
              "line_start_column, spans_monotone, positions_valid, tokens_cover (per line, the parts of the tokens lying on it "
              "concatenate to the line), lex_error_line and unclosed_span_error_line (the LexicalError names the line of the "
              "unmatched character / of the opener and carries that line), tokenize_terminates; for trees: parse_spans (every tree "
              "returned by LLP/Parse.v parse, for any table, with roll-backs and suffix splicing, covers a token range), mk_node_wf, "
              "leaf_span, node_span (start of first token .. end of last token), empty_node_span (empty span at the following "
              "token, which exists), every_node_covered, node_text (get_orig_text of every node is defined and is the region "
              "between its two positions); for the trees obtained through the tree API: clone_exact (clone t = t), flatten_spans "
              "(in-parse flattening of ProdSequence elements keeps every span exact), listed_is_subtree / surviving_is_subtree and "
              "api_node_exact (every element of the clone of the flattened parse result - hence every element find_all lists and "
              "every raw element that survives the cleanup - covers exactly its tokens and get_orig_text returns the region between "
              "its positions); for one text object used again after it changed (C04/Session.v, strengthening round 2): "
              "call_leaves_text_object, iterator_used_up, session_results_by_state, buffer_after_session (after any calls the "
              "contents of a buffer are what the edits made of it), session_tokens_exact / session_tree_exact (a tokenize / parse "
              "call made at ANY moment of a history of calls and in-place edits gives tokens / tree elements that delimit "
              "characters of the contents of THAT moment), orig_text_is_local, stale_element_above_edit, "
              "stale_element_line_replaced_elsewhere (get_orig_text slices the text it is given and depends on the element's lines "
              "only).  Round 4: orig_text_one_line (two valid positions on one line, whatever its number and whatever the columns: "
              "get_orig_text is that line's slice, of c1 - c0 characters) and str_is_its_stripped_lines (a str is tokenized as the list "
              "of its rstrip()ped lines; every line the tokenizer sees, the first included, is a prefix of the caller's line), "
              "Examples witness_line_300, witness_column_300, witness_leading_bom.  source_shape ties the model to the presence of the line-start statement in the source; "
              "harness_matcher_ok proves the hypotheses for the concrete matcher that is compared with re on every run.  "
              "Only tested (correspondence + offset-based reference tokenizer), not theorems: that the reported closer is the FIRST "
              "place where the span body pattern matches; the converse direction of lex_error_line beyond what tokens_cover + "
              "tokenize_terminates give (a successful run has matched every character it stood on); ParsingError.src_pos (oracle: it is "
              "the start of a token); that cleanup() works in place and never touches a position (the elements of the cleaned tree "
              "are identified with raw elements by object identity at run time and the model is asked for THEIR spans; an element that "
              "is a new object is checked by the oracle only); that positions do not depend on what the parser object was used for "
              "before or in between, nor on what the SAME text object contained at an earlier call (histories and sessions on one "
              "mutable text object are generated; the model is a pure function of the present contents - that the implementation "
              "remembers nothing per text object / per src_name is exactly what the session correspondence and the oracle "
              "signatures history-dependent, src-name, orig-text-given test); get_orig_text under another "
              "representation of the text (compared with the model's orig_lines of that representation); fidelity of the model "
              "(1800 cases + 420 sessions + about 690 round-4 cases quick / 14000 + 2600 + about 1700 thorough, nine configurations, ten grammars).")
LEVEL_NOTE = ("Trusted: Coq kernel + vm_compute; fidelity of the hand model of _Tokenizer.tokenize / get_orig_text / the skip filter and of "
              "LLP/Parse.v (checked by correspondence on token lists, LexicalError position and text, tree spans and get_orig_text of every "
              "token and node, not proved); re, str.isspace/split/rstrip of CPython; the ast extractor and harness.  Outside the "
              "quantifier and recorded: patterns matching the empty string (the real generator never advances; model: LHang, Example "
              "tokenize_hangs_on_empty_match), a text of zero lines (list []: $END$ sits on a line that does not exist and get_orig_text "
              "raises AssertionError).  Observations that are not part of the statement: LexicalError.src_pos carries the 0-based "
              "column; the VALUE of a multi-line span token omits blank lines of its body.  Print Assumptions: closed under the global "
              "context for every theorem.")
DESIGN_REF = "DESIGN.md section 8, C04; section 7 C04a/C04b"
