(* C05/Run.v -- entry point of the correspondence check.

   CProds n p      one template: constructor, complete_init(n), gen_productions()
                   observation: (1 code) the constructor raised, else (0 PRODS)
   CParse g keep start raw raw2
                   one grammar and one parsed text.  [raw] is the tree the
                   implementation returned for parse(text, do_cleanup=False),
                   [raw2] the tree it returned for the same text under the grammar in
                   which every ProdSequence is replaced by its generated productions
                   written as plain productions (hence NOT flattened).
                   observation: (1 code) a template constructor raised, else
                     (0 PRODS CLEAN FLAT VALID)
                   PRODS = generated productions of every template symbol
                   CLEAN = the root after the default cleanup of [raw]   (res)
                   FLAT  = [raw2] flattened by the model                  (res; = raw)
                   VALID = every subtree of [raw]/[raw2] named by a template symbol is a
                           derivation tree of that template's generated productions (= 1)
   Encodings:  tree  (0 name value) token | (1 name) empty | (2 name (children)) inner
                     | (3 name (children)) sequence leaf
               value (0) None | (1 str) | (2 (items)) list | (3 ((k v)...)) dict
                     | (4 name leaf value) TElement
   CHist g keep start ops start2 ops2
                   one grammar, one parser object (constructor start symbol [start]) on which
                   several steps were made one after another; [ops] = in order, HCall raw for
                   each call with cleanup (raw = the raw tree of that call: parse(text,
                   do_cleanup=False, start_symbol_name=..) of a parser object made for that call
                   alone: the root is the call's start symbol) and HLook k for each use of a
                   read-only entry point (description printers, is_ambiguous, str/repr, table
                   readers ...) in between.  [ops2]: the steps made on a second parser object of
                   the same grammar with constructor start symbol [start2].
                   observation: (1 code) | (0 PRODS CALL ... CALL) with one
                   CALL = (CLEAN VALID) per HCall of [ops], then of [ops2] *)
From Coq Require Import ZArith List Bool.
From AK Require Export Common.Sx Common.Err LLP.Base gen.C05_Consts C05.Model.
Import ListNotations.
Open Scope Z_scope.

Inductive case :=
| CProds (n : sym) (p : pspec)
| CParse (g : gspec) (keep : list sym) (start : sym) (raw : option rt) (raw2 : option rt)
| CHist (g : gspec) (keep : list sym) (start : sym) (ops : list hop) (start2 : sym) (ops2 : list hop).

Fixpoint sx_rt (t : rt) : sx :=
  match t with
  | RTok n v => SL [SZ 0; sx_str n; sx_str v]
  | RNull n => SL [SZ 1; sx_str n]
  | RNode n ch => SL [SZ 2; sx_str n; SL (map sx_rt ch)]
  | RSeq n ch => SL [SZ 3; sx_str n; SL (map sx_rt ch)]
  end.

Fixpoint sx_cv (v : cv) : sx :=
  match v with
  | CNone => SL [SZ 0]
  | CStr s => SL [SZ 1; sx_str s]
  | CList l => SL [SZ 2; SL (map sx_cv l)]
  | CDict l => SL [SZ 3; SL (map (fun kv => SL [sx_cv (fst kv); sx_cv (snd kv)]) l)]
  | CElem n leaf x => SL [SZ 4; sx_str n; sx_bool leaf; sx_cv x]
  end.

Definition sx_te (t : te) : sx := sx_cv (te_cv t).

Definition sx_prods (P : prods) : sx :=
  sx_list (fun e => SL [sx_str (fst e); sx_list (sx_list sx_str) (snd e)]) P.

Definition is_template (q : ptempl) : bool := match q with QPlain _ => false | _ => true end.

Definition template_prods (g : list (sym * ptempl)) : prods :=
  flat_map (fun e => if is_template (snd e) then spec_prods (fst e) (snd e) else []) g.

(* the observations are large (whole trees): the model prints a digest of each
   part, the harness computes the same digest of the implementation's part
   (harness/props/c05.py:sx_hash); [run_full] prints the parts themselves *)
Definition HM : Z := 2305843009213693951.      (* 2^61 - 1 *)

Fixpoint sx_hash (s : sx) : Z :=
  match s with
  | SZ z => (z * 2654435761 + 97) mod HM
  | SL l => ((fold_left (fun acc x => (acc * 1000003 + sx_hash x) mod HM) l 1469598103) * 31
             + Z.of_nat (length l)) mod HM
  end.

Definition digest (s : sx) : sx :=
  match s with
  | SL (SZ 0 :: parts) => SL (SZ 0 :: map (fun p => SZ (sx_hash p)) parts)
  | _ => s
  end.

Definition run_full (c : case) : sx :=
  match c with
  | CProds n p =>
      match init_spec n p with
      | Err e => SL [SZ 1; SZ (err_code e)]
      | Ok q => SL [SZ 0; sx_prods (spec_prods n q)]
      end
  | CParse g keep start raw raw2 =>
      match init_grammar g with
      | Err e => SL [SZ 1; SZ (err_code e)]
      | Ok gi =>
          let E := grammar_env gi keep start seq_cleaned in
          SL [SZ 0; sx_prods (template_prods gi);
              sx_option (fun t => sx_res sx_te (cleanup E t)) raw;
              sx_option (fun t => sx_res sx_rt (flatten (seq_syms gi) t)) raw2;
              sx_bool (match raw with Some t => templates_valid false gi t | None => true end &&
                       match raw2 with Some t => templates_valid true gi t | None => true end)]
      end
  | CHist g keep start ops start2 ops2 =>
      match init_grammar g with
      | Err e => SL [SZ 1; SZ (err_code e)]
      | Ok gi =>
          let calls := fun s os =>
            map (fun tr => SL [sx_res sx_te (snd tr); sx_bool (templates_valid false gi (fst tr))])
                (combine (calls_of os) (opt_cat (run_ops (grammar_env gi keep s seq_cleaned) os))) in
          SL (SZ 0 :: sx_prods (template_prods gi) :: calls start ops ++ calls start2 ops2)
      end
  end.

Definition run (c : case) : sx := digest (run_full c).
