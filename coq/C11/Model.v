(* C11/Model.v -- executable model of ak/ppobj.py PrettyPrinter (lines 108-353):
   _gen_ch_chunks_for_obj (three layouts per container), _gen_ch_lines (grouping
   of chunks into lines), _value_is_simple, _simple_val_to_ch_chunk,
   _dict_key_to_sc_chunk, _mk_type_sort_value, and the plain text of the result
   ("\n".join of the lines; with no_color every chunk contributes its text only).

   Strings are lists of code points.  Numbers are opaque lexemes (Python's
   str(number), supplied by the harness); int dict keys are [Z] because their
   value drives the key order, their text is [dec].  The literal tables, the
   three thresholds and the ranks of _mk_type_sort_value are regenerated from the
   source on every run (gen/C11_Consts.v).  No proofs in this file. *)
From Coq Require Import ZArith List Bool.
From AK Require Import gen.C11_Consts.
Import ListNotations.

Notation str := (list Z).
(* a chunk of the generator: [Some text] or [None] = "start a new line" *)
Notation chunk := (option (list Z)).

Inductive kw := KwTrue | KwFalse | KwNone.
Inductive key := KInt (z : Z) | KStr (s : str) | KKw (k : kw).
Inductive value :=
| VKw (k : kw)
| VNum (lex : str)
| VStr (s : str)
| VList (l : list value)
| VDict (d : list (key * value)).
Inductive mode := Py | Json.

(* ---- text constants ---- *)
Definition c_quote : Z := 34.
Definition c_space : Z := 32.
Definition c_nl : Z := 10.
Definition s_lbrace : str := [123%Z].
Definition s_rbrace : str := [125%Z].
Definition s_lbrack : str := [91%Z].
Definition s_rbrack : str := [93%Z].
Definition s_comma : str := [44%Z].
Definition s_comma_sp : str := [44%Z; 32%Z].
Definition s_colon_sp : str := [58%Z; 32%Z].
Definition spaces (n : nat) : str := repeat c_space n.
Definition quoted (s : str) : str := c_quote :: s ++ [c_quote].

(* self._consts[value]: the table chosen by fmt_json *)
Definition lit (m : mode) (k : kw) : str :=
  let t := match m with Py => lit_py | Json => lit_json end in
  nth (match k with KwTrue => 0 | KwFalse => 1 | KwNone => 2 end) t [].

(* str(True) / str(False) / str(None): used for keys and for the sort value *)
Definition pystr (k : kw) : str :=
  match k with
  | KwTrue => [84; 114; 117; 101]
  | KwFalse => [70; 97; 108; 115; 101]
  | KwNone => [78; 111; 110; 101]
  end%Z.

(* str(int) *)
Fixpoint dec_digits (fuel : nat) (n : Z) (acc : str) : str :=
  let acc' := (48 + n mod 10)%Z :: acc in
  match fuel with
  | O => acc'
  | S f => if (n <? 10)%Z then acc' else dec_digits f (n / 10)%Z acc'
  end.
Definition dec_nat (n : Z) : str := dec_digits (Z.to_nat (Z.log2 n)) n [].
Definition dec (z : Z) : str :=
  if (z <? 0)%Z then 45%Z :: dec_nat (- z) else dec_nat z.

(* ---- _value_is_simple / _simple_val_to_ch_chunk / _dict_key_to_sc_chunk ---- *)
Definition is_simple (v : value) : bool :=
  match v with
  | VList (_ :: _) => false
  | VDict (_ :: _) => false
  | _ => true
  end.

(* only called on simple values (the callers test _value_is_simple first; the
   two asserts of the source are therefore never reached) *)
Definition simple_chunk (m : mode) (v : value) : str :=
  match v with
  | VStr s => quoted s
  | VKw k => lit m k
  | VNum lex => lex
  | VDict _ => s_lbrace ++ s_rbrace
  | VList _ => s_lbrack ++ s_rbrack
  end.

Definition key_chunk (k : key) : str :=
  match k with
  | KStr s => quoted s
  | KInt z => dec z
  | KKw k => pystr k
  end.

(* ---- _mk_type_sort_value: (rank, payload) compared as Python tuples ---- *)
Definition key_rank (k : key) : Z :=
  match k with KInt _ => rank_num | KStr _ => rank_str | KKw _ => rank_kw end.

Fixpoint str_leb (a b : str) : bool :=
  match a, b with
  | [], _ => true
  | _ :: _, [] => false
  | x :: a', y :: b' =>
      if (x <? y)%Z then true else if (y <? x)%Z then false else str_leb a' b'
  end.

(* a <= b for the sort values.  Payloads of different Python types with the same
   rank would raise TypeError in Python; the ranks read from the source are
   pairwise distinct (Lemmas.ranks_distinct), so that case is unreachable. *)
Definition key_leb (a b : key) : bool :=
  if (key_rank a <? key_rank b)%Z then true
  else if (key_rank b <? key_rank a)%Z then false
  else match a, b with
       | KInt x, KInt y => (x <=? y)%Z
       | KStr x, KStr y => str_leb x y
       | KKw x, KKw y => str_leb (pystr x) (pystr y)
       | _, _ => true
       end.

(* sorted(..., key=...) is a stable sort; so is insertion from the right *)
Fixpoint insert {A} (x : key * A) (l : list (key * A)) : list (key * A) :=
  match l with
  | [] => [x]
  | y :: r => if key_leb (fst x) (fst y) then x :: l else y :: insert x r
  end.
Definition isort {A} (l : list (key * A)) : list (key * A) := fold_right insert [] l.

(* ---- the chunk generator ---- *)
Definition T (s : str) : chunk := Some s.
Definition NL : chunk := None.

(* CHText.calc_chunks_len: on chunk lists, and on the bare texts of items_chunks *)
Definition ctext (c : chunk) : str := match c with Some t => t | None => [c_nl] end.
Definition chunks_len (l : list chunk) : nat :=
  fold_right (fun c n => match c with Some t => length t + n | None => n end) 0 l.
Definition texts_len (l : list str) : nat := fold_right (fun s n => length s + n) 0 l.

(* "is_first" loops: separator before every element but the first *)
Fixpoint sep_join {A} (sep : list A) (first : bool) (parts : list (list A)) : list A :=
  match parts with
  | [] => []
  | p :: r => (if first then [] else sep) ++ p ++ sep_join sep false r
  end.

(* the wrapped layout of a list of simple values: len_yielded / is_first_in_line *)
Fixpoint wrap (off : nat) (ics : list str) (len_y : nat) (first : bool) : list chunk :=
  match ics with
  | [] => []
  | c :: r =>
      let cur := length c in
      let brk := (wrap_limit <? Z.of_nat (len_y + cur))%Z && negb first in
      let first1 := if brk then true else first in
      let len1 := if brk then 0 else len_y in
      let len2 := if first1 then off + 2 else len1 + 2 in
      (if brk then [T s_comma; NL] else [])
        ++ [T (if first1 then spaces (off + 2) else s_comma_sp); T c]
        ++ match r with
           | [] => [NL]
           | _ :: _ => wrap off r (len2 + cur) false
           end
  end.

Fixpoint gen (m : mode) (v : value) (off : nat) {struct v} : list chunk :=
  match v with
  | VDict ((_ :: _) as d) =>
      (* sorted_keys; the recursive calls are made before sorting only to keep
         the recursion structural -- gen is a pure function *)
      let items := isort (map (fun kv : key * value => let (k, x) := kv in (k, (x, gen m x (off + 2)))) d) in
      let one :=
        [T s_lbrace]
          ++ sep_join [T s_comma_sp] true
               (map (fun it => [T (key_chunk (fst it)); T s_colon_sp; T (simple_chunk m (fst (snd it)))]) items)
          ++ [T s_rbrace] in
      if forallb (fun it => is_simple (fst (snd it))) items
         && (Z.of_nat (off + chunks_len one) <? dict_oneline_limit)%Z
      then one
      else
        [T s_lbrace]
          ++ sep_join [T s_comma] true
               (map (fun it => [NL; T (spaces (off + 2)); T (key_chunk (fst it)); T s_colon_sp]
                                 ++ snd (snd it)) items)
          ++ [NL; T (spaces off ++ s_rbrace)]
  | VList ((_ :: _) as l) =>
      if forallb is_simple l then
        let ics := map (simple_chunk m) l in
        if (Z.of_nat (off + (texts_len ics + 2 * length ics)) <? list_oneline_limit)%Z then
          [T s_lbrack] ++ sep_join [T s_comma_sp] true (map (fun c => [T c]) ics) ++ [T s_rbrack]
        else
          [T s_lbrack; NL] ++ wrap off ics 0 true ++ [T (spaces off ++ s_rbrack)]
      else
        [T s_lbrack]
          ++ sep_join [T s_comma] true
               (map (fun x => [NL; T (spaces (off + 2))] ++ gen m x (off + 2)) l)
          ++ [NL; T (spaces off ++ s_rbrack)]
  | _ => [T (simple_chunk m v)]
  end.

(* ---- _gen_ch_lines: chunks -> lines; plain text of a line = its chunk texts ---- *)
Fixpoint group (cs : list chunk) (cur : list str) : list (list str) :=
  match cs with
  | [] => match cur with [] => [] | _ :: _ => [rev cur] end
  | None :: r => rev cur :: group r []
  | Some t :: r => group r (t :: cur)
  end.

Definition gen_lines (m : mode) (v : value) : list str :=
  map (@concat Z) (group (gen m v 0) []).

(* CHText("\n").join(lines).plain_text() *)
Definition join_nl (ls : list str) : str := sep_join [c_nl] true ls.

Definition plain_text (m : mode) (v : value) : str := join_nl (gen_lines m v).
