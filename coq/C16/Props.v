(* C16/Props.v -- the property theorems, nothing else.
   "Requests issued through one connection, including every connection derived
   from it, carry pairwise distinct X-Request-ID values with sequence numbers
   that are handed out without gaps or repeats, however calls from several
   threads interleave.  An id supplied by the caller is sent unchanged and does
   not consume a number."

   Machine: C16/Model.v.  [exec cp prog sched st] runs the schedule [sched], ANY
   list of thread ids, one shared access per entry; since every list is allowed,
   each statement below holds after every prefix of every interleaving, for any
   number of threads and of requests per thread ([reqs]: per thread, the caller's
   headers of each request).  [impl_prog] is generated from the source on every
   run (gen/C16_Consts.v).  [numbers st]: sequence numbers the opener has seen;
   [pending_all st]: numbers of threads that left the critical section and have
   not sent yet; [zseq c0 k] = c0, c0+1, ..., c0+k-1. *)
From Coq Require Import ZArith List Permutation.
From AK Require Import Common.Err C16.Instr gen.C16_Consts C16.Model
  C16.LemList C16.LemFmt C16.LemInv C16.LemTerm C16.Lemmas.
Import ListNotations.
Open Scope Z_scope.

(* the program read from _generate_request_id / do_request keeps the lock discipline:
   ICheck; IAcquire; <loads/stores that leave c in the emitted local and c+1 in the counter>; IRelease; IEmit *)
Theorem impl_well_locked : well_locked impl_prog = true.
Proof. exact impl_well_locked_l. Qed.
Print Assumptions impl_well_locked.

(* the other facts read from the source: the name tested (case-insensitively) is the lower-case form of the
   key set, urllib files it under the observed name, the id ends in <non-digit><number>, the counter starts >= 0,
   derived connections call the root's implementation object *)
Theorem consts_ok :
  hdr_test_key = map lower hdr_set_key /\ cap hdr_set_key = obs_key /\ sep_ok fmt_sep = true /\
  0 <= ctr_init /\ shares_impl = true /\ wrap_rule = RShareParent.
Proof.
  exact (conj keys_agree (conj (str_eqb_eq _ _ set_key_observed)
        (conj fmt_sep_ok (conj ctr_init_nonneg (conj shares_impl_l wrap_rule_shares))))).
Qed.
Print Assumptions consts_ok.

(* MAIN: no repeats, no gaps, in every state of every interleaving *)
Theorem unique_gapfree : forall cp c0 reqs sched,
  let st := exec cp impl_prog sched (init (Some c0) reqs) in
  NoDup (numbers st) /\
  exists k : nat,
    Permutation (numbers st ++ pending_all st) (zseq c0 k) /\
    (lock st = None -> ctr st = Some (c0 + Z.of_nat k)).
Proof.
  intros cp c0 reqs sched st.
  split; [exact (proj1 (unique_l cp impl_prog impl_well_locked_l c0 reqs sched))|].
  destruct (gapfree_l cp impl_prog impl_well_locked_l c0 reqs sched) as (k & H1 & H2 & _).
  exists k. exact (conj H1 H2).
Qed.
Print Assumptions unique_gapfree.

(* spelled out: the statement holds after every prefix of every schedule (firstn n sched is again a schedule) *)
Theorem unique_gapfree_every_prefix : forall cp c0 reqs sched n,
  let st := exec cp impl_prog (firstn n sched) (init (Some c0) reqs) in
  NoDup (numbers st) /\
  exists k : nat,
    Permutation (numbers st ++ pending_all st) (zseq c0 k) /\
    (lock st = None -> ctr st = Some (c0 + Z.of_nat k)).
Proof. intros cp c0 reqs sched n. exact (unique_gapfree cp c0 reqs (firstn n sched)). Qed.
Print Assumptions unique_gapfree_every_prefix.

(* "one connection, including every connection derived from it": every wrapper, at any depth, uses the
   implementation object -- lock and counter, the [state] above -- of its root (rule read from _HttpConnBase.__init__) *)
Theorem derived_connections_share_impl : forall c, impl_of c = impl_of (root_of c) /\ impl_of c = root_of c.
Proof.
  intros c. split; [|exact (derived_share_l c)].
  rewrite (derived_share_l c). clear. induction c as [i|p IH]; [reflexivity|exact IH].
Qed.
Print Assumptions derived_connections_share_impl.

Example wrappers_of_one_root : impl_of (CWrap (CWrap (CRoot 7))) = CRoot 7 /\ impl_of (CWrap (CRoot 7)) = impl_of (CRoot 7) /\
                               impl_of (CRoot 7) <> impl_of (CRoot 8).
Proof. exact wrappers_l. Qed.
Print Assumptions wrappers_of_one_root.

(* the same for ANY program that passes the check, not just today's *)
Theorem unique_gapfree_any_program : forall prog, well_locked prog = true ->
  forall cp c0 reqs sched,
  let st := exec cp prog sched (init (Some c0) reqs) in
  NoDup (numbers st) /\
  exists k : nat,
    Permutation (numbers st ++ pending_all st) (zseq c0 k) /\
    (lock st = None -> ctr st = Some (c0 + Z.of_nat k)).
Proof.
  intros prog Hwl cp c0 reqs sched st.
  split; [exact (proj1 (unique_l cp prog Hwl c0 reqs sched))|].
  destruct (gapfree_l cp prog Hwl c0 reqs sched) as (k & H1 & H2 & _).
  exists k. exact (conj H1 H2).
Qed.
Print Assumptions unique_gapfree_any_program.

(* when all threads are done: the numbers sent are exactly c0 .. c0+k-1, the counter is c0+k, and k is the
   number of requests WITHOUT a caller-supplied id: supplied ids consume no number *)
Theorem gapfree_at_rest : forall cp c0 reqs sched,
  let st := exec cp impl_prog sched (init (Some c0) reqs) in
  finished st ->
  exists k : nat, ctr st = Some (c0 + Z.of_nat k) /\ Permutation (numbers st) (zseq c0 k) /\
                  k = list_sum (map count_auto reqs).
Proof. intros cp c0 reqs sched. exact (consumed_l cp impl_prog c0 reqs sched impl_well_locked_l). Qed.
Print Assumptions gapfree_at_rest.

(* what each request carried: thread t's requests R split into done / current / to come, and the opener saw for
   every done request h either the caller's own value and no number (id supplied under any spelling of the name) or
   a generated id fmt(n); in particular no request raised *)
Theorem every_request_answered : forall cp c0 reqs sched t th R,
  let st := exec cp impl_prog sched (init (Some c0) reqs) in
  nth_error (threads st) t = Some th -> nth_error reqs t = Some R ->
  exists D, R = D ++ cur th ++ todo th /\
            Forall2 (fun h e => if supplied h then e = Sent None (sent_value h None)
                                else exists n, e = Sent (Some n) (Some (fmt cp n)))
                    D (rev (out th)).
Proof. intros cp c0 reqs sched t th R. exact (answered_l cp impl_prog impl_well_locked_l c0 reqs sched t th R). Qed.
Print Assumptions every_request_answered.

(* [supplied h] is do_request's test any(name.lower() == 'x-request-id' for name in headers); [is_spelling k]: k.lower() is
   that name.  An id supplied under ANY spelling of the header name is recognised and is what is sent (with
   every_request_answered: and no number is used) *)
Theorem caller_id_sent_unchanged : forall h1 h2 k v,
  is_spelling k = true -> Forall other_key h1 -> Forall other_key h2 ->
  let h := h1 ++ (k, v) :: h2 in
  supplied h = true /\ sent_value h None = Some v.
Proof. exact caller_value_l. Qed.
Print Assumptions caller_id_sent_unchanged.

(* the test and urllib agree on what a spelling is: name.capitalize() = 'X-request-id' iff name.lower() = 'x-request-id' *)
Theorem spellings_agree : forall k, str_eqb (cap k) obs_key = is_spelling k.
Proof. exact spelling_iff. Qed.
Print Assumptions spellings_agree.

(* several spellings in one dict (urllib keeps one header per capitalised name, the later entry wins): whenever the test
   recognises a caller id, the value sent is the caller's value under the LAST spelling in the dict *)
Theorem supplied_id_last_spelling_sent : forall h, supplied h = true ->
  exists h1 k v h2, h = h1 ++ (k, v) :: h2 /\ is_spelling k = true /\ Forall other_key h2 /\
                    sent_value h None = Some v.
Proof. exact supplied_value_l. Qed.
Print Assumptions supplied_id_last_spelling_sent.

(* and a request without any spelling of the name has none after capitalisation either: nothing of the caller's is overwritten *)
Theorem not_supplied_no_spelling : forall h, supplied h = false -> Forall other_key h.
Proof. exact supplied_false_other. Qed.
Print Assumptions not_supplied_no_spelling.

(* the id is injective in the sequence number (even across connection parts) ... *)
Theorem id_injective : forall cp1 cp2 n m, 0 <= n -> 0 <= m -> fmt cp1 n = fmt cp2 m -> n = m.
Proof. exact id_injective_l. Qed.
Print Assumptions id_injective.

(* ... hence the generated X-Request-ID values themselves are pairwise distinct *)
Theorem ids_pairwise_distinct : forall cp c0 reqs sched, 0 <= c0 ->
  NoDup (map (fmt cp) (numbers (exec cp impl_prog sched (init (Some c0) reqs)))).
Proof. intros cp c0 reqs sched. exact (ids_distinct_l cp impl_prog impl_well_locked_l c0 reqs sched). Qed.
Print Assumptions ids_pairwise_distinct.

(* ... stated on what the opener saw: the X-request-id values of all requests that consumed a number *)
Theorem generated_values_distinct : forall cp c0 reqs sched, 0 <= c0 ->
  let st := exec cp impl_prog sched (init (Some c0) reqs) in
  generated_ids st = map (fmt cp) (numbers st) /\ NoDup (generated_ids st).
Proof.
  intros cp c0 reqs sched H0 st. split.
  - exact (generated_ids_fmt cp impl_prog c0 reqs sched impl_well_locked_l).
  - exact (generated_ids_distinct_l cp impl_prog c0 reqs sched impl_well_locked_l H0).
Qed.
Print Assumptions generated_values_distinct.

(* the 4-digit part wraps at 10^4 but the id does not repeat; beyond 10^12 the tail grows *)
Example wrapping_part_does_not_repeat_ids :
  firstn 4 (fmt [] 3) = firstn 4 (fmt [] 10003) /\ fmt [] 3 <> fmt [] 10003 /\
  length (fmt [] 999999999999) = 32%nat /\ length (fmt [] 1000000000000) = 33%nat /\
  fmt [] 999999999999 <> fmt [] 1999999999999.
Proof. exact wrap_l. Qed.
Print Assumptions wrapping_part_does_not_repeat_ids.

(* _send_request_ids=False: nothing is generated, every request carries just the caller's headers *)
Theorem ids_disabled : forall cp reqs sched,
  let st := exec cp impl_prog sched (init None reqs) in
  ctr st = None /\ numbers st = [] /\
  forall t th R, nth_error (threads st) t = Some th -> nth_error reqs t = Some R ->
    exists D, R = D ++ cur th ++ todo th /\
              Forall2 (fun h e => e = Sent None (sent_value h None)) D (rev (out th)).
Proof. intros cp reqs sched. exact (disabled_l cp impl_prog sched reqs impl_well_locked_l). Qed.
Print Assumptions ids_disabled.

(* no deadlock: as long as some thread has work left, some thread can make a step that changes the state
   (so the statements above are not about a machine that gets stuck on its lock) *)
Theorem no_deadlock : forall cp c0 reqs sched,
  let st := exec cp impl_prog sched (init (Some c0) reqs) in
  ~ finished st -> exists t, step cp impl_prog st t <> st.
Proof. intros cp c0 reqs sched. exact (no_deadlock_l cp impl_prog c0 reqs sched impl_well_locked_l). Qed.
Print Assumptions no_deadlock.

(* liveness proper.  [effective st sched]: every step of sched changes the state (the scheduled thread is neither
   done nor blocked on the lock) unless all threads are finished.  (a) from every reachable state -- ids enabled or
   disabled -- such a continuation exists and ends with all requests sent; (b) EVERY effective schedule at least
   [steps_left] long ends finished: no schedule that keeps scheduling runnable threads goes on for ever *)
Theorem can_always_finish : forall cp c reqs sched,
  let st0 := init c reqs in
  exists more, effective cp impl_prog (exec cp impl_prog sched st0) more /\
               finished (exec cp impl_prog (sched ++ more) st0).
Proof.
  intros cp [c0|] reqs sched.
  - exact (can_finish_l cp impl_prog c0 reqs sched impl_well_locked_l).
  - exact (can_finish_off_l cp impl_prog reqs sched impl_well_locked_l).
Qed.
Print Assumptions can_always_finish.

Theorem effective_schedules_finish : forall cp st sched,
  effective cp impl_prog st sched -> (steps_left impl_prog st <= length sched)%nat ->
  finished (exec cp impl_prog sched st).
Proof. intros cp st sched. exact (effective_finishes cp impl_prog sched st). Qed.
Print Assumptions effective_schedules_finish.

(* every step either does nothing (thread done / blocked) or uses up some of the bounded work *)
Theorem steps_are_bounded : forall cp st t,
  step cp impl_prog st t = st \/ (steps_left impl_prog (step cp impl_prog st t) < steps_left impl_prog st)%nat.
Proof. intros cp st t. exact (step_measure cp impl_prog st t). Qed.
Print Assumptions steps_are_bounded.

Example effective_schedule_exists :
  let st0 := init (Some 0) [[[]]; [[]]] in
  effective [] impl_prog st0 eff_sched /\ (steps_left impl_prog st0 <= length eff_sched)%nat /\
  ~ finished (exec [] impl_prog (firstn 15 eff_sched) st0).
Proof. exact eff_sched_l. Qed.
Print Assumptions effective_schedule_exists.

(* no_deadlock is not vacuous: a reachable unfinished state with a thread blocked on the lock *)
Example blocked_thread_waits :
  let st := exec [] impl_prog [0; 0; 0; 1; 1]%nat (init (Some 0) [[[]]; [[]]]) in
  ~ finished st /\ lock st = Some 0%nat /\ step [] impl_prog st 1 = st /\ step [] impl_prog st 0 <> st.
Proof. exact blocked_l. Qed.
Print Assumptions blocked_thread_waits.

(* sanity (the theorems are not vacuous, the machine can lose an update): the same program without
   Acquire/Release hands number 0 to two requests under a 12-step schedule of two threads *)
Theorem lost_update_without_lock :
  let st := exec [] (strip_lock impl_prog) race_sched (init (Some 0) [[[]]; [[]]]) in
  numbers st = [0; 0] /\ ctr st = Some 1 /\ finished st.
Proof. exact lost_update_l. Qed.
Print Assumptions lost_update_without_lock.

(* non-vacuity: a complete interleaved run (thread 1 is blocked on the lock meanwhile) *)
Example interleaved_run :
  let st := exec [] impl_prog demo_sched (init (Some 0) [[[]]; [[]; []]]) in
  finished st /\ map (fun th => nums (out th)) (threads st) = [[0]; [2; 1]] /\ ctr st = Some 3.
Proof. exact demo_l. Qed.
Print Assumptions interleaved_run.

Example documented_key_passed_on :
  let st := exec [] impl_prog (repeat 0%nat 3) (init (Some 0) [[[(hdr_set_key, mine)]]]) in
  map out (threads st) = [[Sent None (Some mine)]] /\ ctr st = Some 0 /\ finished st.
Proof. exact exact_l. Qed.
Print Assumptions documented_key_passed_on.

(* REGRESSION of finding caller-id-respelled-replaced (fixed in /repo by 2323115): with headers={'x-request-id': 'mine'}
   the caller's id is sent and no number is used (it used to be replaced by fmt 0, the counter going to 1) *)
Example other_spelling_passed_on :
  let st := exec [] impl_prog (repeat 0%nat 3) (init (Some 0) [[[(x_lower, mine)]]]) in
  supplied [(x_lower, mine)] = true /\
  map out (threads st) = [[Sent None (Some mine)]] /\ ctr st = Some 0 /\ finished st.
Proof. exact respelled_l. Qed.
Print Assumptions other_spelling_passed_on.

Example two_spellings_last_wins :
  let st := exec [] impl_prog (repeat 0%nat 6)
                 (init (Some 0) [[[(hdr_set_key, mine); (x_caps, other_id)]; [(x_caps, other_id); (hdr_set_key, mine)]]]) in
  map out (threads st) = [[Sent None (Some mine); Sent None (Some other_id)]] /\ ctr st = Some 0 /\ finished st.
Proof. exact two_spellings_l. Qed.
Print Assumptions two_spellings_last_wins.

(* an EMPTY id supplied under the documented key is an id: sent as it is, no number used, the next request gets 0 *)
Example empty_caller_id_passed_on :
  let st := exec [] impl_prog (repeat 0%nat 11) (init (Some 0) [[[(hdr_set_key, [])]; []]]) in
  map out (threads st) = [[Sent (Some 0) (Some (fmt [] 0)); Sent None (Some [])]] /\ ctr st = Some 1 /\ finished st.
Proof. exact empty_id_l. Qed.
Print Assumptions empty_caller_id_passed_on.

(* the hypotheses of caller_id_sent_unchanged are satisfiable with other headers on both sides *)
Example caller_id_between_other_headers :
  is_spelling x_caps = true /\ Forall other_key [accept_hdr] /\ Forall other_key [xother_hdr] /\
  sent_value ([accept_hdr] ++ (x_caps, mine) :: [xother_hdr]) None = Some mine.
Proof. exact other_keys_l. Qed.
Print Assumptions caller_id_between_other_headers.

Example disabled_run :
  let st := exec [] impl_prog [0; 1; 0; 1; 0; 1]%nat (init None [[[]]; [[(hdr_set_key, mine)]]]) in
  finished st /\ map out (threads st) = [[Sent None None]; [Sent None (Some mine)]] /\ ctr st = None.
Proof. exact disabled_run_l. Qed.
Print Assumptions disabled_run.
