(* C15/Run.v -- entry point of the correspondence check. *)
From Coq Require Import ZArith List Bool.
From AK Require Export Common.Sx Common.Err C15.Model.
Import ListNotations.
Open Scope Z_scope.

Inductive case :=
(* SqlFilterCondition.make(a).make_text_update_values([], pt) *)
| Compile (pt : Z) (a : arg)
(* SqlMethod(select, group_by=, order_by=).<mtd>(conn, args..., _order_by=?, kw...) on a table;
   [with_rows] = false: only the executed statement is compared (typed columns) *)
| Query (mysql : bool) (m : method) (kw_ord : option (option str))
        (args : list arg) (kw : list (str * pyval))
        (with_rows : bool) (st : list (str * list (Z * Z))) (rows : list row)
        (desc : bool) (mtd : Z).

Definition sx_scalar (a : scalar) : sx :=
  match a with
  | SNone => SL []
  | SInt z => SL [SZ 0; SZ z]
  | SStr s => SL [SZ 1; sx_str s]
  end.

Definition sx_pyval (v : pyval) : sx :=
  match v with
  | VS a => sx_scalar a
  | VSeq k l => SL [SZ 2; SZ (kind_code k); sx_list sx_scalar l]
  end.

Definition sx_outcome (o : outcome) : sx :=
  match o with
  | ORows ids => SL [SZ 0; sx_list SZ ids]
  | ONothing => SL [SZ 1]
  | OOne x => SL [SZ 2; SZ x]
  end.

Definition run (c : case) : sx :=
  match c with
  | Compile pt a =>
      sx_res (fun pv => SL [sx_str (pieces_text (fst pv)); sx_list sx_pyval (snd pv)])
             (bind (make a) (cond_text pt))
  | Query mysql m kw_ord args kw with_rows st rows desc mtd =>
      match build mysql m kw_ord args kw with
      | Err e => SL [SL []; sx_res sx_outcome (Err e)]
      | Ok q =>
          SL [SL [sx_str (q_sql q); sx_list sx_pyval (q_params q)];
              if with_rows then sx_res sx_outcome (run_query sqlite_cmp sqlite_like st q rows desc mtd) else SL []]
      end
  end.
