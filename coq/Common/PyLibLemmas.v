(* Common/PyLibLemmas.v -- facts about the vocabulary of Common/PyLib.v, independent of any translated module. *)
From Coq Require Import ZArith List Bool Lia.
From AK Require Import Common.Sx Common.Err Common.PyLib.
Import ListNotations.
Open Scope Z_scope.

Lemma bind_ok {A B} (x : A) (f : A -> res B) : bind (Ok x) f = f x.
Proof. reflexivity. Qed.

Lemma bind_err {A B} e (f : A -> res B) : bind (Err e) f = Err e.
Proof. reflexivity. Qed.

Lemma bind_ret {A} (r : res A) : bind r (fun x => Ok x) = r.
Proof. destruct r; reflexivity. Qed.

Lemma py_divmod_ok a b : b <> 0 -> py_divmod a b = Ok (a / b, a mod b).
Proof. intros H. unfold py_divmod. destruct (Z.eqb_spec b 0); [contradiction|reflexivity]. Qed.

Lemma py_floordiv_ok a b : b <> 0 -> py_floordiv a b = Ok (a / b).
Proof. intros H. unfold py_floordiv. destruct (Z.eqb_spec b 0); [contradiction|reflexivity]. Qed.

Lemma py_mod_ok a b : b <> 0 -> py_mod a b = Ok (a mod b).
Proof. intros H. unfold py_mod. destruct (Z.eqb_spec b 0); [contradiction|reflexivity]. Qed.

Lemma py_len_chars s : py_len (py_chars s) = py_len s.
Proof. unfold py_len, py_chars. rewrite map_length. reflexivity. Qed.

Lemma py_len_app {A} (a b : list A) : py_len (a ++ b) = py_len a + py_len b.
Proof. unfold py_len. rewrite app_length. lia. Qed.

Lemma py_len_nonneg {A} (l : list A) : 0 <= py_len l.
Proof. unfold py_len. lia. Qed.

Lemma py_list_get_nth {A} (l : list A) i d : 0 <= i < py_len l -> py_list_get l i = Ok (nth (Z.to_nat i) l d).
Proof.
  intros H. unfold py_list_get, py_index_pos.
  destruct (Z.ltb_spec i 0); [lia|].
  destruct (Z.leb_spec 0 i); [|lia]. destruct (Z.ltb_spec i (py_len l)); [|lia]. cbn [andb].
  unfold py_len in H. destruct (nth_error l (Z.to_nat i)) eqn:E.
  - rewrite (nth_error_nth _ _ d E). reflexivity.
  - apply nth_error_None in E. lia.
Qed.

Lemma py_list_get_chars s i : 0 <= i < py_len s -> py_list_get (py_chars s) i = Ok [nth (Z.to_nat i) s 0].
Proof.
  intros H. rewrite (py_list_get_nth _ _ [0]) by (rewrite py_len_chars; exact H).
  unfold py_chars. f_equal. change [0] with ((fun c => [c]) 0). apply map_nth.
Qed.

Lemma py_str_mul_single c n : py_str_mul [c] n = repeat c (Z.to_nat n).
Proof. unfold py_str_mul. induction (Z.to_nat n) as [|k IH]; cbn [repeat concat app]; [reflexivity|]. rewrite IH. reflexivity. Qed.

Lemma py_str_eqb_refl a : py_str_eqb a a = true.
Proof. induction a as [|x a IH]; cbn [py_str_eqb]; [reflexivity|]. rewrite Z.eqb_refl, IH. reflexivity. Qed.

Lemma py_str_eqb_eq a b : py_str_eqb a b = true <-> a = b.
Proof.
  split; [|intros ->; apply py_str_eqb_refl].
  revert b. induction a as [|x a IH]; intros [|y b]; cbn [py_str_eqb]; try discriminate; [reflexivity|].
  intros H. apply andb_prop in H as [H1 H2]. apply Z.eqb_eq in H1. apply IH in H2. congruence.
Qed.

Lemma py_str_eqb_single x c : py_str_eqb [x] [c] = (x =? c).
Proof. cbn [py_str_eqb]. apply andb_true_r. Qed.

Lemma Z_eqb_of_nat a b : (Z.of_nat a =? Z.of_nat b) = Nat.eqb a b.
Proof. destruct (Z.eqb_spec (Z.of_nat a) (Z.of_nat b)), (Nat.eqb_spec a b); try reflexivity; lia. Qed.

Lemma Z_to_nat_sub_of_nat a b : Z.to_nat (Z.of_nat a - Z.of_nat b) = (a - b)%nat.
Proof. lia. Qed.

Lemma rev_py_chars s : rev (py_chars s) = py_chars (rev s).
Proof. unfold py_chars. symmetry. apply map_rev. Qed.

(* ------------------------------------------------------------------ *)
(* decimal text and format                                              *)

Lemma py_digits_le_zero_fuel_irrelevant f : py_digits_le (S f) 0 = [48].
Proof. reflexivity. Qed.

(* the digits are digits *)
Lemma py_digits_le_digits fuel : forall n, 0 <= n -> Forall (fun c => py_is_digit c = true) (py_digits_le fuel n).
Proof.
  induction fuel as [|f IH]; intros n Hn; cbn [py_digits_le]; [constructor|].
  destruct (Z.ltb_spec n 10).
  - constructor; [|constructor]. unfold py_is_digit. apply andb_true_intro; split; apply Z.leb_le; lia.
  - constructor; [|apply IH; apply Z.div_pos; lia].
    pose proof (Z.mod_pos_bound n 10 ltac:(lia)). unfold py_is_digit. apply andb_true_intro; split; apply Z.leb_le; lia.
Qed.

(* format(n, "0W") for n >= 0: zeros in front up to the width *)
Lemma py_format_int_zero_pad w n : 0 <= n ->
  py_format_int 48 61 w n = repeat 48 (Z.to_nat (w - py_len (py_str_of_nat n))) ++ py_str_of_nat n.
Proof.
  intros H. unfold py_format_int, py_pad. destruct (Z.ltb_spec n 0); [lia|].
  rewrite Z.abs_eq by exact H. cbn [app]. change (py_len (@nil Z)) with 0. rewrite Z.sub_0_r. reflexivity.
Qed.

Lemma py_str_of_int_nonneg n : 0 <= n -> py_str_of_int n = py_str_of_nat n.
Proof. intros H. unfold py_str_of_int. destruct (Z.ltb_spec n 0); [lia|reflexivity]. Qed.

(* ------------------------------------------------------------------ *)
(* values of run-time type                                              *)

Lemma py_as_int_cases v z : py_as_int v = Some z -> v = VInt z \/ exists b, v = VBool b /\ z = py_int_of_bool b.
Proof. destruct v; cbn; try discriminate; intros [= <-]; [right; eauto|left; reflexivity]. Qed.

Lemma py_mul_dyn_ints a b x y : py_as_int a = Some x -> py_as_int b = Some y -> py_mul_dyn a b = Ok (VInt (x * y)).
Proof.
  intros Ha Hb. destruct (py_as_int_cases _ _ Ha) as [->|(ba & -> & ->)], (py_as_int_cases _ _ Hb) as [->|(bb & -> & ->)];
    reflexivity.
Qed.

Lemma py_add_dyn_ints a b x y : py_as_int a = Some x -> py_as_int b = Some y -> py_add_dyn a b = Ok (VInt (x + y)).
Proof.
  intros Ha Hb. destruct (py_as_int_cases _ _ Ha) as [->|(ba & -> & ->)], (py_as_int_cases _ _ Hb) as [->|(bb & -> & ->)];
    reflexivity.
Qed.

(* s[1:] *)
Lemma py_slice_tail {A} (l : list A) : py_slice l (Some 1) None = skipn 1 l.
Proof.
  unfold py_slice, py_clamp, py_len. destruct l as [|x r]; [reflexivity|].
  cbn [length]. change (1 <? 0) with false. cbv iota.
  replace (Z.max 0 (Z.min (Z.of_nat (S (length r))) 1)) with 1 by lia.
  change (Z.to_nat 1) with 1%nat. cbn [skipn].
  replace (Z.to_nat (Z.of_nat (S (length r)) - 1)) with (length r) by lia. apply firstn_all.
Qed.

Lemma py_join_cons sep p q r : py_join sep (p :: q :: r) = p ++ sep ++ py_join sep (q :: r).
Proof. cbn [py_join flat_map]. rewrite <- app_assoc. reflexivity. Qed.

Lemma py_encode_utf8_ascii s : Forall (fun c => c < 128) s -> py_encode_utf8 s = Ok s.
Proof.
  intros H. unfold py_encode_utf8.
  assert (existsb py_is_surrogate s = false) as ->.
  { induction H as [|c r Hc Hr IH]; [reflexivity|]. cbn [existsb]. rewrite IH.
    unfold py_is_surrogate. destruct (Z.leb_spec 55296 c); [lia|reflexivity]. }
  f_equal. induction H as [|c r Hc Hr IH]; [reflexivity|]. cbn [flat_map]. rewrite IH.
  unfold py_utf8_char. destruct (Z.ltb_spec c 128); [reflexivity|lia].
Qed.
