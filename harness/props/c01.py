"""C01  Every parse result is a valid derivation of the user's grammar (ak/llparser.py)"""
import random

from harness.lib import sx as SX
from harness.props import llp_common as L

ID = "C01"
COQ_DIR = "C01"
EXTRA_COQ_DIRS = ["LLP"]
RUN_MOD = L.RUN_MOD
MODEL_TARGETS = ["C01/Run.vo"]
PROOF_TARGETS = ["C01/Basics.vo", "C01/Lemmas.vo", "C01/LemmasFact.vo", "C01/LemmasTable.vo", "C01/FactList.vo", "C01/FactExp.vo",
                 "C01/FactProps.vo", "C01/FactAll.vo", "C01/FactSmart1.vo", "C01/FactSmart2.vo", "C01/FactSmart3.vo", "C01/FactSmart4.vo",
                 "C01/FactFuel.vo", "C01/LemmasTop.vo"]
PROPS = ["C01/Props.v"]
ALLOWED_AXIOMS = []
IMPL_TIMEOUT = 20.0
COQ_SHARD = 40
RULE = ("random grammars (2-6 non-terminals with permuted names, 2-5 terminals, 1-4 ordered alternatives of length 0-4; "
        "forced shapes: common prefixes, nested common prefixes, an alternative that is a prefix of another, empty "
        "alternatives, some left recursion; for half of them additionally an alternative sharing its first symbols with a "
        "NON-adjacent one (not factorized: several table entries, roll-back after children were collected), a further member "
        "of a common-prefix group, a proper prefix of a factorized alternative; every 8th grammar has a symbol whose "
        "alternatives share ever shorter prefixes, 3-6 levels of nested suffix symbols), both smart_factorization values; per grammar "
        "up to 12 inputs: sampled sentences, sentences with one token inserted/deleted/replaced, random token strings; token "
        "values differ from token names.  Compared: constructor outcome, is_ambiguous, the tree (names, values) or error class "
        "of every input, the validator verdict on prods_map/_suffix_symbols, and for every 10th case (thorough: all) prods_map "
        "and _suffix_symbols themselves.  Non-trivial = distinct (grammar, inputs) whose constructor succeeds, whose grammar has "
        "a common-prefix group or an empty alternative, and at least one input parses to a tree.")
TRUSTED_BASE = [
    "tokenisation is outside this model: the model's parse receives the generator's token list (names, values, $END$ last and "
    "only there); the implementation tokenises the rendered text itself (tokenizer and skip-token filtering are C04's subject)",
    "GrammarError checks of _verify_grammar_structure_part1 (unknown symbols etc.) are outside the model; generated grammars "
    "never trigger them and the theorems do not need them (an unknown symbol only makes parses fail)",
    "python -O would switch off the constructor's name assertions that the model treats as rejections",
]
ASSUMPTIONS = ["grammars use plain productions (templates are C05's subject); keywords/synonyms only rename tokens before the "
               "parser sees them (tokenizer, C04)"]
MODELLED = ("ak/llparser.py: LLParser.__init__ name assertions, _create_productions (plain), _factorize_productions and helpers "
            "incl. the smart undo and their assertions, _get_nullables, _calc_first_sets, _calc_follow_sets, _make_llone_table, "
            "_verify_grammar_structure_part2, the main loop of parse incl. suffix splicing and roll-back (coq/LLP/*.v)")


def _mutate_for_c01(rng, g):
    """extra shapes on top of L.gen_grammar: an alternative sharing its first symbols with a NON-adjacent
    earlier one (not factorized -> the table offers several productions -> roll-back after children were
    collected), an alternative that is a proper prefix of / equal to a factorized one (nullable remainder),
    a third member for an existing common-prefix group (nested groups)"""
    prods = [[nt, [list(a) for a in alts]] for nt, alts in g["prods"]]
    for _ in range(rng.randint(0, 2)):
        nt, alts = rng.choice(prods)
        cands = [a for a in alts if a]
        if not cands or len(alts) >= 6:
            continue
        src = rng.choice(cands)
        k = rng.randint(1, len(src))
        tail = [rng.choice(g["terms"]) for _ in range(rng.randint(0, 2))]
        new = src[:k] + tail
        r = rng.random()
        if r < 0.45:
            # non-adjacent: put it at the far end, behind an alternative with a different first symbol
            if alts[-1] and alts[-1][0] == new[0]:
                alts.append([rng.choice(g["terms"])])
            alts.append(new)
        elif r < 0.8:
            # adjacent: joins (or creates) a common-prefix group, possibly nested
            alts.insert(alts.index(src) + 1, new)
        else:
            alts.insert(alts.index(src), src[:k])
    g2 = dict(g)
    g2["prods"] = prods
    return g2


def _gen_deep_prefix(rng):
    """a symbol whose alternatives share ever shorter prefixes (x1..xn y | x1..x(n-1) y' | ... | x1 y''): n levels of nested
    suffix symbols (S__S00__S00__S00...), with empty / nullable remainders mixed in; one or two further symbols"""
    n_t = rng.randint(3, 5)
    terms = list(L.T_NAMES[:n_t])
    nts = rng.sample(["S", "B", "C", "Q_R", "ZA"], rng.randint(2, 3))
    top, others = nts[0], nts[1:]
    prods = {}
    for o in others:
        alts = [[rng.choice(terms) for _ in range(rng.randint(1, 2))]]
        if rng.random() < 0.5:
            alts.append([])
        rng.shuffle(alts)
        prods[o] = alts
    depth = rng.randint(3, 6)
    spine = [rng.choice(terms + others) if i else rng.choice(terms) for i in range(depth)]
    alts = []
    for d in range(depth, 0, -1):
        r = rng.random()
        if r < 0.2:
            tail = []                                  # a proper prefix of the previous alternative
        elif r < 0.8:
            tail = [rng.choice([t for t in terms if d == depth or t != spine[d]] or terms)]
        else:
            tail = [rng.choice(others), rng.choice(terms)]
        alt = spine[:d] + tail
        if alt not in alts:
            alts.append(alt)
        if rng.random() < 0.3:                         # a sibling on the same level
            alt2 = spine[:d] + [rng.choice(terms), rng.choice(terms)]
            if alt2 not in alts:
                alts.append(alt2)
    if rng.random() < 0.5:
        alts.append([rng.choice(terms)])
    prods[top] = alts
    return {"nts": nts, "terms": terms, "prods": [[nt, [list(a) for a in prods[nt]]] for nt in nts],
            "start": top, "smart": rng.random() < 0.5}


def gen_cases(rng, tier):
    n = 4000 if tier == "thorough" else 220
    cases = []
    for i in range(n):
        if i % 8 == 3:
            g = _gen_deep_prefix(rng)
        else:
            g = L.gen_grammar(rng, allow_leftrec=0.08)
            if rng.random() < 0.5:
                g = _mutate_for_c01(rng, g)
        c = {"g": g, "inputs": L.gen_inputs(rng, g, 12)}
        if tier == "thorough" or i % 10 == 0:
            c["diag"] = True      # also compare prods_map / _suffix_symbols themselves
        cases.append(c)
    return cases


def search_cases(rng, tier):
    """failing-input search after a broken proof / correspondence: more grammars of the same distribution"""
    n = 1200 if tier == "thorough" else 300
    cases = []
    for i in range(n):
        if i % 4 == 1:
            g = _gen_deep_prefix(rng)
        else:
            g = L.gen_grammar(rng, allow_leftrec=0.05)
            if rng.random() < 0.6:
                g = _mutate_for_c01(rng, g)
        cases.append({"g": g, "inputs": L.gen_inputs(rng, g, 12)})
    return cases


def kind(case):
    g = case["g"]
    prods = dict(g["prods"])
    has_prefix = any(a and b and a[0] == b[0] for alts in prods.values() for a, b in zip(alts, alts[1:]))
    has_empty = any(not a for alts in prods.values() for a in alts)
    return f"prefix={int(has_prefix)} empty={int(has_empty)} smart={int(g['smart'])}"


# ------------------------------------------------------------------ implementation side
def impl_run(case):
    """L.impl_run + the factorized grammar (prods_map, _suffix_symbols) of the constructed parser"""
    from ak import llparser
    g = case["g"]
    prods = {nt: [tuple(a) if a else None for a in alts] for nt, alts in g["prods"]}
    try:
        p = llparser.LLParser(L.tokenizer_str(g["terms"]), productions=prods,
                              start_symbol_name=g["start"], smart_factorization=g["smart"])
    except BaseException as e:  # noqa
        if type(e).__name__ == "Hang":
            raise
        return {"ctor": ["err", SX.exc_name(e)]}
    out = {"ctor": ["ok"], "amb": bool(p.is_ambiguous()), "res": [],
           "fg": [[s, [[r.symbol, list(r.production), r.sort_n] for r in rr]] for s, rr in p.prods_map.items()],
           "sfxs": sorted(p._suffix_symbols),
           "terminals": sorted(p.terminals)}
    for inp in case["inputs"]:
        text = " ".join(v for _, v in inp)
        try:
            t = p.parse(text, do_cleanup=False)
            out["res"].append(["ok", L.tree_obs(t)])
        except llparser.Error as e:
            out["res"].append(["err", SX.exc_name(e)])
        except BaseException as e:  # noqa
            if type(e).__name__ == "Hang":
                out["res"].append(["err", "Hang"])
                out["hang_at"] = len(out["res"]) - 1
                while len(out["res"]) < len(case["inputs"]):
                    out["res"].append(["err", "NotRun"])
                return out
            out["res"].append(["err", SX.exc_name(e)])
    return out


# ------------------------------------------------------------------ validator of the factorization (Python re-implementation)
def py_fact_problems(uprods, start, fg, sfxs, terminals):
    """The hypotheses of parse_sound_build checked on the IMPLEMENTATION's prods_map / _suffix_symbols,
    written independently of coq/C01/Spec.v fact_ok: -> list of problems (empty = validated)

    uprods: [[symbol, [alternative, ...]], ...] as the user wrote them;  fg: [[symbol, [[rule symbol, production, sort_n], ...]], ...]"""
    problems = []
    sfx = set(sfxs)
    user = [nt for nt, _ in uprods]
    rules = {}
    for s, rr in fg:
        if s in rules:
            problems.append(f"symbol {s!r} occurs twice in prods_map")
        rules[s] = [list(r[1]) for r in rr]
        for r in rr:
            if any(x in sfx for x in r[1][:-1]):
                problems.append(f"suffix symbol inside production {s!r} -> {r[1]}")
    for nt in user:
        if nt in sfx:
            problems.append(f"user symbol {nt!r} is also a suffix symbol")
    for s in sfx:
        if s in terminals:
            problems.append(f"suffix symbol {s!r} is a terminal")
    if start not in user:
        problems.append(f"start symbol {start!r} is not one of the user's symbols")
    if [s for s, _ in fg if s not in sfx] != user:
        problems.append(f"non-suffix symbols of prods_map {[s for s, _ in fg if s not in sfx]} differ from the user's {user}")

    def expansions(prod, above):
        if prod and prod[-1] in sfx:
            g = prod[-1]
            if g in above:
                raise ValueError(f"suffix symbol {g!r} refers to itself")
            if g not in rules:
                raise ValueError(f"suffix symbol {g!r} has no productions")
            out = []
            for tail in rules[g]:
                for e in expansions(tail, above | {g}):
                    out.append(list(prod[:-1]) + e)
            return out
        return [list(prod)]

    want = {nt: [list(a) for a in alts] for nt, alts in uprods}
    for s, _ in fg:
        if s in sfx:
            continue
        try:
            got = [e for r in rules[s] for e in expansions(r, frozenset())]
        except ValueError as e:
            problems.append(str(e))
            continue
        if got != want.get(s, []):
            problems.append(f"productions of {s!r} expand to {got}, the user wrote {want.get(s, [])}")
    return problems


def _diag(case):
    return bool(case.get("diag"))


def coq_case(case, obs):
    # "Grammar ..." -> "GrammarV <diag> ..."
    base = L.coq_case(case, obs)
    assert base.startswith("Grammar ")
    return "GrammarV " + SX.cbool(_diag(case)) + base[len("Grammar"):]


def expected_sx(case, obs):
    if obs["ctor"][0] == "err":
        return SX.dumps(SX.err(obs["ctor"][1]))
    res = []
    for r in obs["res"]:
        res.append(SX.ok(L.tree_sx(r[1])) if r[0] == "ok" else SX.err(r[1]))
    g = case["g"]
    hyps = not py_fact_problems(g["prods"], g["start"], obs["fg"], obs["sfxs"], obs["terminals"])
    diag = []
    if _diag(case):
        diag = [[[SX.s(s), [[SX.s(r[0]), [SX.s(x) for x in r[1]], r[2]] for r in rr]] for s, rr in obs["fg"]],
                [SX.s(x) for x in sorted(obs["sfxs"])]]
    return SX.dumps([0, obs["amb"], hyps, diag, res])


def _reserved_names(g):
    return "__" in g["start"] or any("__" in s for _, alts in g["prods"] for a in alts for s in a)


def oracle(case, obs):
    if "__hang__" in obs:
        return [("ctor-hang", "constructor/parse batch did not return")]
    out = []
    if obs["ctor"][0] != "ok":
        return out
    g = case["g"]
    prods = {nt: alts for nt, alts in g["prods"]}
    # a user grammar that mentions a reserved helper name is the known finding, anything else is new
    sig_tree = "helper-name-in-user-grammar" if _reserved_names(g) else "invalid-tree"
    for inp, r in zip(case["inputs"], obs["res"]):
        if r[0] == "ok":
            probs = L.check_derivation(prods, g["start"], r[1], inp)
            if probs:
                out.append((sig_tree, f"grammar {g['prods']} start {g['start']} smart={g['smart']} input {inp}: " + "; ".join(probs[:3])))
    if not _reserved_names(g):
        probs = py_fact_problems(g["prods"], g["start"], obs["fg"], obs["sfxs"], obs["terminals"])
        if probs:
            out.append(("factorization-invalid", f"grammar {g['prods']} smart={g['smart']}: prods_map {[(s, [r[1] for r in rr]) for s, rr in obs['fg']]} "
                        f"suffix symbols {obs['sfxs']}: " + "; ".join(probs[:3])))
    # at most one report per signature
    seen, res = set(), []
    for sig, msg in out:
        if sig not in seen:
            seen.add(sig)
            res.append((sig, msg))
    return res


def nontrivial(case, obs):
    if "__hang__" in obs or obs["ctor"][0] != "ok":
        return False
    k = kind(case)
    return ("prefix=1" in k or "empty=1" in k) and any(r[0] == "ok" for r in obs["res"])


def outcome(case, obs):
    if "__hang__" in obs:
        return "hang"
    if obs["ctor"][0] != "ok":
        return "ctor:" + obs["ctor"][1]
    n_ok = sum(1 for r in obs["res"] if r[0] == "ok")
    return f"ctor:ok amb={int(obs['amb'])} parsed={'some' if n_ok else 'none'}"


def shrink_candidates(case):
    g = case["g"]
    # fewer inputs
    if len(case["inputs"]) > 1:
        for i in range(len(case["inputs"])):
            yield {"g": g, "inputs": [case["inputs"][i]]}
    # drop an alternative
    for i, (nt, alts) in enumerate(g["prods"]):
        if len(alts) > 1:
            for j in range(len(alts)):
                g2 = dict(g)
                g2["prods"] = [list(x) for x in g["prods"]]
                g2["prods"][i] = [nt, alts[:j] + alts[j + 1:]]
                yield {"g": g2, "inputs": case["inputs"]}


TECHNIQUE = ("Coq proof over a hand-written Gallina model of the parser (stack-machine invariant + induction on the iteration "
             "budget for the parse loop; rule induction on the factorization's result and a loop invariant with a multiset "
             "(Permutation) account of suffix-symbol references for the smart undo; an executable validator proved sound for the "
             "parse loop and complete for the factorization) + per-run correspondence (vm_compute vs implementation) + an "
             "independent Python oracle and a Python re-implementation of the validator run on the implementation's prods_map")
LEVEL_TEXT = ("Full (model level; all user grammars, all token lists, all iteration budgets, both smart_factorization settings). "
              "parse_sound_constructor: whenever the constructor model build accepts (ug, terminals, smart, start) and p_parse "
              "returns a tree for tokens body ++ [$END$], the root is the start symbol, every inner node with the names of its "
              "children is one of the USER's productions of that symbol (childless node = empty production), no suffix (helper) "
              "symbol names any node or leaf, leaves are named by terminals and inner nodes by non-terminals, and the leaves are "
              "exactly body (names and values, in order).  It is assembled from: parse_sound / parse_sound_tokens (the loop, for ANY "
              "table contained in the factorized grammar and any grammar accepted by the validator fact_ok), table_sub (the built "
              "table is contained in the grammar), factorize_ok (fact_ok accepts the result of _factorize_productions for every "
              "user grammar, with and without the smart undo: expanding suffix symbols gives back exactly the user's productions "
              "in order, helper names fresh, suffix symbols only last), factorize_fails_only_by_assertion (the modelled "
              "factorization never runs out of fuel; it fails exactly by the code's assertions), build_hyps_ok.  Examples: parse_sound_build_nonvacuous "
              "(nested common prefixes, nullable symbol, roll-back, both smart values), reserved_name_*_rejected.  Not claimed by "
              "a theorem, only by the per-run correspondence: that the model is the code (trees, is_ambiguous, prods_map, suffix "
              "symbols and error classes agree on every generated case; the Python validator is applied to the implementation's "
              "own prods_map), ProdsTemplate grammars (C05), tokenisation/skip tokens/keywords (C04).")
LEVEL_NOTE = ("Trusted: Coq kernel + vm_compute; fidelity of the hand model coq/LLP (checked by correspondence on every run, not "
              "proved); the token list handed to the model equals the implementation's non-skipped tokens; the harness.  Finding "
              "fixed during this work: reserved '__' names were accepted inside productions and as start symbol (/repo 6e22989), "
              "regression cases in corpus/C01.")
DESIGN_REF = "DESIGN.md section 8, C01 and Appendix A"
