(* C19/Model.v -- executable model of the multi-command part of ak/cli_tools.py
   (AkArgumentParser: lines 40-68, ArgParser.parse_args: 125-155,
   _init_multicmd_parser: 180-259, add_argument / get_cmd_parser: 261-285).

   Strings are lists of code points.  Exceptions are data ([res']).  argparse
   itself is a parameter ([subparser]) of [parse_args]; [mini_sub] is the
   concrete stand-in used by the correspondence check (a fragment of argparse:
   store_true flags, '--name VALUE' options, nargs='*' positionals, the standard
   -v/--color/--no-color options).  The constants of gen/C19_Consts.v are re-read from the source on
   every run.  No proofs in this file. *)
From Coq Require Import ZArith List Bool.
From AK Require Import gen.C19_Consts.
Import ListNotations.
Open Scope Z_scope.

Notation str := (list Z).

(* ------------------------------------------------------------------ *)
(* exceptions as data                                                   *)

Inductive exn := AssertionError | ValueError | ArgumentError | SystemExit | AttributeError.

Inductive res' (A : Type) : Type :=
| Ret (a : A)
| Raise (e : exn).
Arguments Ret {A} a.
Arguments Raise {A} e.

Definition bind' {A B} (r : res' A) (f : A -> res' B) : res' B :=
  match r with Ret a => f a | Raise e => Raise e end.

Fixpoint foldM {A B} (f : A -> B -> res' A) (l : list B) (a : A) : res' A :=
  match l with
  | [] => Ret a
  | b :: r => bind' (f a b) (foldM f r)
  end.

(* ------------------------------------------------------------------ *)
(* strings                                                              *)

Fixpoint str_eqb (a b : str) : bool :=
  match a, b with
  | [], [] => true
  | x :: a', y :: b' => (x =? y) && str_eqb a' b'
  | _, _ => false
  end.

Definition mem (x : str) (l : list str) : bool := existsb (str_eqb x) l.

Fixpoint lookup {A} (k : str) (l : list (str * A)) : option A :=
  match l with
  | [] => None
  | (k', v) :: r => if str_eqb k k' then Some v else lookup k r
  end.

Definition is_nil {A} (l : list A) : bool := match l with [] => true | _ => false end.

(* characters removed by Python's str.strip() *)
Definition is_space (c : Z) : bool :=
  ((9 <=? c) && (c <=? 13)) || ((28 <=? c) && (c <=? 32)) || (c =? 133) || (c =? 160)
  || (c =? 5760) || ((8192 <=? c) && (c <=? 8202)) || (c =? 8232) || (c =? 8233)
  || (c =? 8239) || (c =? 8287) || (c =? 12288).

Fixpoint lstrip (s : str) : str :=
  match s with
  | [] => []
  | c :: r => if is_space c then lstrip r else s
  end.
Definition strip (s : str) : str := rev (lstrip (rev (lstrip s))).

(* s.split(sep, maxsplit=1) : None = separator absent *)
Fixpoint split_first (sep : Z) (s : str) : option (str * str) :=
  match s with
  | [] => None
  | c :: r => if c =? sep then Some ([], r)
              else match split_first sep r with
                   | None => None
                   | Some (a, b) => Some (c :: a, b)
                   end
  end.

(* s.split(sep) : at least one chunk *)
Fixpoint split_all (sep : Z) (s : str) : list str :=
  match s with
  | [] => [[]]
  | c :: r => if c =? sep then [] :: split_all sep r
              else match split_all sep r with
                   | [] => [[c]]
                   | h :: t => (c :: h) :: t
                   end
  end.

(* a set built from a sequence: first occurrences (iteration order of the
   python set is not observable, see c19.notes.md) *)
Fixpoint dedup_acc (seen : list str) (l : list str) : list str :=
  match l with
  | [] => []
  | x :: r => if mem x seen then dedup_acc seen r else x :: dedup_acc (x :: seen) r
  end.
Definition dedup (l : list str) : list str := dedup_acc [] l.

(* ------------------------------------------------------------------ *)
(* command declarations  "!name:parent, parent"                          *)

Record decl := mkDecl { d_name : str; d_internal : bool; d_parents : list str }.

Definition ch_colon : Z := 58.
Definition ch_comma : Z := 44.
Definition ch_bang : Z := 33.
Definition ch_dash : Z := 45.
Definition ch_eq : Z := 61.

Definition parse_decl (s : str) : decl :=
  let cp := match split_first ch_colon s with
            | Some (a, b) => (a, b)
            | None => (s, [])
            end in
  let command := fst cp in
  let internal := match command with c :: _ => c =? ch_bang | [] => false end in
  let name := if internal then tl command else command in
  let ps := dedup (filter (fun p => negb (is_nil p)) (map strip (split_all ch_comma (snd cp)))) in
  mkDecl name internal ps.

(* ------------------------------------------------------------------ *)
(* parsers                                                              *)

(* p_id: identity of the parser object; p_deps: _dependent_parsers (ordered
   dict name -> parser object); p_flags / p_poss / p_vals: arguments added with
   add_argument (beyond the standard ones copied from common_options):
   '--name' store_true flags, 'name' nargs='*' positionals, '--name' options
   that take one value *)
Record parser := mkP {
  p_id : nat; p_internal : bool; p_deps : list (str * nat);
  p_flags : list str; p_poss : list str; p_vals : list str }.

Definition set_deps (pa : parser) (d : list (str * nat)) : parser :=
  mkP (p_id pa) (p_internal pa) d (p_flags pa) (p_poss pa) (p_vals pa).
Definition set_flags (pa : parser) (f : list str) : parser :=
  mkP (p_id pa) (p_internal pa) (p_deps pa) f (p_poss pa) (p_vals pa).
Definition set_poss (pa : parser) (f : list str) : parser :=
  mkP (p_id pa) (p_internal pa) (p_deps pa) (p_flags pa) f (p_vals pa).
Definition set_vals (pa : parser) (f : list str) : parser :=
  mkP (p_id pa) (p_internal pa) (p_deps pa) (p_flags pa) (p_poss pa) f.

Definition dep_names (pa : parser) : list str := map fst (p_deps pa).

(* command_parsers: ordered dict *)
Notation state := (list (str * parser)).

Definition keys (st : state) : list str := map fst st.

(* AkArgumentParser.register_dependent; [reg_idempotent] tells which of the two
   recognised shapes the source has *)
Definition register (name : str) (id : nat) (pa : parser) : res' parser :=
  match lookup name (p_deps pa) with
  | Some id' => if reg_idempotent
                then (if Nat.eqb id' id then Ret pa else Raise AssertionError)
                else Raise AssertionError
  | None => Ret (set_deps pa (p_deps pa ++ [(name, id)]))
  end.

Fixpoint st_mapM (f : str -> parser -> res' parser) (st : state) : res' state :=
  match st with
  | [] => Ret []
  | (q, pa) :: r =>
      match f q pa with
      | Raise e => Raise e
      | Ret pa' => match st_mapM f r with
                   | Raise e => Raise e
                   | Ret r' => Ret ((q, pa') :: r')
                   end
      end
  end.

(* lines 247-253: register in the parent, then in all its ascendants *)
Definition reg_parent (name : str) (id : nat) (st : state) (p : str) : res' state :=
  bind' (st_mapM (fun q pa => if str_eqb q p then register name id pa else Ret pa) st)
        (st_mapM (fun _ pa => if mem p (dep_names pa) then register name id pa else Ret pa)).

Definition declare (st : state) (d : decl) : res' state :=
  if is_nil (d_name d) then Raise AssertionError
  else if mem (d_name d) (keys st) then Raise AssertionError
  else if negb (forallb (fun p => mem p (keys st)) (d_parents d)) then Raise AssertionError
  else let id := length st in
       bind' (foldM (reg_parent (d_name d) id) (d_parents d) st)
             (fun st1 => Ret (st1 ++ [(d_name d, mkP id (d_internal d) [] [] [] [])])).

Definition build (ds : list decl) : res' state := foldM declare ds [].

Definition command_names (st : state) : list str :=
  keys (filter (fun e => negb (p_internal (snd e))) st).

(* _init_multicmd_parser: (command_parsers, default_command) *)
Definition init_multicmd (cmds : list str) (dflt : option str) : res' (state * option str) :=
  match cmds with
  | [] => Raise AssertionError
  | _ => bind' (build (map parse_decl cmds))
               (fun st => Ret (st, match dflt with
                                   | Some d => Some d
                                   | None => hd_error (command_names st)
                                   end))
  end.

(* ------------------------------------------------------------------ *)
(* add_argument                                                         *)

Inductive okind := KFlag | KPos | KVal.   (* '--name' store_true | 'name' nargs='*' | '--name' VALUE *)
Inductive target := TGlobal | TCmd (p : str).   (* ArgParser.add_argument | get_cmd_parser(p).add_argument *)
Notation op := (target * okind * str)%type.

Definition flag_str (o : str) : str := ch_dash :: ch_dash :: o.

Definition std_option_strings (no_log : bool) : list str :=
  [[45; 104]; [45; 45; 104; 101; 108; 112]]                     (* -h --help of common_options *)
  ++ (if no_log then [] else [opt_verbose_short; opt_verbose_long])
  ++ [opt_color; opt_no_color].

(* the option string '--o' is already in use in the parser *)
Definition opt_taken (no_log : bool) (o : str) (pa : parser) : bool :=
  mem (flag_str o) (std_option_strings no_log) || mem o (p_flags pa) || mem o (p_vals pa).

(* argparse's add_argument on one parser: conflicting option strings raise *)
Definition add_local (no_log : bool) (k : okind) (o : str) (pa : parser) : res' parser :=
  match k with
  | KFlag => if opt_taken no_log o pa then Raise ArgumentError
             else Ret (set_flags pa (p_flags pa ++ [o]))
  | KVal => if opt_taken no_log o pa then Raise ArgumentError
            else Ret (set_vals pa (p_vals pa ++ [o]))
  | KPos => Ret (set_poss pa (p_poss pa ++ [o]))
  end.

Definition apply_op (no_log : bool) (st : state) (x : op) : res' state :=
  match x with
  | (TGlobal, k, o) => st_mapM (fun _ pa => add_local no_log k o pa) st
  | (TCmd p, k, o) =>
      match lookup p st with
      | None => Raise ValueError                                  (* get_cmd_parser *)
      | Some pa =>
          bind' (foldM (fun s d => st_mapM (fun q pa' => if str_eqb q d then add_local no_log k o pa'
                                                         else Ret pa') s)
                       (dep_names pa) st)
                (st_mapM (fun q pa' => if str_eqb q p then add_local no_log k o pa' else Ret pa'))
      end
  end.

Definition apply_ops (no_log : bool) (st : state) (ops : list op) : res' state :=
  foldM (apply_op no_log) ops st.

(* ------------------------------------------------------------------ *)
(* parse_args                                                           *)

Inductive colorv := CStr (s : str) | CNone | CFalse.

(* what a command's own parser returns *)
Record subns := mkSub {
  sn_verbose : nat; sn_color : colorv; sn_no_color : bool;
  sn_flags : list (str * bool); sn_poss : list (str * list str); sn_vals : list (str * option str) }.

(* argparse: no_log -> flags -> positionals -> value options -> arguments -> namespace / SystemExit *)
Notation subparser := (bool -> list str -> list str -> list str -> list str -> option subns).

Record cfg := mkCfg { c_no_log : bool; c_no_log_file : bool; c_help_if_no_args : bool }.

Record ns := mkNs {
  ns_command : str; ns_verbose : option nat; ns_color : colorv; ns_no_log_file : bool;
  ns_flags : list (str * bool); ns_poss : list (str * list str); ns_vals : list (str * option str) }.

(* lines 148-153 *)
Definition finish (c : cfg) (cmd : str) (s : subns) : ns :=
  mkNs cmd (if c_no_log c then None else Some (sn_verbose s))
       (if sn_no_color s then CFalse else sn_color s)
       (c_no_log_file c) (sn_flags s) (sn_poss s) (sn_vals s).

Definition starts_dash (s : str) : bool := match s with c :: _ => c =? ch_dash | [] => false end.

(* self.parser.parse_args(a0 :: rest): the top-level parser has -h/--help and the
   sub-commands (internal sets are not sub-commands) *)
Definition main_parse (sub : subparser) (c : cfg) (st : state) (a0 : str) (rest : list str) : res' ns :=
  if starts_dash a0 then Raise SystemExit
  else match lookup a0 st with
       | Some pa => if p_internal pa then Raise SystemExit
                    else match sub (c_no_log c) (p_flags pa) (p_poss pa) (p_vals pa) rest with
                         | Some s => Ret (finish c a0 s)
                         | None => Raise SystemExit
                         end
       | None => Raise SystemExit
       end.

Definition parse_args (sub : subparser) (c : cfg) (st : state) (dflt : option str)
           (argv : list str) : res' ns :=
  let argv1 := match argv with
               | [] => if c_help_if_no_args c then [help_appended] else []
               | _ => argv
               end in
  let with_default := match dflt with
                      | None => Raise SystemExit           (* args.insert(0, None): invalid choice *)
                      | Some d => main_parse sub c st d argv1
                      end in
  match argv1 with
  | [] => with_default
  | a :: r => if mem a help_choices || mem a (keys st) then main_parse sub c st a r
              else with_default
  end.

(* ------------------------------------------------------------------ *)
(* concrete stand-in for argparse on the generated fragment             *)

Inductive blk := BNone | BOpen | BClosed.

(* a_given: values given to '--name VALUE' options, latest first *)
Record acc := mkAcc {
  a_verbose : nat; a_color : colorv; a_seen_color : bool; a_no_color : bool;
  a_set : list str; a_words : list str; a_blk : blk; a_given : list (str * str) }.

Definition close_blk (a : acc) : acc :=
  mkAcc (a_verbose a) (a_color a) (a_seen_color a) (a_no_color a) (a_set a) (a_words a)
        (match a_blk a with BOpen => BClosed | b => b end) (a_given a).

Definition set_color (a : acc) (v : colorv) : option acc :=
  if a_no_color a then None
  else Some (mkAcc (a_verbose a) v true false (a_set a) (a_words a) (a_blk a) (a_given a)).

Definition give (o v : str) (a : acc) : acc :=
  mkAcc (a_verbose a) (a_color a) (a_seen_color a) (a_no_color a) (a_set a) (a_words a) (a_blk a)
        ((o, v) :: a_given a).

Fixpoint strip_prefix (p s : str) : option str :=
  match p, s with
  | [], _ => Some s
  | x :: p', y :: s' => if x =? y then strip_prefix p' s' else None
  | _ :: _, [] => None
  end.

Definition verbose_letter : Z := nth 1 opt_verbose_short 0.

(* "-vvv" *)
Definition short_verbose_count (x : str) : option nat :=
  match x with
  | d :: (_ :: _) as r => if (d =? ch_dash) && forallb (Z.eqb verbose_letter) r
                          then Some (length r) else None
  | _ => None
  end.

Fixpoint mini_go (nl : bool) (F P V : list str) (args : list str) (a : acc) : option acc :=
  match args with
  | [] => Some a
  | x :: r =>
      if negb (starts_dash x) then
        (* positional word: one contiguous block, consumed by the positionals *)
        match a_blk a with
        | BClosed => None
        | _ => if is_nil P then None
               else mini_go nl F P V r (mkAcc (a_verbose a) (a_color a) (a_seen_color a) (a_no_color a)
                                              (a_set a) (a_words a ++ [x]) BOpen (a_given a))
        end
      else
        let a := close_blk a in
        if str_eqb x opt_color then
          (* nargs='?': takes the next argument when it is not an option *)
          match r with
          | y :: r' =>
              if negb (starts_dash y) then
                if mem y color_choices
                then match set_color a (CStr y) with Some a' => mini_go nl F P V r' a' | None => None end
                else None
              else match set_color a CNone with Some a' => mini_go nl F P V r a' | None => None end
          | [] => match set_color a CNone with Some a' => mini_go nl F P V r a' | None => None end
          end
        else match strip_prefix (opt_color ++ [ch_eq]) x with
        | Some v => if mem v color_choices
                    then match set_color a (CStr v) with Some a' => mini_go nl F P V r a' | None => None end
                    else None
        | None =>
        if str_eqb x opt_no_color then
          if a_seen_color a then None
          else mini_go nl F P V r (mkAcc (a_verbose a) (a_color a) false true (a_set a) (a_words a) (a_blk a) (a_given a))
        else if negb nl && str_eqb x opt_verbose_long then
          mini_go nl F P V r (mkAcc (S (a_verbose a)) (a_color a) (a_seen_color a) (a_no_color a)
                                    (a_set a) (a_words a) (a_blk a) (a_given a))
        else match (if nl then None else short_verbose_count x) with
        | Some k => mini_go nl F P V r (mkAcc (k + a_verbose a) (a_color a) (a_seen_color a) (a_no_color a)
                                              (a_set a) (a_words a) (a_blk a) (a_given a))
        | None =>
        match strip_prefix [ch_dash; ch_dash] x with
        | Some o => if mem o F
                    then mini_go nl F P V r (mkAcc (a_verbose a) (a_color a) (a_seen_color a) (a_no_color a)
                                                   (o :: a_set a) (a_words a) (a_blk a) (a_given a))
                    else if mem o V
                    then (* '--o VALUE': exactly one argument that is not an option *)
                         match r with
                         | y :: r' => if starts_dash y then None else mini_go nl F P V r' (give o y a)
                         | [] => None
                         end
                    else match split_first ch_eq o with
                         | Some (o1, v) => if mem o1 V then mini_go nl F P V r (give o1 v a)   (* '--o=VALUE' *)
                                           else None                (* '--flag=x', unknown option *)
                         | None => None                             (* -h/--help, unknown option *)
                         end
        | None => None
        end end end
  end.

Definition mini_sub : subparser := fun nl F P V args =>
  match mini_go nl F P V args (mkAcc 0 (CStr color_default) false false [] [] BNone []) with
  | None => None
  | Some a =>
      Some (mkSub (a_verbose a) (a_color a) (a_no_color a)
                  (map (fun o => (o, mem o (a_set a))) F)
                  (match P with
                   | [] => []
                   | p0 :: ps => (p0, a_words a) :: map (fun p => (p, [])) ps
                   end)
                  (map (fun o => (o, lookup o (a_given a))) V))
  end.
