(* C01/Basics.v -- small facts about the shared vocabulary of LLP/Base.v
   (symbol equality, membership, grammar look-up) and about lists
   (slices of the token list).  Other parser properties may Require this file. *)
From Coq Require Import ZArith List Bool Lia.
From AK Require Import LLP.Base.
Import ListNotations.
Local Open Scope nat_scope.

(* ---------------- symbols ---------------- *)
Lemma sym_eqb_refl : forall a : sym, sym_eqb a a = true.
Proof. induction a as [|x a IH]; cbn; [reflexivity|]. now rewrite Z.eqb_refl, IH. Qed.

Lemma sym_eqb_eq : forall a b : sym, sym_eqb a b = true <-> a = b.
Proof.
  induction a as [|x a IH]; destruct b as [|y b]; cbn; split; intro H; try reflexivity; try discriminate.
  - apply andb_true_iff in H as [H1 H2]. apply Z.eqb_eq in H1. apply IH in H2. now subst.
  - injection H as -> ->. now rewrite Z.eqb_refl, sym_eqb_refl.
Qed.

Lemma sym_eqb_neq : forall a b : sym, sym_eqb a b = false <-> a <> b.
Proof.
  intros a b. split.
  - intros H E. apply sym_eqb_eq in E. congruence.
  - intros H. destruct (sym_eqb a b) eqn:E; [|reflexivity]. apply sym_eqb_eq in E. contradiction.
Qed.

Lemma sym_eq_dec : forall a b : sym, {a = b} + {a <> b}.
Proof.
  intros a b. destruct (sym_eqb a b) eqn:E.
  - left. now apply sym_eqb_eq.
  - right. now apply sym_eqb_neq.
Qed.

Lemma mem_In : forall (s : sym) l, mem s l = true <-> In s l.
Proof.
  intros s l. unfold mem. rewrite existsb_exists. split.
  - intros [x [Hx E]]. apply sym_eqb_eq in E. now subst.
  - intros H. exists s. split; [assumption|apply sym_eqb_refl].
Qed.

Lemma mem_not_In : forall (s : sym) l, mem s l = false <-> ~ In s l.
Proof.
  intros s l. split.
  - intros H HI. apply mem_In in HI. congruence.
  - intros H. destruct (mem s l) eqn:E; [|reflexivity]. apply mem_In in E. contradiction.
Qed.

Lemma mem_app : forall (s : sym) a b, mem s (a ++ b) = mem s a || mem s b.
Proof. intros. unfold mem. apply existsb_app. Qed.

(* ---------------- grammar look-up ---------------- *)
Lemma glookup_In : forall (g : grammar) s v, glookup g s = Some v -> In (s, v) g.
Proof.
  induction g as [|[k w] g IH]; cbn; intros s v H; [discriminate|].
  destruct (sym_eqb k s) eqn:E.
  - apply sym_eqb_eq in E. injection H as ->. subst. now left.
  - right. now apply IH.
Qed.

Lemma grules_In : forall (g : grammar) s r, In r (grules g s) -> exists v, In (s, v) g /\ In r v.
Proof.
  intros g s r H. unfold grules in H. destruct (glookup g s) as [v|] eqn:E; [|contradiction].
  exists v. split; [now apply glookup_In|assumption].
Qed.

(* ---------------- lists ---------------- *)
Definition slice {A} (l : list A) (a b : nat) : list A := firstn (b - a) (skipn a l).

Lemma slice_nil : forall A (l : list A) a, slice l a a = [].
Proof. intros. unfold slice. now rewrite Nat.sub_diag. Qed.

Lemma skipn_nth_error_cons : forall A (l : list A) n x,
  nth_error l n = Some x -> skipn n l = x :: skipn (S n) l.
Proof.
  induction l as [|y l IH]; intros [|n] x H; cbn in *; try discriminate.
  - now injection H as ->.
  - now apply IH.
Qed.

Lemma firstn_snoc_nth : forall A (l : list A) n x,
  nth_error l n = Some x -> firstn (S n) l = firstn n l ++ [x].
Proof.
  induction l as [|y l IH]; intros [|n] x H; cbn in *; try discriminate.
  - now injection H as ->.
  - f_equal. now apply IH.
Qed.

Lemma skipn_skipn' : forall A (l : list A) a b, skipn a (skipn b l) = skipn (a + b) l.
Proof.
  intros A l a b. revert l. induction b as [|b IH]; intros l.
  - now rewrite Nat.add_0_r.
  - destruct l as [|y l]; cbn.
    + now rewrite !skipn_nil.
    + rewrite Nat.add_succ_r. cbn. apply IH.
Qed.

Lemma firstn_add_split : forall A (l : list A) n m,
  firstn (n + m) l = firstn n l ++ firstn m (skipn n l).
Proof.
  intros A l n m. revert l. induction n as [|n IH]; intros l; [reflexivity|].
  destruct l as [|y l]; cbn.
  - now rewrite firstn_nil.
  - f_equal. apply IH.
Qed.

Lemma slice_app : forall A (l : list A) a b c,
  a <= b -> b <= c -> slice l a b ++ slice l b c = slice l a c.
Proof.
  intros A l a b c H1 H2. unfold slice.
  replace (c - a) with ((b - a) + (c - b)) by lia.
  rewrite firstn_add_split. f_equal. f_equal.
  rewrite skipn_skipn'. f_equal. lia.
Qed.

Lemma slice_snoc : forall A (l : list A) a b x,
  a <= b -> nth_error l b = Some x -> slice l a (S b) = slice l a b ++ [x].
Proof.
  intros A l a b x H1 H2.
  rewrite <- (slice_app A l a b (S b)) by lia. f_equal.
  unfold slice. replace (S b - b) with 1 by lia.
  rewrite (skipn_nth_error_cons _ _ _ _ H2). reflexivity.
Qed.

Lemma slice_0 : forall A (l : list A) b, slice l 0 b = firstn b l.
Proof. intros. unfold slice. now rewrite Nat.sub_0_r. Qed.

Lemma last_snoc : forall A (l : list A) x d, last (l ++ [x]) d = x.
Proof. intros. apply last_last. Qed.

Lemma removelast_snoc : forall A (l : list A) x, removelast (l ++ [x]) = l.
Proof. intros. apply removelast_last. Qed.

Lemma snoc_cases : forall A (l : list A), l = [] \/ exists l' x, l = l' ++ [x].
Proof.
  intros A l. destruct l as [|y l]; [now left|right].
  exists (removelast (y :: l)), (last (y :: l) y). apply app_removelast_last. discriminate.
Qed.

Lemma map_snoc_inv : forall A B (f : A -> B) l m y,
  map f l = m ++ [y] -> exists l' x, l = l' ++ [x] /\ map f l' = m /\ f x = y.
Proof.
  intros A B f l m y H. destruct (snoc_cases A l) as [->|[l' [x ->]]].
  - destruct m; discriminate.
  - rewrite map_app in H. cbn in H. apply app_inj_tail in H as [H1 H2]. now exists l', x.
Qed.
