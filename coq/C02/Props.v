(* C02/Props.v -- the property theorems of C02, nothing else.
   "Conflict-free (LL(1)) grammars are parsed exactly"  (ak/llparser.py)

   Vocabulary (C02/Spec.v): Nullable / First / Follow / Predict are the textbook
   inductive relations over a grammar g (terminals `terms` incl. $END$, start
   symbol `start`); LL1 = the look-ahead (Predict) sets of the alternatives of every
   symbol are pairwise disjoint; Deriv s d w = d is a derivation tree of the token
   list w from symbol s; in_language = some derivation from the start symbol.
   Model (coq/LLP/Table.v, compared with the implementation on every run):
   nullables, first_sets, follow_sets, predict, make_tables, table_get,
   is_ambiguous; build = LLParser.__init__, p_parse = LLParser.parse on tokens.
   wf_grammar (C02/Model.v) is the executable shape check of a grammar accepted
   by the constructor; C02.Run evaluates it on every generated grammar.        *)
From Coq Require Import ZArith List Bool Lia.
From AK Require Import Common.Err LLP.Base LLP.Factor LLP.Table LLP.Parse LLP.Build.
From AK Require C01.Run.
From AK Require Import C02.Lemmas.
Import ListNotations.

(* ------------------------------------------------------------------ *)
(* 1. the three fixpoints compute exactly the inductive sets           *)
Theorem nullable_exact : forall g s, NoDup (gkeys g) ->
  (In s (nullables g) <-> Nullable g s).
Proof. intros g s H. apply nullable_exact_l. exact H. Qed.
Print Assumptions nullable_exact.

Theorem first_exact : forall g terms nt t, NoDup (gkeys g) ->
  (In t (sm_get (first_sets g terms (nullables g)) nt) <-> First g terms nt t).
Proof. intros g terms nt t H. apply first_exact_l. exact H. Qed.
Print Assumptions first_exact.

Theorem follow_exact : forall g terms start nt t, wf_grammar g terms start = true ->
  (In t (sm_get (follow_sets g terms (nullables g) (first_sets g terms (nullables g)) start) nt)
   <-> Follow g terms start nt t).
Proof.
  intros g terms start nt t H. apply wf_grammar_wf in H. destruct H.
  apply follow_exact_l; auto.
Qed.
Print Assumptions follow_exact.

(* the fuel of the model's iterations is enough: one more pass changes nothing *)
Theorem fixpoints_reached : forall g terms start, wf_grammar g terms start = true ->
  let nulls := nullables g in
  let fs := first_sets g terms nulls in
  null_step g nulls = nulls /\ first_step g terms nulls fs = fs.
Proof.
  intros g terms start H. apply wf_grammar_wf in H. destruct H. split.
  - apply nullables_fixpoint. auto.
  - apply first_sets_fixpoint. auto.
Qed.
Print Assumptions fixpoints_reached.

(* ------------------------------------------------------------------ *)
(* 2. the table                                                        *)
Theorem predict_exact : forall g terms start nt r t,
  wf_grammar g terms start = true -> In r (grules g nt) ->
  let T := make_tables g terms start in
  (In t (predict (t_terminals T) (t_nulls T) (t_first T) (t_follow T) r) <-> Predict g terms start r t).
Proof. intros g terms start nt r t H Hr. apply (predict_exact_l g terms start (wf_grammar_wf _ _ _ H) nt); auto. Qed.
Print Assumptions predict_exact.

(* every alternative is in every cell its look-ahead set names ... *)
Theorem table_complete : forall g terms start nt r t,
  wf_grammar g terms start = true ->
  In r (grules g nt) -> Predict g terms start r t ->
  In r (table_get (make_tables g terms start) nt t).
Proof. intros g terms start nt r t H Hr Hp. apply (table_exact_l g terms start (wf_grammar_wf _ _ _ H)). auto. Qed.
Print Assumptions table_complete.

(* ... and nothing else is *)
Theorem table_sound : forall g terms start nt r t,
  wf_grammar g terms start = true ->
  In r (table_get (make_tables g terms start) nt t) ->
  In r (grules g nt) /\ Predict g terms start r t.
Proof. intros g terms start nt r t H Hr. apply (table_exact_l g terms start (wf_grammar_wf _ _ _ H)). auto. Qed.
Print Assumptions table_sound.

(* is_ambiguous() is False iff no cell of the table holds two rules *)
Theorem is_ambiguous_spec : forall g terms start, wf_grammar g terms start = true ->
  let T := make_tables g terms start in
  (is_ambiguous T = false <-> forall nt tok, (length (table_get T nt tok) <= 1)%nat).
Proof. intros g terms start H. apply (is_ambiguous_spec_l g terms start (wf_grammar_wf _ _ _ H)). Qed.
Print Assumptions is_ambiguous_spec.

(* the table of a grammar is conflict-free exactly when the grammar is LL(1) *)
Theorem ll1_iff_not_ambiguous : forall g terms start, wf_grammar g terms start = true ->
  (LL1 g terms start <-> is_ambiguous (make_tables g terms start) = false).
Proof.
  intros g terms start H. pose proof (wf_grammar_wf _ _ _ H) as W. split.
  - apply ll1_not_ambiguous_l. exact W.
  - apply not_ambiguous_ll1_l. exact W.
Qed.
Print Assumptions ll1_iff_not_ambiguous.

(* ------------------------------------------------------------------ *)
(* 3. "an LL(1) grammar is reported as not ambiguous"                  *)
(* full statement: for the grammar AS WRITTEN by the user, both smart values *)
Definition ll1_reported_statement : Prop :=
  forall ug terminals smart start p,
    build ug terminals smart start = Ok p ->
    LL1 (ugram ug) (terminals ++ [END_TOKEN]) start ->
    is_ambiguous (p_tables p) = false.

(* proved: for the grammar the parser works with (the factorized one); it is the
   user's own grammar when the factorization is the identity, e.g. when no two
   adjacent alternatives start with the same symbol *)
Theorem ll1_reported_partial : forall ug terminals smart start p,
  build ug terminals smart start = Ok p ->
  wf_grammar (p_grammar p) (p_terminals p) (p_start p) = true ->
  p_grammar p = ugram ug ->
  LL1 (ugram ug) (terminals ++ [END_TOKEN]) start ->
  is_ambiguous (p_tables p) = false.
Proof.
  intros ug terminals smart start p HB Hwf Hid HL.
  destruct (build_fields _ _ _ _ _ HB) as [_ [Ht [Hs _]]].
  apply (ll1_reported_build ug terminals smart start p HB Hwf).
  rewrite Hid, Ht, Hs. exact HL.
Qed.
Print Assumptions ll1_reported_partial.

(* the factorization is the identity when no two adjacent alternatives of a symbol
   start with the same symbol (keys distinct, no reserved '__' names): then the
   statement is about the user's grammar alone, for both smart values *)
Theorem factorization_identity : forall ug terminals smart start p,
  build ug terminals smart start = Ok p ->
  no_reserved_names ug = true -> nodup_syms (map fst ug) = true -> no_common_prefix ug = true ->
  p_grammar p = ugram ug /\ p_sfxs p = [].
Proof. exact build_identity. Qed.
Print Assumptions factorization_identity.

Theorem ll1_reported_no_common_prefix : forall ug terminals smart start p,
  build ug terminals smart start = Ok p ->
  no_reserved_names ug = true -> nodup_syms (map fst ug) = true -> no_common_prefix ug = true ->
  wf_grammar (ugram ug) (terminals ++ [END_TOKEN]) start = true ->
  LL1 (ugram ug) (terminals ++ [END_TOKEN]) start ->
  is_ambiguous (p_tables p) = false.
Proof.
  intros ug terminals smart start p HB H1 H2 H3 Hwf HL.
  destruct (build_identity ug terminals smart start p HB H1 H2 H3) as [Hg _].
  destruct (build_fields _ _ _ _ _ HB) as [_ [Ht [Hs _]]].
  apply (ll1_reported_partial ug terminals smart start p HB); auto.
  rewrite Hg, Ht, Hs. exact Hwf.
Qed.
Print Assumptions ll1_reported_no_common_prefix.

(* whatever the factorization did: conflict-free <-> the factorized grammar is LL(1) *)
Theorem ll1_reported_factorized : forall ug terminals smart start p,
  build ug terminals smart start = Ok p ->
  wf_grammar (p_grammar p) (p_terminals p) (p_start p) = true ->
  (LL1 (p_grammar p) (p_terminals p) (p_start p) <-> is_ambiguous (p_tables p) = false).
Proof. exact ll1_reported_build. Qed.
Print Assumptions ll1_reported_factorized.

(* ------------------------------------------------------------------ *)
(* 4. the language                                                     *)
(* full statement: whenever is_ambiguous() is False the accepted language is the
   language of the user's grammar and the result is the derivation tree *)
Definition ll1_complete_statement : Prop :=
  forall ug terminals smart start p body e d,
    build ug terminals smart start = Ok p ->
    is_ambiguous (p_tables p) = false ->
    tname e = END_TOKEN ->
    Deriv (ugram ug) (p_terminals p) start d (map tok_pair body) ->
    exists k0, forall k, (k0 <= k)%nat ->
      exists t, p_parse p k (body ++ [e]) = Ok t /\ erase t = d.

(* proved: when the factorization introduced no suffix symbols.  Every sentence
   of the parser's grammar is accepted with any large enough budget, and the
   result is the given derivation tree (so the derivation is unique). *)
Theorem ll1_complete_partial : forall ug terminals smart start p body e d,
  build ug terminals smart start = Ok p ->
  p_sfxs p = [] ->
  wf_grammar (p_grammar p) (p_terminals p) (p_start p) = true ->
  is_ambiguous (p_tables p) = false ->
  tname e = END_TOKEN ->
  Deriv (p_grammar p) (p_terminals p) start d (map tok_pair body) ->
  exists k0, forall k, (k0 <= k)%nat ->
    exists t, p_parse p k (body ++ [e]) = Ok t /\ erase t = d.
Proof. exact ll1_complete_build. Qed.
Print Assumptions ll1_complete_partial.

Theorem derivation_unique_partial : forall ug terminals smart start p body d1 d2,
  build ug terminals smart start = Ok p ->
  p_sfxs p = [] ->
  wf_grammar (p_grammar p) (p_terminals p) (p_start p) = true ->
  is_ambiguous (p_tables p) = false ->
  Deriv (p_grammar p) (p_terminals p) start d1 (map tok_pair body) ->
  Deriv (p_grammar p) (p_terminals p) start d2 (map tok_pair body) ->
  d1 = d2.
Proof.
  intros ug terminals smart start p body d1 d2 HB Hs Hwf HA H1 H2.
  set (e := mkTok END_TOKEN [] (0, 0)%Z (0, 0)%Z).
  destruct (ll1_complete_build ug terminals smart start p body e d1 HB Hs Hwf HA eq_refl H1) as [k1 K1].
  destruct (ll1_complete_build ug terminals smart start p body e d2 HB Hs Hwf HA eq_refl H2) as [k2 K2].
  destruct (K1 (k1 + k2)%nat) as [t1 [P1 E1]]; [lia|].
  destruct (K2 (k1 + k2)%nat) as [t2 [P2 E2]]; [lia|].
  rewrite P1 in P2. inversion P2; subst. reflexivity.
Qed.
Print Assumptions derivation_unique_partial.

(* a text that is not a sentence of the user's grammar is never accepted, for any
   table, both smart values, any budget (contrapositive of C01.parse_sound_constructor,
   imported from coq/C01, not re-proved) *)
Theorem ll1_reject : forall ug terminals smart start p k body e t,
  build ug terminals smart start = Ok p ->
  (forall b, In b body -> tname b <> END_TOKEN) ->
  ~ in_language (ugram ug) (p_terminals p) start (map tok_pair body) ->
  p_parse p k (body ++ [e]) <> Ok t.
Proof. exact ll1_reject_c. Qed.
Print Assumptions ll1_reject.

(* an accepted text is a sentence and the returned tree is a derivation of it *)
Theorem parse_returns_derivation : forall ug terminals smart start p k body e t,
  build ug terminals smart start = Ok p ->
  (forall b, In b body -> tname b <> END_TOKEN) ->
  p_parse p k (body ++ [e]) = Ok t ->
  Deriv (ugram ug) (p_terminals p) start (erase t) (map tok_pair body).
Proof. exact parse_ok_deriv_c. Qed.
Print Assumptions parse_returns_derivation.

(* together: with an identity factorization and a conflict-free table the
   accepted language is exactly the language of the user's grammar *)
Theorem ll1_language_exact_partial : forall ug terminals smart start p body e,
  build ug terminals smart start = Ok p ->
  p_sfxs p = [] -> p_grammar p = ugram ug ->
  wf_grammar (p_grammar p) (p_terminals p) (p_start p) = true ->
  is_ambiguous (p_tables p) = false ->
  (forall b, In b body -> tname b <> END_TOKEN) -> tname e = END_TOKEN ->
  ((exists k t, p_parse p k (body ++ [e]) = Ok t) <->
   in_language (ugram ug) (p_terminals p) start (map tok_pair body)).
Proof.
  intros ug terminals smart start p body e HB Hs Hg Hwf HA Hbody He. split.
  - intros [k [t HP]].
    exists (erase t). apply (parse_ok_deriv_c ug terminals smart start p k body e t); auto.
  - intros [d D]. rewrite <- Hg in D.
    destruct (ll1_complete_build ug terminals smart start p body e d HB Hs Hwf HA He D) as [k0 K].
    destruct (K k0 (le_n _)) as [t [P _]]. exists k0, t. exact P.
Qed.
Print Assumptions ll1_language_exact_partial.

(* ------------------------------------------------------------------ *)
(* 5. the property as a whole (statement only; sections 1-4 prove its parts:
   clause (a) for identity factorizations [ll1_reported_partial] and for the
   factorized grammar [ll1_reported_factorized]; clause (b) when no suffix
   symbol was introduced [ll1_complete_partial]; clause (c) only as "never Ok"
   [ll1_reject] -- that a rejected text ends in ParsingError and not in an
   endless parse is the termination claim of C03) *)
Definition c02_statement : Prop :=
  forall ug terminals smart start p,
    build ug terminals smart start = Ok p ->
    (* (a) LL(1) as written => reported conflict-free *)
    (LL1 (ugram ug) (terminals ++ [END_TOKEN]) start -> is_ambiguous (p_tables p) = false) /\
    (* whenever the table is reported conflict-free ... *)
    (is_ambiguous (p_tables p) = false ->
     forall body e, (forall b, In b body -> tname b <> END_TOKEN) -> tname e = END_TOKEN ->
       (* (b) every sentence is accepted and its derivation tree returned *)
       (forall d, Deriv (ugram ug) (p_terminals p) start d (map tok_pair body) ->
          exists k0, forall k, (k0 <= k)%nat ->
            exists t, p_parse p k (body ++ [e]) = Ok t /\ erase t = d) /\
       (* (c) every non-sentence raises ParsingError *)
       (~ in_language (ugram ug) (p_terminals p) start (map tok_pair body) ->
          exists k0, forall k, (k0 <= k)%nat -> p_parse p k (body ++ [e]) = Err ParsingErr)).

(* ------------------------------------------------------------------ *)
(* 5b. at ANY MOMENT of a parser object's life (C02/Session.v: programs of
   constructor / is_ambiguous() / parse() calls on two objects built from one
   productions dict).  In the model the methods take the parser as a value and
   hand it back unchanged; these theorems make that explicit, so that the
   correspondence run -- which executes the same program on the implementation's
   objects -- checks that parse() and is_ambiguous() leave parse_table, prods_map
   and the productions dict as they found them. *)
Theorem parse_does_not_change_tables : forall p k toks,
  fst (m_parse p k toks) = p /\
  p_tables (fst (m_parse p k toks)) = p_tables p /\
  snd (m_parse p k toks) = p_parse p k toks.
Proof. intros. repeat split. Qed.
Print Assumptions parse_does_not_change_tables.

Theorem is_ambiguous_does_not_change_tables : forall p,
  fst (m_is_ambiguous p) = p /\ snd (m_is_ambiguous p) = is_ambiguous (p_tables p).
Proof. intros. split; reflexivity. Qed.
Print Assumptions is_ambiguous_does_not_change_tables.

(* every observation of every program is the observation the same call gives on
   objects that were just constructed and never used (or there is no such object) *)
Theorem session_history_independent : forall ug terminals start fuel inputs ops,
  Forall2 (fun o b => b = BNone \/ b = fresh_obs ug terminals start fuel inputs o)
          ops (session ug terminals start fuel inputs no_objects ops).
Proof. exact session_history_independent_l. Qed.
Print Assumptions session_history_independent.

Theorem is_ambiguous_any_moment : forall ug terminals start fuel inputs ops n w b p,
  build ug terminals w start = Ok p ->
  nth_error ops n = Some (OAmb w) ->
  nth_error (session ug terminals start fuel inputs no_objects ops) n = Some (BAmb b) ->
  b = is_ambiguous (p_tables p).
Proof. exact is_ambiguous_any_moment_l. Qed.
Print Assumptions is_ambiguous_any_moment.

Theorem parse_any_moment : forall ug terminals start fuel inputs ops n w i inp r p,
  build ug terminals w start = Ok p ->
  nth_error inputs i = Some inp ->
  nth_error ops n = Some (OParse w i) ->
  nth_error (session ug terminals start fuel inputs no_objects ops) n = Some (BParse r) ->
  r = p_parse p fuel (mk_toks inp).
Proof. exact parse_any_moment_l. Qed.
Print Assumptions parse_any_moment.

(* parse(text, start_symbol_name=s), the debugging aid: its result depends on (s, text) alone, it does not
   redirect later parse() calls [parse_any_moment holds whatever OParseFrom operations precede], and with the
   constructor's start symbol it is parse(text) *)
Theorem parse_from_any_moment : forall ug terminals start fuel inputs ops n w i s inp r p,
  build ug terminals w start = Ok p ->
  nth_error inputs i = Some inp ->
  nth_error ops n = Some (OParseFrom w i s) ->
  nth_error (session ug terminals start fuel inputs no_objects ops) n = Some (BParse r) ->
  r = p_parse_from p fuel s (mk_toks inp).
Proof. exact parse_from_any_moment_l. Qed.
Print Assumptions parse_from_any_moment.

Theorem parse_from_start : forall ug terminals smart start p k toks,
  build ug terminals smart start = Ok p -> mem start (gkeys (p_grammar p)) = true ->
  p_parse_from p k (p_start p) toks = p_parse p k toks.
Proof. exact p_parse_from_start. Qed.
Print Assumptions parse_from_start.

(* the objects a program leaves behind are objects as the constructor returns them *)
Theorem objects_stay_as_constructed : forall ug terminals start fuel inputs ops w p,
  get_obj (final_world ug terminals start fuel inputs no_objects ops) w = Some p ->
  build ug terminals w start = Ok p.
Proof. exact final_world_fresh_l. Qed.
Print Assumptions objects_stay_as_constructed.

(* not vacuous: an object that was built does answer (BNone only without an object) *)
Theorem built_object_answers : forall ug terminals start fuel inputs ops W w p,
  get_obj W w = Some p -> build ug terminals w start = Ok p ->
  forall n o b, nth_error ops n = Some o ->
    nth_error (session ug terminals start fuel inputs W ops) n = Some b ->
    match o with
    | OAmb v => v = w -> b <> BNone
    | OParse v i | OParseFrom v i _ => v = w -> (i < length inputs)%nat -> b <> BNone
    | OBuild _ => b <> BNone
    end.
Proof. exact built_answers. Qed.
Print Assumptions built_object_answers.

(* C02 (a) at any moment: same hypotheses as ll1_reported_partial *)
Theorem ll1_reported_any_moment_partial : forall ug terminals start fuel inputs ops n w b p,
  build ug terminals w start = Ok p ->
  wf_grammar (p_grammar p) (p_terminals p) (p_start p) = true ->
  p_grammar p = ugram ug ->
  LL1 (ugram ug) (terminals ++ [END_TOKEN]) start ->
  nth_error ops n = Some (OAmb w) ->
  nth_error (session ug terminals start fuel inputs no_objects ops) n = Some (BAmb b) ->
  b = false.
Proof.
  intros ug terminals start fuel inputs ops n w b p HB Hwf Hid HL Ho Hb.
  rewrite (is_ambiguous_any_moment_l ug terminals start fuel inputs ops n w b p HB Ho Hb).
  apply (ll1_reported_partial ug terminals w start p); assumption.
Qed.
Print Assumptions ll1_reported_any_moment_partial.

(* C02 (b) at any moment: same hypotheses as ll1_complete_partial; whenever, in whatever
   program, the object parses a sentence (with a large enough budget) it returns its derivation *)
Theorem ll1_complete_any_moment_partial : forall ug terminals start w p inp d,
  build ug terminals w start = Ok p ->
  p_sfxs p = [] ->
  wf_grammar (p_grammar p) (p_terminals p) (p_start p) = true ->
  is_ambiguous (p_tables p) = false ->
  Deriv (p_grammar p) (p_terminals p) start d inp ->
  exists k0, forall fuel, (k0 <= fuel)%nat ->
    forall inputs ops n i r,
      nth_error inputs i = Some inp ->
      nth_error ops n = Some (OParse w i) ->
      nth_error (session ug terminals start fuel inputs no_objects ops) n = Some (BParse r) ->
      exists t, r = Ok t /\ erase t = d.
Proof.
  intros ug terminals start w p inp d HB Hs Hwf HA HD.
  set (body := map (fun nv : sym * list Z => mkTok (fst nv) (snd nv) (0, 0)%Z (0, 0)%Z) inp).
  set (e := mkTok END_TOKEN [] (0, 0)%Z (0, 0)%Z).
  assert (Hbody : map tok_pair body = inp).
  { unfold body. rewrite map_map. unfold tok_pair. cbn [tname tvalue].
    clear. induction inp as [|[a v] l IH]; cbn [map fst snd]; [reflexivity|]. rewrite IH. reflexivity. }
  rewrite <- Hbody in HD.
  destruct (ll1_complete_partial ug terminals w start p body e d HB Hs Hwf HA eq_refl HD) as [k0 K].
  exists k0. intros fuel Hf inputs ops n i r Hi Ho Hb.
  rewrite (parse_any_moment_l ug terminals start fuel inputs ops n w i inp r p HB Hi Ho Hb).
  destruct (K fuel Hf) as [t [P E]]. exists t. split; [|exact E]. exact P.
Qed.
Print Assumptions ll1_complete_any_moment_partial.

(* ------------------------------------------------------------------ *)
(* 6. the hypotheses are satisfiable: the grammar of the repaired defect
      E -> s S | t T ;  S -> X N a ;  T -> N b ;  X -> eps | b q ;  N -> n | eps *)
Definition xE := [69]%Z. Definition xS := [83]%Z. Definition xT := [84]%Z.
Definition xX := [88]%Z. Definition xN := [78]%Z.
Definition xa := [97]%Z. Definition xb := [98]%Z. Definition xn := [110]%Z.
Definition xq := [113]%Z. Definition xs := [115]%Z. Definition xt := [116]%Z.
Definition ex_ug : list (sym * list (list sym)) :=
  [(xE, [[xs; xS]; [xt; xT]]); (xS, [[xX; xN; xa]]); (xT, [[xN; xb]]);
   (xX, [[]; [xb; xq]]); (xN, [[xn]; []])].
Definition ex_terms : list sym := [xa; xb; xn; xq; xs; xt].
Definition ex_tok (s : sym) : token := mkTok s s (1, 1)%Z (1, 2)%Z.
Definition ex_end : token := mkTok END_TOKEN [] (1, 9)%Z (1, 9)%Z.
Definition ex_body : list token := [ex_tok xs; ex_tok xb; ex_tok xq; ex_tok xa].

Example ex_hypotheses : forall smart, exists p,
  build ex_ug ex_terms smart xE = Ok p /\
  wf_grammar (p_grammar p) (p_terminals p) (p_start p) = true /\
  C01.Run.hyps_ok ex_ug xE p = true /\
  p_sfxs p = [] /\ p_grammar p = ugram ex_ug /\
  is_ambiguous (p_tables p) = false.
Proof.
  intros [|]; eexists; (split; [vm_compute; reflexivity|]); vm_compute; repeat split.
Qed.
Print Assumptions ex_hypotheses.

Example ex_no_common_prefix :
  no_reserved_names ex_ug = true /\ nodup_syms (map fst ex_ug) = true /\ no_common_prefix ex_ug = true.
Proof. vm_compute. auto. Qed.
Print Assumptions ex_no_common_prefix.

Example ex_ll1 : LL1 (ugram ex_ug) (ex_terms ++ [END_TOKEN]) xE.
Proof. apply ll1_iff_not_ambiguous; vm_compute; reflexivity. Qed.
Print Assumptions ex_ll1.

(* the token the unrepaired code put into FOLLOW(X): b follows N (in T -> N b), not X *)
Example ex_follow_X : forall t, Follow (ugram ex_ug) (ex_terms ++ [END_TOKEN]) xE xX t <-> t = xn \/ t = xa.
Proof.
  intro t. rewrite <- follow_exact by (vm_compute; reflexivity). vm_compute.
  split; [intros [H|[H|[]]]; auto | intros [H|H]; auto].
Qed.
Print Assumptions ex_follow_X.

Example ex_sentence : exists p t,
  build ex_ug ex_terms false xE = Ok p /\ p_parse p 8 (ex_body ++ [ex_end]) = Ok t /\
  Deriv (ugram ex_ug) (p_terminals p) xE (erase t) (map tok_pair ex_body).
Proof.
  eexists. eexists. split; [vm_compute; reflexivity|]. split; [vm_compute; reflexivity|].
  eapply (parse_returns_derivation ex_ug ex_terms false xE _ 8 ex_body ex_end).
  - vm_compute. reflexivity.
  - intros b [<-|[<-|[<-|[<-|[]]]]]; discriminate.
  - vm_compute. reflexivity.
Qed.
Print Assumptions ex_sentence.

(* a program on the witness grammar: a rejected text, a sentence, the same texts again, a
   second object built later from the same dict, the first object used after that --
   is_ambiguous() answers False every time, the same text gives the same result *)
Example ex_session : exists t,
  session ex_ug ex_terms xE 8 [[(xs, xs); (xb, xb); (xq, xq); (xa, xa)]; [(xs, xs); (xb, xb)]] no_objects
    [OBuild false; OAmb false; OParse false 1; OAmb false; OParse false 0; OAmb false;
     OParseFrom false 1 xT; OParse false 1; OAmb false;
     OBuild true; OAmb true; OParse true 1; OAmb true; OParse true 0;
     OParse false 0; OAmb false; OAmb true; OParse false 7; OAmb true]
  = [BBuilt None; BAmb false; BParse (Err ParsingErr); BAmb false; BParse (Ok t); BAmb false;
     BParse (Err ParsingErr); BParse (Err ParsingErr); BAmb false;
     BBuilt None; BAmb false; BParse (Err ParsingErr); BAmb false; BParse (Ok t);
     BParse (Ok t); BAmb false; BAmb false; BNone; BAmb false].
Proof. eexists. vm_compute. reflexivity. Qed.
Print Assumptions ex_session.

(* 's b' is no sentence of E; parsed from another symbol the fragment 't' alone is none either, 'b' is one of T *)
Example ex_parse_from : exists p t,
  build ex_ug ex_terms false xE = Ok p /\
  p_parse_from p 8 xT (mk_toks [(xb, xb)]) = Ok t /\
  p_parse p 8 (mk_toks [(xb, xb)]) = Err ParsingErr /\
  p_parse_from p 8 xa (mk_toks [(xb, xb)]) = Err AssertErr.
Proof. eexists. eexists. split; [vm_compute; reflexivity|]. vm_compute. repeat split. Qed.
Print Assumptions ex_parse_from.
