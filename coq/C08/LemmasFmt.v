(* C08/LemmasFmt.v -- __format__: the hand-written spec parser decodes every
   spec of the grammar [[fill]align][width]['s'] the way str.__format__ does. *)
From Coq Require Import ZArith List Bool Lia.
From AK Require Import Common.Sx Common.Err C08.PyStr gen.C08_Consts C08.Model C08.Spec C08.Lemmas.
Import ListNotations.
Open Scope Z_scope.

(* a spec of the grammar, structured *)
Record fspec := FSpec { f_fill : option Z; f_align : option Z; f_width : list Z; f_s : bool }.

Definition fspec_ok (fs : fspec) : Prop :=
  (f_fill fs <> None -> f_align fs <> None) /\
  (forall a, f_align fs = Some a -> a = 60 \/ a = 62 \/ a = 94) /\      (* < > ^ *)
  Forall (fun d => is_digit d = true) (f_width fs) /\
  hd 49 (f_width fs) <> 48.                                             (* no leading 0: that is a flag *)

Definition opt_l (o : option Z) : list Z := match o with Some c => [c] | None => [] end.
Definition spec_str (fs : fspec) : list Z :=
  (opt_l (f_fill fs) ++ opt_l (f_align fs) ++ f_width fs) ++ (if f_s fs then [ch_s] else []).

Definition digits_val (w : list Z) : Z := fold_left (fun acc d => acc * 10 + (d - 48)) w 0.

(* what str.__format__ does with such a spec on a string of [blen] characters:
   the padding put before and behind it *)
Definition pad_lr (blen : Z) (fs : fspec) : list Z * list Z :=
  let w := digits_val (f_width fs) in
  let fillc := match f_fill fs with Some c => c | None => ch_space end in
  let a := match f_align fs with Some a => a | None => ch_lt end in
  let fw := Z.max (w - blen) 0 in
  if a =? ch_lt then ([], rep fillc fw)
  else if a =? ch_gt then (rep fillc fw, [])
  else (rep fillc (fw / 2), rep fillc (fw - fw / 2)).

Definition padded (body : list Z) (blen : Z) (fs : fspec) : list Z :=
  fst (pad_lr blen fs) ++ body ++ snd (pad_lr blen fs).

(* format(s, spec) for a plain str s *)
Definition py_format_str (s : list Z) (fs : fspec) : list Z := padded s (zlen s) fs.

(* ---- characters *)
Lemma is_align_iff c : is_align c = true <-> c = 62 \/ c = 60 \/ c = 94.
Proof.
  unfold is_align. rewrite align_chars_ok. cbn [existsb]. rewrite !orb_true_iff, !Z.eqb_eq. intuition discriminate.
Qed.
Lemma digit_range d : is_digit d = true <-> 48 <= d <= 57.
Proof. unfold is_digit. rewrite andb_true_iff, !Z.leb_le. tauto. Qed.
Lemma digit_not_align d : is_digit d = true -> is_align d = false.
Proof.
  intros H. apply digit_range in H. destruct (is_align d) eqn:E; [|reflexivity].
  apply is_align_iff in E. lia.
Qed.
Lemma align_not_digit a : is_align a = true -> is_digit a = false.
Proof.
  intros H. apply is_align_iff in H. destruct (is_digit a) eqn:E; [|reflexivity].
  apply digit_range in E. lia.
Qed.
Lemma digit_not_space d : is_digit d = true -> is_space d = false.
Proof.
  intros H. apply digit_range in H. unfold is_space.
  rewrite !orb_false_iff, !andb_false_iff, !Z.leb_gt, Z.eqb_neq. lia.
Qed.

(* ---- int(width) *)
Lemma int_digits_all w : forall prev acc, Forall (fun d => is_digit d = true) w ->
  (w <> [] \/ prev = true) ->
  int_digits w prev acc = Some (fold_left (fun acc d => acc * 10 + (d - 48)) w acc).
Proof.
  induction w as [|d r IH]; intros prev acc Hd Hne; cbn [int_digits fold_left].
  - destruct Hne as [Hne| ->]; [congruence|reflexivity].
  - inversion Hd; subst. rewrite H1. apply IH; [assumption|right; reflexivity].
Qed.

Lemma lstrip_id s : match s with [] => True | c :: _ => is_space c = false end -> lstrip s = s.
Proof. destruct s as [|c r]; [reflexivity|]. cbn [lstrip]. intros ->. reflexivity. Qed.

Lemma py_int_digits w : Forall (fun d => is_digit d = true) w -> w <> [] ->
  py_int w = Some (digits_val w).
Proof.
  intros Hd Hne. unfold py_int.
  assert (strip w = w) as ->.
  { unfold strip. rewrite (lstrip_id w).
    - destruct (exists_last Hne) as (w' & d & ->). rewrite rev_unit.
      rewrite lstrip_id; [rewrite <- rev_unit; apply rev_involutive|].
      apply digit_not_space. apply Forall_app in Hd as [_ Hd]. inversion Hd; assumption.
    - destruct w as [|c r]; [exact I|]. inversion Hd; subst. apply digit_not_space. assumption. }
  destruct w as [|c r]; [congruence|].
  inversion Hd; subst. pose proof H1 as Hc. apply digit_range in Hc.
  destruct (Z.eqb_spec c 45); [lia|]. destruct (Z.eqb_spec c 43); [lia|].
  apply int_digits_all; [exact Hd|left; discriminate].
Qed.

(* ---- the leading type character *)
Lemma strip_type_s x : strip_type (x ++ [ch_s]) = Ok x.
Proof.
  unfold strip_type. rewrite rev_unit.
  assert (is_digit ch_s = false) as -> by reflexivity.
  assert (is_align ch_s = false) as ->.
  { destruct (is_align ch_s) eqn:E; [|reflexivity]. apply is_align_iff in E. unfold ch_s in E. lia. }
  cbn [negb andb]. rewrite Z.eqb_refl. rewrite removelast_last. reflexivity.
Qed.

Lemma strip_type_keep x : (x = [] \/ exists y c, x = y ++ [c] /\ (is_digit c = true \/ is_align c = true)) ->
  strip_type x = Ok x.
Proof.
  intros [->|(y & c & -> & H)]; [reflexivity|].
  unfold strip_type. rewrite rev_unit.
  destruct H as [H|H]; rewrite H; [reflexivity|]. cbn [negb]. rewrite andb_false_r. reflexivity.
Qed.

(* ---- the theorem about the parser *)
Lemma format_gen_ok body blen fs : fspec_ok fs ->
  format_gen body blen (spec_str fs) = Ok (padded body blen fs).
Proof.
  intros (Hfa & Hal & Hw & _).
  destruct fs as [F A W S]. cbn [f_fill f_align f_width f_s] in *.
  unfold spec_str. cbn [f_fill f_align f_width f_s].
  set (X := opt_l F ++ opt_l A ++ W).
  assert (forall a, A = Some a -> is_align a = true) as Hal'.
  { intros a Ha. apply is_align_iff. destruct (Hal a Ha) as [->|[->| ->]]; auto. }
  (* 1. type character *)
  assert (strip_type (X ++ (if S then [ch_s] else [])) = Ok X) as Hstrip.
  { destruct S; [apply strip_type_s|]. rewrite app_nil_r. apply strip_type_keep.
    destruct (list_eq_dec Z.eq_dec W []) as [->|Hne].
    - destruct A as [a|].
      + right. exists (opt_l F), a. subst X. cbn [opt_l]. rewrite app_nil_r. split; [reflexivity|].
        right. apply Hal'. reflexivity.
      + left. destruct F; [exfalso; apply Hfa; congruence|reflexivity].
    - right. destruct (exists_last Hne) as (W' & d & ->).
      exists (opt_l F ++ opt_l A ++ W'), d. split; [subst X; rewrite !app_assoc; reflexivity|].
      left. apply Forall_app in Hw as [_ Hd]. inversion Hd; assumption. }
  unfold format_gen. rewrite Hstrip. cbn [bind].
  (* 2. align character, width part, filler *)
  assert (exists apos ach,
            find_align X = (apos, ach) /\ skipn (Z.to_nat (apos + 1)) X = W /\
            ach = match A with Some a => a | None => ch_lt end /\
            (if apos =? 1 then nth 0 X ch_space else ch_space) = match F with Some c => c | None => ch_space end)
    as (apos & ach & Hfind & Hskip & Hach & Hfill).
  { subst X. destruct F as [f|], A as [a|]; cbn [opt_l app].
    - exists 1, a. cbn [find_align]. rewrite (Hal' a eq_refl). repeat split.
    - exfalso. apply Hfa; congruence.
    - exists 0, a. destruct W as [|d W'].
      + cbn [find_align]. rewrite (Hal' a eq_refl). repeat split.
      + cbn [find_align]. inversion Hw; subst. rewrite (digit_not_align d) by assumption.
        rewrite (Hal' a eq_refl). repeat split.
    - exists (-1), ch_lt. destruct W as [|d [|d2 W']].
      + repeat split.
      + cbn [find_align]. inversion Hw; subst. rewrite (digit_not_align d) by assumption. repeat split.
      + cbn [find_align]. inversion Hw as [|? ? H1 H2]; subst. inversion H2; subst.
        rewrite (digit_not_align d), (digit_not_align d2) by assumption. repeat split. }
  rewrite Hfind, Hskip, Hfill.
  (* 3. width *)
  assert ((if is_nil W then Ok 0 else match py_int W with Some w => Ok w | None => Err ValueErr end)
          = Ok (digits_val W)) as ->.
  { destruct W as [|d W']; [reflexivity|]. cbn [is_nil]. rewrite py_int_digits; [reflexivity|exact Hw|discriminate]. }
  cbn [bind]. unfold padded, pad_lr. cbn [f_fill f_align f_width].
  rewrite <- Hach.
  set (fillc := match F with Some c => c | None => ch_space end).
  set (fw := Z.max (digits_val W - blen) 0).
  destruct (Z.eqb_spec fw 0) as [E0|E0].
  - rewrite E0. change (0 / 2) with 0. change (0 - 0) with 0. unfold rep. cbn [Z.to_nat repeat].
    destruct (ach =? ch_lt); [|destruct (ach =? ch_gt)]; cbn [fst snd app]; rewrite ?app_nil_r; reflexivity.
  - destruct (ach =? ch_lt); [|destruct (ach =? ch_gt)]; cbn [fst snd app]; rewrite ?app_nil_r; reflexivity.
Qed.

(* format(t, spec): the padding that format(plain_text(t), spec) has, around str(t) *)
Lemma format_visible_l t fs : inv t -> fspec_ok fs ->
  text_format t (spec_str fs) =
    Ok (fst (pad_lr (zlen (plain_text t)) fs) ++ text_str t ++ snd (pad_lr (zlen (plain_text t)) fs)) /\
  py_format_str (plain_text t) fs =
    fst (pad_lr (zlen (plain_text t)) fs) ++ plain_text t ++ snd (pad_lr (zlen (plain_text t)) fs).
Proof.
  intros [_ Hn] Hfs. unfold text_format. rewrite format_gen_ok by exact Hfs.
  assert (scrlen t = zlen (plain_text t)) as ->.
  { rewrite Hn, <- visible_cchars. unfold visible. rewrite zlen_map. reflexivity. }
  split; reflexivity.
Qed.

(* what is rejected: a type character other than 's' *)
Lemma format_bad_type body blen x c :
  is_digit c = false -> is_align c = false -> c <> ch_s ->
  format_gen body blen (x ++ [c]) = Err ValueErr.
Proof.
  intros Hd Ha Hs. unfold format_gen, strip_type. rewrite rev_unit, Hd, Ha. cbn [negb andb].
  destruct (Z.eqb_spec c ch_s); [contradiction|reflexivity].
Qed.
