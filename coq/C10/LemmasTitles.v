(* C10/LemmasTitles.v -- the title block model (Titles.v): its height is the tallest VISIBLE title,
   its program meets the guard obj_noesc of the rendering theorems, and the family of tables sharing
   one record structure never writes it: what a table prints is a function of the fields as they
   were made and of the columns it shows now. *)
From Coq Require Import ZArith List Bool Arith Lia.
From AK Require Import Common.Sx Common.Err C10.Sgr C10.SgrLemmas C10.Base gen.C10_Consts C10.Model C10.Layout
  C10.Titles C10.Lemmas C10.LemmasPure C10.LemmasTop C10.LemmasLayout.
Import ListNotations.
Open Scope Z_scope.

(* ---- height ---- *)
Lemma title_lines_length cols : length (title_lines cols) = title_height cols.
Proof. unfold title_lines. rewrite map_length, seq_length. reflexivity. Qed.

Lemma title_height_ge cols c : In c cols -> (length (snd c) <= title_height cols)%nat.
Proof.
  induction cols as [|x r IH]; intros H; [destruct H|].
  cbn [title_height fold_right]. fold (title_height r). destruct H as [H|H].
  - subst. apply Nat.le_max_l.
  - specialize (IH H). etransitivity; [exact IH|apply Nat.le_max_r].
Qed.

Lemma title_height_attained cols : cols <> [] -> exists c, In c cols /\ length (snd c) = title_height cols.
Proof.
  induction cols as [|x r IH]; intros H; [congruence|].
  cbn [title_height fold_right]. fold (title_height r).
  destruct (Nat.max_spec (length (snd x)) (title_height r)) as [[Hlt E]|[Hle E]]; rewrite E.
  - destruct r as [|y r'].
    + cbn [title_height fold_right] in Hlt. lia.
    + destruct IH as (c & Hc & Ec); [discriminate|]. exists c. split; [right; exact Hc|exact Ec].
  - exists x. split; [left; reflexivity|reflexivity].
Qed.

(* columns that are not shown do not enter: the block is a function of the visible columns (by
   type); adding a column whose title is not taller than the block keeps the height *)
Lemma title_height_app a b : title_height (a ++ b) = Nat.max (title_height a) (title_height b).
Proof.
  induction a as [|x r IH]; [reflexivity|].
  cbn [app title_height fold_right]. fold (title_height (r ++ b)) (title_height r). rewrite IH. apply Nat.max_assoc.
Qed.

(* ---- every text of the block satisfies Q ---- *)
Section Q.
Variable Q : list Z -> Prop.
Hypothesis Qsp : forall n, Q (spaces n).
Hypothesis Qbar : Q [124].

Definition any_q (it : item) : Prop :=
  match it with IChunk _ _ t => Q t | IPlain t => Q t | IEnum _ _ _ _ _ => False end.

Lemma chunk_opt_q sub a t : Q t -> Forall any_q (chunk_opt sub a t).
Proof. intros H. destruct t; cbn [chunk_opt]; [constructor|]. constructor; [exact H|constructor]. Qed.

Lemma title_cell_q w ti : Q (ti_text ti) -> Forall any_q (title_cell w ti).
Proof.
  intros H. unfold title_cell. destruct ti as [t|a [|] t]; cbn [ti_text] in *;
    apply Forall_app; split; apply chunk_opt_q; auto.
Qed.

Definition col_q (c : nat * list titem) : Prop := Forall (fun ti => Q (ti_text ti)) (snd c).

Hypothesis Qnil : Q [].

Lemma nth_q l i : Forall (fun ti => Q (ti_text ti)) l -> Q (ti_text (nth i l (TStr []))).
Proof.
  revert i. induction l as [|x r IH]; intros i H.
  - destruct i; exact Qnil.
  - inversion H; subst. destruct i; [assumption|]. apply IH. assumption.
Qed.

Lemma title_row_q cols i : Forall col_q cols -> Forall any_q (title_row cols i).
Proof.
  intros H. unfold title_row. constructor; [exact Qbar|].
  induction cols as [|c r IH]; [constructor|].
  inversion H; subst. cbn [flat_map]. apply Forall_app. split; [|apply IH; assumption].
  apply Forall_app. split; [|constructor; [exact Qbar|constructor]].
  apply title_cell_q. apply nth_q. assumption.
Qed.

Lemma title_lines_q cols : Forall col_q cols -> Forall (Forall any_q) (title_lines cols).
Proof.
  intros H. unfold title_lines. apply Forall_forall. intros l Hl.
  apply in_map_iff in Hl. destruct Hl as (i & <- & _). apply title_row_q. exact H.
Qed.
End Q.

Lemma any_noesc fts ls : Forall (Forall (any_q no_esc)) ls -> Forall (Forall (item_noesc fts)) ls.
Proof.
  intros H. eapply Forall_impl; [|exact H]. intros l Hl. eapply Forall_impl; [|exact Hl].
  intros it Hit. destruct it; cbn [any_q item_noesc] in *; [exact Hit|exact Hit|destruct Hit].
Qed.

Lemma no_esc_bar : no_esc [124].
Proof. unfold no_esc. intros [H|[]]. discriminate. Qed.

Lemma no_esc_nil : no_esc [].
Proof. unfold no_esc. intros []. Qed.

Definition cols_noesc (cols : list (nat * list titem)) : Prop := Forall (col_q no_esc) cols.

Lemma title_lines_noesc fts cols : cols_noesc cols -> Forall (Forall (item_noesc fts)) (title_lines cols).
Proof.
  intros H. apply any_noesc. apply title_lines_q; [exact no_esc_spaces|exact no_esc_bar|exact no_esc_nil|exact H].
Qed.

(* a table program whose title block is the model's: border / header lines before it, records / footer after it *)
Definition table_obj (K : Z) (subs : list Z) (pre : list (list item)) (cols : list (nat * list titem)) (post : list (list item)) : objspec :=
  mkObj K subs (pre ++ title_lines cols ++ post).

Lemma table_obj_noesc fts K subs pre cols post :
  Forall (Forall (item_noesc fts)) pre -> cols_noesc cols -> Forall (Forall (item_noesc fts)) post ->
  obj_noesc fts (table_obj K subs pre cols post).
Proof.
  intros Hpre Hc Hpost. unfold obj_noesc, table_obj. cbn [o_lines].
  apply Forall_app. split; [exact Hpre|]. apply Forall_app. split; [apply title_lines_noesc; exact Hc|exact Hpost].
Qed.

(* ---- the family of tables over one record structure: rendering never writes it ---- *)
Lemma ts_step_fields st o : ts_fields (fst (ts_step st o)) = ts_fields st.
Proof. destruct o; reflexivity. Qed.

Lemma ts_run_fields ops : forall st, ts_fields (fst (ts_run st ops)) = ts_fields st.
Proof.
  induction ops as [|o r IH]; intros st; [reflexivity|].
  cbn [ts_run]. destruct (ts_step st o) as [st1 out] eqn:E1. destruct (ts_run st1 r) as [st2 outs] eqn:E2.
  cbn [fst]. pose proof (IH st1) as H. rewrite E2 in H. cbn [fst] in H. rewrite H.
  pose proof (ts_step_fields st o) as H1. rewrite E1 in H1. exact H1.
Qed.

(* what a table prints after ANY history of renderings / re-formattings of the tables of its family
   is the block of the columns it shows now over the fields AS THEY WERE MADE *)
Lemma ts_render_after ops st tb :
  snd (ts_step (fst (ts_run st ops)) (TSRender tb)) =
  title_lines (cols_of (ts_fields st) (vis_of (fst (ts_run st ops)) tb)).
Proof. cbn [ts_step snd]. rewrite ts_run_fields. reflexivity. Qed.

(* renderings in between change nothing at all: the state after a history is the state after the
   history with its renderings removed *)
Definition is_render (o : tsop) : bool := match o with TSRender _ => true | _ => false end.

Lemma ts_run_skip_renders ops : forall st,
  fst (ts_run st ops) = fst (ts_run st (filter (fun o => negb (is_render o)) ops)).
Proof.
  induction ops as [|o r IH]; intros st; [reflexivity|].
  cbn [ts_run filter]. destruct o as [tb|tb vis|tb names]; cbn [is_render negb].
  - cbn [ts_step]. destruct (ts_run st r) as [st2 outs] eqn:E2. cbn [fst].
    pose proof (IH st) as H. rewrite E2 in H. exact H.
  - cbn [ts_run]. destruct (ts_step st (TSSetCols tb vis)) as [st1 out].
    destruct (ts_run st1 r) as [st2 outs] eqn:E2.
    destruct (ts_run st1 (filter (fun o => negb (is_render o)) r)) as [st3 outs3] eqn:E3.
    cbn [fst]. pose proof (IH st1) as H. rewrite E2, E3 in H. exact H.
  - cbn [ts_run]. destruct (ts_step st (TSRemove tb names)) as [st1 out].
    destruct (ts_run st1 r) as [st2 outs] eqn:E2.
    destruct (ts_run st1 (filter (fun o => negb (is_render o)) r)) as [st3 outs3] eqn:E3.
    cbn [fst]. pose proof (IH st1) as H. rewrite E2, E3 in H. exact H.
Qed.

Lemma ts_no_memory ops st tb :
  snd (ts_step (fst (ts_run st ops)) (TSRender tb)) =
  snd (ts_step (fst (ts_run st (filter (fun o => negb (is_render o)) ops))) (TSRender tb)).
Proof. rewrite <- ts_run_skip_renders. reflexivity. Qed.
