(* C06/PropsRefs.v -- the property theorems about the text level of the history report: where the heads of the
   branches and the commits of the tags come from when the library's own GitRepo reads a '.git' directory
   (model: coq/C06/Refs.v of GitRepo._iter_packed_refs / iter_refs, ProjectRepo.make_branch_refs_map /
   make_buildtags_map; lemmas: coq/C06/RefsLemmas.v).  Nothing else in this file. *)
From Coq Require Import ZArith List Bool String Ascii.
From AK Require Import Common.Err C06.Model C06.Refs C06.RefsLemmas.
Import ListNotations.
Open Scope Z_scope.

(* ------------------------------------------------------------------ *)
(* GitRepo._iter_packed_refs                                            *)

(* The reader, as coded (a loop with a pending ref), computes the specification-level reading of the classified
   lines ([entries]: every ref line whose name has a wanted prefix gives (name, hexsha), where the hexsha is the
   last '^' line that follows it before the next ref line, else its own), or fails with the error of the first
   line it refuses (a comment that is not the pack-refs header: TypeError; a '^' line that is not 41 characters
   long: TypeError; a line with one field: ValueError).  Order and repetitions are those of the file. *)
Theorem packed_refs_parse_spec : forall d prefixes text,
  d_packed d = Some text ->
  packed_refs d prefixes =
  match first_err (map classify (lines text)) with
  | Some e => Err e
  | None => Ok (entries prefixes (map classify (lines text)))
  end.
Proof. exact packed_refs_spec. Qed.
Print Assumptions packed_refs_parse_spec.

Theorem packed_refs_no_file : forall d prefixes, d_packed d = None -> packed_refs d prefixes = Ok [].
Proof. exact packed_refs_missing. Qed.
Print Assumptions packed_refs_no_file.

(* every '<hexsha> <name>' line whose name has a wanted prefix yields exactly that pair -- with the last '^' line
   that follows it, if any, instead of its own hexsha -- whatever stands before it and whatever follows the next
   ref line; a line with another name yields nothing *)
Theorem ref_line_yields_its_pair : forall prefixes before sha name after,
  entries prefixes (before ++ PRef sha name :: after) =
  entries prefixes before
  ++ (if wanted prefixes name then [(name, peeled after sha)] else [])
  ++ entries prefixes after.
Proof.
  intros P l1 sha name l2. destruct (wanted P name) eqn:W.
  - now apply entries_ref_line.
  - now apply entries_unwanted_line.
Qed.
Print Assumptions ref_line_yields_its_pair.

Theorem ref_line_without_peel : forall after sha, no_peel_before_ref after = true -> peeled after sha = sha.
Proof. exact peeled_none. Qed.
Print Assumptions ref_line_without_peel.

(* a '^' line changes only the ref it follows: the file can be cut in front of any ref line, and the two parts are
   read independently *)
Theorem peeled_line_is_local : forall prefixes part1 part2,
  starts_with_ref part2 -> entries prefixes (part1 ++ part2) = entries prefixes part1 ++ entries prefixes part2.
Proof. exact entries_app. Qed.
Print Assumptions peeled_line_is_local.

(* ... and never a branch: when every '^' line follows a ref that is not wanted (for the branches of a remote:
   follows a tag, as in every file git writes), the result is the plain list of the wanted ref lines *)
Theorem peeled_lines_never_change_wanted_refs : forall prefixes cls,
  peel_safe prefixes cls false = true -> entries prefixes cls = plain prefixes cls.
Proof. intros P cls. apply entries_plain. Qed.
Print Assumptions peeled_lines_never_change_wanted_refs.

Theorem peeled_lines_never_change_branches : forall remote cls,
  peels_follow_tags cls false = true ->
  entries [remote_prefix remote] cls = plain [remote_prefix remote] cls.
Proof.
  intros remote cls H. apply (entries_plain _ _ false). apply (tags_safe remote _ false false); [discriminate|exact H].
Qed.
Print Assumptions peeled_lines_never_change_branches.

(* from the text of a line to its class: '<hexsha> <name>' (no white space inside the first field, none around the
   name) is a ref line with exactly these two fields; '^<hexsha>' is a peeled line, accepted iff 41 characters long *)
Theorem ref_line_text : forall c0 sha' name,
  c0 <> 35 -> c0 <> 94 ->
  forallb (fun c => negb (is_space c)) (c0 :: sha') = true ->
  name <> [] -> lstrip name = name -> lstrip (rev name) = rev name ->
  classify ((c0 :: sha') ++ 32 :: name) = PRef (c0 :: sha') name.
Proof. exact classify_ref_line. Qed.
Print Assumptions ref_line_text.

Theorem peeled_line_text : forall sha,
  lstrip (rev sha) = rev sha -> classify (94 :: sha) = PPeel (Nat.eqb (S (List.length sha)) peel_line_len) sha.
Proof. exact classify_peel_line. Qed.
Print Assumptions peeled_line_text.

(* ------------------------------------------------------------------ *)
(* GitRepo.iter_refs, ProjectRepo.make_branch_refs_map                  *)

(* one prefix below refs/: the loose ref files below the directory first (without a hexsha), then the packed refs
   that have no loose file *)
Theorem iter_refs_one_prefix : forall d p,
  prefixb s_refs p = true ->
  iter_refs d [p] =
  match packed_refs d [p] with
  | Err e => Err e
  | Ok pk =>
      let fs := filter (fun e => loose_under p (fst e)) (d_loose d) in
      Ok (map (fun e : list Z * list Z => (fst e, @None (list Z))) fs
          ++ map (fun e : list Z * list Z => (fst e, Some (snd e)))
                 (filter (fun e => negb (mem_str (fst e) (map fst fs))) pk))
  end.
Proof. exact iter_refs_one. Qed.
Print Assumptions iter_refs_one_prefix.

(* the head recorded for "<remote>/<branch>": what the loose ref file says when there is one (the packed value is
   stale then), otherwise the LAST entry of that name yielded by the packed-refs reader, otherwise nothing *)
Theorem branch_head_rule : forall d remote m pk b,
  branch_refs_map d remote = Ok m ->
  packed_refs d [remote_prefix remote] = Ok pk ->
  slookup b m =
    if mem_str (s_refs_remotes ++ b)
               (map fst (filter (fun e => loose_under (remote_prefix remote) (fst e)) (d_loose d)))
    then slookup (s_refs_remotes ++ b) (d_loose d)
    else last_val (s_refs_remotes ++ b) pk None.
Proof. exact branch_refs_map_spec. Qed.
Print Assumptions branch_head_rule.

(* all of it together, for a packed-refs file that the code accepts and in which '^' lines follow tags *)
Theorem branch_heads_from_ref_files : forall d remote text,
  d_packed d = Some text ->
  first_err (map classify (lines text)) = None ->
  peels_follow_tags (map classify (lines text)) false = true ->
  exists m, branch_refs_map d remote = Ok m /\
  forall b, slookup b m =
    if mem_str (s_refs_remotes ++ b)
               (map fst (filter (fun e => loose_under (remote_prefix remote) (fst e)) (d_loose d)))
    then slookup (s_refs_remotes ++ b) (d_loose d)
    else last_val (s_refs_remotes ++ b) (plain [remote_prefix remote] (map classify (lines text))) None.
Proof. exact branch_heads_spec. Qed.
Print Assumptions branch_heads_from_ref_files.

(* ------------------------------------------------------------------ *)
(* commits are identified by their FULL id                               *)

(* repo.commit(hexsha) -- the step from a hexsha read from the ref files (a branch head, the commit of a build tag)
   to a commit of the history -- answers with the commit whose id is exactly that text, all digits of it ... *)
Theorem commit_of_full_id : forall shas sha k,
  index_of sha shas = Some k -> nth_error shas k = Some sha.
Proof. intros shas sha k. apply index_of_sound. Qed.
Print Assumptions commit_of_full_id.

(* ... every commit is found under its own id when the ids are pairwise different (in one digit or in forty) ... *)
Theorem commit_found_by_its_id : forall shas sha k,
  NoDup shas -> nth_error shas k = Some sha -> index_of sha shas = Some k.
Proof. intros shas sha k. apply index_of_complete. Qed.
Print Assumptions commit_found_by_its_id.

(* ... and two different ids never denote the same commit, however long a prefix (or suffix) they share *)
Theorem different_ids_different_commits : forall shas a b i j,
  index_of a shas = Some i -> index_of b shas = Some j -> a <> b -> i <> j.
Proof. intros shas a b i j. apply index_of_differs. Qed.
Print Assumptions different_ids_different_commits.

(* ------------------------------------------------------------------ *)
(* the hypotheses are satisfiable: the file 'git pack-refs --all' writes for two branches of origin, a branch of
   another remote, a local branch, an annotated build tag and a lightweight tag; origin/release/1.0 also has a
   loose file (fetched after the packing)                                                                    *)

Fixpoint zs (s : string) : list Z :=
  match s with
  | EmptyString => []
  | String a r => Z.of_nat (nat_of_ascii a) :: zs r
  end.

Definition example_packed : list Z := zs
"# pack-refs with: peeled fully-peeled sorted
1111111111111111111111111111111111111111 refs/heads/master
2222222222222222222222222222222222222222 refs/remotes/origin/master
3333333333333333333333333333333333333333 refs/remotes/origin/release/1.0
4444444444444444444444444444444444444444 refs/remotes/other/master
5555555555555555555555555555555555555555 refs/tags/build_11_release_1_0_success
^6666666666666666666666666666666666666666
7777777777777777777777777777777777777777 refs/tags/v1.0
".

Definition example_disk : disk :=
  mkDisk (Some example_packed)
         [(zs "refs/remotes/origin/release/1.0", zs "9999999999999999999999999999999999999999")].

Example refs_example :
  first_err (map classify (lines example_packed)) = None /\
  peels_follow_tags (map classify (lines example_packed)) false = true /\
  branch_refs_map example_disk (zs "origin") =
    Ok [(zs "origin/release/1.0", zs "9999999999999999999999999999999999999999");
        (zs "origin/master", zs "2222222222222222222222222222222222222222")] /\
  tags_list example_disk =
    Ok [(zs "build_11_release_1_0_success", zs "6666666666666666666666666666666666666666");
        (zs "v1.0", zs "7777777777777777777777777777777777777777")].
Proof. vm_compute. repeat split; reflexivity. Qed.
Print Assumptions refs_example.

(* two commits whose ids share the first 39 digits (and a third that shares the last 39 with the first) *)
Example ids_sharing_39_digits :
  let shas := [zs "1234567890abcdef1234567890abcdef12345670";
               zs "1234567890abcdef1234567890abcdef12345671";
               zs "0234567890abcdef1234567890abcdef12345670"] in
  index_of (zs "1234567890abcdef1234567890abcdef12345671") shas = Some 1%nat /\
  index_of (zs "0234567890abcdef1234567890abcdef12345670") shas = Some 2%nat /\
  index_of (zs "1234567890a") shas = None.
Proof. vm_compute. repeat split; reflexivity. Qed.
Print Assumptions ids_sharing_39_digits.
