(* C09/Spec.v -- vocabulary of the C09 theorems: which Python values denote
   which terminal colour, what a well-formed SGR sequence is, which values the
   property calls valid.  Written against the documentation of ColorFmt and
   ECMA-48, NOT against the constants extracted from the code (all numbers here
   are literals).  No proofs in this file. *)
From Coq Require Import ZArith List Bool.
From AK Require Import Common.Err C09.Model C09.Term.
Import ListNotations.
Open Scope Z_scope.

(* the eight ANSI colour names and their standard indices *)
Definition ansi_names : list (list Z * Z) :=
  [ ([66;76;65;67;75], 0);            (* BLACK *)
    ([82;69;68], 1);                  (* RED *)
    ([71;82;69;69;78], 2);            (* GREEN *)
    ([89;69;76;76;79;87], 3);         (* YELLOW *)
    ([66;76;85;69], 4);               (* BLUE *)
    ([77;65;71;69;78;84;65], 5);      (* MAGENTA *)
    ([67;89;65;78], 6);               (* CYAN *)
    ([87;72;73;84;69], 7) ].          (* WHITE *)

(* [denotes c col]: the colour specification c of the ColorFmt documentation
   asks for terminal colour col *)
Inductive denotes : color -> colour -> Prop :=
| DNone : denotes CNone Default
| DName s k : lookup s ansi_names = Some k -> denotes (CStr s) (Named k)
| DInt n : 0 <= n <= 255 -> denotes (CInt n) (Idx n)
| DCube il r g b : 0 <= r <= 5 -> 0 <= g <= 5 -> 0 <= b <= 5 ->
    denotes (CSeq il [EInt r; EInt g; EInt b]) (Idx (16 + 36 * r + 6 * g + b))
| DGray k : 0 <= k <= 23 -> denotes (CStr (103 :: dec k)) (Idx (232 + k)).   (* 'g' ++ str(k) *)

(* the attributes a formatter is asked for *)
Definition want (a : fmtargs) (cf cb : colour) : attrs :=
  if a_nocolor a then dflt
  else mkAttrs cf cb (a_bold a) (a_faint a) (a_underline a) (a_blink a) (a_crossed a).

(* formatter arguments within the property's quantifier *)
Definition valid_args (a : fmtargs) (cf cb : colour) : Prop :=
  a_nocolor a = true \/ (denotes (a_color a) cf /\ denotes (a_bg a) cb).

Definition esc_free (t : list Z) : Prop := Forall (fun c => c <> 27) t.

Definition paint (a : attrs) (t : list Z) : list shown := map (fun c => (c, a)) t.

(* ---- well-formed SGR sequence:  ESC [ p (; p)* m,  p = digits (: digits)*  ---- *)

(* DFA for digits(:digits)*; the state says whether the previous character was a digit *)
Fixpoint wf_pb (s : list Z) (after_digit : bool) : bool :=
  match s with
  | [] => after_digit
  | c :: r => if is_digit c then wf_pb r true
              else if (c =? 58) && after_digit then wf_pb r false
              else false
  end.
Definition wf_param (p : list Z) : Prop := wf_pb p false = true.

Definition wf_sgr (s : list Z) : Prop :=
  exists params, params <> [] /\ Forall wf_param params /\
                 s = [27; 91] ++ join [59] params ++ [109].

(* ---- which values _make_seq_element accepts (the exact characterisation) ---- *)

Definition accepted (c : color) : Prop :=
  match c with
  | CStr s => (exists k, lookup s ansi_names = Some k) \/
              (exists t v, s = 103 :: t /\ py_int t = Some v /\ 0 <= v <= 23)
  | CInt n => 0 <= n <= 255
  | CBool _ => True              (* isinstance(True, int): treated as the int 1 / 0 *)
  | CSeq _ l => exists r g b, l = [EInt r; EInt g; EInt b] /\ 0 <= r <= 5 /\ 0 <= g <= 5 /\ 0 <= b <= 5
  | CNone | COther | CUnhash => False
  end.

Definition none_or (P : color -> Prop) (c : color) : Prop := c = CNone \/ P c.

(* ---- the same specification as a function (used to state the theorems) ---- *)

(* t is the decimal spelling of some k in 0..23 *)
Definition gray_of (t : list Z) : option Z :=
  find (fun k => str_eqb t (dec k)) (map Z.of_nat (seq 0 24)).

Definition colour_of (c : color) : option colour :=
  match c with
  | CNone => Some Default
  | CStr s =>
      match lookup s ansi_names with
      | Some k => Some (Named k)
      | None => match s with
                | c0 :: t => if c0 =? 103 then option_map (fun k => Idx (232 + k)) (gray_of t) else None
                | [] => None
                end
      end
  | CInt n => if in_range 0 255 n then Some (Idx n) else None
  | CSeq _ [EInt r; EInt g; EInt b] =>
      if in_range 0 5 r && in_range 0 5 g && in_range 0 5 b
      then Some (Idx (16 + 36 * r + 6 * g + b)) else None
  | _ => None
  end.

Definition col (c : color) : colour := match colour_of c with Some x => x | None => Default end.

(* a formatter within the property's quantifier, and the attributes it is asked for *)
Definition valid_fmt (a : fmtargs) : Prop :=
  a_nocolor a = true \/ (colour_of (a_color a) <> None /\ colour_of (a_bg a) <> None).

Definition req (o : option fmtargs) : attrs :=
  match o with
  | None => dflt                                   (* a plain str part *)
  | Some a => want a (col (a_color a)) (col (a_bg a))
  end.

(* parts of a CHText: (Some formatter arguments | None for a plain str, text) *)
Definition valid_part (it : option fmtargs * list Z) : Prop :=
  esc_free (snd it) /\ match fst it with Some a => valid_fmt a | None => True end.

(* weaker: any formatter make accepts (lenient grey spellings, bools) *)
Definition ok_part (it : option fmtargs * list Z) : Prop := esc_free (snd it).
