(* C01/RunTok.v -- correspondence entry point of C01 (extends C01/Run.v):
   LLParser.parse on a TEXT, end to end: the tokenizer (C04/Model.v: pattern
   alternatives, span tokens, synonyms, keywords), the skip_tokens filter of
   parse() (llparser.py 1646-1649) and the main loop (LLP/Parse.v); the optional
   per-call start symbol (1646-1653); sessions: one parser object used for a
   sequence of parse() calls, a second parser made from the same productions.
   The model is a pure function, so it has no state between calls: whatever the
   implementation keeps between calls must not be observable.
   No proofs in this file. *)
From Coq Require Import ZArith List Bool.
From AK Require Export Common.Sx Common.Err LLP.Build C01.Spec C01.Run gen.C04_Consts C04.Model.
Import ListNotations.
Open Scope Z_scope.

(* LLParser.__init__: skip_tokens=None means SPACE and COMMENT when they are terminals *)
Definition skip_set (terminals : list sym) (skip : option (list sym)) : list sym :=
  match skip with
  | Some l => l
  | None => filter (fun s => mem s terminals) default_skip
  end.

(* the constructor with a tokenizer configuration: terminals = get_all_token_names();
   assertion on the terminals' names, then GrammarError for unknown skip tokens, then
   the pipeline of LLP/Build.v *)
Definition build_cfg (cfg : lexcfg) (skip : option (list sym))
    (ug : list (sym * list (list sym))) (smart : bool) (start : sym) : res parser :=
  let terminals := cfg_terminals cfg in
  if existsb has_dunder terminals then Err AssertErr else
  if negb (subset (skip_set terminals skip) terminals) then Err OtherErr else
  build ug terminals smart start.

(* parse(text, start_symbol_name=s): the two assertions in the order of the code (1646-1651, the second one
   since /repo 2909322):  s in self.prods_map , then  '__' not in s  (both AssertionError);
   None = the constructor's start symbol *)
Definition start_ok (p : parser) (s : sym) : bool :=
  if mem s (gkeys (p_grammar p)) then negb (has_dunder s) else false.

Definition parse_at (p : parser) (fuel : nat) (toks : list token) (s : option sym) : res tree :=
  match s with
  | None => p_parse p fuel toks
  | Some s =>
      if start_ok p s
      then parse (fun x => mem x (p_terminals p)) (table_get (p_tables p)) (p_sfxs p) toks fuel s
      else Err AssertErr
  end.

(* the non-skipped tokens of a text ($END$ last) *)
Definition text_tokens (cfg : lexcfg) (skip : list sym) (text : list Z) : res (list token) :=
  match cfg_tokenize cfg (tok_lines (IStr text)) with
  | LOk toks => Ok (drop_skipped skip toks)
  | LErr _ _ _ => Err LexicalErr
  | LHang => Err Hang
  end.

(* LLParser.parse(text, do_cleanup=False, start_symbol_name=s) *)
Definition parse_text (cfg : lexcfg) (skip : list sym) (p : parser) (fuel : nat) (text : list Z)
    (s : option sym) : res tree :=
  match s with
  | Some s' => if start_ok p s' then
                 bind (text_tokens cfg skip text) (fun toks => parse_at p fuel toks s)
               else Err AssertErr
  | None => bind (text_tokens cfg skip text) (fun toks => parse_at p fuel toks s)
  end.

(* ---------------------------------------------------------------- sessions *)
Inductive source :=
| SToks (l : list (sym * list Z))     (* plain tokenizer of the harness: the generator's token list *)
| SText (s : list Z).                 (* a text, tokenised by the modelled tokenizer *)

Notation call := (nat * option sym)%type.     (* index of the text, start_symbol_name *)

Inductive case :=
| Old (c : Run.case)
| Session (tk : option (lexcfg * option (list sym)))
          (ug : list (sym * list (list sym))) (terminals : list sym)   (* terminals: used when tk = None *)
          (smart : bool) (start : sym) (fuel : nat)
          (texts : list source) (calls : list call)
          (second : option (bool * sym * list call))
          (expected : sx).     (* the canonical observation of the implementation; compared here (see [run]) *)

Definition s_terminals (tk : option (lexcfg * option (list sym))) (terminals : list sym) : list sym :=
  match tk with Some (cfg, _) => cfg_terminals cfg | None => terminals end.

Definition s_build (tk : option (lexcfg * option (list sym))) ug terminals smart start : res parser :=
  match tk with
  | Some (cfg, skip) => build_cfg cfg skip ug smart start
  | None => build ug terminals smart start
  end.

Definition s_tokens (tk : option (lexcfg * option (list sym))) (src : source) : res (list token) :=
  match src, tk with
  | SToks l, _ => Ok (mk_toks l)
  | SText s, Some (cfg, skip) => text_tokens cfg (skip_set (cfg_terminals cfg) skip) s
  | SText _, None => Err OtherErr
  end.

Definition s_call (tk : option (lexcfg * option (list sym))) (p : parser) (fuel : nat)
    (texts : list source) (c : call) : res tree :=
  match nth_error texts (fst c) with
  | None => Err OtherErr
  | Some src =>
      match snd c with
      | Some s' => if start_ok p s' then
                     bind (s_tokens tk src) (fun toks => parse_at p fuel toks (snd c))
                   else Err AssertErr
      | None => bind (s_tokens tk src) (fun toks => parse_at p fuel toks None)
      end
  end.

(* what the tokenizer + filter deliver for a text: names and values, without $END$ *)
Definition sx_tokens (r : res (list token)) : sx :=
  sx_res (fun toks => SL (map (fun t => SL [sx_str (tname t); sx_str (tvalue t)]) (removelast toks))) r.

(* [expected] is what the implementation did on the same case.  The comparison is made here and only
   its outcome is printed: () when the model's observation is identical, otherwise
   (-1 path model-part implementation-part) for the first difference (printing the whole observations
   of a shard overflows coqc's stack). *)
Fixpoint sx_diff (a b : sx) : option (list Z * sx * sx) :=
  match a, b with
  | SZ x, SZ y => if x =? y then None else Some ([], a, b)
  | SL l, SL m =>
      (fix go (i : Z) (l m : list sx) : option (list Z * sx * sx) :=
         match l, m with
         | [], [] => None
         | x :: l', y :: m' =>
             match sx_diff x y with
             | Some (p, u, v) => Some (i :: p, u, v)
             | None => go (i + 1) l' m'
             end
         | _, _ => Some ([i], SL l, SL m)
         end) 0 l m
  | _, _ => Some ([], a, b)
  end.

Fixpoint sx_trunc (depth : nat) (s : sx) : sx :=
  match depth with
  | O => SL []
  | S d => match s with
           | SZ _ => s
           | SL l => SL (map (sx_trunc d) (firstn 12 l))
           end
  end.

Definition observe tk ug terminals smart start fuel texts calls
    (second : option (bool * sym * list call)) : sx :=
  match s_build tk ug terminals smart start with
  | Err e => SL [SZ 1; SZ (err_code e)]
  | Ok p =>
      SL [SZ 0; sx_bool (is_ambiguous (p_tables p));
          sx_bool (hyps_ok ug start p);
          SL (map (fun src => sx_tokens (s_tokens tk src)) texts);
          SL (map (fun c => sx_res sx_tree (s_call tk p fuel texts c)) calls);
          sx_bool (is_ambiguous (p_tables p));       (* is_ambiguous() asked again after the calls: no history *)
          match second with
          | None => SL []
          | Some (smart2, start2, calls2) =>
              match s_build tk ug terminals smart2 start2 with
              | Err e => SL [SZ 1; SZ (err_code e)]
              | Ok p2 =>
                  SL [SZ 0; sx_bool (is_ambiguous (p_tables p2));
                      SL (map (fun c => sx_res sx_tree (s_call tk p2 fuel texts c)) calls2);
                      sx_bool (is_ambiguous (p_tables p2))]
              end
          end]
  end.

Definition run (c : case) : sx :=
  match c with
  | Old c => Run.run c
  | Session tk ug terminals smart start fuel texts calls second expected =>
      match sx_diff (observe tk ug terminals smart start fuel texts calls second) expected with
      | None => SL []
      | Some (p, u, v) => SL [SZ (-1); SL (map SZ p); sx_trunc 5 u; sx_trunc 5 v]
      end
  end.
