(* C09/Term.v -- the specification device of C09: a terminal that interprets
   ECMA-48 control sequences (CSI ... m = SGR, with ITU T.416 ':' sub-parameters
   for indexed colours).  It is NOT a model of any code in /repo and does not
   depend on the constants extracted from it.  No proofs in this file.

   A stream of code points is consumed one at a time; every character that is
   not part of a control sequence is *shown* with the attributes in force.
   Anything the terminal does not understand (ESC not followed by '[', a CSI
   function other than 'm', an SGR parameter outside the list below, an
   unterminated sequence) sets the sticky [t_bad] flag, so a theorem that ends
   in the default state also says that nothing of the sort was emitted.

   SGR parameters understood:  0 (also empty) reset | 1 bold | 2 faint |
   4 underline | 5 blink | 9 crossed | 30-37 / 40-47 the eight named colours |
   38:5:n / 48:5:n indexed colour n in 0..255. *)
From Coq Require Import ZArith List Bool.
Import ListNotations.
Open Scope Z_scope.

Inductive colour := Default | Named (n : Z) | Idx (n : Z).

Record attrs := mkAttrs {
  fg : colour; bg : colour;
  bold : bool; faint : bool; underline : bool; blink : bool; crossed : bool }.

Definition dflt : attrs := mkAttrs Default Default false false false false false.

Inductive cmd :=
| Reset | SetBold | SetFaint | SetUnderline | SetBlink | SetCrossed
| SetFg (c : colour) | SetBg (c : colour).

Definition apply_cmd (a : attrs) (c : cmd) : attrs :=
  match c with
  | Reset => dflt
  | SetBold => mkAttrs (fg a) (bg a) true (faint a) (underline a) (blink a) (crossed a)
  | SetFaint => mkAttrs (fg a) (bg a) (bold a) true (underline a) (blink a) (crossed a)
  | SetUnderline => mkAttrs (fg a) (bg a) (bold a) (faint a) true (blink a) (crossed a)
  | SetBlink => mkAttrs (fg a) (bg a) (bold a) (faint a) (underline a) true (crossed a)
  | SetCrossed => mkAttrs (fg a) (bg a) (bold a) (faint a) (underline a) (blink a) true
  | SetFg c => mkAttrs c (bg a) (bold a) (faint a) (underline a) (blink a) (crossed a)
  | SetBg c => mkAttrs (fg a) c (bold a) (faint a) (underline a) (blink a) (crossed a)
  end.

(* ---- parameter syntax ---- *)

(* split on a separator character; always at least one field *)
Fixpoint split_on (sep : Z) (s : list Z) : list (list Z) :=
  match s with
  | [] => [[]]
  | c :: r =>
      if c =? sep then [] :: split_on sep r
      else match split_on sep r with
           | f :: fs => (c :: f) :: fs
           | [] => [[c]]
           end
  end.

(* decimal number; the empty string is the default value 0;
   None for a non-digit (private parameter bytes < = > ?) *)
Fixpoint number_acc (s : list Z) (acc : Z) : option Z :=
  match s with
  | [] => Some acc
  | c :: r => if (48 <=? c) && (c <=? 57) then number_acc r (acc * 10 + (c - 48)) else None
  end.
Definition number (s : list Z) : option Z := number_acc s 0.

Definition in_range (lo hi n : Z) : bool := (lo <=? n) && (n <=? hi).

(* one ';'-separated parameter (a list of ':'-separated numbers) -> command *)
Definition parse_param (p : list Z) : option cmd :=
  match map number (split_on 58 p) with
  | [Some n] =>
      if n =? 0 then Some Reset
      else if n =? 1 then Some SetBold
      else if n =? 2 then Some SetFaint
      else if n =? 4 then Some SetUnderline
      else if n =? 5 then Some SetBlink
      else if n =? 9 then Some SetCrossed
      else if in_range 30 37 n then Some (SetFg (Named (n - 30)))
      else if in_range 40 47 n then Some (SetBg (Named (n - 40)))
      else None
  | [Some 38; Some 5; Some n] => if in_range 0 255 n then Some (SetFg (Idx n)) else None
  | [Some 48; Some 5; Some n] => if in_range 0 255 n then Some (SetBg (Idx n)) else None
  | _ => None
  end.

(* the whole parameter string of CSI ... m, applied left to right *)
Fixpoint apply_params (a : attrs) (ps : list (list Z)) : option attrs :=
  match ps with
  | [] => Some a
  | p :: r => match parse_param p with
              | Some c => apply_params (apply_cmd a c) r
              | None => None
              end
  end.
Definition sgr (a : attrs) (body : list Z) : option attrs := apply_params a (split_on 59 body).

(* ---- the machine ---- *)

Inductive lexst :=
| LText                      (* ground state *)
| LEsc                       (* ESC seen *)
| LCsi (acc : list Z).       (* ESC [ seen; parameter bytes so far, reversed *)

Record tstate := mkT { t_lx : lexst; t_at : attrs; t_bad : bool }.

Definition t0 : tstate := mkT LText dflt false.

Definition shown := (Z * attrs)%type.

Definition step (st : tstate) (c : Z) : tstate * list shown :=
  match t_lx st with
  | LText =>
      if c =? 27 then (mkT LEsc (t_at st) (t_bad st), [])
      else (st, [(c, t_at st)])
  | LEsc =>
      if c =? 91 then (mkT (LCsi []) (t_at st) (t_bad st), [])
      else (mkT LText (t_at st) true, [])
  | LCsi acc =>
      if in_range 48 63 c then (mkT (LCsi (c :: acc)) (t_at st) (t_bad st), [])   (* parameter byte *)
      else if c =? 109 then                                                      (* final byte m: SGR *)
        match sgr (t_at st) (rev acc) with
        | Some a => (mkT LText a (t_bad st), [])
        | None => (mkT LText (t_at st) true, [])
        end
      else (mkT LText (t_at st) true, [])       (* intermediate bytes / other functions: not modelled *)
  end.

Fixpoint trun (st : tstate) (s : list Z) : tstate * list shown :=
  match s with
  | [] => (st, [])
  | c :: r => let '(st1, o1) := step st c in
              let '(st2, o2) := trun st1 r in (st2, o1 ++ o2)
  end.

(* what a terminal that starts in the default state shows, and its final state *)
Definition term (s : list Z) : tstate * list shown := trun t0 s.

(* decidable equalities, used to discharge finite obligations by computation *)
Definition colour_eqb (a b : colour) : bool :=
  match a, b with
  | Default, Default => true
  | Named n, Named m => n =? m
  | Idx n, Idx m => n =? m
  | _, _ => false
  end.

Definition cmd_eqb (a b : cmd) : bool :=
  match a, b with
  | Reset, Reset | SetBold, SetBold | SetFaint, SetFaint | SetUnderline, SetUnderline
  | SetBlink, SetBlink | SetCrossed, SetCrossed => true
  | SetFg c, SetFg d => colour_eqb c d
  | SetBg c, SetBg d => colour_eqb c d
  | _, _ => false
  end.
