(* C06/Model.v -- executable model of the single-repository part of ak/ghist.py:
   ProjectRepo.iter_release_branches, BranchName (sort items, cmp), RGraph.__init__
   (branch loop, obsolete cut-off, final reverse/filter), RGraph._read_branch (outer
   DFS with the per-repository caches), _mk_rcommits, _find_new_rcommits_in_build
   (inner DFS with the per-branch caches), the "not merged" pseudo build,
   RepoBuildsByTagDetector.get_builds_numbers (sorting), RBranch.get_rbuilds_list,
   RBuild.get_printable_rcommits.

   Commits are numbered 0..n-1 (position in [h_commits]); strings are lists of code
   points; RCommit iids are [nat] (allocation order, exactly as coded: report order
   depends on them); RBuild ids are [Z] (normal build = iid of its RCommit, pseudo
   build = fake_iid_base + k).  Explicit stacks of the Python code are fuelled
   recursion here; running out of fuel sets [s_hang] (never happens on acyclic
   histories, Lemmas.v).  Components (C07) are not modelled: no component graphs are
   supplied, so relevant_cmpnts = {} and bumps = {} throughout.
   Constants marked (gen) come from gen/C06_Consts.v, re-read from the source each run.
   No proofs in this file. *)
From Coq Require Import ZArith List Bool Arith.
From AK Require Import Common.Sx Common.Err gen.C06_Consts.
Import ListNotations.
Open Scope Z_scope.

(* ------------------------------------------------------------------ *)
(* small helpers                                                        *)

Definition nmem (x : nat) (l : list nat) : bool := existsb (Nat.eqb x) l.
Definition zmem (x : Z) (l : list Z) : bool := existsb (Z.eqb x) l.

Fixpoint alookup {A} (k : nat) (l : list (nat * A)) : option A :=
  match l with
  | [] => None
  | (k', v) :: r => if Nat.eqb k k' then Some v else alookup k r
  end.

Definition ahas {A} (k : nat) (l : list (nat * A)) : bool :=
  match alookup k l with Some _ => true | None => false end.

Definition aget (k : nat) (l : list (nat * list nat)) : list nat :=
  match alookup k l with Some v => v | None => [] end.

(* python dict / list "add if absent", keeping first-insertion order *)
Definition add_uniq (x : nat) (l : list nat) : list nat := if nmem x l then l else l ++ [x].

Definition nonempty {A} (l : list A) : bool := match l with [] => false | _ => true end.

Fixpoint list_eqb (a b : list Z) : bool :=
  match a, b with
  | [], [] => true
  | x :: a', y :: b' => (x =? y) && list_eqb a' b'
  | _, _ => false
  end.

(* ------------------------------------------------------------------ *)
(* search predicate:  search_text in commit.message                     *)

Fixpoint prefixb (p s : list Z) : bool :=
  match p, s with
  | [], _ => true
  | x :: p', y :: s' => (x =? y) && prefixb p' s'
  | _ :: _, [] => false
  end.

Fixpoint containsb (t s : list Z) : bool :=
  prefixb t s || match s with [] => false | _ :: s' => containsb t s' end.

(* ------------------------------------------------------------------ *)
(* BranchName: sort items and comparison                                *)

Inductive item := IInt (n : Z) | IStr (s : list Z).

(* str.split() separators that can occur in the generated domain (ASCII + NEL, NBSP) *)
Definition is_space (c : Z) : bool :=
  ((9 <=? c) && (c <=? 13)) || ((28 <=? c) && (c <=? 32)) || (c =? 133) || (c =? 160).

(* s.replace('/',' ').replace('.',' ').replace('-',' ').replace('_',' ').split() *)
Definition is_break (c : Z) : bool := zmem c separators || is_space c.

Fixpoint chunks_aux (s : list Z) (cur : list Z) : list (list Z) :=
  match s with
  | [] => match cur with [] => [] | _ => [rev cur] end
  | c :: r => if is_break c
              then match cur with [] => chunks_aux r [] | _ => rev cur :: chunks_aux r [] end
              else chunks_aux r (c :: cur)
  end.
Definition chunks (s : list Z) : list (list Z) := chunks_aux s [].

Definition is_digit (c : Z) : bool := (48 <=? c) && (c <=? 57).

Fixpoint digits_val (s : list Z) (acc : Z) : Z :=
  match s with [] => acc | c :: r => digits_val r (acc * 10 + (c - 48)) end.

(* int(chunk) for ASCII text without '_' and '-': [+]digits *)
Definition parse_int (s : list Z) : option Z :=
  let body := match s with 43 :: r => r | _ => s end in
  if nonempty body && forallb is_digit body then Some (digits_val body 0) else None.

Definition mk_item (s : list Z) : item :=
  match parse_int s with Some n => IInt n | None => IStr s end.

Definition mk_sort_items (s : list Z) : list item := map mk_item (chunks s).

(* python str comparison: lexicographic on code points *)
Fixpoint str_cmp (s t : list Z) : Z :=
  match s, t with
  | [], [] => 0
  | [], _ :: _ => -1
  | _ :: _, [] => 1
  | x :: s', y :: t' => if x <? y then -1 else if y <? x then 1 else str_cmp s' t'
  end.

Definition cmp_item (a b : item) : Z :=
  match a, b with
  | IInt x, IInt y => x - y
  | IInt _, IStr _ => int_vs_str      (* (gen) "string is always bigger" *)
  | IStr _, IInt _ => str_vs_int
  | IStr s, IStr t => str_cmp s t
  end.

Fixpoint cmp_items (a b : list item) : Z :=
  match a, b with
  | x :: a', y :: b' => let r := cmp_item x y in if r =? 0 then cmp_items a' b' else r
  | _, _ => Z.of_nat (length a) - Z.of_nat (length b)
  end.

(* Comparable.__lt__ *)
Definition items_lt (a b : list item) : bool := cmp_items a b <? 0.

(* list.sort(key=...): a stable sort that only uses __lt__ *)
Section StableSort.
  Context {A : Type} (lt : A -> A -> bool).
  Fixpoint insert_stable (x : A) (l : list A) : list A :=
    match l with
    | [] => [x]
    | y :: r => if lt x y then x :: l else y :: insert_stable x r
    end.
  Definition stable_sort (l : list A) : list A :=
    fold_left (fun acc x => insert_stable x acc) l [].
End StableSort.

(* ProjectRepo.iter_release_branches: (ref_name, branch_name, BranchName) *)
Record branch := mkBranch { b_name : list Z; b_key : list item; b_head : nat }.

Definition release_branches (remote : list Z) (refs : list (list Z * nat)) : list branch :=
  let plen := S (length remote) in
  flat_map (fun r : list Z * nat =>
    let (name, head) := r in
    (if existsb (fun m => list_eqb name (remote ++ [47] ++ m)) master_names
     then [mkBranch master_label (IStr master_prefix :: mk_sort_items name) head] else [])
    ++
    (if prefixb (remote ++ [47] ++ release_dir) name
     then [mkBranch (skipn plen name) (mk_sort_items name) head] else [])) refs.

Definition sorted_branches (remote : list Z) (refs : list (list Z * nat)) : list branch :=
  stable_sort (fun a b => items_lt (b_key a) (b_key b)) (release_branches remote refs).

(* ------------------------------------------------------------------ *)
(* history                                                              *)

Definition bnum := (Z * Z * Z * Z)%type.   (* BuildNumData.as_tuple(): major, minor, patch, build *)

Record commit := mkCommit {
  c_parents : list nat;
  c_msg : list Z;
  c_time : Z;            (* committed_date *)
  c_tags : list bnum     (* build tags of this commit, in ref iteration order *)
}.

Record history := mkHistory {
  h_commits : list commit;
  h_remote : list Z;
  h_refs : list (list Z * nat);   (* remotes[remote].refs: (ref.name, head commit) *)
  h_text : list Z
}.

Definition dummy_commit : commit := mkCommit [] [] 0 [].
Definition get_commit (h : history) (c : nat) : commit := nth c (h_commits h) dummy_commit.
Definition matches (h : history) (c : nat) : bool := containsb (h_text h) (c_msg (get_commit h c)).

(* BuildNumData.cmp (all four parts are ints here) and parsed_bts.sort() *)
Definition bnum_cmp (a b : bnum) : Z :=
  let '(a1, a2, a3, a4) := a in
  let '(b1, b2, b3, b4) := b in
  if negb (a1 - b1 =? 0) then a1 - b1
  else if negb (a2 - b2 =? 0) then a2 - b2
  else if negb (a3 - b3 =? 0) then a3 - b3
  else a4 - b4.
Definition bnum_eqb (a b : bnum) : bool :=
  let '(a1, a2, a3, a4) := a in
  let '(b1, b2, b3, b4) := b in
  (a1 =? b1) && (a2 =? b2) && (a3 =? b3) && (a4 =? b4).
Definition sort_bnums (l : list bnum) : list bnum := stable_sort (fun a b => bnum_cmp a b <? 0) l.

Definition bn_not_built : bnum := (fake_not_built, fake_not_built, fake_not_built, fake_not_built).
Definition bn_not_merged : bnum := (fake_not_merged, fake_not_merged, fake_not_merged, fake_not_merged).

(* ------------------------------------------------------------------ *)
(* RCommit / RBuild / parser state                                      *)

Record rcommit := mkRC {
  rc_cid : nat;
  rc_parents : list nat;    (* iids; may hold the same iid twice (ghist.py:772 compares a hexsha with RCommits) *)
  rc_explicit : bool;
  rc_bnums : list bnum
}.
Definition dummy_rc : rcommit := mkRC 0 [] false [].

Definition NORMAL : Z := 0.
Definition FAKE_NOT_MERGED : Z := 2.

Record rbuild := mkRB {
  rb_id : Z;
  rb_type : Z;
  rb_num : bnum;
  rb_commit : option nat;     (* iid of the build's RCommit *)
  rb_parents : list nat;      (* iids of parent RBuilds *)
  rb_rcommits : list nat      (* iids, no duplicates (dict keys) *)
}.

Record state := mkSt {
  (* _RepoParserCache + RGraph attributes *)
  s_done : list nat;
  s_visited : list (nat * list nat);
  s_selected : list (nat * nat);
  s_prev_builds : list nat;
  s_rcommits : list rcommit;          (* iid = position *)
  s_brcommits : list nat;
  (* _RepoParserPerBranchCache + locals of _read_branch *)
  s_bparents : list (nat * list nat);
  s_anc : list (nat * list nat);
  s_rbuilds : list rbuild;            (* cur_branch_rbuilds, creation order *)
  s_bnmap : list (bnum * nat);
  s_hang : bool
}.

Definition init_state : state := mkSt [] [] [] [] [] [] [] [] [] [] false.

Definition set_hang (s : state) : state :=
  mkSt (s_done s) (s_visited s) (s_selected s) (s_prev_builds s) (s_rcommits s) (s_brcommits s)
       (s_bparents s) (s_anc s) (s_rbuilds s) (s_bnmap s) true.
Definition set_bparents (s : state) (bp : list (nat * list nat)) (hang : bool) : state :=
  mkSt (s_done s) (s_visited s) (s_selected s) (s_prev_builds s) (s_rcommits s) (s_brcommits s)
       bp (s_anc s) (s_rbuilds s) (s_bnmap s) (s_hang s || hang).
Definition add_done (s : state) (c : nat) : state :=
  mkSt (c :: s_done s) (s_visited s) (s_selected s) (s_prev_builds s) (s_rcommits s) (s_brcommits s)
       (s_bparents s) (s_anc s) (s_rbuilds s) (s_bnmap s) (s_hang s).
Definition add_visited (s : state) (c : nat) (rcps : list nat) : state :=
  mkSt (s_done s) ((c, rcps) :: s_visited s) (s_selected s) (s_prev_builds s) (s_rcommits s) (s_brcommits s)
       (s_bparents s) (s_anc s) (s_rbuilds s) (s_bnmap s) (s_hang s).
(* new RCommit, registered in selected_commits *)
Definition add_rcommit (s : state) (rc : rcommit) : state :=
  mkSt (s_done s) (s_visited s) ((rc_cid rc, length (s_rcommits s)) :: s_selected s) (s_prev_builds s)
       (s_rcommits s ++ [rc]) (s_brcommits s)
       (s_bparents s) (s_anc s) (s_rbuilds s) (s_bnmap s) (s_hang s).
(* new RBuild, registered in brcommits, rbuilds_ancestors, cur_branch_rbuilds *)
Definition add_rbuild (s : state) (iid : nat) (rb : rbuild) (anc : list nat) : state :=
  mkSt (s_done s) (s_visited s) (s_selected s) (s_prev_builds s) (s_rcommits s) (s_brcommits s ++ [iid])
       (s_bparents s) (s_anc s ++ [(iid, anc)]) (s_rbuilds s ++ [rb]) (s_bnmap s) (s_hang s).
Definition set_bnmap (s : state) (m : list (bnum * nat)) : state :=
  mkSt (s_done s) (s_visited s) (s_selected s) (s_prev_builds s) (s_rcommits s) (s_brcommits s)
       (s_bparents s) (s_anc s) (s_rbuilds s) m (s_hang s).

Definition rc_get (s : state) (i : nat) : rcommit := nth i (s_rcommits s) dummy_rc.

(* ------------------------------------------------------------------ *)
(* _find_new_rcommits_in_build                                          *)

Definition is_cur_build (s : state) (i : nat) : bool :=
  nmem i (s_brcommits s) && negb (nmem i (s_prev_builds s)).

(* {rbuild.iid: rbuild for rbuild in _iter_parent_rbuilds()} *)
Definition collect_pb (s : state) (bp : list (nat * list nat)) (parents : list nat) : list nat :=
  fold_left (fun acc p =>
    if is_cur_build s p then add_uniq p acc
    else fold_left (fun a b => add_uniq b a) (aget p bp) acc) parents [].

(* while True: extra = {those contained in the ancestors of another}; pop them *)
Fixpoint reduce_pb (fuel : nat) (anc : list (nat * list nat)) (pbs : list nat) : list nat :=
  match fuel with
  | O => pbs
  | S f =>
      let extra := filter (fun i => existsb (fun bc => nmem i (aget bc anc)) pbs) pbs in
      match extra with
      | [] => pbs
      | _ => reduce_pb f anc (filter (fun i => negb (nmem i extra)) pbs)
      end
  end.

Definition parent_builds (s : state) (bp : list (nat * list nat)) (parents : list nat) : list nat :=
  let pbs := collect_pb s bp parents in
  reduce_pb (S (length pbs)) (s_anc s) pbs.

(* accumulator of the inner DFS: rcommits_bparents, new_rcommits, out-of-fuel *)
Definition iacc := (list (nat * list nat) * list nat * bool)%type.

Fixpoint inner (fuel : nat) (s : state) (a : iacc) (c : nat) : iacc :=
  match fuel with
  | O => let '(bp, new, _) := a in (bp, new, true)
  | S f =>
      let rc := rc_get s c in
      let '(bp, new, hg) :=
        fold_left (fun (a : iacc) p =>
                     let '(bp, _, _) := a in
                     if is_cur_build s p || ahas p bp then a else inner f s a p)
                  (rev (rc_parents rc)) a in
      let pb := parent_builds s bp (rc_parents rc) in
      ((bp ++ [(c, pb)]), (if rc_explicit rc then new ++ [c] else new), hg)
  end.

(* -> (rcommits_bparents', new_rcommits, head_rbuilds, out-of-fuel) *)
Definition find_new (s : state) (heads : list nat) : list (nat * list nat) * list nat * list nat * bool :=
  let fuel := S (length (s_rcommits s)) in
  let '(bp, new, hg) :=
    fold_left (fun (a : iacc) p =>
                 let '(bp, _, _) := a in
                 if is_cur_build s p || ahas p bp then a else inner fuel s a p)
              (rev heads) (s_bparents s, [], false) in
  (bp, new, parent_builds s bp heads, hg).

(* ------------------------------------------------------------------ *)
(* _mk_rcommits + registration in the caches (ghist.py:705-755, 864-951) *)

Fixpoint bnmap_set (k : bnum) (v : nat) (m : list (bnum * nat)) : list (bnum * nat) :=
  match m with
  | [] => [(k, v)]
  | (k', v') :: r => if bnum_eqb k k' then (k, v) :: r else (k', v') :: bnmap_set k v r
  end.

Definition finish (h : history) (head : nat) (s : state) (c : nat) (rcps : list nat) : state :=
  let cm := get_commit h c in
  let sel := matches h c in
  if negb (sel || nonempty rcps) then add_done s c
  else
    let is_build := nonempty (c_tags cm) in
    let is_head := Nat.eqb c head in
    if is_build || is_head then
      let '(bp, new, head_rbuilds, hg) := find_new s rcps in
      let s := set_bparents s bp hg in
      let contains_new := sel || nonempty new in
      let bnums := sort_bnums (c_tags cm) in
      let bnums := if is_head && negb (nonempty bnums) then [bn_not_built] else bnums in
      let is_rbuild := contains_new || (1 <? length head_rbuilds)%nat in
      if is_rbuild then
        let iid := length (s_rcommits s) in
        let s := add_rcommit s (mkRC c rcps sel bnums) in
        let rcs := add_uniq iid new in
        let rb := mkRB (Z.of_nat iid) NORMAL (hd bn_not_built bnums) (Some iid) head_rbuilds rcs in
        let anc := fold_left (fun a p => fold_left (fun a x => add_uniq x a) (aget p (s_anc s)) (add_uniq p a))
                             head_rbuilds [] in
        let s := add_rbuild s iid rb anc in
        set_bnmap s (fold_left (fun m bn => bnmap_set bn iid m) bnums (s_bnmap s))
      else
        (* sel = false here, hence rcps is not empty *)
        let s := match rcps with [] => add_done s c | _ => add_visited s c rcps end in
        set_bnmap s (fold_left (fun m pb => fold_left (fun m bn => bnmap_set bn pb m) bnums m)
                               head_rbuilds (s_bnmap s))
    else
      if sel then add_rcommit s (mkRC c rcps sel [])
      else match rcps with [] => add_done s c | _ => add_visited s c rcps end.

(* ------------------------------------------------------------------ *)
(* outer DFS of _read_branch                                            *)

Definition cached (s : state) (c : nat) : bool :=
  nmem c (s_done s) || ahas c (s_visited s) || ahas c (s_selected s).

(* what the loop does with an already classified parent commit (ghist.py:762-775) *)
Definition add_cached (s : state) (p : nat) (rcps : list nat) : list nat :=
  if nmem p (s_done s) then rcps
  else match alookup p (s_visited s) with
       | Some rcs => fold_left (fun acc rc => add_uniq rc acc) rcs rcps
       | None => match alookup p (s_selected s) with
                 | Some rc => rcps ++ [rc]       (* always appended, see rc_parents *)
                 | None => rcps
                 end
       end.

Fixpoint visit (h : history) (head : nat) (fuel : nat) (s : state) (c : nat) : state :=
  match fuel with
  | O => set_hang s
  | S f =>
      if cached s c then s
      else
        let '(s1, rcps) :=
          fold_left (fun (a : state * list nat) p =>
                       let s' := visit h head f (fst a) p in (s', add_cached s' p (snd a)))
                    (rev (c_parents (get_commit h c))) (s, []) in
        finish h head s1 c rcps
  end.

(* ------------------------------------------------------------------ *)
(* the "not merged" pseudo build and the end of _read_branch            *)

Definition all_rcommits (rbs : list rbuild) : list nat :=
  fold_left (fun acc rb => fold_left (fun a i => add_uniq i a) (rb_rcommits rb) acc) rbs [].

Definition max_list (l : list nat) : option nat :=
  match l with [] => None | x :: r => Some (fold_left Nat.max r x) end.

Definition not_merged (s : state) (prev : list rbuild) : list nat :=
  let this := all_rcommits (s_rbuilds s) in
  filter (fun i => (negb nm_requires_explicit || rc_explicit (rc_get s i))          (* (gen) clause shape *)
                   && (negb nm_excludes_this_branch || negb (nmem i this))) (all_rcommits prev).

(* state at the start of a branch: per-branch caches are fresh *)
Definition start_branch (s : state) : state :=
  mkSt (s_done s) (s_visited s) (s_selected s) (s_prev_builds s) (s_rcommits s) (s_brcommits s)
       [] [] [] [] (s_hang s).

Definition end_branch (s : state) : state :=
  mkSt (s_done s) (s_visited s) (s_selected s)
       (fold_left (fun a kv => add_uniq (fst kv) a) (s_anc s) (s_prev_builds s))
       (s_rcommits s) (s_brcommits s) (s_bparents s) (s_anc s) (s_rbuilds s) (s_bnmap s) (s_hang s).

(* -> (state, rbuilds of the branch in creation order, fake counter) *)
Definition read_branch (h : history) (s : state) (head : nat) (prev : option (list rbuild)) (fake : Z)
  : state * list rbuild * Z :=
  let s := start_branch s in
  let s := visit h head (S (length (h_commits h))) s head in
  let nm := match prev with Some p => not_merged s p | None => [] end in
  let parents := match max_list (map (fun rb => Z.to_nat (rb_id rb)) (s_rbuilds s)) with
                 | Some m => [m] | None => [] end in
  let '(rbs, fake) :=
    match nm with
    | [] => (s_rbuilds s, fake)
    | _ => (s_rbuilds s ++ [mkRB fake FAKE_NOT_MERGED bn_not_merged None parents nm], fake + 1)
    end in
  (end_branch s, rbs, fake).

(* ------------------------------------------------------------------ *)
(* RGraph.__init__: branch loop with the obsolete-branch cut-off        *)

Record rbranch := mkRBr { br_name : list Z; br_head : nat; br_rbuilds : list rbuild }.

Record gstate := mkG {
  g_state : state;
  g_branches : list rbranch;     (* self.branches, processing order *)
  g_min_ts : option Z;
  g_fake : Z
}.

Definition build_time (h : history) (s : state) (iid : nat) : Z :=
  c_time (get_commit h (rc_cid (rc_get s iid))).

Definition step_branch (h : history) (g : gstate) (b : branch) : gstate :=
  let head_time := c_time (get_commit h (b_head b)) in
  let obsolete := match g_min_ts g with
                  | Some m => head_time + obsolete_cutoff <? m
                  | None => false
                  end in
  if obsolete then g
  else
    let prev := match rev (g_branches g) with [] => None | p :: _ => Some (br_rbuilds p) end in
    let '(s, rbs, fake) := read_branch h (g_state g) (b_head b) prev (g_fake g) in
    let min_ts := fold_left (fun m kv => let ts := build_time h s (snd kv) in
                                         match m with None => Some ts | Some x => Some (Z.min ts x) end)
                            (s_bnmap s) (g_min_ts g) in
    mkG s (g_branches g ++ [mkRBr (b_name b) (b_head b) rbs]) min_ts fake.

Definition run_graph (h : history) : gstate :=
  fold_left (step_branch h) (sorted_branches (h_remote h) (h_refs h))
            (mkG init_state [] None fake_iid_base).

(* ------------------------------------------------------------------ *)
(* the report as observed through the API                               *)

(* sorted(keys, reverse=True) *)
Definition sort_desc_Z (l : list Z) : list Z := stable_sort (fun a b => b <? a) l.
Definition sort_desc_nat (l : list nat) : list nat := stable_sort (fun a b => (b <? a)%nat) l.

(* RBranch.get_rbuilds_list *)
Definition rbuilds_list (rbs : list rbuild) : list rbuild :=
  stable_sort (fun a b => rb_id b <? rb_id a) rbs.

Record obuild := mkOB {
  ob_type : Z;
  ob_num : bnum;
  ob_commit : option nat;            (* commit the build was made from *)
  ob_all : list (nat * bool);        (* rbuild.rcommits by descending iid: (commit, is_explicit) *)
  ob_listed : list nat               (* get_printable_rcommits(): commits *)
}.

Definition out_build (s : state) (rb : rbuild) : obuild :=
  let iids := sort_desc_nat (rb_rcommits rb) in
  mkOB (rb_type rb) (rb_num rb)
       (match rb_commit rb with Some i => Some (rc_cid (rc_get s i)) | None => None end)
       (map (fun i => (rc_cid (rc_get s i), rc_explicit (rc_get s i))) iids)
       (map (fun i => rc_cid (rc_get s i)) (filter (fun i => rc_explicit (rc_get s i)) iids)).

Record obranch := mkOBr { obr_name : list Z; obr_head : nat; obr_builds : list obuild }.

(* every branch that was read, in processing (sort) order, including empty ones *)
Definition all_branches (h : history) : list obranch :=
  let g := run_graph h in
  map (fun br => mkOBr (br_name br) (br_head br) (map (out_build (g_state g)) (rbuilds_list (br_rbuilds br))))
      (g_branches g).

(* RGraph.branches: reversed, branches without builds dropped *)
Definition report (h : history) : res (list obranch) :=
  if s_hang (g_state (run_graph h)) then Err Hang
  else Ok (filter (fun b => nonempty (obr_builds b)) (rev (all_branches h))).
