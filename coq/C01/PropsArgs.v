(* C01/PropsArgs.v -- property theorems of C01 about what the caller does to its argument objects AFTER the
   constructor returned; nothing else.  These are the theorems whose proofs depend on the values of the constants
   regenerated from the source (gen/C01_Consts.v). *)
From Coq Require Import ZArith List Bool.
From AK Require Import LLP.Build C01.Run C01.RunTok C01.LemmasArgs gen.C01_Consts C04.Model.
Import ListNotations.
Open Scope Z_scope.

(* ---- a parser is made from the VALUES of its arguments ---- *)
(* The model's parser is a value: it cannot change after [build_cfg].  What the caller does later to the objects it
   passed (skip_tokens container, productions dict and lists, span_matchers, keep_symbols) has no counterpart in the
   model at all.  The synonyms / keywords dicts are read by the tokenizer at every match; the model follows the source
   ([syn_aliased] / [kw_aliased], gen/C01_Consts.v, regenerated from ak/llparser.py on every run): a call made after the
   caller changed these dicts (new contents: cfg2) tokenises with [cfg_after cfg cfg2].  The theorems say that this is
   the constructor's configuration, so that parse_text_sound applies to such calls with the tokens of the configuration
   the parser was built with.  They check only while the tokenizer stores copies (/repo f245e65; before, finding
   constructor-argument-objects: after  kw[('WORD','a')] = 'IF'  an existing parser named the token a IF). *)
Theorem later_dict_changes_do_not_reach_the_parser : forall cfg cfg2, cfg_after cfg cfg2 = cfg.
Proof. exact cfg_after_same. Qed.
Print Assumptions later_dict_changes_do_not_reach_the_parser.

Theorem calls_after_the_change_answer_as_before : forall tk cfg2 p fuel texts c,
  s_call_with (s_tokens_after tk cfg2) p fuel texts c = s_call tk p fuel texts c.
Proof. exact s_call_after_same. Qed.
Print Assumptions calls_after_the_change_answer_as_before.
