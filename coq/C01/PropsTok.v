(* C01/PropsTok.v -- property theorems of C01 about parse() on a TEXT and about the per-call
   start symbol; nothing else.  (C01/Props.v has the theorems about the parse loop on a token list,
   the factorization and the constructor.)

   Vocabulary (C04/Model.v = model of _Tokenizer.tokenize, C01/RunTok.v):
     lexcfg              a tokenizer configuration: ordered pattern alternatives c_lex (group name, pattern),
                         span_matchers c_spans, synonyms c_syn (group name -> token name), keywords c_kw
                         ((token name, value) -> token name)
     cfg_terminals cfg   _Tokenizer.get_all_token_names(): groups that are not renamed, synonym values,
                         keyword tokens
     cfg_tokenize cfg ls all tokens of the lines ls, skipped ones included, $END$ last (LErr = LexicalError)
     tok_name syn kw g v the name of a plain token matched by group g with value v:
                         n := synonyms.get(g, g);  keywords.get((n, v), n)
     plain_leaf / span_leaf (C04/LemmasLex.v)  the token is the product of a match of the pattern at a position
                         of the text: plain: name = tok_name g v, value = the group's text; span token: name = syn g,
                         value = the body up to the closer (keywords are not applied)
     skip_set terminals skip   self.skip_tokens: the argument, or SPACE and COMMENT when they are terminals
     build_cfg cfg skip ug smart start     the constructor with this tokenizer configuration
     parse_text cfg skipset p k text s     LLParser.parse(text, do_cleanup=False, start_symbol_name=s):
                         the assertions s in prods_map and '__' not in s (the latter since /repo 2909322),
                         tokenize, drop the tokens named in skipset, main loop
                         started at s (None: the constructor's start symbol), budget 2^k iterations
     call_root p s       the start symbol of the call
   lexicon_ok: no literal / end-of-line pattern is empty (an alternative that matches the empty string makes
   the real tokenizer loop for ever). *)
From Coq Require Import ZArith List Bool.
From AK Require Import LLP.Build C01.Spec C01.Run C01.RunTok C01.LemmasTok
  gen.C04_Consts C04.Model C04.LemmasLex C04.LemmasConc.
Import ListNotations.
Open Scope Z_scope.

(* ---- parse(text): the token_filter clause end to end ---- *)
(* Whenever parse returns a tree for a text, the text was tokenised completely ($END$ last and only
   there); every token is the product of a pattern match at a position of the text and is named by
   synonyms-then-keywords of ITS OWN class (plain_leaf: name = tok_name g v) resp. by the synonym of the
   opener group (span_leaf); and the leaves of the tree, left to right, are exactly the tokens whose
   (final) name is not in skip_tokens, names and values; the tree is a derivation of the user's grammar
   rooted at the start symbol of the call; no helper symbol occurs. *)
Theorem parse_text_sound : forall cfg skip ug smart start p k text s t,
  lexicon_ok (c_lex cfg) ->
  mem END_TOKEN (cfg_terminals cfg) = false ->
  build_cfg cfg skip ug smart start = Ok p ->
  parse_text cfg (skip_set (cfg_terminals cfg) skip) p k text s = Ok t ->
  exists all pe,
    cfg_tokenize cfg (tok_lines (IStr text)) = LOk (all ++ [mkTok END_TOKEN [] pe pe]) /\
    Forall (fun tk => plain_leaf (lex_matcher (c_lex cfg)) (cfg_span_of cfg) (cfg_syn cfg) (cfg_kw cfg)
                        (tok_lines (IStr text)) (tok_lines (IStr text)) tk \/
                      span_leaf (lex_matcher (c_lex cfg)) (cfg_span_of cfg) (cfg_syn cfg)
                        (tok_lines (IStr text)) (tok_lines (IStr text)) tk) all /\
    tree_name t = call_root p s /\ valid_tree ug t /\ no_helper (p_sfxs p) t /\
    kinds_ok (fun x => mem x (p_terminals p)) t /\
    leaves t = map tok_pair (filter (fun tk => negb (mem (tname tk) (skip_set (cfg_terminals cfg) skip))) all).
Proof. exact parse_text_sound_l. Qed.
Print Assumptions parse_text_sound.

(* every token the tokenizer delivers before $END$ is named by a terminal of the configuration
   (so that no token inside the text is mistaken for $END$, and the skip filter keeps $END$) *)
Theorem token_names_are_terminals : forall c ls toks, lexicon_ok (c_lex c) -> cfg_tokenize c ls = LOk toks ->
  exists body p, toks = body ++ [mkTok END_TOKEN [] p p] /\
    Forall (fun t => plain_leaf (lex_matcher (c_lex c)) (cfg_span_of c) (cfg_syn c) (cfg_kw c) ls ls t \/
                     span_leaf (lex_matcher (c_lex c)) (cfg_span_of c) (cfg_syn c) ls ls t) body /\
    Forall (fun t => In (tname t) (cfg_terminals c)) body.
Proof. exact token_names. Qed.
Print Assumptions token_names_are_terminals.

(* ---- parse(tokens, start_symbol_name=s) of a parser made by the constructor: every s (None = the constructor's) ---- *)
Theorem parse_at_sound : forall ug terminals smart start p k body e s t,
  build ug terminals smart start = Ok p ->
  (forall b, In b body -> tname b <> END_TOKEN) ->
  parse_at p k (body ++ [e]) s = Ok t ->
  tree_name t = call_root p s /\ valid_tree ug t /\ no_helper (p_sfxs p) t /\
  kinds_ok (fun x => mem x (p_terminals p)) t /\ leaves t = map tok_pair body.
Proof. exact parse_at_sound_l. Qed.
Print Assumptions parse_at_sound.

(* a per-call start symbol whose name contains '__' (every helper symbol does) is rejected with an
   AssertionError, for every parser, budget and token list: no tree is rooted at a helper symbol.
   Before /repo 2909322 parse(';', start_symbol_name='S__S00') returned such a tree
   (finding helper-start-symbol-per-call, fixed). *)
Theorem per_call_dunder_start_rejected : forall p k toks s,
  has_dunder s = true -> parse_at p k toks (Some s) = Err AssertErr.
Proof. exact dunder_start_rejected. Qed.
Print Assumptions per_call_dunder_start_rejected.

(* ---- the main loop started at any symbol that is not a helper symbol (what parse_at_sound rests on) ---- *)
Theorem parse_sound_at : forall ug terminals smart start p k body e s t,
  build ug terminals smart start = Ok p ->
  mem s (p_sfxs p) = false ->
  (forall b, In b body -> tname b <> END_TOKEN) ->
  parse (fun x => mem x (p_terminals p)) (table_get (p_tables p)) (p_sfxs p) (body ++ [e]) k s = Ok t ->
  tree_name t = s /\ valid_tree ug t /\ no_helper (p_sfxs p) t /\
  kinds_ok (fun x => mem x (p_terminals p)) t /\ leaves t = map tok_pair body.
Proof. exact parse_sound_at_l. Qed.
Print Assumptions parse_sound_at.

(* a name without '__' is never a helper symbol: the hypothesis above holds for every user symbol
   (the constructor rejects user symbols with '__') and for the constructor's start symbol *)
Theorem start_without_dunder_is_no_helper : forall ug terminals smart start p s,
  build ug terminals smart start = Ok p -> has_dunder s = false -> mem s (p_sfxs p) = false.
Proof. exact no_dunder_no_helper. Qed.
Print Assumptions start_without_dunder_is_no_helper.

(* ---- the hypotheses are satisfiable: synonyms (two groups -> WORD, DQ -> STRING, SEMI -> ';', both comment
   groups -> COMMENT, WS -> SPACE), keywords on renamed classes ((WORD, if) -> IF, (STRING, x y) -> XY), an entry
   keyed by a group name that never applies ((LW, while) -> WHILE), an explicit skip set with a class that is
   not renamed (DIG), an end-of-line comment and a span comment over two lines, a common-prefix group ---- *)
Definition tx_cfg : lexcfg := mkCfg
  [([87;83]%Z, PSpace); ([76;87]%Z, PRange 97 122); ([85;87]%Z, PRange 65 90); ([68;73;71]%Z, PRange 48 57); ([68;81]%Z, PQuoted 34); ([83;69;77;73]%Z, PLit [59]%Z); ([82;69;77]%Z, PEol [47;47]%Z); ([67;77;76]%Z, PLit [47;42]%Z)]
  [([67;77;76]%Z, [42;47]%Z)]
  [([87;83]%Z, [83;80;65;67;69]%Z); ([76;87]%Z, [87;79;82;68]%Z); ([85;87]%Z, [87;79;82;68]%Z); ([68;81]%Z, [83;84;82;73;78;71]%Z); ([83;69;77;73]%Z, [59]%Z); ([82;69;77]%Z, [67;79;77;77;69;78;84]%Z); ([67;77;76]%Z, [67;79;77;77;69;78;84]%Z)]
  [([87;79;82;68]%Z, ([105;102]%Z, [73;70]%Z)); ([76;87]%Z, ([119;104;105;108;101]%Z, [87;72;73;76;69]%Z)); ([83;84;82;73;78;71]%Z, ([120;32;121]%Z, [88;89]%Z))].
Definition tx_skip : option (list sym) := Some [[83;80;65;67;69]%Z; [67;79;77;77;69;78;84]%Z; [68;73;71]%Z].
Definition tx_ug : ugrammar := [([69]%Z, [[[83]%Z; [69]%Z]; (@nil (list Z))]); ([83]%Z, [[[73;70]%Z; [87;79;82;68]%Z; [59]%Z]; [[73;70]%Z; [87;79;82;68]%Z; [83;84;82;73;78;71]%Z; [59]%Z]; [[87;79;82;68]%Z; [88;89]%Z; [59]%Z]])].
Definition tx_text : list Z := [105;102;32;70;79;79;59;32;47;47;32;105;102;10;119;104;105;108;101;32;34;120;32;121;34;32;49;50;32;47;42;32;99;10;100;32;42;47;32;59;10;105;102;32;120;32;34;105;102;34;59]%Z.
Definition tx_leaves : list (sym * list Z) := [([73;70]%Z, [105;102]%Z); ([87;79;82;68]%Z, [70;79;79]%Z); ([59]%Z, [59]%Z); ([87;79;82;68]%Z, [119;104;105;108;101]%Z); ([88;89]%Z, [120;32;121]%Z); ([59]%Z, [59]%Z); ([73;70]%Z, [105;102]%Z); ([87;79;82;68]%Z, [120]%Z); ([83;84;82;73;78;71]%Z, [105;102]%Z); ([59]%Z, [59]%Z)].
Definition tx_S : sym := [83]%Z. Definition tx_E : sym := [69]%Z.

Definition tx_text2 : list Z := [119;104;105;108;101;32;39;120;32;121;39;59]%Z.   (* while 'x y'; : no pattern for the quote *)
Definition tx_text3 : list Z := [119;104;105;108;101;32;34;120;32;121;34;59]%Z.   (* while "x y"; *)
Definition tx_text4 : list Z := [105;102;32;120]%Z.                                 (* if x *)

Lemma tx_lexicon_ok : lexicon_ok (c_lex tx_cfg).
Proof. unfold lexicon_ok. repeat constructor; cbn; discriminate. Qed.
Print Assumptions tx_lexicon_ok.

Definition rmap {A B : Type} (f : A -> B) (r : res A) : res B := match r with Ok a => Ok (f a) | Err e => Err e end.

Example parse_text_sound_nonvacuous : forall smart,
  mem END_TOKEN (cfg_terminals tx_cfg) = false /\
  match build_cfg tx_cfg tx_skip tx_ug smart tx_E with
  | Err _ => False
  | Ok p =>
      let sk := skip_set (cfg_terminals tx_cfg) tx_skip in
      rmap leaves (parse_text tx_cfg sk p 8 tx_text None) = Ok tx_leaves /\
      parse_text tx_cfg sk p 8 tx_text2 None = Err LexicalErr /\
      parse_text tx_cfg sk p 8 tx_text4 None = Err ParsingErr /\
      rmap (fun t => (tree_name t, length (leaves t))) (parse_text tx_cfg sk p 8 tx_text3 (Some tx_S)) = Ok (tx_S, 3%nat)
  end.
Proof. intros [|]; vm_compute; repeat split; reflexivity. Qed.
Print Assumptions parse_text_sound_nonvacuous.

(* ---- the text is cut into lines at newlines and nowhere else ---- *)
(* A text that is the lines ls joined by newlines (no line contains one) is tokenised line by line from
   exactly these lines, each stripped on the right -- whatever other characters the lines contain: a form
   feed, a vertical tab, a lone carriage return, U+001C..U+001E, U+0085, U+2028, U+2029 (the characters at
   which str.splitlines() cuts, too) stay inside the line and so inside the token that matches them.
   With parse_text_sound: the leaves of the tree are the tokens of THESE lines.  (Seeded change C01-m5
   replaced split('\n') by splitlines().) *)
Theorem text_is_cut_at_newlines_only : forall ls, ls <> [] -> Forall (fun l => ~ In 10 l) ls ->
  tok_lines (IStr (join_nl ls)) = map rstrip ls.
Proof. exact text_lines_l. Qed.
Print Assumptions text_is_cut_at_newlines_only.

Theorem text_without_newline_is_one_line : forall text, ~ In 10 text -> tok_lines (IStr text) = [rstrip text].
Proof. exact one_line_l. Qed.
Print Assumptions text_without_newline_is_one_line.

(* a string with a form feed, a span comment (not skipped) with U+2028, a form feed before and a vertical tab
   after the newline inside it, a rest-of-line token with a lone carriage return and U+0085, white space made of a
   form feed at the end of the text:   a "p\fq" /*x<U+2028>y\f\nz\v*/ =r\rs<U+0085>t \f   *)
Definition ox_cfg : lexcfg := mkCfg [([83;80;65;67;69]%Z, PSpace); ([87;79;82;68]%Z, PRange 97 122); ([82;69;83;84]%Z, PEol [61]%Z); ([68;81]%Z, PQuoted 34); ([67;77;76]%Z, PLit [47;42]%Z)] [([67;77;76]%Z, [42;47]%Z)] (@nil (list Z * list Z)) (@nil (list Z * (list Z * list Z))).
Definition ox_skip : option (list sym) := Some [[83;80;65;67;69]%Z].
Definition ox_ug : ugrammar := [([69]%Z, [[[84]%Z; [69]%Z]; (@nil (list Z))]); ([84]%Z, [[[87;79;82;68]%Z]; [[82;69;83;84]%Z]; [[68;81]%Z]; [[67;77;76]%Z]])].
Definition ox_text : list Z := [97;32;34;112;12;113;34;32;47;42;120;8232;121;12;10;122;11;42;47;32;61;114;13;115;133;116;32;12]%Z.
Definition ox_leaves : list (sym * list Z) := [([87;79;82;68]%Z, [97]%Z); ([68;81]%Z, [112;12;113]%Z); ([67;77;76]%Z, [120;8232;121;10;122;11]%Z); ([82;69;83;84]%Z, [61;114;13;115;133;116]%Z)].
Example odd_characters_stay_inside_tokens : forall smart,
  match build_cfg ox_cfg ox_skip ox_ug smart [69]%Z with
  | Err _ => False
  | Ok p => rmap leaves (parse_text ox_cfg (skip_set (cfg_terminals ox_cfg) ox_skip) p 8 ox_text None) = Ok ox_leaves
  end.
Proof. intros [|]; vm_compute; reflexivity. Qed.
Print Assumptions odd_characters_stay_inside_tokens.

(* ---- regression shape of the fixed finding: S__S00 IS a key of prods_map and a helper symbol of this
   parser; the call is rejected ---- *)
Definition tx_helper : sym := [83;95;95;83;48;48].     (* S__S00 *)
Example per_call_helper_start_rejected :
  match build_cfg tx_cfg tx_skip tx_ug false tx_E with
  | Err _ => False
  | Ok p => mem tx_helper (p_sfxs p) = true /\ mem tx_helper (gkeys (p_grammar p)) = true /\
            parse_text tx_cfg (skip_set (cfg_terminals tx_cfg) tx_skip) p 8 [59] (Some tx_helper) = Err AssertErr
  end.
Proof. vm_compute. repeat split; reflexivity. Qed.
Print Assumptions per_call_helper_start_rejected.
