(* C10/Sgr.v -- a small concrete SGR model private to C10 (C09 is built
   elsewhere and is not depended on): styles, the prefix/suffix a ColorFmt
   puts around a text (color.py:59-115, named colours and bold only), the way
   CHText turns a list of chunks into a string (color.py:306-308, 569-617:
   empty chunks are skipped, neighbours with the same prefix are merged) and
   CHText.strip_colors (color.py:314-320, re.sub of ESC '[' [;:0-9]* 'm').
   Definitions only; the proofs are in SgrLemmas.v. *)
From Coq Require Import ZArith List Bool.
Import ListNotations.
Open Scope Z_scope.

Definition ESC : Z := 27.

Record style := mkStyle { s_fg : option Z; s_bold : option bool }.

(* "3<n>" for a named colour n in 0..7, "1" for bold *)
Definition codes (st : style) : list (list Z) :=
  (match s_fg st with Some n => [[51; 48 + n]] | None => [] end) ++
  (match s_bold st with Some true => [[49]] | _ => [] end).

Fixpoint join_semi (l : list (list Z)) : list Z :=
  match l with
  | [] => []
  | [x] => x
  | x :: r => x ++ 59 :: join_semi r
  end.

(* _ColorSequences.make: (prefix, suffix); no codes -> ("", "") *)
Definition prefix_of (st : style) : list Z :=
  match codes st with
  | [] => []
  | cs => 27 :: 91 :: join_semi cs ++ [109]
  end.

Definition suffix_of (p : list Z) : list Z :=
  match p with [] => [] | _ => [27; 91; 48; 109] end.

(* a chunk = (colour prefix, text); the suffix is determined by the prefix *)
Notation chunk := (list Z * list Z)%type.

Definition list_eqb (a b : list Z) : bool :=
  if list_eq_dec Z.eq_dec a b then true else false.

Definition close (cur : option (list Z)) : list Z :=
  match cur with Some p => suffix_of p | None => [] end.

(* str(CHText(chunks)): _append_chunk skips empty texts and merges a chunk into
   the previous one when the prefixes are equal; __str__ then writes
   prefix text suffix for every remaining chunk *)
Fixpoint emit (cur : option (list Z)) (l : list chunk) : list Z :=
  match l with
  | [] => close cur
  | (p, t) :: r =>
      match t with
      | [] => emit cur r
      | _ => match cur with
             | Some q => if list_eqb q p then t ++ emit cur r
                         else suffix_of q ++ p ++ t ++ emit (Some p) r
             | None => p ++ t ++ emit (Some p) r
             end
      end
  end.

Definition str_of (l : list chunk) : list Z := emit None l.
Definition plain_of (l : list chunk) : list Z := concat (map snd l).

Definition NL : list Z := [10].
Definition nl_chunk : chunk := ([], NL).

Fixpoint join_lines (ls : list (list Z)) : list Z :=
  match ls with
  | [] => []
  | [x] => x
  | x :: r => x ++ NL ++ join_lines r
  end.

(* CHText("\n").join(lines): one chunk list with a plain "\n" between lines *)
Fixpoint join_chunks (ls : list (list chunk)) : list chunk :=
  match ls with
  | [] => []
  | [x] => x
  | x :: r => x ++ nl_chunk :: join_chunks r
  end.

(* ---- strip_colors: re.sub("\033\[[;:\d]*m", "", text) as a scanner ---- *)
Definition is_param (c : Z) : bool :=
  (c =? 59) || (c =? 58) || ((48 <=? c) && (c <=? 57)).

Inductive sst := SNorm | SEsc | SPar (held : list Z).

Fixpoint strip_go (st : sst) (l : list Z) : list Z :=
  match l with
  | [] => match st with SNorm => [] | SEsc => [27] | SPar h => 27 :: 91 :: rev h end
  | c :: r =>
      match st with
      | SNorm => if c =? 27 then strip_go SEsc r else c :: strip_go SNorm r
      | SEsc => if c =? 91 then strip_go (SPar []) r
                else if c =? 27 then 27 :: strip_go SEsc r
                else 27 :: c :: strip_go SNorm r
      | SPar h => if is_param c then strip_go (SPar (c :: h)) r
                  else if c =? 109 then strip_go SNorm r
                  else 27 :: 91 :: rev h ++
                       (if c =? 27 then strip_go SEsc r else c :: strip_go SNorm r)
      end
  end.

Definition strip (l : list Z) : list Z := strip_go SNorm l.

Definition no_esc (t : list Z) : Prop := ~ In 27 t.
