(* C16/Lemmas.v -- obligations on the generated constants, and the theorems of
   Props.v derived from the invariant (LemInv) and the format lemmas (LemFmt). *)
From Coq Require Import ZArith List Bool Lia Permutation.
From AK Require Import Common.Sx Common.Err C16.Instr gen.C16_Consts C16.Model
  C16.LemList C16.LemFmt C16.LemInv C16.LemLive C16.LemTerm.
Import ListNotations.
Open Scope Z_scope.

(* ------------------------------------------------------------ obligations on what was read from the source *)
Lemma impl_well_locked_l : well_locked impl_prog = true.
Proof. vm_compute. reflexivity. Qed.

Lemma keys_agree : hdr_test_key = map lower hdr_set_key.
Proof. apply str_eqb_eq. vm_compute. reflexivity. Qed.

Lemma set_key_observed : str_eqb (cap hdr_set_key) obs_key = true.
Proof. vm_compute. reflexivity. Qed.

Lemma ctr_init_nonneg : 0 <= ctr_init.
Proof. vm_compute. discriminate. Qed.

Lemma shares_impl_l : shares_impl = true.
Proof. reflexivity. Qed.

(* ------------------------------------------------------------ well_locked, unfolded *)
Lemma split_release_spec p : forall a b, split_release p = Some (a, b) -> p = a ++ IRelease :: b.
Proof.
  induction p as [|i r IH]; intros a b H; cbn [split_release] in H; [discriminate|].
  destruct i; try (destruct (split_release r) as [[a' b']|]; [|discriminate];
                   injection H as <- <-; cbn [app]; f_equal; apply IH; reflexivity).
  injection H as <- <-. reflexivity.
Qed.

Lemma well_locked_spec p : well_locked p = true ->
  exists cs r ar, p = ICheck :: IAcquire :: cs ++ [IRelease; IEmit r] /\
                  abs_cs cs 0 (fun _ => None) = Some (1, ar) /\ ar r = Some 0.
Proof.
  unfold well_locked. destruct p as [|i p]; [discriminate|].
  destruct i; try discriminate. destruct p as [|j p]; [discriminate|].
  destruct j; try discriminate.
  destruct (split_release p) as [[cs b]|] eqn:E; [|discriminate].
  destruct b as [|e b']; [discriminate|]. destruct e; try discriminate.
  destruct b' as [|e' b']; [|discriminate].
  destruct (abs_cs cs 0 (fun _ => None)) as [[off ar]|] eqn:A; [|discriminate].
  intros H. apply andb_prop in H as [H1 H2]. apply Z.eqb_eq in H1. subst off.
  destruct (ar r) as [k|] eqn:Ar; [|discriminate]. apply Z.eqb_eq in H2. subst k.
  exists cs, r, ar. split; [|split; assumption].
  rewrite (split_release_spec _ _ _ E). reflexivity.
Qed.

(* ------------------------------------------------------------ every reachable state satisfies the invariant *)
Section Reach.
Variables (cp : str) (prog : list instr).
Hypothesis Hwl : well_locked prog = true.
Variables (c0 : Z) (Rs : list (list headers)) (sched : list tid).
Let st := exec cp prog sched (init (Some c0) Rs).

Lemma reach_inv : exists cs r, Inv cp prog cs r c0 Rs st.
Proof.
  destruct (well_locked_spec _ Hwl) as (cs & r & ar & Hp & Ha & Hr).
  exists cs, r. unfold st.
  apply (exec_inv cp prog cs r ar Hp Ha Hr keys_agree set_key_observed).
  apply inv_init. lia.
Qed.

Lemma handed_split (l : list thread) :
  Permutation (concat (map handed l))
              (concat (map (fun th => nums (out th)) l) ++ concat (map pending l)).
Proof. apply (concat_map_app_perm (fun th => nums (out th)) pending). Qed.

(* numbers sent or about to be sent = c0 .. c0+k-1; k is the counter when no thread is in the critical section *)
Lemma gapfree_l :
  exists k : nat,
    Permutation (numbers st ++ pending_all st) (zseq c0 k) /\
    (lock st = None -> ctr st = Some (c0 + Z.of_nat k)) /\
    ctr st <> None.
Proof.
  destruct reach_inv as (cs & r & _ & k & cval & Hctr & Hperm & _ & _ & Hlock).
  exists k. split; [|split].
  - unfold numbers, pending_all. rewrite <- handed_split. exact Hperm.
  - intros Hl. rewrite Hl in Hlock. cbn in Hlock. rewrite Hctr. congruence.
  - congruence.
Qed.

Lemma unique_l : NoDup (numbers st) /\ forall n, In n (numbers st) -> c0 <= n.
Proof.
  destruct gapfree_l as (k & Hp & _).
  split.
  - apply (NoDup_app_l _ (pending_all st)).
    apply (Permutation_NoDup (Permutation_sym Hp)). apply zseq_NoDup.
  - intros n Hn. assert (In n (zseq c0 k)) as H.
    { apply (Permutation_in _ Hp). apply in_or_app. left. exact Hn. }
    apply zseq_In in H. lia.
Qed.

Lemma ids_distinct_l : 0 <= c0 -> NoDup (map (fmt cp) (numbers st)).
Proof.
  intros H0. destruct unique_l as [Hnd Hge].
  apply fmt_injective_on; [|exact Hnd]. intros n Hn. specialize (Hge n Hn). lia.
Qed.

(* what was sent for each request *)
Lemma answered_l t th R :
  nth_error (threads st) t = Some th -> nth_error Rs t = Some R ->
  exists D, R = D ++ cur th ++ todo th /\ Forall2 (event_ok cp) D (rev (out th)).
Proof.
  destruct reach_inv as (cs & r & _ & k & cval & _ & _ & Hh & _).
  intros Hn HR. exact (Hh t th R Hn HR).
Qed.

Lemma threads_length_l : length (threads st) = length Rs.
Proof. destruct reach_inv as (cs & r & H & _). exact H. Qed.

Lemma finished_lock_free : finished st -> lock st = None.
Proof.
  intros Hf. destruct reach_inv as (cs & r & _ & k & cval & _ & _ & _ & _ & Hlock).
  destruct (lock st) as [t0|]; [|reflexivity]. exfalso.
  destruct Hlock as (th0 & Hn & _ & rest & off & ar & ar' & Hc & _).
  unfold finished in Hf. rewrite Forall_forall in Hf.
  destruct (Hf th0 (nth_error_In _ _ Hn)) as [Hc0 _].
  rewrite Hc0 in Hc. destruct rest; discriminate.
Qed.

Lemma finished_pending : finished st -> pending_all st = [].
Proof.
  intros Hf. unfold pending_all, finished in *.
  induction (threads st) as [|th l IH]; [reflexivity|].
  inversion Hf as [|? ? [Hc _] Hl]; subst. cbn [map concat].
  unfold pending at 1. rewrite Hc. cbn [app]. apply IH. exact Hl.
Qed.

Lemma at_rest_l : finished st ->
  exists k : nat, ctr st = Some (c0 + Z.of_nat k) /\ Permutation (numbers st) (zseq c0 k) /\
    forall t th R, nth_error (threads st) t = Some th -> nth_error Rs t = Some R ->
                   Forall2 (event_ok cp) R (rev (out th)).
Proof.
  intros Hf. destruct gapfree_l as (k & Hp & Hc & _). exists k.
  rewrite (finished_pending Hf), app_nil_r in Hp.
  split; [exact (Hc (finished_lock_free Hf))|]. split; [exact Hp|].
  intros t th R Hn HR. destruct (answered_l t th R Hn HR) as (D & HD & HF).
  unfold finished in Hf. rewrite Forall_forall in Hf.
  destruct (Hf th (nth_error_In _ _ Hn)) as [Hc0 Ht0].
  unfold cur in HD. rewrite Hc0, Ht0 in HD. cbn in HD. rewrite app_nil_r in HD. subst D. exact HF.
Qed.

End Reach.

Lemma no_deadlock_l cp prog c0 Rs sched :
  well_locked prog = true ->
  let st := exec cp prog sched (init (Some c0) Rs) in
  ~ finished st -> exists t, step cp prog st t <> st.
Proof.
  intros Hwl st Hnf.
  destruct (well_locked_spec _ Hwl) as (cs & r & ar & Hp & Ha & Hr).
  apply (progress_l cp prog cs r Hp c0 Rs); [|exact Hnf].
  apply (exec_inv cp prog cs r ar Hp Ha Hr keys_agree set_key_observed).
  apply inv_init. lia.
Qed.

(* an event that is [event_ok] is never Died; a supplied id consumes no number *)
Lemma event_ok_not_died cp h : ~ event_ok cp h Died.
Proof. unfold event_ok. destruct (supplied h); [discriminate|intros (n & H); discriminate]. Qed.

Fixpoint count_auto (R : list headers) : nat :=
  match R with [] => O | h :: r => if supplied h then count_auto r else S (count_auto r) end.

Lemma count_nums cp R : forall evs, Forall2 (event_ok cp) R evs -> length (nums evs) = count_auto R.
Proof.
  induction R as [|h r IH]; intros evs H; inversion H as [|? e ? evs' He Hr]; subst; [reflexivity|].
  cbn [count_auto]. unfold event_ok in He. destruct (supplied h).
  - subst e. cbn [nums]. apply IH. exact Hr.
  - destruct He as (n & ->). cbn [nums length]. f_equal. apply IH. exact Hr.
Qed.

(* ------------------------------------------------------------ caller-supplied id, under any spelling of the header name *)
(* a spelling of the header name, as do_request sees it: name.lower() == KEY *)
Definition is_spelling (k : str) : bool := str_eqb (map lower k) hdr_test_key.
(* not a spelling, as urllib sees it: name.capitalize() <> 'X-request-id' *)
Definition other_key (kv : list Z * list Z) : Prop := str_eqb (cap (fst kv)) obs_key = false.

Lemma upper_lower_iff a b : upper a = upper b <-> lower a = lower b.
Proof.
  unfold upper, lower.
  destruct (Z.leb_spec 97 a), (Z.leb_spec a 122), (Z.leb_spec 97 b), (Z.leb_spec b 122),
           (Z.leb_spec 65 a), (Z.leb_spec a 90), (Z.leb_spec 65 b), (Z.leb_spec b 90); cbn [andb]; lia.
Qed.

(* str.capitalize() and str.lower() identify the same names (ASCII) *)
Lemma cap_eq_lower k s : cap k = cap s <-> map lower k = map lower s.
Proof.
  destruct k as [|a k], s as [|b s]; cbn [cap map]; try (split; intros H; discriminate); [tauto|].
  split; intros H; injection H as H1 H2; f_equal; try exact H2; apply upper_lower_iff; exact H1.
Qed.

Lemma str_eqb_iff (a b c d : str) : (a = b <-> c = d) -> str_eqb a b = str_eqb c d.
Proof.
  intros [H1 H2].
  destruct (str_eqb a b) eqn:E1, (str_eqb c d) eqn:E2; try reflexivity.
  - apply str_eqb_eq in E1. rewrite (H1 E1), str_eqb_refl in E2. discriminate.
  - apply str_eqb_eq in E2. rewrite (H2 E2), str_eqb_refl in E1. discriminate.
Qed.

(* what urllib files under the observed name is exactly what do_request's test recognises *)
Lemma spelling_iff k : str_eqb (cap k) obs_key = is_spelling k.
Proof.
  unfold is_spelling. rewrite keys_agree, <- (str_eqb_eq _ _ set_key_observed).
  apply str_eqb_iff. apply cap_eq_lower.
Qed.

Lemma sent_value_app a b acc : sent_value (a ++ b) acc = sent_value b (sent_value a acc).
Proof.
  revert acc. induction a as [|[k v] r IH]; intros acc; [reflexivity|]. cbn [app sent_value]. apply IH.
Qed.

Lemma sent_value_other h acc : Forall other_key h -> sent_value h acc = acc.
Proof.
  revert acc. induction h as [|[k v] r IH]; intros acc H; [reflexivity|].
  inversion H as [|? ? Hk Hr]; subst. unfold other_key in Hk. cbn [fst] in Hk.
  cbn [sent_value]. rewrite Hk. apply IH. exact Hr.
Qed.

(* one spelling, whichever: recognised, and its value is what is sent *)
Lemma caller_value_l h1 h2 k v :
  is_spelling k = true -> Forall other_key h1 -> Forall other_key h2 ->
  let h := h1 ++ (k, v) :: h2 in
  supplied h = true /\ sent_value h None = Some v.
Proof.
  intros Hk H1 H2 h. split.
  - unfold h, supplied, supplied_test. rewrite existsb_app. cbn [existsb fst].
    fold (is_spelling k). rewrite Hk. rewrite orb_true_r. reflexivity.
  - unfold h. rewrite sent_value_app. cbn [sent_value].
    rewrite spelling_iff, Hk. rewrite sent_value_other by exact H2. reflexivity.
Qed.

Lemma supplied_false_other h : supplied h = false -> Forall other_key h.
Proof.
  unfold supplied, supplied_test. induction h as [|[k v] r IH]; intros H; [constructor|].
  cbn [existsb fst] in H. apply orb_false_elim in H as [H1 H2].
  constructor; [|exact (IH H2)]. unfold other_key. cbn [fst]. rewrite spelling_iff. exact H1.
Qed.

(* several spellings in one dict: recognised, and the LAST one (dict order) is what urllib keeps *)
Lemma supplied_split h : supplied h = true ->
  exists h1 k v h2, h = h1 ++ (k, v) :: h2 /\ is_spelling k = true /\ Forall other_key h2.
Proof.
  induction h as [|[k v] r IH]; intros H; [discriminate|].
  destruct (supplied r) eqn:Er.
  - destruct (IH eq_refl) as (h1 & k' & v' & h2 & -> & Hk & H2).
    exists ((k, v) :: h1), k', v', h2. repeat split; assumption.
  - exists [], k, v, r. split; [reflexivity|]. split; [|exact (supplied_false_other r Er)].
    unfold supplied, supplied_test in H, Er. cbn [existsb fst] in H. rewrite Er, orb_false_r in H. exact H.
Qed.

Lemma supplied_value_l h : supplied h = true ->
  exists h1 k v h2, h = h1 ++ (k, v) :: h2 /\ is_spelling k = true /\ Forall other_key h2 /\
                    sent_value h None = Some v.
Proof.
  intros H. destruct (supplied_split h H) as (h1 & k & v & h2 & -> & Hk & H2).
  exists h1, k, v, h2. repeat split; try assumption.
  rewrite sent_value_app. cbn [sent_value]. rewrite spelling_iff, Hk. apply sent_value_other. exact H2.
Qed.

(* ------------------------------------------------------------ ids disabled: nothing is generated *)
Definition event_pass (h : headers) (e : event) : Prop := e = Sent None (sent_value h None).

Section Off.
Variables (cp : str) (prog c1 : list instr).
Hypothesis Hprog : prog = ICheck :: c1.
Variable Rs : list (list headers).

Definition thr_off (t : tid) (th : thread) : Prop :=
  (code th = [] \/ code th = prog \/ code th = [IPass]) /\
  forall R, nth_error Rs t = Some R -> histP event_pass R th.

Definition InvOff (st : state) : Prop :=
  length (threads st) = length Rs /\ ctr st = None /\ lock st = None /\
  forall t th, nth_error (threads st) t = Some th -> thr_off t th.

Lemma off_put st t th' :
  InvOff st -> thr_off t th' -> InvOff (mkS (lock st) (ctr st) (set_nth (threads st) t th')).
Proof.
  intros (Hlen & Hc & Hl & Hall) Hth. repeat split; cbn [threads ctr lock]; auto.
  - rewrite set_nth_length. exact Hlen.
  - apply nth_error_set_nth_inv in H as [[-> ->]|[_ H]]; [apply Hth|apply (Hall _ _ H)].
  - apply nth_error_set_nth_inv in H as [[-> ->]|[_ H]]; [apply Hth|apply (Hall _ _ H)].
Qed.

Lemma step_off st t : InvOff st -> InvOff (step cp prog st t).
Proof.
  intros HI. pose proof HI as (Hlen & Hc & Hl & Hall). unfold step.
  destruct (nth_error (threads st) t) as [th|] eqn:Hth; [|exact HI].
  destruct (Hall t th Hth) as [Hcode Hh].
  destruct (code th) as [|i c] eqn:Ec.
  - destruct (todo th) as [|h rest] eqn:Et; [exact HI|].
    apply off_put; [exact HI|]. split; [right; left; reflexivity|].
    intros R HR. apply (histP_start _ prog ICheck c1); auto.
  - assert (Hne : code th <> []) by (rewrite Ec; discriminate).
    destruct Hcode as [E|[E|E]]; [discriminate| |].
    + rewrite Hprog in E. injection E as -> ->. rewrite Hc.
      rewrite <- Hc at 1. apply off_put; [exact HI|]. split; [right; right; reflexivity|].
      intros R HR. apply histP_code; [exact Hne|discriminate|auto].
    + injection E as -> ->.
      apply off_put; [exact HI|]. split; [left; reflexivity|].
      intros R HR. apply histP_finish; [exact Hne|reflexivity|auto].
Qed.

Lemma exec_off sched : forall st, InvOff st -> InvOff (exec cp prog sched st).
Proof.
  induction sched as [|t r IH]; intros st H; [exact H|]. cbn [exec]. apply IH, step_off, H.
Qed.

Lemma init_off : InvOff (init None Rs).
Proof.
  repeat split; cbn [init threads ctr lock]; [apply map_length| |].
  - cbn [init threads] in H. rewrite nth_error_map in H. destruct (nth_error Rs t); cbn in H; [|discriminate].
    injection H as <-. left. reflexivity.
  - intros R HR. cbn [init threads] in H. rewrite nth_error_map, HR in H. cbn in H. injection H as <-.
    exists []. split; [reflexivity|constructor].
Qed.
End Off.

Lemma disabled_l cp prog sched Rs :
  well_locked prog = true ->
  let st := exec cp prog sched (init None Rs) in
  ctr st = None /\ numbers st = [] /\
  forall t th R, nth_error (threads st) t = Some th -> nth_error Rs t = Some R ->
    exists D, R = D ++ cur th ++ todo th /\ Forall2 event_pass D (rev (out th)).
Proof.
  intros Hwl st. destruct (well_locked_spec _ Hwl) as (cs & r & ar & Hp & _).
  assert (InvOff prog Rs st) as (Hlen & Hc & Hl & Hall).
  { apply (exec_off cp prog _ Hp). apply init_off. }
  split; [exact Hc|]. split.
  - unfold numbers.
    assert (forall th, In th (threads st) -> nums (out th) = []) as Hn.
    { intros th Hin. apply In_nth_error in Hin as (t & Ht).
      destruct (Hall t th Ht) as [_ Hh].
      assert (t < length Rs)%nat as Hlt.
      { rewrite <- Hlen. apply nth_error_Some. congruence. }
      destruct (nth_error Rs t) as [R|] eqn:ER; [|apply nth_error_None in ER; lia].
      destruct (Hh R eq_refl) as (D & _ & HF).
      rewrite <- (rev_involutive (out th)), nums_rev.
      assert (nums (rev (out th)) = []) as ->; [|reflexivity].
      clear - HF. induction HF as [|h e D evs He _ IH]; [reflexivity|].
      unfold event_pass in He. subst e. cbn [nums]. exact IH. }
    revert Hn. generalize (threads st) as l. intros l.
    induction l as [|th l IH]; intros Hn; [reflexivity|].
    cbn [map concat]. rewrite Hn by (left; reflexivity). cbn [app].
    apply IH. intros th' Hin. apply Hn. right. exact Hin.
  - intros t th R Hn HR. destruct (Hall t th Hn) as [_ Hh]. exact (Hh R HR).
Qed.

(* ------------------------------------------------------------ sanity: the lock is what makes it work *)
Definition race_sched : list tid :=
  [0; 0; 0; 0;  1; 1; 1; 1; 1; 1;  0; 0]%nat.

Lemma lost_update_l :
  let st := exec [] (strip_lock impl_prog) race_sched (init (Some 0) [[[]]; [[]]]) in
  numbers st = [0; 0] /\ ctr st = Some 1 /\ finished st.
Proof.
  vm_compute. split; [reflexivity|]. split; [reflexivity|].
  repeat constructor.
Qed.

(* ------------------------------------------------------------ how many numbers are consumed *)
Lemma concat_length_by {A B C} (f : A -> list B) (g : C -> nat) :
  forall (l : list A) (Rs : list C),
  length l = length Rs ->
  (forall t a R, nth_error l t = Some a -> nth_error Rs t = Some R -> length (f a) = g R) ->
  length (concat (map f l)) = list_sum (map g Rs).
Proof.
  induction l as [|a l IH]; intros [|R Rs] Hlen H; cbn in Hlen; try discriminate; [reflexivity|].
  cbn [map concat]. change (list_sum (g R :: map g Rs)) with (g R + list_sum (map g Rs))%nat.
  rewrite app_length. f_equal.
  - apply (H 0%nat a R); reflexivity.
  - apply IH; [lia|]. intros t a' R' Ha HR. apply (H (S t) a' R'); assumption.
Qed.

Lemma consumed_l cp prog c0 Rs sched :
  well_locked prog = true ->
  let st := exec cp prog sched (init (Some c0) Rs) in
  finished st ->
  exists k : nat, ctr st = Some (c0 + Z.of_nat k) /\ Permutation (numbers st) (zseq c0 k) /\
                  k = list_sum (map count_auto Rs).
Proof.
  intros Hwl st Hf.
  destruct (at_rest_l cp prog Hwl c0 Rs sched Hf) as (k & Hc & Hp & Hev).
  exists k. split; [exact Hc|]. split; [exact Hp|].
  rewrite <- (zseq_length c0 k), <- (Permutation_length Hp). unfold numbers.
  apply concat_length_by; [apply threads_length_l; exact Hwl|].
  intros t th R Hn HR. fold st in Hn.
  rewrite <- (count_nums cp R (rev (out th))) by exact (Hev t th R Hn HR).
  rewrite nums_rev, rev_length. reflexivity.
Qed.

(* ------------------------------------------------------------ examples (non-vacuity, candidate finding) *)
Definition x_lower : list Z := [120;45;114;101;113;117;101;115;116;45;105;100].   (* "x-request-id" *)
Definition mine : list Z := [109;105;110;101].

Definition x_caps : list Z := [88;45;82;69;81;85;69;83;84;45;73;68].              (* "X-REQUEST-ID" *)
Definition other_id : list Z := [111;116;104;101;114].                              (* "other" *)

(* a caller who spells the header name differently is treated like any other: id sent unchanged, no number used
   (before fix 2323115 of /repo the id was replaced by a generated one and number 0 was used) *)
Lemma respelled_l :
  let st := exec [] impl_prog (repeat 0%nat 3) (init (Some 0) [[[(x_lower, mine)]]]) in
  supplied [(x_lower, mine)] = true /\
  map out (threads st) = [[Sent None (Some mine)]] /\ ctr st = Some 0 /\ finished st.
Proof. vm_compute. repeat split. repeat constructor. Qed.

(* the documented spelling *)
Lemma exact_l :
  let st := exec [] impl_prog (repeat 0%nat 3) (init (Some 0) [[[(hdr_set_key, mine)]]]) in
  map out (threads st) = [[Sent None (Some mine)]] /\ ctr st = Some 0 /\ finished st.
Proof. vm_compute. repeat split. repeat constructor. Qed.

(* two spellings in one dict: both are the caller's, urllib keeps the one that comes last in the dict; no number used *)
Lemma two_spellings_l :
  let st := exec [] impl_prog (repeat 0%nat 6)
                 (init (Some 0) [[[(hdr_set_key, mine); (x_caps, other_id)]; [(x_caps, other_id); (hdr_set_key, mine)]]]) in
  map out (threads st) = [[Sent None (Some mine); Sent None (Some other_id)]] /\ ctr st = Some 0 /\ finished st.
Proof. vm_compute. repeat split. repeat constructor. Qed.

(* a complete interleaved run of two threads, one of which is blocked on the lock for a while *)
Definition demo_sched : list tid :=
  [0; 0; 0; 0;  1; 1; 1; 1; 1;  0; 0; 0;  1; 1; 1; 1; 1; 1;  0;  1; 1; 1; 1; 1; 1; 1; 1; 1]%nat.
Lemma demo_l :
  let st := exec [] impl_prog demo_sched (init (Some 0) [[[]]; [[]; []]]) in
  finished st /\ map (fun th => nums (out th)) (threads st) = [[0]; [2; 1]] /\ ctr st = Some 3.
Proof. vm_compute. split; [repeat constructor|]. split; reflexivity. Qed.

(* ------------------------------------------------------------ liveness: every reachable state can be finished,
   and every schedule whose steps are all effective finishes (LemTerm) *)
Lemma can_finish_l cp prog c0 Rs sched :
  well_locked prog = true ->
  let st0 := init (Some c0) Rs in
  exists more, effective cp prog (exec cp prog sched st0) more /\ finished (exec cp prog (sched ++ more) st0).
Proof.
  intros Hwl st0.
  destruct (well_locked_spec _ Hwl) as (cs & r & ar & Hp & Ha & Hr).
  destruct (finish_from cp prog (Inv cp prog cs r c0 Rs)) with
      (n := steps_left prog (exec cp prog sched st0)) (st := exec cp prog sched st0) as (more & He & Hf).
  - intros st t H. exact (step_inv cp prog cs r ar Hp Ha Hr keys_agree set_key_observed c0 Rs st t H).
  - intros st H Hnf. exact (progress_l cp prog cs r Hp c0 Rs st H Hnf).
  - apply (exec_inv cp prog cs r ar Hp Ha Hr keys_agree set_key_observed). apply inv_init. lia.
  - apply le_n.
  - exists more. split; [exact He|]. rewrite exec_app. exact Hf.
Qed.

Lemma progress_off cp prog c1 Rs st :
  prog = ICheck :: c1 -> InvOff prog Rs st -> ~ finished st -> exists t, step cp prog st t <> st.
Proof.
  intros Hp (Hlen & Hc & Hl & Hall) Hnf.
  unfold finished in Hnf. apply (neg_Forall_Exists_neg thread_done_dec) in Hnf.
  apply Exists_exists in Hnf as (th & Hin & Hwork).
  apply In_nth_error in Hin as (t & Hn). exists t. unfold step. rewrite Hn.
  destruct (Hall t th Hn) as [[E|[E|E]] _]; rewrite E.
  - destruct (todo th) as [|h rest] eqn:Ht; [exfalso; apply Hwork; auto|].
    apply threads_neq. apply (set_nth_changes _ _ th); [exact Hn|].
    apply code_neq. cbn [code]. rewrite E, Hp. discriminate.
  - rewrite Hp, Hc. apply threads_neq. apply (set_nth_changes _ _ th); [exact Hn|].
    apply code_neq. cbn [code]. rewrite E, Hp. discriminate.
  - apply threads_neq. apply (set_nth_changes _ _ th); [exact Hn|].
    apply code_neq. cbn [finish code]. rewrite E. discriminate.
Qed.

Lemma can_finish_off_l cp prog Rs sched :
  well_locked prog = true ->
  let st0 := init None Rs in
  exists more, effective cp prog (exec cp prog sched st0) more /\ finished (exec cp prog (sched ++ more) st0).
Proof.
  intros Hwl st0.
  destruct (well_locked_spec _ Hwl) as (cs & r & ar & Hp & _).
  destruct (finish_from cp prog (InvOff prog Rs)) with
      (n := steps_left prog (exec cp prog sched st0)) (st := exec cp prog sched st0) as (more & He & Hf).
  - intros st t H. exact (step_off cp prog _ Hp Rs st t H).
  - intros st H Hnf. exact (progress_off cp prog _ Rs st Hp H Hnf).
  - apply (exec_off cp prog _ Hp). apply init_off.
  - apply le_n.
  - exists more. split; [exact He|]. rewrite exec_app. exact Hf.
Qed.

(* the work left in the initial state: (weight of the program + 1) per request *)
Lemma steps_left_init prog c Rs :
  steps_left prog (init c Rs) = (S (cw prog) * list_sum (map (@length headers) Rs))%nat.
Proof.
  unfold steps_left, init. cbn [threads]. rewrite map_map. unfold work. cbn [code todo].
  induction Rs as [|R l IH]; cbn [map]; [rewrite Nat.mul_0_r; reflexivity|].
  rewrite !list_sum_cons, IH. change (cw []) with 0%nat. lia.
Qed.

(* ------------------------------------------------------------ the id VALUES carried by generated-id requests *)
Lemma gen_vals_fmt cp evs :
  Forall (fun e => exists h, event_ok cp h e) evs -> gen_vals evs = map (fmt cp) (nums evs).
Proof.
  induction 1 as [|e r (h & He) _ IH]; [reflexivity|].
  unfold event_ok in He. destruct (supplied h).
  - subst e. cbn [gen_vals nums]. exact IH.
  - destruct He as (n & ->). cbn [gen_vals nums map]. f_equal. exact IH.
Qed.

Lemma Forall2_right {A B} (P : A -> B -> Prop) l1 l2 :
  Forall2 P l1 l2 -> Forall (fun b => exists a, P a b) l2.
Proof. induction 1; constructor; eauto. Qed.

Lemma generated_ids_fmt cp prog c0 Rs sched :
  well_locked prog = true ->
  let st := exec cp prog sched (init (Some c0) Rs) in
  generated_ids st = map (fmt cp) (numbers st).
Proof.
  intros Hwl st. unfold generated_ids, numbers.
  assert (Hall : forall th, In th (threads st) -> gen_vals (out th) = map (fmt cp) (nums (out th))).
  { intros th Hin. apply In_nth_error in Hin as (t & Ht).
    assert (t < length Rs)%nat as Hlt.
    { rewrite <- (threads_length_l cp prog Hwl c0 Rs sched). apply nth_error_Some. fold st. congruence. }
    destruct (nth_error Rs t) as [R|] eqn:ER; [|apply nth_error_None in ER; lia].
    destruct (answered_l cp prog Hwl c0 Rs sched t th R Ht ER) as (D & _ & HF).
    apply gen_vals_fmt. apply Forall2_right in HF.
    rewrite <- (rev_involutive (out th)). apply Forall_rev. exact HF. }
  revert Hall. generalize (threads st). intros l.
  induction l as [|th l IH]; intros Hall; [reflexivity|].
  cbn [map concat]. rewrite map_app. rewrite (Hall th) by (left; reflexivity).
  f_equal. apply IH. intros th' Hin. apply Hall. right. exact Hin.
Qed.

Lemma generated_ids_distinct_l cp prog c0 Rs sched :
  well_locked prog = true -> 0 <= c0 ->
  NoDup (generated_ids (exec cp prog sched (init (Some c0) Rs))).
Proof.
  intros Hwl H0. rewrite (generated_ids_fmt cp prog c0 Rs sched Hwl).
  exact (ids_distinct_l cp prog Hwl c0 Rs sched H0).
Qed.

(* ------------------------------------------------------------ derived connections use their root's implementation object *)
Lemma wrap_rule_shares : wrap_rule = RShareParent.
Proof. reflexivity. Qed.

Lemma derived_share_l c : impl_of c = root_of c.
Proof.
  induction c as [i|p IH]; [reflexivity|]. cbn [impl_of root_of]. rewrite wrap_rule_shares. exact IH.
Qed.

(* ------------------------------------------------------------ more examples *)
Definition accept_hdr : list Z * list Z := ([65;99;99;101;112;116], [42;47;42]).      (* ("Accept", "*/*") *)
Definition xother_hdr : list Z * list Z := ([88;45;79;116;104;101;114], [49]).       (* ("X-Other", "1") *)

(* an EMPTY caller-supplied id is an id: sent as it is, no number used; the next request gets number c0 *)
Lemma empty_id_l :
  let st := exec [] impl_prog (repeat 0%nat 11) (init (Some 0) [[[(hdr_set_key, [])]; []]]) in
  map out (threads st) = [[Sent (Some 0) (Some (fmt [] 0)); Sent None (Some [])]] /\ ctr st = Some 1 /\ finished st.
Proof. vm_compute. repeat split. repeat constructor. Qed.

Lemma other_keys_l : is_spelling x_caps = true /\ Forall other_key [accept_hdr] /\ Forall other_key [xother_hdr] /\ sent_value ([accept_hdr] ++ (x_caps, mine) :: [xother_hdr]) None = Some mine.
Proof. vm_compute. repeat split; repeat constructor. Qed.

(* the 4-digit part wraps at fmt_mod, the id does not: numbers 3 and 10003 share the first part and differ in the tail;
   numbers of 13 digits and more simply make the tail longer *)
Lemma wrap_l :
  firstn 4 (fmt [] 3) = firstn 4 (fmt [] 10003) /\ fmt [] 3 <> fmt [] 10003 /\ length (fmt [] 999999999999) = 32%nat /\ length (fmt [] 1000000000000) = 33%nat /\ fmt [] 999999999999 <> fmt [] 1999999999999.
Proof. vm_compute. repeat split; discriminate. Qed.

(* ids disabled: a run of two threads *)
Lemma disabled_run_l :
  let st := exec [] impl_prog [0; 1; 0; 1; 0; 1]%nat (init None [[[]]; [[(hdr_set_key, mine)]]]) in
  finished st /\ map out (threads st) = [[Sent None None]; [Sent None (Some mine)]] /\ ctr st = None.
Proof. vm_compute. split; [repeat constructor|]. split; reflexivity. Qed.

(* a reachable state in which thread 1 is blocked on the lock (its step changes nothing) while thread 0 can move *)
Lemma blocked_l :
  let st := exec [] impl_prog [0; 0; 0; 1; 1]%nat (init (Some 0) [[[]]; [[]]]) in
  ~ finished st /\ lock st = Some 0%nat /\ step [] impl_prog st 1 = st /\ step [] impl_prog st 0 <> st.
Proof.
  vm_compute. split; [|split; [reflexivity|split; [reflexivity|discriminate]]].
  intros H. inversion H as [|? ? [H1 _] _]. discriminate.
Qed.

(* an effective schedule as long as the bound: 16 steps that all do something, then everything is finished *)
Definition eff_sched : list tid :=
  ([0; 0; 0;  1; 1;  0; 0; 0; 0;  1;  0;  1; 1; 1; 1; 1] ++ repeat 0 14)%nat.
Lemma eff_sched_l :
  let st0 := init (Some 0) [[[]]; [[]]] in
  effective [] impl_prog st0 eff_sched /\ (steps_left impl_prog st0 <= length eff_sched)%nat /\
  ~ finished (exec [] impl_prog (firstn 15 eff_sched) st0).
Proof.
  vm_compute. split; [|split].
  - repeat split; first [right; discriminate | left; repeat constructor].
  - repeat constructor.
  - intros H. inversion H as [|? ? _ H2]. inversion H2 as [|? ? [H3 _] _]. discriminate.
Qed.

Lemma wrappers_l : impl_of (CWrap (CWrap (CRoot 7))) = CRoot 7 /\ impl_of (CWrap (CRoot 7)) = impl_of (CRoot 7) /\ impl_of (CRoot 7) <> impl_of (CRoot 8).
Proof. vm_compute. repeat split. discriminate. Qed.
