(* C17/LemmasAdd.v -- add_adapter as an operation like any other.

   Lemmas.v proves frame / non-interference for operation sequences WITHOUT
   add_adapter (there conn.adapters = adapters of the whole chain, an invariant
   add_adapter destroys on purpose).  This file drops that restriction and
   characterises what add_adapter does: it rewrites exactly one heap cell, the
   list object `self.adapters` of the connection it is called on.  Every
   connection object owns its list (fresh at construction, never handed out),
   so for ALL operation sequences, add_adapter included:
     - objects created by the caller (adapter lists, header dicts, params,
       bodies) are never written (frame_any_l);
     - a request through connection c observes the same unless add_adapter was
       called on the very object c (noninterference_any_l);
     - connections made by HttpConn(conn, ...) / BAuthConn(conn, ...) / clone()
       are new objects with a new list: add_adapter on them never reaches the
       connection they were derived from (derive_then_add_l).
   No well-formedness of the chain is needed, only the ownership invariant [own_inv]. *)
From Coq Require Import ZArith List Bool Lia.
From AK Require Import Common.Sx Common.Err gen.C17_Consts C17.Codec C17.Model C17.Base C17.Lemmas.
Import ListNotations.
Open Scope Z_scope.

(* ------------------------------------------------------------------ *)
(* heap                                                                 *)

Lemma hget_hset_other (h : heap) : forall r r' c, r' <> r -> hget (hset h r c) r' = hget h r'.
Proof.
  induction h as [|x h IH]; intros [|r] [|r'] c N; cbn [hset]; try reflexivity; try congruence.
  unfold hget in *. cbn [nth_error]. apply IH. congruence.
Qed.

Lemma hget_hset_same (h : heap) : forall r c, (r < length h)%nat -> hget (hset h r c) r = Some c.
Proof.
  induction h as [|x h IH]; intros [|r] c L; cbn [length] in L; try lia; cbn [hset]; [reflexivity|].
  unfold hget in *. cbn [nth_error]. apply IH. lia.
Qed.

(* h' is h with new cells appended and at most the cell [t] rewritten *)
Definition heap_step (t : option ref) (h h' : heap) : Prop :=
  (length h <= length h')%nat /\
  forall r, (r < length h)%nat -> t <> Some r -> hget h' r = hget h r.

Lemma heap_step_app t (h e : heap) : heap_step t h (h ++ e).
Proof. split; [rewrite app_length; lia|]. intros r L _. apply hget_app_l. exact L. Qed.

Lemma heap_step_refl t (h : heap) : heap_step t h h.
Proof. split; [lia|auto]. Qed.

Lemma heap_step_hset (h : heap) r c : heap_step (Some r) h (hset h r c).
Proof.
  split; [rewrite hset_length; lia|]. intros r' _ N. apply hget_hset_other. congruence.
Qed.

(* ------------------------------------------------------------------ *)
(* constructors, without any assumption on the state                    *)

Lemma mk_wrap_inv h b own p h' c : mk_wrap h b own p = Ok (h', c) ->
  exists pl, hget h (conn_lref p) = Some (CAdapters pl) /\
             h' = h ++ [CAdapters (own ++ pl)] /\ c = Wrap b own p (length h).
Proof.
  unfold mk_wrap, alloc. destruct (hget h (conn_lref p)) as [[pl|d|pp|bb]|]; try discriminate.
  intros [= <- <-]. eauto.
Qed.

Lemma parent_of_inv st cd h p : parent_of st cd = Ok (h, p) ->
  (exists e, h = heap_of st ++ e) /\ (forall i, cd = CDConn i -> In p (conns st) /\ h = heap_of st).
Proof.
  destruct cd as [a|a s|i]; cbn [parent_of]; unfold mk_impl, alloc.
  - intros [= <- <-]. split; [eauto|discriminate].
  - intros [= <- <-]. split; [eauto|discriminate].
  - destruct (nth_error (conns st) i) as [c|] eqn:E; [|discriminate]. intros [= <- <-].
    split; [exists []; rewrite app_nil_r; reflexivity|]. intros j _. split; [eapply nth_error_In; eauto|reflexivity].
Qed.

Lemma get_conn_inv h m comps h' m' c : get_conn h m comps = Ok (h', m', c) ->
  (exists e, h' = h ++ e) /\ m_conn m' = m_conn m /\ m_map m' = m_map m /\
  (exists new, m_cache m' = m_cache m ++ new).
Proof.
  unfold get_conn. destruct comps as [cs|].
  2:{ intros [= <- <- <-]. repeat split; try (exists []; rewrite app_nil_r; reflexivity). }
  destruct (filter _ cs) as [|x [|y r]]; try discriminate.
  destruct (map_get x (m_map m)) as [p|]; [|discriminate].
  destruct (cache_get p (m_cache m)) as [cc|].
  - intros [= <- <- <-]. repeat split; try (exists []; rewrite app_nil_r; reflexivity).
  - destruct (nonempty p).
    + destruct (mk_wrap h true [APrefix p] (m_conn m)) as [[h1 c1]|e] eqn:E; cbn [bind]; [|discriminate].
      apply mk_wrap_inv in E as (pl & _ & -> & _). intros [= <- <- <-]. cbn [m_conn m_map m_cache].
      repeat split; eauto.
    + cbn [bind]. intros [= <- <- <-]. cbn [m_conn m_map m_cache].
      repeat split; eauto. exists []. rewrite app_nil_r. reflexivity.
Qed.

(* ------------------------------------------------------------------ *)
(* one operation                                                        *)

(* the list object an operation writes: only add_adapter writes at all *)
Definition add_target (st : state) (o : op) : option ref :=
  match o with
  | OAddAdapter i _ => match nth_error (conns st) i with Some c => Some (conn_lref c) | None => None end
  | _ => None
  end.

(* a connection that became nameable in this step: another name of an
   existing object, or a new object whose list is a new cell *)
Definition fresh_conn (st : state) (h' : heap) (c : connv) : Prop :=
  In c (conns st) \/ (length (heap_of st) <= conn_lref c < length h')%nat.

Definition step_rel (st st' : state) (t : option ref) : Prop :=
  heap_step t (heap_of st) (heap_of st') /\
  exists nc no,
    conns st' = conns st ++ nc /\ cobjs st' = cobjs st ++ no /\
    Forall (fresh_conn st (heap_of st')) nc /\
    Forall (fun r => (length (heap_of st) <= r < length (heap_of st'))%nat) no /\
    (nc = [] \/ no = []).

Lemma step_rel_same st t : step_rel st st t.
Proof.
  split; [apply heap_step_refl|]. exists [], []. rewrite !app_nil_r. repeat split; auto.
Qed.

Lemma step_rel_heap st h t : heap_step t (heap_of st) h -> step_rel st (upd_heap st h) t.
Proof.
  intros H. split; [exact H|]. exists [], []. cbn [upd_heap conns cobjs]. rewrite !app_nil_r. repeat split; auto.
Qed.

(* a derived connection: new object, new list *)
Lemma step_rel_wrap st e b own p h' c cs t :
  mk_wrap (heap_of st ++ e) b own p = Ok (h', c) ->
  step_rel st {| heap_of := h'; cobjs := cobjs st; conns := conns st ++ [c]; callers := cs |} t /\
  (length (heap_of st) <= conn_lref c)%nat.
Proof.
  intros E. apply mk_wrap_inv in E as (pl & _ & -> & ->). cbn [conn_lref].
  split; [|rewrite app_length; lia]. split; cbn [heap_of conns cobjs].
  - rewrite <- app_assoc. apply heap_step_app.
  - exists [Wrap b own p (length (heap_of st ++ e))], []. rewrite app_nil_r. repeat split; auto.
    constructor; [|constructor]. right. cbn [conn_lref]. rewrite !app_length. cbn [length]. lia.
Qed.

Lemma step_effect st o : step_rel st (fst (step st o)) (add_target st o).
Proof.
  destruct o as [l|d|p|b|w cd|pm cd|i ad|i q|i comps q|i a]; cbn [step add_target].
  1-4: (unfold new_cobj, alloc; cbn [fst]; split; [apply heap_step_app|];
        exists [], [length (heap_of st)]; cbn [conns cobjs heap_of]; rewrite app_nil_r; repeat split; auto;
        constructor; [rewrite app_length; cbn [length]; lia|constructor]).
  - (* OConn *)
    destruct (own_of st w) as [[b own]|e]; cbn [bind fst snd]; [|apply step_rel_same].
    destruct (parent_of st cd) as [[h p]|e] eqn:Ep; cbn [bind fst snd]; [|apply step_rel_same].
    apply parent_of_inv in Ep as [[e ->] _].
    destruct (mk_wrap (heap_of st ++ e) b own p) as [[h' c]|e'] eqn:E; cbn [fst]; [|apply step_rel_same].
    eapply step_rel_wrap; eauto.
  - (* OCaller *)
    unfold caller_conn.
    destruct (parent_of st cd) as [[h p]|e] eqn:Ep; cbn [bind fst snd]; [|apply step_rel_same].
    apply parent_of_inv in Ep as [[e ->] Hc].
    assert (Hwrap : forall x, x = mk_wrap (heap_of st ++ e) true [] p ->
              step_rel st (fst (match x with
                 | Ok (h, c) => ({| heap_of := h; cobjs := cobjs st; conns := conns st ++ [c];
                      callers := callers st ++ [{| m_map := pm; m_conn := c; m_cache := [] |}] |}, Ok OUnit)
                 | Err e0 => (st, Err e0) end)) None).
    { intros x ->. destruct (mk_wrap (heap_of st ++ e) true [] p) as [[h' c]|e'] eqn:E; cbn [fst]; [|apply step_rel_same].
      eapply step_rel_wrap; eauto. }
    destruct cd as [a|a s|j]; try (apply Hwrap; reflexivity).
    destruct (conn_is_http p); [|apply Hwrap; reflexivity].
    (* Caller(conn) with a HttpConn: the caller's http_conn IS that object *)
    destruct (Hc j eq_refl) as [Hin Hh]. cbn [fst]. split; cbn [heap_of conns cobjs].
    + rewrite Hh. apply heap_step_refl.
    + exists [p], []. rewrite app_nil_r. repeat split; auto. constructor; [left; exact Hin|constructor].
  - (* OClone *)
    destruct (nth_error (callers st) i) as [m|]; [|apply step_rel_same].
    destruct (clone_adapters st ad) as [l|e]; cbn [bind]; [|apply step_rel_same].
    destruct (mk_wrap (heap_of st) true l (m_conn m)) as [[h' c]|e'] eqn:E; cbn [fst]; [|apply step_rel_same].
    rewrite (app_nil_end (heap_of st)) in E. eapply step_rel_wrap; eauto.
  - (* ORequest *)
    destruct (nth_error (conns st) i) as [c|]; [|apply step_rel_same].
    destruct (resolve st q) as [ra|]; [|apply step_rel_same].
    destruct (conn_request_frame (heap_of st) c ra) as [e He].
    destruct (conn_request (heap_of st) c ra) as [h r]. cbn [fst] in *. subst h.
    apply step_rel_heap. apply heap_step_app.
  - (* OCall *)
    destruct (nth_error (callers st) i) as [m|]; [|apply step_rel_same].
    destruct (resolve st q) as [ra|]; [|apply step_rel_same].
    destruct (get_conn (heap_of st) m comps) as [[[h m'] c]|e] eqn:G; [|apply step_rel_same].
    apply get_conn_inv in G as [[e ->] _].
    destruct (conn_request_frame (heap_of st ++ e) c ra) as [e2 He].
    destruct (conn_request (heap_of st ++ e) c ra) as [h r]. cbn [fst] in *. subst h.
    split; cbn [set_caller heap_of conns cobjs].
    + rewrite <- app_assoc. apply heap_step_app.
    + exists [], []. rewrite !app_nil_r. repeat split; auto.
  - (* OAddAdapter *)
    destruct (nth_error (conns st) i) as [c|]; [|apply step_rel_same].
    destruct (hget (heap_of st) (conn_lref c)) as [[l|d|p|b]|]; cbn [fst]; try apply step_rel_same.
    apply step_rel_heap. apply heap_step_hset.
Qed.

(* ------------------------------------------------------------------ *)
(* ownership: lists of connections and objects of the caller never coincide *)

Definition own_inv (st : state) : Prop :=
  Forall (fun c => (conn_lref c < length (heap_of st))%nat) (conns st) /\
  Forall (fun r => (r < length (heap_of st))%nat) (cobjs st) /\
  (forall c r, In c (conns st) -> In r (cobjs st) -> conn_lref c <> r).

Lemma own_inv_init : own_inv init.
Proof. split; [constructor|]. split; [constructor|]. intros c r []. Qed.

Lemma step_rel_inv st st' t : own_inv st -> step_rel st st' t -> own_inv st'.
Proof.
  intros (A & B & C) ([L _] & nc & no & Ec & Eo & Fc & Fo & D).
  rewrite Forall_forall in A, B, Fc, Fo.
  assert (A' : forall c, In c (conns st') -> (conn_lref c < length (heap_of st'))%nat).
  { intros c. rewrite Ec. intros H. apply in_app_or in H as [H|H].
    - specialize (A _ H). lia.
    - destruct (Fc _ H) as [H1|H1]; [specialize (A _ H1)|]; lia. }
  assert (B' : forall r, In r (cobjs st') -> (r < length (heap_of st'))%nat).
  { intros r. rewrite Eo. intros H. apply in_app_or in H as [H|H]; [specialize (B _ H)|specialize (Fo _ H)]; lia. }
  split; [apply Forall_forall; exact A'|]. split; [apply Forall_forall; exact B'|].
  intros c r. rewrite Ec, Eo. intros Hc Hr.
  apply in_app_or in Hc as [Hc|Hc]; apply in_app_or in Hr as [Hr|Hr].
  - apply C; assumption.
  - specialize (A _ Hc). specialize (Fo _ Hr). lia.
  - destruct (Fc _ Hc) as [H1|H1]; [apply C; assumption|]. specialize (B _ Hr). lia.
  - destruct D as [-> | ->]; [destruct Hc|destruct Hr].
Qed.

Lemma step_own_inv st o : own_inv st -> own_inv (fst (step st o)).
Proof. intros J. eapply step_rel_inv; [exact J|apply step_effect]. Qed.

(* ------------------------------------------------------------------ *)
(* operation sequences                                                  *)

(* the list objects written by the add_adapter calls of a run *)
Fixpoint add_targets (st : state) (ops : list op) : list ref :=
  match ops with
  | [] => []
  | o :: r =>
      (match add_target st o with Some t => [t] | None => [] end) ++ add_targets (fst (step st o)) r
  end.

Lemma add_target_old st o t : add_target st o = Some t -> exists c, In c (conns st) /\ conn_lref c = t.
Proof.
  destruct o; cbn [add_target]; try discriminate.
  destruct (nth_error (conns st) c) as [x|] eqn:E; [|discriminate]. intros [= <-].
  exists x. split; [eapply nth_error_In; eauto|reflexivity].
Qed.

(* every list written during a run belongs to a connection that existed
   before, or was allocated during the run *)
Lemma add_targets_old_or_new ops : forall st t, In t (add_targets st ops) ->
  (exists c, In c (conns st) /\ conn_lref c = t) \/ (length (heap_of st) <= t)%nat.
Proof.
  induction ops as [|o ops IH]; intros st t; cbn [add_targets]; [intros []|].
  intros H. apply in_app_or in H as [H|H].
  - left. destruct (add_target st o) as [t'|] eqn:E; [|destruct H]. destruct H as [<-|[]].
    eapply add_target_old; eauto.
  - destruct (step_effect st o) as ([L _] & nc & no & Ec & _ & Fc & _).
    apply IH in H as [(c & Hc & <-)|H]; [|right; lia].
    rewrite Ec in Hc. apply in_app_or in Hc as [Hc|Hc]; [left; eauto|].
    rewrite Forall_forall in Fc. destruct (Fc _ Hc) as [H1|H1]; [left; eauto|right; lia].
Qed.

Lemma run_effect ops : forall st, own_inv st ->
  own_inv (fst (run_ops st ops)) /\
  (length (heap_of st) <= length (heap_of (fst (run_ops st ops))))%nat /\
  (forall r, (r < length (heap_of st))%nat -> ~ In r (add_targets st ops) ->
     hget (heap_of (fst (run_ops st ops))) r = hget (heap_of st) r) /\
  (exists nc, conns (fst (run_ops st ops)) = conns st ++ nc) /\
  (exists no, cobjs (fst (run_ops st ops)) = cobjs st ++ no).
Proof.
  induction ops as [|o ops IH]; intros st J; cbn [run_ops add_targets].
  - cbn [fst]. split; [exact J|]. split; [lia|]. split; [auto|].
    split; exists []; rewrite app_nil_r; reflexivity.
  - pose proof (step_own_inv st o J) as J1.
    destruct (step_effect st o) as ([L1 H1] & nc1 & no1 & Ec1 & Eo1 & _).
    destruct (step st o) as [st1 x]. cbn [fst] in *.
    destruct (IH st1 J1) as (J2 & L2 & H2 & (nc2 & Ec2) & (no2 & Eo2)).
    destruct (run_ops st1 ops) as [st2 xs]. cbn [fst] in *.
    split; [exact J2|]. split; [lia|]. split; [|split].
    + intros r Lr N. rewrite H2.
      * apply H1; [exact Lr|]. intros E. apply N. apply in_or_app. left. rewrite E. left. reflexivity.
      * lia.
      * intros X. apply N. apply in_or_app. right. exact X.
    + exists (nc1 ++ nc2). rewrite Ec2, Ec1, app_assoc. reflexivity.
    + exists (no1 ++ no2). rewrite Eo2, Eo1, app_assoc. reflexivity.
Qed.

(* every state a program can reach, add_adapter included *)
Definition reachable_any (st : state) : Prop := exists ops, st = fst (run_ops init ops).

Lemma reachable_any_own st : reachable_any st -> own_inv st.
Proof. intros (ops & ->). apply run_effect. apply own_inv_init. Qed.

Lemma reachable_is_any st : reachable st -> reachable_any st.
Proof. intros (ops & _ & E). exists ops. exact E. Qed.

(* ---- frame: the caller's objects are never written, whatever is called ---- *)

Lemma cobj_not_target st ops r : own_inv st -> In r (cobjs st) -> ~ In r (add_targets st ops).
Proof.
  intros (A & B & C) Hr H. apply add_targets_old_or_new in H as [(c & Hc & E)|H].
  - exact (C _ _ Hc Hr E).
  - rewrite Forall_forall in B. specialize (B _ Hr). lia.
Qed.

Lemma frame_any_l st ops i r : own_inv st ->
  nth_error (cobjs st) i = Some r ->
  nth_error (cobjs (fst (run_ops st ops))) i = Some r /\
  hget (heap_of (fst (run_ops st ops))) r = hget (heap_of st) r.
Proof.
  intros J E. destruct (run_effect ops st J) as (_ & _ & H & _ & (no & Eo)).
  assert (Hin : In r (cobjs st)) by (eapply nth_error_In; eauto).
  split.
  - rewrite Eo, nth_error_app1; [exact E|]. apply nth_error_Some. congruence.
  - apply H; [|apply cobj_not_target; assumption].
    destruct J as (_ & B & _). rewrite Forall_forall in B. apply B. exact Hin.
Qed.

(* ---- what a request observes, in ANY state: the specification applied to
        the current content of the connection's own list ---- *)

Lemma request_obs_any st i q c ra :
  nth_error (conns st) i = Some c -> resolve st q = Ok ra ->
  snd (step st (ORequest i q)) =
  match hget (heap_of st) (conn_lref c) with
  | Some (CAdapters ads) => omap (spec_of (heap_of st) (fst (conn_root c)) (snd (conn_root c)) ads ra)
  | _ => Err OtherErr
  end.
Proof.
  intros Ec Er. cbn [step]. rewrite Ec, Er. unfold conn_request.
  destruct (hget (heap_of st) (conn_lref c)) as [[ads|d|p|b]|]; try reflexivity.
  destruct (conn_root c) as [addr sids]. cbn [fst snd].
  destruct (do_request_spec (heap_of st) addr sids ads ra) as [E _]. rewrite <- E.
  destruct (do_request (heap_of st) addr sids ads ra) as [h r]. cbn [snd]. destruct r; reflexivity.
Qed.

Definition ra_refs (ra : reqargs) : list ref :=
  (match a_params ra with Some r => [r] | None => [] end) ++
  (match a_data ra with Some r => [r] | None => [] end) ++
  (match a_headers ra with Some r => [r] | None => [] end).

Lemma spec_of_agree h1 h2 addr sids ads ra :
  (forall r, In r (ra_refs ra) -> hget h1 r = hget h2 r) ->
  spec_of h1 addr sids ads ra = spec_of h2 addr sids ads ra.
Proof.
  intros H. unfold spec_of, init_dict, read_params, read_body. unfold ra_refs in H.
  destruct (a_headers ra) as [rh|], (a_params ra) as [rp|], (a_data ra) as [rd|]; cbn [app In] in H;
    rewrite ?(H rh), ?(H rp), ?(H rd) by tauto; reflexivity.
Qed.

Lemma resolve_refs st q ra : resolve st q = Ok ra -> forall r, In r (ra_refs ra) -> In r (cobjs st).
Proof.
  intros H. apply resolve_inv in H as (m & p & d & hd & _ & Hp & Hd & Hh & ->).
  assert (G : forall o x r, cobj_ref st o = Ok x -> x = Some r -> In r (cobjs st)).
  { intros o x r. unfold cobj_ref. destruct o as [i|]; [|intros [= <-]; discriminate].
    destruct (nth_error (cobjs st) i) as [y|] eqn:E; [|discriminate]. intros [= <-] [= <-]. eapply nth_error_In; eauto. }
  intros r. unfold ra_refs. cbn [a_params a_data a_headers]. intros Hin.
  apply in_app_or in Hin as [Hin|Hin]; [|apply in_app_or in Hin as [Hin|Hin]].
  - destruct p as [x|]; [|destruct Hin]. destruct Hin as [<-|[]]. exact (G _ _ _ Hp eq_refl).
  - destruct d as [x|]; [|destruct Hin]. destruct Hin as [<-|[]]. exact (G _ _ _ Hd eq_refl).
  - destruct hd as [x|]; [|destruct Hin]. destruct Hin as [<-|[]]. exact (G _ _ _ Hh eq_refl).
Qed.

(* ---- non-interference: only add_adapter on the connection object itself
        changes what a request through it sends ---- *)

Lemma noninterference_any_l st ops i c q ra : own_inv st ->
  nth_error (conns st) i = Some c -> resolve st q = Ok ra ->
  ~ In (conn_lref c) (add_targets st ops) ->
  snd (step (fst (run_ops st ops)) (ORequest i q)) = snd (step st (ORequest i q)).
Proof.
  intros J Ec Er N. destruct (run_effect ops st J) as (_ & _ & H & (nc & Enc) & Eno).
  assert (Ec' : nth_error (conns (fst (run_ops st ops))) i = Some c).
  { rewrite Enc, nth_error_app1; [exact Ec|]. apply nth_error_Some. congruence. }
  rewrite (request_obs_any _ _ _ _ _ Ec' (resolve_ext _ _ _ _ Eno Er)), (request_obs_any _ _ _ _ _ Ec Er).
  assert (Lc : (conn_lref c < length (heap_of st))%nat).
  { destruct J as (A & _). rewrite Forall_forall in A. apply A. eapply nth_error_In; eauto. }
  rewrite (H _ Lc N).
  destruct (hget (heap_of st) (conn_lref c)) as [[ads|d|p|b]|]; try reflexivity.
  f_equal. apply spec_of_agree. intros r Hr.
  pose proof (resolve_refs _ _ _ Er r Hr) as Hin.
  apply H; [|apply cobj_not_target; assumption].
  destruct J as (_ & B & _). rewrite Forall_forall in B. apply B. exact Hin.
Qed.

(* ---- a wrapper method without components sends through the caller's own connection ---- *)

Lemma call_none_obs st i q m ra :
  nth_error (callers st) i = Some m -> resolve st q = Ok ra ->
  snd (step st (OCall i None q)) =
  match hget (heap_of st) (conn_lref (m_conn m)) with
  | Some (CAdapters ads) =>
      omap (spec_of (heap_of st) (fst (conn_root (m_conn m))) (snd (conn_root (m_conn m))) ads ra)
  | _ => Err OtherErr
  end.
Proof.
  intros Em Er. cbn [step get_conn]. rewrite Em, Er. unfold conn_request.
  destruct (hget (heap_of st) (conn_lref (m_conn m))) as [[ads|d|p|b]|]; try reflexivity.
  destruct (conn_root (m_conn m)) as [addr sids]. cbn [fst snd].
  destruct (do_request_spec (heap_of st) addr sids ads ra) as [E _]. rewrite <- E.
  destruct (do_request (heap_of st) addr sids ads ra) as [h r]. cbn [snd]. destruct r; reflexivity.
Qed.

(* ------------------------------------------------------------------ *)
(* add_adapter itself                                                   *)

(* conn.add_adapter(a): the connection's own list gets [a] at its END (behind
   the adapters of the whole chain), nothing else is touched *)
Lemma add_adapter_step st i c l a :
  nth_error (conns st) i = Some c -> hget (heap_of st) (conn_lref c) = Some (CAdapters l) ->
  step st (OAddAdapter i a) = (upd_heap st (hset (heap_of st) (conn_lref c) (CAdapters (l ++ [a]))), Ok OUnit).
Proof. intros Ec El. cbn [step]. rewrite Ec, El. reflexivity. Qed.

(* ... so the next request through that connection applies [a] last *)
Lemma request_after_add_l st i c l a q ra : own_inv st ->
  nth_error (conns st) i = Some c -> hget (heap_of st) (conn_lref c) = Some (CAdapters l) ->
  resolve st q = Ok ra ->
  snd (step (fst (step st (OAddAdapter i a))) (ORequest i q)) =
  omap (spec_of (heap_of st) (fst (conn_root c)) (snd (conn_root c)) (l ++ [a]) ra).
Proof.
  intros J Ec El Er. rewrite (add_adapter_step _ _ _ _ _ Ec El). cbn [fst].
  assert (Lc : (conn_lref c < length (heap_of st))%nat).
  { destruct J as (A & _). rewrite Forall_forall in A. apply A. eapply nth_error_In; eauto. }
  assert (Er' : resolve (upd_heap st (hset (heap_of st) (conn_lref c) (CAdapters (l ++ [a])))) q = Ok ra).
  { eapply resolve_ext; [|exact Er]. exists []. cbn [upd_heap cobjs]. rewrite app_nil_r. reflexivity. }
  rewrite (request_obs_any (upd_heap st (hset (heap_of st) (conn_lref c) (CAdapters (l ++ [a])))) i q c ra Ec Er').
  cbn [upd_heap heap_of].
  rewrite hget_hset_same by exact Lc. f_equal. apply spec_of_agree. intros r Hr.
  apply hget_hset_other. destruct J as (_ & _ & C). intros E. subst r.
  eapply C; [eapply nth_error_In; exact Ec|eapply resolve_refs; eauto|reflexivity].
Qed.

(* ---- derive, then add_adapter on the derived connection: the original is not reached ---- *)

Definition derives (o : op) : bool :=
  match o with OConn _ _ => true | OClone _ _ => true | _ => false end.

(* a successful HttpConn(..)/BAuthConn(..)/.../clone(..) makes exactly one new
   connection object, and its list is a new cell *)
Lemma derive_fresh st o : derives o = true -> snd (step st o) = Ok OUnit ->
  exists c', conns (fst (step st o)) = conns st ++ [c'] /\ (length (heap_of st) <= conn_lref c')%nat.
Proof.
  destruct o as [l|d|p|b|w cd|pm cd|i ad|i q|i comps q|i a]; cbn [derives]; try discriminate; intros _; cbn [step].
  - destruct (own_of st w) as [[b own]|e]; cbn [bind fst snd]; [|discriminate].
    destruct (parent_of st cd) as [[h p]|e] eqn:Ep; cbn [bind fst snd]; [|discriminate].
    apply parent_of_inv in Ep as [[e ->] _].
    destruct (mk_wrap (heap_of st ++ e) b own p) as [[h' c]|e'] eqn:E; cbn [fst snd]; [|discriminate].
    intros _. exists c. split; [reflexivity|].
    apply mk_wrap_inv in E as (pl & _ & _ & ->). cbn [conn_lref]. rewrite app_length. lia.
  - destruct (nth_error (callers st) i) as [m|]; cbn [snd]; [|discriminate].
    destruct (clone_adapters st ad) as [l|e]; cbn [bind]; [|discriminate].
    destruct (mk_wrap (heap_of st) true l (m_conn m)) as [[h' c]|e'] eqn:E; cbn [fst snd]; [|discriminate].
    intros _. exists c. split; [reflexivity|].
    apply mk_wrap_inv in E as (pl & _ & _ & ->). cbn [conn_lref]. lia.
Qed.

Lemma derive_then_add_l st o a ops' i c q ra : own_inv st ->
  derives o = true -> snd (step st o) = Ok OUnit ->
  nth_error (conns st) i = Some c -> resolve st q = Ok ra ->
  ~ In (conn_lref c) (add_targets (fst (run_ops st [o; OAddAdapter (length (conns st)) a])) ops') ->
  snd (step (fst (run_ops st (o :: OAddAdapter (length (conns st)) a :: ops'))) (ORequest i q)) =
  snd (step st (ORequest i q)).
Proof.
  intros J D S Ec Er N. apply (noninterference_any_l st _ i c q ra J Ec Er).
  assert (Lc : (conn_lref c < length (heap_of st))%nat).
  { destruct J as (A & _). rewrite Forall_forall in A. apply A. eapply nth_error_In; eauto. }
  destruct (derive_fresh st o D S) as (c' & Ec' & Lc').
  cbn [add_targets].
  assert (T0 : add_target st o = None) by (destruct o; cbn [derives] in D; try discriminate; reflexivity).
  rewrite T0. cbn [app].
  assert (T1 : add_target (fst (step st o)) (OAddAdapter (length (conns st)) a) = Some (conn_lref c')).
  { cbn [add_target]. rewrite Ec', nth_error_app2 by lia. rewrite Nat.sub_diag. reflexivity. }
  rewrite T1. cbn [app]. intros [E|H]; [lia|].
  apply N. cbn [run_ops]. destruct (step st o) as [st1 x1]. cbn [fst] in *.
  destruct (step st1 (OAddAdapter (length (conns st)) a)) as [st2 x2]. cbn [fst] in *. exact H.
Qed.

(* ------------------------------------------------------------------ *)
(* wrapper methods with components (get_conn, the per-caller cache of   *)
(* prefixed connections) in the presence of add_adapter                 *)

(* what a request through connection object c would use right now *)
Definition conn_view (h : heap) (c : connv) : res ((str * bool) * list adapter) :=
  match hget h (conn_lref c) with
  | Some (CAdapters l) => Ok (conn_root c, l)
  | _ => Err OtherErr
  end.

(* what a wrapper method declared with [comps] would use right now: the cached
   connection of its prefix if there is one (whatever its list holds by now),
   else prefix adapter + the current list of the caller's connection *)
Definition call_view (h : heap) (m : callerv) (comps : option (list str)) : res ((str * bool) * list adapter) :=
  match comps with
  | None => conn_view h (m_conn m)
  | Some cs =>
      match filter (fun c => match map_get c (m_map m) with Some _ => true | None => false end) cs with
      | [c] =>
          match map_get c (m_map m) with
          | None => Err OtherErr
          | Some p =>
              match cache_get p (m_cache m) with
              | Some cc => conn_view h cc
              | None =>
                  if nonempty p then
                    match conn_view h (m_conn m) with
                    | Ok (rt, l) => Ok (rt, APrefix p :: l)
                    | Err e => Err e
                    end
                  else conn_view h (m_conn m)
              end
          end
      | _ => Err AssertErr
      end
  end.

Definition view_obs (h : heap) (v : res ((str * bool) * list adapter)) (ra : reqargs) : res obsv :=
  match v with
  | Ok (rt, l) => omap (spec_of h (fst rt) (snd rt) l ra)
  | Err e => Err e
  end.

Lemma conn_request_view h c ra : snd (conn_request h c ra) =
  match conn_view h c with
  | Ok (rt, l) => spec_of h (fst rt) (snd rt) l ra
  | Err e => Err e
  end.
Proof.
  unfold conn_request, conn_view.
  destruct (hget h (conn_lref c)) as [[ads|d|p|b]|]; try reflexivity.
  destruct (conn_root c) as [addr sids]. cbn [fst snd]. apply do_request_spec.
Qed.

Lemma conn_view_step t h h' c : heap_step t h h' -> (conn_lref c < length h)%nat -> t <> Some (conn_lref c) ->
  conn_view h' c = conn_view h c.
Proof. intros [_ H] L N. unfold conn_view. rewrite (H _ L N). reflexivity. Qed.

Lemma cache_get_app k (l1 l2 : list (str * connv)) :
  cache_get k (l1 ++ l2) = match cache_get k l1 with Some x => Some x | None => cache_get k l2 end.
Proof.
  unfold cache_get. induction l1 as [|[k' c'] l1 IH]; cbn [app find fst]; [reflexivity|].
  destruct (str_eqb k' k); [reflexivity|exact IH].
Qed.

(* invariant of one caller: its connection is nameable; a cached connection is
   either that very connection (empty prefix) or an object nobody can name *)
Definition cache_inv (cs : list connv) (hl : nat) (m : callerv) : Prop :=
  In (m_conn m) cs /\
  Forall (fun pc => (conn_lref (snd pc) < hl)%nat /\
                    (snd pc = m_conn m \/ forall c, In c cs -> conn_lref c <> conn_lref (snd pc))) (m_cache m).

Definition callers_inv (st : state) : Prop :=
  Forall (cache_inv (conns st) (length (heap_of st))) (callers st).

Lemma cache_inv_mono cs hl cs' hl' m : cache_inv cs hl m -> (hl <= hl')%nat ->
  (forall c, In c cs -> In c cs') -> (forall c, In c cs' -> In c cs \/ (hl <= conn_lref c)%nat) ->
  cache_inv cs' hl' m.
Proof.
  intros [A B] L I F. split; [apply I; exact A|].
  eapply Forall_impl; [|exact B]. intros pc [H1 H2]. split; [lia|].
  destruct H2 as [H2|H2]; [left; exact H2|right]. intros c Hc.
  destruct (F _ Hc) as [H|H]; [apply H2; exact H|lia].
Qed.

(* the view of a caller does not change when the heap grows / an unrelated list is written *)
Lemma call_view_step t h h' cs m comps : heap_step t h h' -> cache_inv cs (length h) m ->
  Forall (fun c => (conn_lref c < length h)%nat) cs ->
  t <> Some (conn_lref (m_conn m)) ->
  (forall r, t = Some r -> exists c, In c cs /\ conn_lref c = r) ->
  call_view h' m comps = call_view h m comps.
Proof.
  intros S [A B] Fc N T. rewrite Forall_forall in Fc.
  assert (Vm : conn_view h' (m_conn m) = conn_view h (m_conn m)).
  { eapply conn_view_step; eauto. }
  unfold call_view. destruct comps as [cs0|]; [|exact Vm].
  destruct (filter _ cs0) as [|x [|y r]]; try reflexivity.
  destruct (map_get x (m_map m)) as [p|]; [|reflexivity].
  destruct (cache_get p (m_cache m)) as [cc|] eqn:Ec.
  - apply cache_get_in in Ec as (k' & Hin & _). rewrite Forall_forall in B.
    destruct (B _ Hin) as [L H2]. cbn [snd] in *.
    eapply conn_view_step; [exact S|exact L|].
    destruct H2 as [->|H2]; [exact N|].
    intros E. destruct (T _ E) as (c & Hc & Ee). exact (H2 _ Hc Ee).
  - rewrite Vm. reflexivity.
Qed.

Lemma get_conn_view h m comps0 h' m' c cs : get_conn h m comps0 = Ok (h', m', c) ->
  cache_inv cs (length h) m -> Forall (fun c => (conn_lref c < length h)%nat) cs ->
  (forall comps, call_view h' m' comps = call_view h m comps) /\
  cache_inv cs (length h') m' /\ conn_view h' c = call_view h m comps0.
Proof.
  intros G [A B] Fc.
  assert (Lm : (conn_lref (m_conn m) < length h)%nat) by (rewrite Forall_forall in Fc; apply Fc; exact A).
  revert G. unfold get_conn. destruct comps0 as [cs0|].
  2:{ intros [= <- <- <-]. split; [reflexivity|]. split; [split; assumption|reflexivity]. }
  cbn [call_view].
  destruct (filter (fun c0 => match map_get c0 (m_map m) with Some _ => true | None => false end) cs0) as [|x [|y r]];
    try discriminate.
  destruct (map_get x (m_map m)) as [p|]; [|discriminate].
  destruct (cache_get p (m_cache m)) as [cc|] eqn:Ec.
  { intros [= <- <- <-]. split; [reflexivity|]. split; [split; assumption|reflexivity]. }
  destruct (nonempty p) eqn:Ep.
  - (* a new prefixed connection *)
    destruct (mk_wrap h true [APrefix p] (m_conn m)) as [[h1 c1]|e] eqn:E; cbn [bind]; [|discriminate].
    intros [= <- <- <-]. apply mk_wrap_inv in E as (pl & Hpl & -> & ->).
    assert (S : heap_step None h (h ++ [CAdapters ([APrefix p] ++ pl)])) by apply heap_step_app.
    assert (Vm : conn_view (h ++ [CAdapters ([APrefix p] ++ pl)]) (m_conn m) = conn_view h (m_conn m)).
    { eapply conn_view_step; eauto. discriminate. }
    assert (Vc : conn_view (h ++ [CAdapters ([APrefix p] ++ pl)]) (Wrap true [APrefix p] (m_conn m) (length h)) =
                 Ok (conn_root (m_conn m), APrefix p :: pl)).
    { unfold conn_view. cbn [conn_lref]. rewrite hget_last. reflexivity. }
    assert (Vm0 : conn_view h (m_conn m) = Ok (conn_root (m_conn m), pl)) by (unfold conn_view; rewrite Hpl; reflexivity).
    split; [|split].
    + intros comps. unfold call_view. cbn [m_conn m_map m_cache]. destruct comps as [cs1|]; [|exact Vm].
      destruct (filter _ cs1) as [|x1 [|y1 r1]]; try reflexivity.
      destruct (map_get x1 (m_map m)) as [p1|]; [|reflexivity].
      rewrite cache_get_app. destruct (cache_get p1 (m_cache m)) as [cc|] eqn:Ec1.
      * apply cache_get_in in Ec1 as (k' & Hin & _). rewrite Forall_forall in B.
        destruct (B _ Hin) as [L _]. cbn [snd] in L. eapply conn_view_step; eauto. discriminate.
      * unfold cache_get. cbn [find fst snd]. destruct (str_eqb_spec p p1) as [<-|Np].
        -- cbn [snd]. rewrite Ep, Vc, Vm0. reflexivity.
        -- rewrite Vm. reflexivity.
    + split; [exact A|]. cbn [m_cache m_conn]. apply Forall_app. split.
      * eapply Forall_impl; [|exact B]. intros pc [H1 H2]. split; [rewrite app_length; lia|exact H2].
      * constructor; [|constructor]. cbn [snd conn_lref]. split; [rewrite app_length; cbn [length]; lia|].
        right. intros c0 Hc0. rewrite Forall_forall in Fc. specialize (Fc _ Hc0). lia.
    + rewrite Vc, Vm0. reflexivity.
  - (* empty prefix: the caller's own connection is entered into the cache *)
    cbn [bind]. intros [= <- <- <-]. split; [|split].
    + intros comps. unfold call_view. cbn [m_conn m_map m_cache]. destruct comps as [cs1|]; [|reflexivity].
      destruct (filter _ cs1) as [|x1 [|y1 r1]]; try reflexivity.
      destruct (map_get x1 (m_map m)) as [p1|]; [|reflexivity].
      rewrite cache_get_app. destruct (cache_get p1 (m_cache m)) as [cc|] eqn:Ec1; [reflexivity|].
      unfold cache_get. cbn [find fst snd]. destruct (str_eqb_spec p p1) as [<-|Np]; [|reflexivity].
      cbn [snd]. rewrite Ep. reflexivity.
    + split; [exact A|]. cbn [m_cache m_conn]. apply Forall_app. split; [exact B|].
      constructor; [|constructor]. cbn [snd]. split; [exact Lm|left; reflexivity].
    + reflexivity.
Qed.

Lemma nth_error_replace {A} (l : list A) i x y : nth_error l i = Some y ->
  nth_error (firstn i l ++ x :: skipn (S i) l) i = Some x /\
  forall j, j <> i -> nth_error (firstn i l ++ x :: skipn (S i) l) j = nth_error l j.
Proof.
  revert i. induction l as [|z l IH]; intros [|i]; cbn [nth_error firstn skipn app]; try discriminate.
  - intros _. split; [reflexivity|]. intros [|j] N; [congruence|reflexivity].
  - intros H. destruct (IH _ H) as [H1 H2]. split; [exact H1|].
    intros [|j] N; [reflexivity|]. cbn [nth_error]. apply H2. congruence.
Qed.

Lemma ra_valid_own st q ra : own_inv st -> resolve st q = Ok ra -> ra_valid (heap_of st) ra.
Proof.
  intros (_ & B & _) H. apply resolve_inv in H as (m & p & d & hd & _ & Hp & Hd & Hh & ->).
  assert (G : forall o x, cobj_ref st o = Ok x -> oref_ok (heap_of st) x).
  { intros o x. unfold cobj_ref. destruct o as [i|]; [|intros [= <-]; exact I].
    destruct (nth_error (cobjs st) i) as [y|] eqn:E; [|discriminate]. intros [= <-]. cbn [oref_ok].
    rewrite Forall_forall in B. apply B. eapply nth_error_In; eauto. }
  unfold ra_valid. cbn [a_params a_data a_headers]. split; [|split]; eapply G; eauto.
Qed.

(* a wrapper call observes the specification applied to its view *)
Lemma call_obs_view st i comps q m ra : own_inv st -> callers_inv st ->
  nth_error (callers st) i = Some m -> resolve st q = Ok ra ->
  snd (step st (OCall i comps q)) = view_obs (heap_of st) (call_view (heap_of st) m comps) ra.
Proof.
  intros J K Em Er. cbn [step]. rewrite Em, Er.
  assert (Km : cache_inv (conns st) (length (heap_of st)) m).
  { unfold callers_inv in K. rewrite Forall_forall in K. apply K. eapply nth_error_In; eauto. }
  destruct (get_conn (heap_of st) m comps) as [[[h m'] c]|e] eqn:G.
  - destruct (get_conn_view _ _ _ _ _ _ _ G Km (proj1 J)) as (_ & _ & V).
    apply get_conn_inv in G as [[e ->] _].
    pose proof (conn_request_view (heap_of st ++ e) c ra) as R. rewrite V in R.
    destruct (conn_request (heap_of st ++ e) c ra) as [h r]. cbn [snd] in *. subst r.
    unfold view_obs. destruct (call_view (heap_of st) m comps) as [[rt l]|e0]; [|reflexivity].
    rewrite spec_of_ext by (eapply ra_valid_own; eauto). reflexivity.
  - (* get_conn raised: the view is the same error *)
    unfold view_obs. unfold get_conn in G. unfold call_view. destruct comps as [cs0|]; [|discriminate].
    destruct (filter _ cs0) as [|x [|y r]]; try (injection G as <-; reflexivity).
    destruct (map_get x (m_map m)) as [p|]; [|injection G as <-; reflexivity].
    destruct (cache_get p (m_cache m)) as [cc|]; [discriminate|].
    destruct (nonempty p); cbn [bind] in G; [|discriminate].
    unfold mk_wrap, alloc, conn_view in *.
    destruct (hget (heap_of st) (conn_lref (m_conn m))) as [[pl|d|pp|bb]|]; try discriminate;
      injection G as <-; reflexivity.
Qed.

(* one operation keeps the caller invariant, and keeps the view of every
   caller whose connection it does not call add_adapter on *)
Lemma step_callers st o : own_inv st -> callers_inv st ->
  callers_inv (fst (step st o)) /\
  forall i m comps, nth_error (callers st) i = Some m ->
    add_target st o <> Some (conn_lref (m_conn m)) ->
    exists m', nth_error (callers (fst (step st o))) i = Some m' /\ m_conn m' = m_conn m /\
      call_view (heap_of (fst (step st o))) m' comps = call_view (heap_of st) m comps.
Proof.
  intros J K.
  pose proof (step_effect st o) as (S & nc & no & Ec & _ & Fc & _).
  pose proof (proj1 J) as Jc.
  assert (L : (length (heap_of st) <= length (heap_of (fst (step st o))))%nat) by apply S.
  assert (I1 : forall c, In c (conns st) -> In c (conns (fst (step st o)))).
  { intros c H. rewrite Ec. apply in_or_app. left. exact H. }
  assert (I2 : forall c, In c (conns (fst (step st o))) -> In c (conns st) \/ (length (heap_of st) <= conn_lref c)%nat).
  { intros c. rewrite Ec. intros H. apply in_app_or in H as [H|H]; [left; exact H|].
    rewrite Forall_forall in Fc. destruct (Fc _ H) as [H1|H1]; [left; exact H1|right; lia]. }
  assert (T : forall r, add_target st o = Some r -> exists c, In c (conns st) /\ conn_lref c = r).
  { intros r. apply add_target_old. }
  (* the generic case: the step leaves the list of callers alone or appends to it *)
  assert (Gen : forall nm, callers (fst (step st o)) = callers st ++ nm ->
            Forall (fun m => m_cache m = [] /\ In (m_conn m) (conns (fst (step st o)))) nm ->
            callers_inv (fst (step st o)) /\
            forall i m comps, nth_error (callers st) i = Some m ->
              add_target st o <> Some (conn_lref (m_conn m)) ->
              exists m', nth_error (callers (fst (step st o))) i = Some m' /\ m_conn m' = m_conn m /\
                call_view (heap_of (fst (step st o))) m' comps = call_view (heap_of st) m comps).
  { intros nm Em Fm. split.
    - unfold callers_inv. rewrite Em. apply Forall_app. split.
      + eapply Forall_impl; [|exact K]. intros m Hm. eapply cache_inv_mono; eauto.
      + eapply Forall_impl; [|exact Fm]. intros m [H1 H2]. split; [exact H2|]. rewrite H1. constructor.
    - intros i m comps Hi N. exists m. split; [|split; [reflexivity|]].
      + rewrite Em, nth_error_app1; [exact Hi|]. apply nth_error_Some. congruence.
      + unfold callers_inv in K. rewrite Forall_forall in K.
        eapply call_view_step; [exact S|apply K; eapply nth_error_In; eauto|exact Jc|exact N|exact T]. }
  destruct o as [l|d|p|b|w cd|pm cd|i0 ad|i0 q|i0 comps0 q|i0 a].
  1-4: (apply (Gen []); [cbn [step fst]; unfold new_cobj, alloc; cbn [callers]; rewrite app_nil_r; reflexivity|constructor]).
  - (* OConn *)
    apply (Gen []); [|constructor]. cbn [step].
    destruct (bind (own_of st w) _) as [[h c]|e]; cbn [fst callers]; rewrite app_nil_r; reflexivity.
  - (* OCaller *)
    cbn [step] in *. destruct (caller_conn st cd) as [[h c]|e]; cbn [fst] in *.
    + apply (Gen [{| m_map := pm; m_conn := c; m_cache := [] |}]); [reflexivity|].
      constructor; [|constructor]. cbn [m_cache m_conn conns]. split; [reflexivity|]. apply in_or_app. right. left. reflexivity.
    + apply (Gen []); [rewrite app_nil_r; reflexivity|constructor].
  - (* OClone *)
    cbn [step] in *. destruct (nth_error (callers st) i0) as [m0|]; cbn [fst] in *.
    2:{ apply (Gen []); [rewrite app_nil_r; reflexivity|constructor]. }
    destruct (bind (clone_adapters st ad) _) as [[h c]|e]; cbn [fst] in *.
    + apply (Gen [{| m_map := m_map m0; m_conn := c; m_cache := [] |}]); [reflexivity|].
      constructor; [|constructor]. cbn [m_cache m_conn conns]. split; [reflexivity|]. apply in_or_app. right. left. reflexivity.
    + apply (Gen []); [rewrite app_nil_r; reflexivity|constructor].
  - (* ORequest *)
    apply (Gen []); [|constructor]. cbn [step].
    destruct (nth_error (conns st) i0) as [c|]; [|cbn [fst]; rewrite app_nil_r; reflexivity].
    destruct (resolve st q) as [ra|]; [|cbn [fst]; rewrite app_nil_r; reflexivity].
    destruct (conn_request (heap_of st) c ra) as [h r]. cbn [fst upd_heap callers]. rewrite app_nil_r. reflexivity.
  - (* OCall: the cache of caller i0 may grow *)
    cbn [step] in *. destruct (nth_error (callers st) i0) as [m0|] eqn:E0.
    2:{ apply (Gen []); [cbn [fst]; rewrite app_nil_r; reflexivity|constructor]. }
    destruct (resolve st q) as [ra|].
    2:{ apply (Gen []); [cbn [fst]; rewrite app_nil_r; reflexivity|constructor]. }
    destruct (get_conn (heap_of st) m0 comps0) as [[[h m'] c]|e] eqn:G.
    2:{ apply (Gen []); [cbn [fst]; rewrite app_nil_r; reflexivity|constructor]. }
    assert (K0 : cache_inv (conns st) (length (heap_of st)) m0).
    { unfold callers_inv in K. rewrite Forall_forall in K. apply K. eapply nth_error_In; eauto. }
    destruct (get_conn_view _ _ _ _ _ _ _ G K0 Jc) as (V & K' & _).
    pose proof (get_conn_inv _ _ _ _ _ _ G) as ([e ->] & Sc & _).
    destruct (conn_request_frame (heap_of st ++ e) c ra) as [e2 He].
    destruct (conn_request (heap_of st ++ e) c ra) as [h r]. cbn [fst] in *. subst h.
    cbn [set_caller heap_of conns callers] in *.
    assert (Jc' : Forall (fun c0 => (conn_lref c0 < length (heap_of st ++ e))%nat) (conns st)).
    { eapply Forall_impl; [|exact Jc]. intros c0. cbn beta. rewrite app_length. lia. }
    assert (K'' : cache_inv (conns st) (length ((heap_of st ++ e) ++ e2)) m').
    { eapply cache_inv_mono; [exact K'|rewrite (app_length (heap_of st ++ e)); lia|auto|auto]. }
    split.
    + unfold callers_inv, set_caller. cbn [heap_of conns callers]. apply Forall_replace; [|exact K''].
      eapply Forall_impl; [|exact K]. intros m Hm. eapply cache_inv_mono; [exact Hm|rewrite !app_length; lia|auto|auto].
    + intros i m comps Hi _. destruct (nth_error_replace (callers st) i0 m' m0 E0) as [R1 R2].
      destruct (Nat.eq_dec i i0) as [->|Ni].
      * assert (m = m0) by congruence. subst m. exists m'. split; [exact R1|]. split; [exact Sc|].
        rewrite <- V. eapply call_view_step with (t := None) (cs := conns st);
          [apply heap_step_app|exact K'|exact Jc'|discriminate|discriminate].
      * exists m. split; [rewrite R2 by exact Ni; exact Hi|]. split; [reflexivity|].
        rewrite <- app_assoc. eapply call_view_step with (t := None) (cs := conns st);
          [apply heap_step_app| |exact Jc|discriminate|discriminate].
        unfold callers_inv in K. rewrite Forall_forall in K. apply K. eapply nth_error_In; eauto.
  - (* OAddAdapter *)
    apply (Gen []); [|constructor]. cbn [step].
    destruct (nth_error (conns st) i0) as [c|]; [|cbn [fst]; rewrite app_nil_r; reflexivity].
    destruct (hget (heap_of st) (conn_lref c)) as [[l|d|p|b]|]; cbn [fst upd_heap callers]; rewrite app_nil_r; reflexivity.
Qed.

Lemma callers_inv_init : callers_inv init.
Proof. constructor. Qed.

Lemma run_callers ops : forall st, own_inv st -> callers_inv st ->
  callers_inv (fst (run_ops st ops)) /\
  forall i m comps, nth_error (callers st) i = Some m ->
    ~ In (conn_lref (m_conn m)) (add_targets st ops) ->
    exists m', nth_error (callers (fst (run_ops st ops))) i = Some m' /\ m_conn m' = m_conn m /\
      call_view (heap_of (fst (run_ops st ops))) m' comps = call_view (heap_of st) m comps.
Proof.
  induction ops as [|o ops IH]; intros st J K; cbn [run_ops add_targets].
  - cbn [fst]. split; [exact K|]. intros i m comps Hi _. exists m. auto.
  - pose proof (step_own_inv st o J) as J1. destruct (step_callers st o J K) as [K1 V1].
    destruct (step st o) as [st1 x]. cbn [fst] in *.
    destruct (IH st1 J1 K1) as [K2 V2].
    destruct (run_ops st1 ops) as [st2 xs]. cbn [fst] in *.
    split; [exact K2|]. intros i m comps Hi N.
    destruct (V1 i m comps Hi) as (m1 & H1 & C1 & E1).
    { intros E. apply N. apply in_or_app. left. rewrite E. left. reflexivity. }
    destruct (V2 i m1 comps H1) as (m2 & H2 & C2 & E2).
    { rewrite C1. intros X. apply N. apply in_or_app. right. exact X. }
    exists m2. split; [exact H2|]. split; [congruence|congruence].
Qed.

Lemma reachable_any_callers st : reachable_any st -> callers_inv st.
Proof. intros (ops & ->). apply run_callers; [apply own_inv_init|apply callers_inv_init]. Qed.

(* non-interference for wrapper methods: unless add_adapter is called on the
   caller's own connection object, a wrapper call observes the same after ANY
   operation sequence -- clones, clones' component calls (their caches), add_adapter
   on clones' connections ... *)
Lemma noninterference_call_any_l st ops i m comps q ra : own_inv st -> callers_inv st ->
  nth_error (callers st) i = Some m -> resolve st q = Ok ra ->
  ~ In (conn_lref (m_conn m)) (add_targets st ops) ->
  snd (step (fst (run_ops st ops)) (OCall i comps q)) = snd (step st (OCall i comps q)).
Proof.
  intros J K Em Er N.
  destruct (run_effect ops st J) as (J' & _ & H & _ & Eno).
  destruct (run_callers ops st J K) as [K' V].
  destruct (V i m comps Em N) as (m' & Em' & _ & Ev).
  rewrite (call_obs_view _ _ _ _ _ _ J' K' Em' (resolve_ext _ _ _ _ Eno Er)).
  rewrite (call_obs_view _ _ _ _ _ _ J K Em Er). rewrite Ev.
  unfold view_obs. destruct (call_view (heap_of st) m comps) as [[rt l]|e]; [|reflexivity].
  f_equal. apply spec_of_agree. intros r Hr.
  pose proof (resolve_refs _ _ _ Er r Hr) as Hin.
  apply H; [|apply cobj_not_target; assumption].
  destruct J as (_ & B & _). rewrite Forall_forall in B. apply B. exact Hin.
Qed.
