(* C11/LemmasPalette.v -- no_color=True (or a no_color configuration) always ends in a plain palette *)
From Coq Require Import Bool.
From AK Require Import C11.Palette.

Lemma class_plain_nc : forall conf g, class_plain true conf g = true.
Proof. reflexivity. Qed.

(* no_color=True wins over every other argument: palette given or not, as a class or as
   a ready (coloured) object, whatever colors_conf and the global configuration are *)
Lemma no_color_wins_l : forall c p,
  c_nc c = true -> mk_palette_plain c = Some p -> p = true.
Proof.
  intros [pal nc conf g] p Hnc H. cbn in Hnc. subst nc.
  unfold mk_palette_plain in H. cbn in H.
  destruct pal as [| | onc oconf].
  - inversion H. reflexivity.
  - inversion H. reflexivity.
  - destruct conf; [inversion H; reflexivity | discriminate].
Qed.

(* the call is rejected only for a ready object together with colors_conf *)
Lemma rejected_iff_l : forall c,
  mk_palette_plain c = None <->
  (exists onc oconf p, c_pal c = PalObj onc oconf /\ c_conf c = ConfGiven p).
Proof.
  intros [pal nc conf g]. unfold mk_palette_plain. cbn. split.
  - destruct pal as [| | onc oconf]; try discriminate.
    destruct conf as [| p]; try discriminate.
    intros _. exists onc, oconf, p. split; reflexivity.
  - intros [onc [oconf [p [Hp Hc]]]]. subst. reflexivity.
Qed.

(* a no_color configuration (given as colors_conf=, or the global one when no
   colors_conf is given) makes the palette built from a class plain, no_color or not *)
Lemma no_color_conf_plain_l : forall c,
  (c_pal c = PalNone \/ c_pal c = PalClass) ->
  (c_conf c = ConfGiven true \/ (c_conf c = ConfNone /\ c_glob_plain c = true)) ->
  mk_palette_plain c = Some true.
Proof.
  intros [pal nc conf g] Hp Hc. cbn in Hp, Hc. unfold mk_palette_plain, class_plain. cbn.
  destruct Hp as [Hp | Hp]; subst pal;
    (destruct Hc as [Hc | [Hc Hg]]; [subst conf | subst conf; subst g]);
    rewrite orb_true_r; reflexivity.
Qed.

(* a ready object passed WITHOUT no_color is used as it is: plain iff it was built plain *)
Lemma ready_object_as_is_l : forall onc oconf g,
  mk_palette_plain (Cfg (PalObj onc oconf) false ConfNone g) = Some (class_plain onc oconf g).
Proof. reflexivity. Qed.
