(* C06/RefsLemmas.v -- what the reader of '.git/packed-refs' and of the loose ref files (Refs.v) computes. *)
From Coq Require Import ZArith List Bool Arith Lia.
From AK Require Import Common.Sx Common.Err C06.Model C06.Lemmas C06.Refs.
Import ListNotations.
Open Scope Z_scope.

(* ------------------------------------------------------------------ *)
(* specification-level reading of the (classified) lines of packed-refs *)

(* the hexsha that belongs to a ref line [sha ...] followed by the lines [rest]: the last '^' line before the next
   ref line, else its own hexsha *)
Fixpoint peeled (rest : list pline) (sha : list Z) : list Z :=
  match rest with
  | PPeel _ s :: r => peeled r s
  | PRef _ _ :: _ => sha
  | _ :: r => peeled r sha
  | [] => sha
  end.

Fixpoint entries (P : list (list Z)) (cls : list pline) : list (list Z * list Z) :=
  match cls with
  | PRef sha name :: r => (if wanted P name then [(name, peeled r sha)] else []) ++ entries P r
  | _ :: r => entries P r
  | [] => []
  end.

(* the first line the code refuses *)
Fixpoint first_err (cls : list pline) : option err :=
  match cls with
  | [] => None
  | PComment false :: _ => Some TypeErr
  | PPeel false _ :: _ => Some TypeErr
  | PBad :: _ => Some ValueErr
  | _ :: r => first_err r
  end.

Definition pend (acc : option (list Z * list Z)) (cls : list pline) : list (list Z * list Z) :=
  match acc with Some (n, s) => [(n, peeled cls s)] | None => [] end.

Lemma packed_loop_spec P : forall ls acc,
  packed_loop P ls acc =
  match first_err (map classify ls) with
  | Some e => Err e
  | None => Ok (pend acc (map classify ls) ++ entries P (map classify ls))
  end.
Proof.
  induction ls as [|raw r IH]; intros acc.
  - cbn. destruct acc as [[n s]|]; reflexivity.
  - cbn [packed_loop map]. destruct (classify raw) as [|ok|ok sha|sha name|] eqn:E.
    + rewrite IH. cbn [first_err entries]. destruct (first_err (map classify r)); [reflexivity|].
      destruct acc as [[n s]|]; reflexivity.
    + destruct ok.
      * rewrite IH. cbn [first_err entries]. destruct (first_err (map classify r)); [reflexivity|].
        destruct acc as [[n s]|]; reflexivity.
      * reflexivity.
    + destruct ok.
      * rewrite IH. cbn [first_err entries]. destruct (first_err (map classify r)); [reflexivity|].
        destruct acc as [[n s]|]; reflexivity.
      * reflexivity.
    + rewrite IH. cbn [first_err entries]. destruct (first_err (map classify r)); [reflexivity|].
      f_equal. destruct acc as [[n s]|]; cbn [pend flush peeled]; destruct (wanted P name); reflexivity.
    + reflexivity.
Qed.

(* GitRepo._iter_packed_refs on the text of the file *)
Lemma packed_refs_spec d P text :
  d_packed d = Some text ->
  packed_refs d P =
  match first_err (map classify (lines text)) with
  | Some e => Err e
  | None => Ok (entries P (map classify (lines text)))
  end.
Proof.
  intros H. unfold packed_refs. rewrite H, packed_loop_spec.
  destruct (first_err _); reflexivity.
Qed.

(* ------------------------------------------------------------------ *)
(* a '^' line belongs to the ref line before it, and to nothing else    *)

Definition starts_with_ref (cls : list pline) : Prop :=
  match cls with [] => True | PRef _ _ :: _ => True | _ => False end.

Lemma peeled_app l1 l2 sha : starts_with_ref l2 -> peeled (l1 ++ l2) sha = peeled l1 sha.
Proof.
  intros H. revert sha. induction l1 as [|c l1 IH]; intros sha.
  - cbn. destruct l2 as [|[] ?]; cbn in *; try contradiction; reflexivity.
  - destruct c; cbn; auto.
Qed.

(* the file can be cut in front of any ref line: what comes after the cut never changes what is read before
   it, and the other way round *)
Lemma entries_app P l1 l2 : starts_with_ref l2 -> entries P (l1 ++ l2) = entries P l1 ++ entries P l2.
Proof.
  intros H. induction l1 as [|c l1 IH]; [reflexivity|].
  destruct c; cbn [app entries]; auto.
  rewrite IH, peeled_app by assumption. now rewrite app_assoc.
Qed.

(* a ref line with a wanted name yields exactly its name and its own hexsha, unless '^' lines follow it
   before the next ref line (then: the last of them) *)
Lemma entries_ref_line P l1 sha name l2 :
  wanted P name = true ->
  entries P (l1 ++ PRef sha name :: l2) = entries P l1 ++ (name, peeled l2 sha) :: entries P l2.
Proof.
  intros W. rewrite entries_app by exact I. cbn [entries]. now rewrite W.
Qed.

Lemma entries_unwanted_line P l1 sha name l2 :
  wanted P name = false ->
  entries P (l1 ++ PRef sha name :: l2) = entries P l1 ++ entries P l2.
Proof.
  intros W. rewrite entries_app by exact I. cbn [entries]. now rewrite W.
Qed.

(* no '^' line between this ref line and the next one *)
Fixpoint no_peel_before_ref (cls : list pline) : bool :=
  match cls with
  | [] => true
  | PPeel _ _ :: _ => false
  | PRef _ _ :: _ => true
  | _ :: r => no_peel_before_ref r
  end.

Lemma peeled_none cls sha : no_peel_before_ref cls = true -> peeled cls sha = sha.
Proof. induction cls as [|c r IH]; [reflexivity|]. destruct c; cbn; auto; discriminate. Qed.

(* ------------------------------------------------------------------ *)
(* branch heads never come from '^' lines                               *)

(* every '^' line follows (blank and comment lines apart) a ref line whose name is not wanted *)
Fixpoint peel_safe (P : list (list Z)) (cls : list pline) (pending_wanted : bool) : bool :=
  match cls with
  | [] => true
  | PPeel _ _ :: r => negb pending_wanted && peel_safe P r pending_wanted
  | PRef _ name :: r => peel_safe P r (wanted P name)
  | _ :: r => peel_safe P r pending_wanted
  end.

(* the plain reading: the ref lines with a wanted name, as they stand *)
Definition plain (P : list (list Z)) (cls : list pline) : list (list Z * list Z) :=
  flat_map (fun c => match c with
                     | PRef sha name => if wanted P name then [(name, sha)] else []
                     | _ => []
                     end) cls.

Lemma peeled_safe P cls sha : peel_safe P cls true = true -> peeled cls sha = sha.
Proof.
  induction cls as [|c r IH]; [reflexivity|]. destruct c; cbn; auto. discriminate.
Qed.

Lemma entries_plain P : forall cls b, peel_safe P cls b = true -> entries P cls = plain P cls.
Proof.
  induction cls as [|c r IH]; intros b H; [reflexivity|].
  destruct c; cbn in *; eauto.
  - apply andb_true_iff in H as [_ H]. eauto.
  - rewrite (IH _ H). destruct (wanted P name) eqn:W; [|reflexivity].
    now rewrite (peeled_safe P r sha H).
Qed.

(* in a file written by git a '^' line directly follows the line of an (annotated) tag *)
Fixpoint peels_follow_tags (cls : list pline) (pending_tag : bool) : bool :=
  match cls with
  | [] => true
  | PPeel _ _ :: r => pending_tag && peels_follow_tags r pending_tag
  | PRef _ name :: r => peels_follow_tags r (prefixb s_refs_tags name)
  | _ :: r => peels_follow_tags r pending_tag
  end.

Definition remote_prefix (remote : list Z) : list Z := s_refs_remotes ++ remote ++ [47].

Lemma remote_not_tag remote name :
  prefixb (remote_prefix remote) name = true -> prefixb s_refs_tags name = false.
Proof.
  intros H. apply prefixb_spec in H as [post ->]. reflexivity.
Qed.

Lemma wanted_one p name : wanted [p] name = prefixb p name.
Proof. unfold wanted. cbn. apply orb_false_r. Qed.

Lemma tags_safe remote : forall cls b b',
  (b' = true -> b = false) ->
  peels_follow_tags cls b = true -> peel_safe [remote_prefix remote] cls b' = true.
Proof.
  induction cls as [|c r IH]; intros b b' Hb H; [reflexivity|].
  destruct c; cbn [peels_follow_tags peel_safe] in *; eauto.
  - apply andb_true_iff in H as [Hp H]. subst b. rewrite (IH _ _ Hb H).
    destruct b'; [specialize (Hb eq_refl); discriminate|reflexivity].
  - refine (IH _ _ _ H).
    intros W. rewrite wanted_one in W. now apply remote_not_tag in W.
Qed.

(* ------------------------------------------------------------------ *)
(* strings                                                              *)

Lemma list_eqb_eq a : forall b, list_eqb a b = true <-> a = b.
Proof.
  induction a as [|x a IH]; intros [|y b]; cbn; split; try easy.
  - intros H. apply andb_true_iff in H as [H1 H2]. apply Z.eqb_eq in H1. apply IH in H2. now subst.
  - intros [= -> ->]. rewrite Z.eqb_refl. cbn. now apply IH.
Qed.

Lemma list_eqb_refl a : list_eqb a a = true.
Proof. now apply list_eqb_eq. Qed.

Lemma mem_str_In x l : mem_str x l = true <-> In x l.
Proof.
  unfold mem_str. rewrite existsb_exists. split.
  - intros (y & Hy & E). apply list_eqb_eq in E. now subst.
  - intros H. exists x. split; [assumption|apply list_eqb_refl].
Qed.

(* ------------------------------------------------------------------ *)
(* python dict: the last assignment to a key wins                       *)

Fixpoint last_val {A} (k : list Z) (l : list (list Z * A)) (default : option A) : option A :=
  match l with
  | [] => default
  | (k', v) :: r => last_val k r (if list_eqb k k' then Some v else default)
  end.

Lemma slookup_dict_set {A} k k' (v : A) m :
  slookup k (dict_set k' v m) = if list_eqb k k' then Some v else slookup k m.
Proof.
  induction m as [|[k2 v2] m IH]; cbn.
  - destruct (list_eqb k k'); reflexivity.
  - destruct (list_eqb k' k2) eqn:E2; cbn.
    + apply list_eqb_eq in E2. subst k2. destruct (list_eqb k k'); reflexivity.
    + destruct (list_eqb k k2) eqn:E; [|exact IH].
      destruct (list_eqb k k') eqn:E'; [|reflexivity].
      apply list_eqb_eq in E, E'. subst. now rewrite list_eqb_refl in E2.
Qed.

Lemma slookup_fold {A B} (key : B -> list Z) (val : B -> A) k : forall l m,
  slookup k (fold_left (fun m e => dict_set (key e) (val e) m) l m) =
  last_val k (map (fun e => (key e, val e)) l) (slookup k m).
Proof.
  induction l as [|e l IH]; intros m; [reflexivity|].
  cbn [fold_left map last_val]. rewrite IH, slookup_dict_set. reflexivity.
Qed.

Lemma last_val_app {A} k (l1 l2 : list (list Z * A)) dflt :
  last_val k (l1 ++ l2) dflt = last_val k l2 (last_val k l1 dflt).
Proof. revert dflt. induction l1 as [|[k' v] l1 IH]; intros dflt; cbn; auto. Qed.

Lemma last_val_absent {A} k (l : list (list Z * A)) dflt :
  (forall e, In e l -> list_eqb k (fst e) = false) -> last_val k l dflt = dflt.
Proof.
  revert dflt. induction l as [|[k' v] l IH]; intros dflt H; [reflexivity|].
  cbn [last_val]. pose proof (H (k', v) (or_introl eq_refl)) as E. cbn [fst] in E. rewrite E.
  apply IH. intros e He. apply H. now right.
Qed.

Lemma last_val_const {A} k (l : list (list Z * A)) dflt v :
  (forall e, In e l -> list_eqb k (fst e) = true -> snd e = v) ->
  (exists e, In e l /\ list_eqb k (fst e) = true) ->
  last_val k l dflt = Some v.
Proof.
  revert dflt. induction l as [|[k' w] l IH]; intros dflt Hc [e [He Hk]]; [destruct He|].
  cbn. destruct (existsb (fun e => list_eqb k (fst e)) l) eqn:Ex.
  - apply existsb_exists in Ex as (e' & He' & Hk'). apply IH; [|eauto].
    intros e2 H2. apply Hc. now right.
  - rewrite last_val_absent.
    + destruct He as [<-|He].
      * cbn in Hk. rewrite Hk. f_equal. apply (Hc (k', w)); [now left|exact Hk].
      * exfalso. assert (X : existsb (fun e => list_eqb k (fst e)) l = true) by (apply existsb_exists; eauto).
        congruence.
    + intros e2 H2. destruct (list_eqb k (fst e2)) eqn:E2; [|reflexivity].
      assert (X : existsb (fun e => list_eqb k (fst e)) l = true) by (apply existsb_exists; eauto). congruence.
Qed.

(* ------------------------------------------------------------------ *)
(* iter_refs with the one prefix of a remote / of the tags              *)

Lemma dedupe_one p : dedupe [p] = [p].
Proof. reflexivity. Qed.

Lemma iter_refs_one d p :
  prefixb s_refs p = true ->
  iter_refs d [p] =
  match packed_refs d [p] with
  | Err e => Err e
  | Ok pk =>
      let fs := filter (fun e => loose_under p (fst e)) (d_loose d) in
      Ok (map (fun e : list Z * list Z => (fst e, @None (list Z))) fs
          ++ map (fun e : list Z * list Z => (fst e, Some (snd e)))
                 (filter (fun e => negb (mem_str (fst e) (map fst fs))) pk))
  end.
Proof.
  intros H. unfold iter_refs. cbn [forallb]. rewrite H. cbn [andb negb]. rewrite dedupe_one.
  cbn [flat_map]. rewrite app_nil_r. reflexivity.
Qed.

Lemma remote_prefix_refs remote : prefixb s_refs (remote_prefix remote) = true.
Proof. reflexivity. Qed.

Lemma rstrip_split c t : c <> 47 -> forall r,
  exists y x, r = y ++ x /\ rstrip_slash_rev (r ++ c :: t) = x ++ c :: t.
Proof.
  intros Hc. induction r as [|a r IH].
  - exists [], []. split; [reflexivity|]. cbn. destruct (c =? 47) eqn:E; [apply Z.eqb_eq in E; contradiction|reflexivity].
  - cbn [app rstrip_slash_rev]. destruct (a =? 47).
    + destruct IH as (y & x & -> & E). exists (a :: y), x. split; [reflexivity|exact E].
    + exists [], (a :: r). split; reflexivity.
Qed.

(* a loose ref file found below the directory of the remote has a name that starts with refs/remotes/ *)
Lemma loose_under_remote remote name :
  loose_under (remote_prefix remote) name = true -> exists x, name = s_refs_remotes ++ x.
Proof.
  unfold loose_under. intros H. apply prefixb_spec in H as [post ->].
  unfold dir_of, remote_prefix.
  assert (E : rev (s_refs_remotes ++ remote ++ [47]) =
              ((47 :: rev remote) ++ [47]) ++ 115 :: [101; 116; 111; 109; 101; 114; 47; 115; 102; 101; 114]).
  { rewrite !rev_app_distr. cbn [rev app]. rewrite <- app_assoc. reflexivity. }
  rewrite E. destruct (rstrip_split 115 [101; 116; 111; 109; 101; 114; 47; 115; 102; 101; 114] ltac:(discriminate)
                         ((47 :: rev remote) ++ [47])) as (y & x & Hr & ->).
  rewrite rev_app_distr. cbn [rev app].
  destruct x as [|x1 xs].
  - exists post. reflexivity.
  - destruct (@exists_last _ (x1 :: xs) ltac:(discriminate)) as (x0 & a & Ex). rewrite Ex in *.
    rewrite app_assoc in Hr. apply app_inj_tail in Hr as [_ <-].
    rewrite rev_app_distr. cbn [rev app]. exists (rev x0 ++ [47] ++ post).
    rewrite <- !app_assoc. reflexivity.
Qed.

Lemma skipn_remotes x : skipn (length s_refs_remotes) (s_refs_remotes ++ x) = x.
Proof. reflexivity. Qed.

(* the names yielded for the remote all start with the prefix of the remote *)
Lemma entries_names P : forall cls e, In e (entries P cls) -> wanted P (fst e) = true.
Proof.
  induction cls as [|c r IH]; intros e H; [destruct H|].
  destruct c; cbn in H; auto.
  apply in_app_or in H as [H|H]; auto.
  destruct (wanted P name) eqn:W; [|destruct H]. destruct H as [<-|[]]. exact W.
Qed.

Lemma packed_refs_names d P pk e : packed_refs d P = Ok pk -> In e pk -> wanted P (fst e) = true.
Proof.
  unfold packed_refs. destruct (d_packed d) as [text|].
  - rewrite packed_loop_spec. destruct (first_err _); [discriminate|]. intros [= <-]. apply entries_names.
  - intros [= <-] [].
Qed.

Lemma key_eqb b n x : n = s_refs_remotes ++ x ->
  list_eqb b (skipn (length s_refs_remotes) n) = list_eqb (s_refs_remotes ++ b) n.
Proof.
  intros ->. rewrite skipn_remotes. destruct (list_eqb b x) eqn:E.
  - apply list_eqb_eq in E. subst. symmetry. apply list_eqb_refl.
  - destruct (list_eqb (s_refs_remotes ++ b) (s_refs_remotes ++ x)) eqn:E'; [|reflexivity].
    apply list_eqb_eq in E'. apply app_inv_head in E'. subst. now rewrite list_eqb_refl in E.
Qed.

Lemma last_val_filter d b (L : list (list Z)) :
  mem_str (s_refs_remotes ++ b) L = false ->
  forall pk : list (list Z * list Z),
  (forall e, In e pk -> exists x, fst e = s_refs_remotes ++ x) ->
  forall dflt,
  last_val b (map (fun x : list Z * list Z =>
                     (skipn (length s_refs_remotes) (fst (fst x, Some (snd x))), sha_of d (fst x, Some (snd x))))
                  (filter (fun e => negb (mem_str (fst e) L)) pk)) dflt =
  last_val (s_refs_remotes ++ b) pk dflt.
Proof.
  intros M. induction pk as [|[n h] pk IH]; intros Hn dflt; [reflexivity|].
  cbn [filter fst]. destruct (Hn (n, h) (or_introl eq_refl)) as [x Hx]. cbn [fst] in Hx.
  destruct (mem_str n L) eqn:Mn; cbn [negb map last_val fst snd].
  - destruct (list_eqb (s_refs_remotes ++ b) n) eqn:E.
    + apply list_eqb_eq in E. subst n. congruence.
    + apply IH. intros e He. apply Hn. now right.
  - rewrite (key_eqb _ _ _ Hx). unfold sha_of at 1. cbn [snd].
    apply IH. intros e He. apply Hn. now right.
Qed.

(* ProjectRepo.make_branch_refs_map: the head recorded for a branch of the remote is
   - what the loose ref file says (GitRepo.get_ref_commit), when there is one,
   - otherwise the hexsha of the LAST entry of that name that _iter_packed_refs yields,
   - no entry at all when there is neither *)
Lemma branch_refs_map_spec d remote m pk b :
  branch_refs_map d remote = Ok m ->
  packed_refs d [remote_prefix remote] = Ok pk ->
  slookup b m =
    if mem_str (s_refs_remotes ++ b)
               (map fst (filter (fun e => loose_under (remote_prefix remote) (fst e)) (d_loose d)))
    then slookup (s_refs_remotes ++ b) (d_loose d)
    else last_val (s_refs_remotes ++ b) pk None.
Proof.
  intros Hm Hpk. unfold branch_refs_map in Hm. fold (remote_prefix remote) in Hm.
  rewrite iter_refs_one in Hm by apply remote_prefix_refs. rewrite Hpk in Hm. cbn zeta in Hm.
  injection Hm as <-.
  set (fs := filter (fun e => loose_under (remote_prefix remote) (fst e)) (d_loose d)).
  rewrite (slookup_fold (fun e : list Z * option (list Z) => skipn (length s_refs_remotes) (fst e)) (sha_of d)).
  rewrite map_app, last_val_app, !map_map. cbn [slookup fst snd].
  (* every yielded name starts with refs/remotes/ *)
  assert (Hfs : forall e, In e fs -> exists x, fst e = s_refs_remotes ++ x).
  { intros e He. apply filter_In in He as [_ He]. now apply loose_under_remote in He. }
  assert (Hpkn : forall e, In e pk -> exists x, fst e = s_refs_remotes ++ x).
  { intros e He. apply (packed_refs_names _ _ _ _ Hpk) in He. rewrite wanted_one in He.
    apply prefixb_spec in He as [post He]. exists (remote ++ [47] ++ post). rewrite He. unfold remote_prefix.
    now rewrite <- !app_assoc. }
  assert (Hkey : forall n x, n = s_refs_remotes ++ x ->
                 list_eqb b (skipn (length s_refs_remotes) n) = list_eqb (s_refs_remotes ++ b) n).
  { intros n x ->. rewrite skipn_remotes. destruct (list_eqb b x) eqn:E.
    - apply list_eqb_eq in E. subst. symmetry. apply list_eqb_refl.
    - destruct (list_eqb (s_refs_remotes ++ b) (s_refs_remotes ++ x)) eqn:E'; [|reflexivity].
      apply list_eqb_eq in E'. apply app_inv_head in E'. subst. now rewrite list_eqb_refl in E. }
  destruct (mem_str (s_refs_remotes ++ b) (map fst fs)) eqn:M.
  - (* a loose file: no packed entry of that name is left, every loose entry of that name gives the same value *)
    rewrite last_val_absent.
    + apply mem_str_In in M. apply in_map_iff in M as (e0 & He0 & Hin0).
      destruct (slookup (s_refs_remotes ++ b) (d_loose d)) as [h|] eqn:L.
      * apply last_val_const.
        -- intros e He Hk. apply in_map_iff in He as (e1 & <- & He1). cbn [fst snd] in *.
           destruct (Hfs _ He1) as [x Hx]. rewrite (Hkey _ _ Hx) in Hk. apply list_eqb_eq in Hk.
           unfold sha_of. cbn [fst snd]. rewrite <- Hk, L. reflexivity.
        -- exists (skipn (length s_refs_remotes) (fst e0), sha_of d (fst e0, None)). split.
           ++ apply in_map_iff. exists e0. split; [reflexivity|assumption].
           ++ cbn [fst]. rewrite He0, skipn_remotes. apply list_eqb_refl.
      * (* the name is among the loose files, so the lookup cannot fail *)
        exfalso. apply filter_In in Hin0 as [Hin0 _]. clear - L Hin0 He0.
        induction (d_loose d) as [|[k v] l IH]; [destruct Hin0|].
        cbn [slookup] in L. destruct (list_eqb (s_refs_remotes ++ b) k) eqn:E; [discriminate|].
        destruct Hin0 as [<-|Hin0]; [|auto]. cbn [fst] in He0. subst k. now rewrite list_eqb_refl in E.
    + intros e He. apply in_map_iff in He as (e1 & <- & He1). cbn [fst].
      apply filter_In in He1 as [He1 Hn]. destruct (Hpkn _ He1) as [x Hx]. rewrite (Hkey _ _ Hx).
      destruct (list_eqb (s_refs_remotes ++ b) (fst e1)) eqn:E; [|reflexivity].
      apply list_eqb_eq in E. rewrite <- E, M in Hn. discriminate.
  - (* no loose file *)
    rewrite (last_val_absent _ (map _ fs)).
    + (* the filter drops nothing of this name *)
      apply (last_val_filter d b (map fst fs) M pk Hpkn).
    + intros e He. apply in_map_iff in He as (e1 & <- & He1). cbn [fst].
      destruct (Hfs _ He1) as [x Hx]. rewrite (Hkey _ _ Hx).
      destruct (list_eqb (s_refs_remotes ++ b) (fst e1)) eqn:E; [|reflexivity].
      apply list_eqb_eq in E. exfalso.
      assert (X : mem_str (s_refs_remotes ++ b) (map fst fs) = true).
      { apply mem_str_In. apply in_map_iff. exists e1. split; [now symmetry|assumption]. }
      congruence.
Qed.

(* the heads of the branches of a remote, for a packed-refs file without a line the code refuses and in which
   every '^' line follows a tag (as git writes it): a loose ref file wins, otherwise the LAST plain
   '<hexsha> refs/remotes/<remote>/<branch>' line; '^' lines never matter *)
Lemma branch_heads_spec d remote text :
  d_packed d = Some text ->
  first_err (map classify (lines text)) = None ->
  peels_follow_tags (map classify (lines text)) false = true ->
  exists m, branch_refs_map d remote = Ok m /\
  forall b, slookup b m =
    if mem_str (s_refs_remotes ++ b)
               (map fst (filter (fun e => loose_under (remote_prefix remote) (fst e)) (d_loose d)))
    then slookup (s_refs_remotes ++ b) (d_loose d)
    else last_val (s_refs_remotes ++ b) (plain [remote_prefix remote] (map classify (lines text))) None.
Proof.
  intros Ht Herr Hp.
  assert (Hpk : packed_refs d [remote_prefix remote] = Ok (plain [remote_prefix remote] (map classify (lines text)))).
  { rewrite (packed_refs_spec _ _ _ Ht), Herr. f_equal. apply (entries_plain _ _ false).
    apply (tags_safe remote _ false false); [discriminate|exact Hp]. }
  destruct (branch_refs_map d remote) as [m|e] eqn:Hm.
  - exists m. split; [reflexivity|]. intros b. apply (branch_refs_map_spec _ _ _ _ _ Hm Hpk).
  - exfalso. unfold branch_refs_map in Hm. fold (remote_prefix remote) in Hm.
    rewrite iter_refs_one in Hm by apply remote_prefix_refs. rewrite Hpk in Hm. discriminate.
Qed.

(* without a packed-refs file *)
Lemma packed_refs_missing d P : d_packed d = None -> packed_refs d P = Ok [].
Proof. intros H. unfold packed_refs. now rewrite H. Qed.

(* ------------------------------------------------------------------ *)
(* from the text of a line to its class                                 *)

Lemma lstrip_app_keep a b : a <> [] -> lstrip a = a -> lstrip (a ++ b) = a ++ b.
Proof.
  destruct a as [|x a]; [congruence|]. intros _ H. cbn [app lstrip] in *.
  destruct (is_space x) eqn:E; [|reflexivity].
  exfalso. assert (L : forall s, (length (lstrip s) <= length s)%nat).
  { induction s as [|c s IH]; cbn; [lia|]. destruct (is_space c); cbn; lia. }
  specialize (L a). rewrite H in L. cbn in L. lia.
Qed.

Lemma break_ws_app sha rest :
  forallb (fun c => negb (is_space c)) sha = true -> break_ws (sha ++ 32 :: rest) = (sha, 32 :: rest).
Proof.
  induction sha as [|c sha IH]; intros H; [reflexivity|].
  cbn [forallb] in H. apply andb_true_iff in H as [Hc H]. cbn [app break_ws].
  apply negb_true_iff in Hc. rewrite Hc, (IH H). reflexivity.
Qed.

(* '<hexsha> <name>': no white space inside the first field, none around the name (inner white space stays in it) *)
Lemma classify_ref_line c0 sha' name :
  c0 <> 35 -> c0 <> 94 ->
  forallb (fun c => negb (is_space c)) (c0 :: sha') = true ->
  name <> [] -> lstrip name = name -> lstrip (rev name) = rev name ->
  classify ((c0 :: sha') ++ 32 :: name) = PRef (c0 :: sha') name.
Proof.
  intros H35 H94 Hs Hne Hl Hr.
  assert (Hc0 : is_space c0 = false).
  { cbn [forallb] in Hs. apply andb_true_iff in Hs as [Hs _]. now apply negb_true_iff in Hs. }
  assert (St : strip ((c0 :: sha') ++ 32 :: name) = (c0 :: sha') ++ 32 :: name).
  { unfold strip. cbn [app lstrip]. rewrite Hc0.
    change (c0 :: sha' ++ 32 :: name) with ((c0 :: sha') ++ 32 :: name).
    rewrite rev_app_distr. cbn [rev]. rewrite <- !app_assoc.
    rewrite lstrip_app_keep; [|destruct name; [congruence|cbn; intros E; now apply app_eq_nil in E as [_ E]]|exact Hr].
    rewrite rev_app_distr. cbn [rev]. rewrite !rev_app_distr, !rev_involutive. cbn [rev app].
    rewrite <- !app_assoc. reflexivity. }
  unfold classify. rewrite St. cbn [app].
  destruct (c0 =? 35) eqn:E1; [apply Z.eqb_eq in E1; contradiction|].
  destruct (c0 =? 94) eqn:E2; [apply Z.eqb_eq in E2; contradiction|].
  unfold split1. change (c0 :: sha' ++ 32 :: name) with ((c0 :: sha') ++ 32 :: name).
  rewrite (break_ws_app _ _ Hs). cbn [lstrip]. change (is_space 32) with true. cbn iota. rewrite Hl.
  destruct name; [congruence|reflexivity].
Qed.

(* '^<hexsha>' *)
Lemma classify_peel_line sha :
  lstrip (rev sha) = rev sha -> classify (94 :: sha) = PPeel (Nat.eqb (S (length sha)) peel_line_len) sha.
Proof.
  intros Hr.
  assert (St : strip (94 :: sha) = 94 :: sha).
  { unfold strip. cbn [lstrip]. change (is_space 94) with false. cbn iota. cbn [rev].
    destruct sha as [|c sha]; [reflexivity|].
    rewrite lstrip_app_keep; [|cbn; intros E; now apply app_eq_nil in E as [_ E]|exact Hr].
    rewrite rev_app_distr, rev_involutive. reflexivity. }
  unfold classify. rewrite St. reflexivity.
Qed.

(* ------------------------------------------------------------------ *)
(* a commit is its full id: [index_of] (repo.commit(hexsha), the lookup behind every head and every tag read from
   the ref files) compares whole ids *)

Lemma index_of_sound sha : forall shas k, index_of sha shas = Some k -> nth_error shas k = Some sha.
Proof.
  induction shas as [|y r IH]; cbn; intros k H; [discriminate|].
  destruct (list_eqb sha y) eqn:E.
  - injection H as <-. apply list_eqb_eq in E. now subst.
  - destruct (index_of sha r) as [j|] eqn:Ej; cbn in H; [|discriminate].
    injection H as <-. cbn. now apply IH.
Qed.

Lemma index_of_complete sha : forall shas k,
  NoDup shas -> nth_error shas k = Some sha -> index_of sha shas = Some k.
Proof.
  induction shas as [|y r IH]; intros k ND H.
  - destruct k; discriminate.
  - inversion ND as [|? ? Hnin ND']; subst. cbn. destruct k as [|k]; cbn in H.
    + injection H as ->. now rewrite list_eqb_refl.
    + destruct (list_eqb sha y) eqn:E.
      * apply list_eqb_eq in E. subst y. exfalso. apply Hnin. eapply nth_error_In; eassumption.
      * now rewrite (IH k ND' H).
Qed.

Lemma index_of_differs a b : forall shas i j,
  index_of a shas = Some i -> index_of b shas = Some j -> a <> b -> i <> j.
Proof.
  intros shas i j Ha Hb Hne E. subst j.
  apply index_of_sound in Ha. apply index_of_sound in Hb. congruence.
Qed.
