(* C10/LemmasHandle.v -- lazy results consumed later, line by line, interleaved:
   OMake binds a handle to the palette selected by ch_text(); ONext / OWholeH
   consume through the handle.  What a step prints is a pure function of the
   palette the handle holds (and its sub-palettes); a no_color handle prints
   plain text whatever happens between its creation and its consumption. *)
From Coq Require Import ZArith List Bool Lia.
From AK Require Import Common.Sx Common.Err C10.Sgr C10.SgrLemmas C10.Base gen.C10_Consts C10.Model
  C10.Lemmas C10.LemmasInv C10.LemmasRun C10.LemmasPure C10.LemmasTop.
Import ListNotations.
Open Scope Z_scope.

Section Handle.
Variable fts : list (Z * ftdef).

Notation mvs := (moves true fts).

Lemma held_handle w h cp : zfind h (w_hcmds w) = Some cp -> In cp (held w).
Proof.
  intros Eh. unfold held. apply in_or_app. right. apply zfind_In in Eh. apply in_map_iff. exists (h, cp). auto.
Qed.

(* ---- one step of a generator, one whole consumption ---- *)
Lemma next_pure w h cp o ids w' outs :
  inv fts w -> zfind h (w_hcmds w) = Some cp -> obj_ok o ->
  step true fts w (ONext h o ids) = Ok (w', outs) ->
  exists w1, outs = [text_lines (plines fts w1 cp (o_lines o))] /\
             good true fts (set_oracle w ids) w1 /\ inv fts w1 /\ w' = gc true w1.
Proof.
  intros Hi Eh Hok. cbn [step]. rewrite Eh.
  pose proof (inv_set_oracle fts w ids Hi) as H0.
  destruct (gen_lines true fts (set_oracle w ids) cp o) as [[w1 ls]|] eqn:E1; [|discriminate]. cbn [bind fst snd].
  intros [= <- <-].
  assert (st_ok fts (set_oracle w ids) cp) as Hst by (split; [exact H0|exact (held_handle w h cp Eh)]).
  destruct (gen_lines_pure fts _ _ _ _ _ Hst Hok E1) as (-> & _ & G).
  exists w1. split; [reflexivity|]. split; [exact G|]. split; [|reflexivity].
  eapply inv_moves; [exact H0|apply G].
Qed.

Lemma whole_pure w h cp o mode ids w' outs :
  inv fts w -> zfind h (w_hcmds w) = Some cp -> obj_ok o ->
  step true fts w (OWholeH h o mode ids) = Ok (w', outs) ->
  exists w1, outs = texts_of mode (plines fts w1 cp (o_lines o)) /\
             good true fts (set_oracle w ids) w1 /\ inv fts w1 /\ w' = gc true w1.
Proof.
  intros Hi Eh Hok. cbn [step]. rewrite Eh.
  pose proof (inv_set_oracle fts w ids Hi) as H0.
  destruct (consume true fts (set_oracle w ids) cp o mode) as [[w1 ts]|] eqn:E1; [|discriminate]. cbn [bind fst snd].
  intros [= <- <-].
  assert (st_ok fts (set_oracle w ids) cp) as Hst by (split; [exact H0|exact (held_handle w h cp Eh)]).
  destruct (consume_pure fts _ _ _ _ _ _ Hst Hok E1) as (-> & G & _).
  exists w1. split; [reflexivity|]. split; [exact G|]. split; [|reflexivity].
  eapply inv_moves; [exact H0|apply G].
Qed.

(* no_color handle: plain text *)
Lemma next_no_color w h cp K o ids w' outs :
  inv fts w -> zfind h (w_hcmds w) = Some cp -> In (K, cp) (w_slots w) -> obj_ok o ->
  step true fts w (ONext h o ids) = Ok (w', outs) -> outs = [text_lines (plain_lines fts (o_lines o))].
Proof.
  intros Hi Eh Hs Hok E. destruct (next_pure _ _ _ _ _ _ _ Hi Eh Hok E) as (w1 & -> & G & H1 & _).
  f_equal. f_equal. apply (slot_plines fts w1 cp K); [exact H1|]. eapply moves_slots; [apply G|exact Hs].
Qed.

Lemma whole_no_color w h cp K o mode ids w' outs :
  inv fts w -> zfind h (w_hcmds w) = Some cp -> In (K, cp) (w_slots w) -> obj_ok o ->
  step true fts w (OWholeH h o mode ids) = Ok (w', outs) -> outs = texts_of mode (plain_lines fts (o_lines o)).
Proof.
  intros Hi Eh Hs Hok E. destruct (whole_pure _ _ _ _ _ _ _ _ Hi Eh Hok E) as (w1 & -> & G & H1 & _).
  f_equal. apply (slot_plines fts w1 cp K); [exact H1|]. eapply moves_slots; [apply G|exact Hs].
Qed.

(* colour, objects printed through one palette: nothing but the colours of the held palette *)
Lemma next_simple w h cp o ids w' outs :
  inv fts w -> zfind h (w_hcmds w) = Some cp -> obj_ok o -> simple_obj o ->
  step true fts w (ONext h o ids) = Ok (w', outs) ->
  outs = [text_lines (pure_lines fts (p_colors (pal_of w cp)) (fun _ => []) (o_lines o))].
Proof.
  intros Hi Eh Hok Hs E. destruct (next_pure _ _ _ _ _ _ _ Hi Eh Hok E) as (w1 & -> & G & _ & _).
  f_equal. f_equal. apply simple_plines; [exact Hs|].
  rewrite (grows_cp _ _ _ (proj2 G)) by exact (held_handle w h cp Eh). reflexivity.
Qed.

Lemma whole_simple w h cp o mode ids w' outs :
  inv fts w -> zfind h (w_hcmds w) = Some cp -> obj_ok o -> simple_obj o ->
  step true fts w (OWholeH h o mode ids) = Ok (w', outs) ->
  outs = texts_of mode (pure_lines fts (p_colors (pal_of w cp)) (fun _ => []) (o_lines o)).
Proof.
  intros Hi Eh Hok Hs E. destruct (whole_pure _ _ _ _ _ _ _ _ Hi Eh Hok E) as (w1 & -> & G & _ & _).
  f_equal. apply simple_plines; [exact Hs|].
  rewrite (grows_cp _ _ _ (proj2 G)) by exact (held_handle w h cp Eh). reflexivity.
Qed.

(* ---- what the other operations leave alone ---- *)
(* hframe h: the binding of handle h is the same, the no_color slots only grow *)
Definition hframe (h : Z) (w w' : world) : Prop :=
  zfind h (w_hcmds w') = zfind h (w_hcmds w) /\ (forall x, In x (w_slots w) -> In x (w_slots w')).

Lemma hframe_eq h w w' : w_hcmds w' = w_hcmds w -> w_slots w' = w_slots w -> hframe h w w'.
Proof. intros H S. split; [rewrite H; reflexivity|rewrite S; auto]. Qed.

Lemma hframe_trans h a b c : hframe h a b -> hframe h b c -> hframe h a c.
Proof. intros (H1 & S1) (H2 & S2). split; [congruence|auto]. Qed.

Lemma move_hcmds w w' : move true fts w w' -> w_hcmds w' = w_hcmds w.
Proof. destruct 1 as [w w' (_ & _ & _ & _ & _ & _ & S)| | | | | | | |]; try reflexivity. exact S. Qed.

Lemma moves_hcmds w w' : mvs w w' -> w_hcmds w' = w_hcmds w.
Proof. induction 1 as [|a b c Hm _ IH]; [reflexivity|]. rewrite IH. exact (move_hcmds _ _ Hm). Qed.

Lemma hframe_moves h w w' : mvs w w' -> hframe h w w'.
Proof. intros M. split; [rewrite (moves_hcmds _ _ M); reflexivity|intros x; apply (moves_slots fts w w' x M)]. Qed.

Lemma hframe_gc h w : hframe h w (gc true w).
Proof. apply hframe_eq; reflexivity. Qed.

Lemma hframe_bind h h' p w : h' <> h -> hframe h w (set_hcmds w ((h', p) :: zdel h' (w_hcmds w))).
Proof.
  intros Hne. split; [|auto]. cbn [w_hcmds set_hcmds zfind].
  destruct (h' =? h) eqn:E; [apply Z.eqb_eq in E; contradiction|]. apply zfind_zdel_ne. congruence.
Qed.

(* operations that do not re-bind handle h *)
Definition keeps (h : Z) (o : op) : Prop :=
  match o with OMake h' _ _ _ _ _ => h' <> h | _ => True end.

Lemma step_hframe w o w' outs h :
  inv fts w -> op_ok o -> keeps h o -> step true fts w o = Ok (w', outs) -> hframe h w w'.
Proof.
  intros Hi Hok Hk.
  destruct o as [c nc init|c|c items|copt|obj copt nc pa mode ids|h' K copt nc pa ids|h' obj ids|h' obj mode ids]; cbn [step].
  - intros [= <- _]. apply hframe_eq; reflexivity.
  - intros [= <- _]. apply hframe_eq; reflexivity.
  - intros [= <- _]. eapply hframe_trans; [|apply hframe_gc]. apply hframe_moves. apply moves_add_items; [apply Hi|exact Hok].
  - destruct copt as [c|].
    + intros [= <- _]. eapply hframe_trans; [|apply hframe_gc].
      eapply hframe_trans; [apply (hframe_eq h w (set_global w (Some c))); reflexivity|].
      apply hframe_moves. apply moves_resync. apply Hi.
    + intros [= <- _]. eapply hframe_trans; [|apply hframe_gc].
      eapply hframe_trans;
        [apply (hframe_eq h w (set_global (set_nextc (put_conf w (w_nextc w) (dflt_conf false)) (w_nextc w - 1)) (Some (w_nextc w)))); reflexivity|].
      apply hframe_moves. apply moves_resync. apply Hi.
  - pose proof (obj_ok_all obj) as Hobj. pose proof Hok as Hpa.
    pose proof (inv_set_oracle fts w ids Hi) as H0.
    destruct (mk_palette true (set_oracle w ids) (o_cls obj) pa copt nc) as [[w1 cp]|] eqn:E1; [|discriminate].
    cbn [bind]. pose proof (inv_mk_palette fts _ _ _ _ _ _ _ H0 Hpa E1) as H1.
    pose proof (inv_set_stack fts w1 [cp] H1) as H1'.
    destruct (consume true fts (set_stack w1 [cp]) cp obj mode) as [[w2 t2]|] eqn:E2; [|discriminate].
    cbn [bind fst snd]. intros [= <- _].
    eapply hframe_trans; [apply (hframe_eq h w (set_oracle w ids)); reflexivity|].
    eapply hframe_trans; [apply hframe_moves; eapply moves_mk_palette; [apply H0|exact Hpa|exact E1]|].
    eapply hframe_trans; [apply (hframe_eq h w1 (set_stack w1 [cp])); reflexivity|].
    eapply hframe_trans; [apply hframe_moves; apply (good_consume true fts _ _ _ _ _ _ (proj1 H1') (or_introl eq_refl) Hobj E2)|].
    eapply hframe_trans; [apply (hframe_eq h w2 (set_stack w2 [])); reflexivity|]. apply hframe_gc.
  - pose proof (inv_set_oracle fts w ids Hi) as H0.
    destruct (mk_palette true (set_oracle w ids) K pa copt nc) as [[w1 cp]|] eqn:E1; [|discriminate].
    cbn [bind fst snd]. intros [= <- _].
    eapply hframe_trans; [apply (hframe_eq h w (set_oracle w ids)); reflexivity|].
    eapply hframe_trans; [apply hframe_moves; eapply moves_mk_palette; [apply H0|exact Hok|exact E1]|].
    eapply hframe_trans; [apply hframe_bind; exact Hk|]. apply hframe_gc.
  - destruct (zfind h' (w_hcmds w)) as [cp|] eqn:Eh; [|discriminate].
    pose proof (inv_set_oracle fts w ids Hi) as H0.
    destruct (gen_lines true fts (set_oracle w ids) cp obj) as [[w1 ls]|] eqn:E1; [|discriminate]. cbn [bind fst snd].
    intros [= <- _]. eapply hframe_trans; [apply (hframe_eq h w (set_oracle w ids)); reflexivity|].
    eapply hframe_trans; [|apply hframe_gc]. apply hframe_moves.
    apply (good_gen_lines true fts _ _ _ _ _ (proj1 H0) (held_handle w h' cp Eh) (obj_ok_all obj) E1).
  - destruct (zfind h' (w_hcmds w)) as [cp|] eqn:Eh; [|discriminate].
    pose proof (inv_set_oracle fts w ids Hi) as H0.
    destruct (consume true fts (set_oracle w ids) cp obj mode) as [[w1 ts1]|] eqn:E1; [|discriminate]. cbn [bind fst snd].
    intros [= <- _]. eapply hframe_trans; [apply (hframe_eq h w (set_oracle w ids)); reflexivity|].
    eapply hframe_trans; [|apply hframe_gc]. apply hframe_moves.
    apply (good_consume true fts _ _ _ _ _ _ (proj1 H0) (held_handle w h' cp Eh) (obj_ok_all obj) E1).
Qed.

Lemma run_hframe ops : forall w w' outs h,
  inv fts w -> Forall (op_ok) ops -> Forall (keeps h) ops -> run_ops true fts w ops = Ok (w', outs) ->
  hframe h w w' /\ inv fts w'.
Proof.
  induction ops as [|o ops IH]; intros w w' outs h Hi Hok Hk; cbn [run_ops].
  - intros [= <- _]. split; [apply hframe_eq; reflexivity|exact Hi].
  - inversion Hok as [|? ? Ho Hops]; subst. inversion Hk as [|? ? Hko Hkops]; subst.
    destruct (step true fts w o) as [[w1 t1]|] eqn:E1; [|discriminate]. cbn [bind fst snd].
    destruct (run_ops true fts w1 ops) as [[w2 t2]|] eqn:E2; [|discriminate]. cbn [bind fst snd].
    intros [= <- _]. pose proof (inv_step fts _ _ _ _ Hi Ho E1) as Hi1.
    destruct (IH _ _ _ h Hi1 Hops Hkops E2) as [F2 Hi2]. split; [|exact Hi2].
    eapply hframe_trans; [exact (step_hframe _ _ _ _ h Hi Ho Hko E1)|exact F2].
Qed.

(* ---- creation of a handle ---- *)
Lemma make_handle w h K copt nc pa ids w' outs :
  inv fts w -> pa <> PSynced -> step true fts w (OMake h K copt nc pa ids) = Ok (w', outs) ->
  exists cp, zfind h (w_hcmds w') = Some cp /\ outs = [] /\
    (nc = true -> In (K, cp) (w_slots w')) /\
    (nc = false -> pa = PNone -> p_colors (pal_of w' cp) = top_colors (conf_in_force w copt) K).
Proof.
  intros Hi Hpa. cbn [step]. pose proof (inv_set_oracle fts w ids Hi) as H0.
  destruct (mk_palette true (set_oracle w ids) K pa copt nc) as [[w1 cp]|] eqn:E1; [|discriminate].
  cbn [bind fst snd]. intros [= <- <-]. exists cp. split.
  - change (w_hcmds (gc true (set_hcmds w1 ((h, cp) :: zdel h (w_hcmds w1))))) with ((h, cp) :: zdel h (w_hcmds w1)).
    cbn [zfind]. rewrite Z.eqb_refl. reflexivity.
  - split; [reflexivity|]. split.
    + intros ->. exact (mk_palette_nc fts _ _ _ _ _ _ H0 Hpa E1).
    + intros -> ->. change (pal_of (gc true (set_hcmds w1 ((h, cp) :: zdel h (w_hcmds w1)))) cp) with (pal_of w1 cp).
      rewrite (mk_palette_col fts _ _ _ _ _ H0 E1). rewrite conf_in_force_oracle. reflexivity.
Qed.

(* ---- history form: a no_color result, whatever is created / consumed / rendered /
   registered / dropped between its creation and its consumption, prints plain text ---- *)
Lemma interleaved_no_color_l w h K copt pa ids w1 o1 ops w2 o2 obj ids' :
  inv fts w -> pa <> PSynced ->
  step true fts w (OMake h K copt true pa ids) = Ok (w1, o1) ->
  Forall (op_ok) ops -> Forall (keeps h) ops -> run_ops true fts w1 ops = Ok (w2, o2) ->
  obj_ok obj ->
  (forall w3 outs, step true fts w2 (ONext h obj ids') = Ok (w3, outs) -> outs = [text_lines (plain_lines fts (o_lines obj))]) /\
  (forall mode w3 outs, step true fts w2 (OWholeH h obj mode ids') = Ok (w3, outs) -> outs = texts_of mode (plain_lines fts (o_lines obj))).
Proof.
  intros Hi Hpa E1 Hok Hk E2 Hobj.
  destruct (make_handle _ _ _ _ _ _ _ _ _ Hi Hpa E1) as (cp & Eh & _ & Hs & _). specialize (Hs eq_refl).
  assert (inv fts w1) as Hi1 by (exact (inv_step fts w (OMake h K copt true pa ids) w1 o1 Hi Hpa E1)).
  destruct (run_hframe ops _ _ _ h Hi1 Hok Hk E2) as [[Fh Fs] Hi2].
  rewrite <- Fh in Eh. apply Fs in Hs. split.
  - intros w3 outs E. exact (next_no_color _ _ _ _ _ _ _ _ Hi2 Eh Hs Hobj E).
  - intros mode w3 outs E. exact (whole_no_color _ _ _ _ _ _ _ _ _ Hi2 Eh Hs Hobj E).
Qed.

End Handle.
