(* C02/LemSession.v -- a parser object answers the same at every moment of its life
   (model level; see C02/Session.v for what the correspondence run adds). *)
From Coq Require Import ZArith List Bool Lia.
From AK Require Import Common.Err LLP.Base LLP.Table LLP.Build C02.Model C02.Session C02.LemReject.
Import ListNotations.

(* ---- the methods hand back the parser they were given ---- *)
Lemma m_parse_same : forall p k toks, fst (m_parse p k toks) = p.
Proof. reflexivity. Qed.

Lemma m_is_ambiguous_same : forall p, fst (m_is_ambiguous p) = p.
Proof. reflexivity. Qed.

Lemma m_parse_result : forall p k toks, snd (m_parse p k toks) = p_parse p k toks.
Proof. reflexivity. Qed.

Lemma m_parse_from_same : forall p k s toks, fst (m_parse_from p k s toks) = p.
Proof. reflexivity. Qed.

(* parse(text) is parse(text, start_symbol_name = the constructor's start symbol) *)
Lemma p_parse_from_start : forall ug terminals smart start p k toks,
  build ug terminals smart start = Ok p -> mem start (gkeys (p_grammar p)) = true ->
  p_parse_from p k (p_start p) toks = p_parse p k toks.
Proof.
  intros ug terminals smart start p k toks B M. unfold p_parse_from, p_parse.
  destruct (build_fields _ _ _ _ _ B) as [_ [_ [Hs _]]]. rewrite Hs.
  rewrite M. reflexivity.
Qed.

Lemma m_is_ambiguous_result : forall p, snd (m_is_ambiguous p) = is_ambiguous (p_tables p).
Proof. reflexivity. Qed.

Lemma get_set_same : forall W w x, get_obj (set_obj W w x) w = x.
Proof. intros [a b] [|] x; reflexivity. Qed.

Lemma get_set_other : forall W w x, get_obj (set_obj W w x) (negb w) = get_obj W (negb w).
Proof. intros [a b] [|] x; reflexivity. Qed.

Lemma set_get_id : forall W w, set_obj W w (get_obj W w) = W.
Proof. intros [a b] [|]; reflexivity. Qed.

Section S.
  Variable ug : list (sym * list (list sym)).
  Variable terminals : list sym.
  Variable start : sym.
  Variable fuel : nat.
  Variable inputs : list (list (sym * list Z)).

  Notation do_op := (do_op ug terminals start fuel inputs).
  Notation session := (session ug terminals start fuel inputs).
  Notation fresh_obj := (fresh_obj ug terminals start).
  Notation fresh_world := (fresh_world ug terminals start).
  Notation fresh_obs := (fresh_obs ug terminals start fuel inputs).
  Notation slot_ok := (slot_ok ug terminals start).
  Notation world_ok := (world_ok ug terminals start).

  Lemma fresh_get : forall w, get_obj fresh_world w = fresh_obj w.
  Proof. intros [|]; reflexivity. Qed.

  Lemma slot_set : forall W w v x, (x = None \/ x = fresh_obj w) -> slot_ok W v -> slot_ok (set_obj W w x) v.
  Proof.
    intros W w v x Hx Hv. unfold Session.slot_ok in *.
    destruct (Bool.bool_dec v w) as [->|Hne].
    - rewrite get_set_same. exact Hx.
    - assert (v = negb w) as -> by (destruct v, w; try reflexivity; exfalso; apply Hne; reflexivity).
      rewrite get_set_other. exact Hv.
  Qed.

  Lemma world_set : forall W w x, (x = None \/ x = fresh_obj w) -> world_ok W -> world_ok (set_obj W w x).
  Proof. intros W w x Hx [H1 H2]. split; apply slot_set; auto. Qed.

  (* an operation never leaves an object in a state the constructor does not produce *)
  Lemma do_op_world : forall W o, world_ok W -> world_ok (fst (do_op W o)).
  Proof.
    intros W o HW. destruct o as [w|w|w i|w i s]; cbn [Session.do_op].
    - destruct (build ug terminals w start) as [p|e] eqn:B; cbn [fst]; apply world_set; auto.
      right. unfold Session.fresh_obj. rewrite B. reflexivity.
    - destruct (get_obj W w) as [p|] eqn:G; cbn [fst]; auto.
      unfold m_is_ambiguous. cbn [fst]. rewrite <- G, set_get_id. exact HW.
    - destruct (get_obj W w) as [p|] eqn:G; cbn [fst]; auto.
      destruct (nth_error inputs i) as [inp|]; cbn [fst]; auto.
      unfold m_parse. cbn [fst]. rewrite <- G, set_get_id. exact HW.
    - destruct (get_obj W w) as [p|] eqn:G; cbn [fst]; auto.
      destruct (nth_error inputs i) as [inp|]; cbn [fst]; auto.
      unfold m_parse_from. cbn [fst]. rewrite <- G, set_get_id. exact HW.
  Qed.

  (* ... and answers what a never-used object answers (or there is no object) *)
  Lemma do_op_obs : forall W o, world_ok W -> snd (do_op W o) = BNone \/ snd (do_op W o) = fresh_obs o.
  Proof.
    intros W o [H0 H1]. unfold Session.fresh_obs.
    assert (HS : forall w, get_obj W w = None \/ get_obj W w = get_obj fresh_world w).
    { intro w. rewrite fresh_get. destruct w; [exact H1|exact H0]. }
    destruct o as [w|w|w i|w i s]; cbn [Session.do_op].
    - right. destruct (build ug terminals w start); reflexivity.
    - destruct (HS w) as [E|E]; rewrite E; [left; reflexivity|].
      right. destruct (get_obj fresh_world w); reflexivity.
    - destruct (HS w) as [E|E]; rewrite E; [left; reflexivity|].
      right. destruct (get_obj fresh_world w); [|reflexivity].
      destruct (nth_error inputs i); reflexivity.
    - destruct (HS w) as [E|E]; rewrite E; [left; reflexivity|].
      right. destruct (get_obj fresh_world w); [|reflexivity].
      destruct (nth_error inputs i); reflexivity.
  Qed.

  Lemma session_history_independent_from : forall ops W, world_ok W ->
    Forall2 (fun o b => b = BNone \/ b = fresh_obs o) ops (session W ops).
  Proof.
    induction ops as [|o r IH]; intros W HW; cbn [Session.session]; [constructor|].
    pose proof (do_op_obs W o HW) as HO. pose proof (do_op_world W o HW) as HW'.
    destruct (do_op W o) as [W' b]. cbn [fst snd] in *. constructor; auto.
  Qed.

  Lemma no_objects_ok : world_ok no_objects.
  Proof. split; left; reflexivity. Qed.

  Lemma session_history_independent_l : forall ops,
    Forall2 (fun o b => b = BNone \/ b = fresh_obs o) ops (session no_objects ops).
  Proof. intro ops. apply session_history_independent_from. apply no_objects_ok. Qed.

  Lemma Forall2_nth : forall (A B : Type) (P : A -> B -> Prop) l1 l2 n a b,
    Forall2 P l1 l2 -> nth_error l1 n = Some a -> nth_error l2 n = Some b -> P a b.
  Proof.
    intros A B P l1 l2 n a b H. revert n. induction H as [|x y l1 l2 Hxy H IH]; intros n Ha Hb.
    - destruct n; discriminate.
    - destruct n as [|n]; cbn in Ha, Hb.
      + inversion Ha; inversion Hb; subst. exact Hxy.
      + eapply IH; eauto.
  Qed.

  Lemma session_length : forall ops W, length (session W ops) = length ops.
  Proof.
    induction ops as [|o r IH]; intro W; cbn [Session.session]; [reflexivity|].
    destruct (do_op W o) as [W' b]. cbn [length]. rewrite IH. reflexivity.
  Qed.

  Lemma session_w_eq : forall ops W, session_w ug terminals start fuel inputs W ops = (session W ops, final_world ug terminals start fuel inputs W ops).
  Proof.
    induction ops as [|o r IH]; intro W; cbn [Session.session_w Session.session Session.final_world]; [reflexivity|].
    destruct (do_op W o) as [W' b]. cbn [fst]. rewrite IH. reflexivity.
  Qed.

  Lemma final_world_ok_from : forall ops W, world_ok W -> world_ok (final_world ug terminals start fuel inputs W ops).
  Proof.
    induction ops as [|o r IH]; intros W HW; cbn [Session.final_world]; [exact HW|].
    apply IH. apply do_op_world. exact HW.
  Qed.

  (* whatever the program did, every object it leaves is an object as constructed *)
  Lemma final_world_fresh_l : forall ops w p,
    get_obj (final_world ug terminals start fuel inputs no_objects ops) w = Some p ->
    build ug terminals w start = Ok p.
  Proof.
    intros ops w p G. pose proof (final_world_ok_from ops no_objects no_objects_ok) as [H0 H1].
    assert (H : get_obj (final_world ug terminals start fuel inputs no_objects ops) w = None \/
                get_obj (final_world ug terminals start fuel inputs no_objects ops) w = fresh_obj w)
      by (destruct w; [exact H1|exact H0]).
    destruct H as [H|H]; rewrite H in G; [discriminate|].
    unfold Session.fresh_obj in G. destruct (build ug terminals w start); inversion G. reflexivity.
  Qed.

  Lemma fresh_obs_amb : forall w p, build ug terminals w start = Ok p ->
    fresh_obs (OAmb w) = BAmb (is_ambiguous (p_tables p)).
  Proof.
    intros w p B. unfold Session.fresh_obs. cbn [Session.do_op]. rewrite fresh_get.
    unfold Session.fresh_obj. rewrite B. reflexivity.
  Qed.

  Lemma fresh_obs_parse : forall w i p inp, build ug terminals w start = Ok p ->
    nth_error inputs i = Some inp ->
    fresh_obs (OParse w i) = BParse (p_parse p fuel (mk_toks inp)).
  Proof.
    intros w i p inp B I. unfold Session.fresh_obs. cbn [Session.do_op]. rewrite fresh_get.
    unfold Session.fresh_obj. rewrite B, I. reflexivity.
  Qed.

  Lemma fresh_obs_parse_from : forall w i s p inp, build ug terminals w start = Ok p ->
    nth_error inputs i = Some inp ->
    fresh_obs (OParseFrom w i s) = BParse (p_parse_from p fuel s (mk_toks inp)).
  Proof.
    intros w i s p inp B I. unfold Session.fresh_obs. cbn [Session.do_op]. rewrite fresh_get.
    unfold Session.fresh_obj. rewrite B, I. reflexivity.
  Qed.

  (* whenever object w answers is_ambiguous(), in any program, it answers what the
     freshly constructed parser answers *)
  Lemma is_ambiguous_any_moment_l : forall ops n w b p,
    build ug terminals w start = Ok p ->
    nth_error ops n = Some (OAmb w) ->
    nth_error (session no_objects ops) n = Some (BAmb b) ->
    b = is_ambiguous (p_tables p).
  Proof.
    intros ops n w b p B Ho Hb.
    pose proof (Forall2_nth _ _ _ _ _ n _ _ (session_history_independent_l ops) Ho Hb) as [H|H].
    - discriminate.
    - rewrite (fresh_obs_amb w p B) in H. inversion H. reflexivity.
  Qed.

  Lemma parse_any_moment_l : forall ops n w i inp r p,
    build ug terminals w start = Ok p ->
    nth_error inputs i = Some inp ->
    nth_error ops n = Some (OParse w i) ->
    nth_error (session no_objects ops) n = Some (BParse r) ->
    r = p_parse p fuel (mk_toks inp).
  Proof.
    intros ops n w i inp r p B I Ho Hb.
    pose proof (Forall2_nth _ _ _ _ _ n _ _ (session_history_independent_l ops) Ho Hb) as [H|H].
    - discriminate.
    - rewrite (fresh_obs_parse w i p inp B I) in H. inversion H. reflexivity.
  Qed.

  Lemma parse_from_any_moment_l : forall ops n w i s inp r p,
    build ug terminals w start = Ok p ->
    nth_error inputs i = Some inp ->
    nth_error ops n = Some (OParseFrom w i s) ->
    nth_error (session no_objects ops) n = Some (BParse r) ->
    r = p_parse_from p fuel s (mk_toks inp).
  Proof.
    intros ops n w i s inp r p B I Ho Hb.
    pose proof (Forall2_nth _ _ _ _ _ n _ _ (session_history_independent_l ops) Ho Hb) as [H|H].
    - discriminate.
    - rewrite (fresh_obs_parse_from w i s p inp B I) in H. inversion H. reflexivity.
  Qed.

  (* an object that exists does answer: after a successful OBuild w, as long as no later
     OBuild w raises, OAmb w / OParse w i (i a valid index) are never BNone *)
  Lemma built_answers : forall ops W w p,
    get_obj W w = Some p -> build ug terminals w start = Ok p ->
    forall n o b, nth_error ops n = Some o -> nth_error (session W ops) n = Some b ->
      match o with
      | OAmb v => v = w -> b <> BNone
      | OParse v i | OParseFrom v i _ => v = w -> (i < length inputs)%nat -> b <> BNone
      | OBuild _ => b <> BNone
      end.
  Proof.
    induction ops as [|o r IH]; intros W w p G B n o' b Ho Hb; [destruct n; discriminate|].
    cbn [Session.session] in Hb.
    destruct n as [|n].
    - cbn in Ho. inversion Ho; subst o'. clear Ho.
      destruct (do_op W o) as [W' b'] eqn:D. cbn in Hb. inversion Hb; subst b'. clear Hb.
      destruct o as [v|v|v i|v i s]; cbn [Session.do_op] in D.
      + destruct (build ug terminals v start); inversion D; discriminate.
      + intros ->. rewrite G in D. inversion D. discriminate.
      + intros -> Hi. rewrite G in D.
        destruct (nth_error inputs i) eqn:I; [inversion D; discriminate|].
        apply nth_error_None in I. lia.
      + intros -> Hi. rewrite G in D.
        destruct (nth_error inputs i) eqn:I; [inversion D; discriminate|].
        apply nth_error_None in I. lia.
    - cbn in Ho. destruct (do_op W o) as [W' b'] eqn:D. cbn in Hb.
      apply (IH W' w p) with (n := n); auto.
      assert (W' = fst (do_op W o)) as -> by (rewrite D; reflexivity).
      destruct o as [v|v|v i|v i s]; cbn [Session.do_op].
      + destruct (Bool.bool_dec v w) as [->|Hne].
        * rewrite B. cbn [fst]. apply get_set_same.
        * assert (w = negb v) as -> by (destruct v, w; try reflexivity; exfalso; apply Hne; reflexivity).
          destruct (build ug terminals v start); cbn [fst]; rewrite get_set_other; exact G.
      + destruct (get_obj W v) eqn:G'; cbn [fst]; auto.
        unfold m_is_ambiguous. rewrite <- G', set_get_id. exact G.
      + destruct (get_obj W v) eqn:G'; cbn [fst]; auto.
        destruct (nth_error inputs i); cbn [fst]; auto.
        unfold m_parse. rewrite <- G', set_get_id. exact G.
      + destruct (get_obj W v) eqn:G'; cbn [fst]; auto.
        destruct (nth_error inputs i); cbn [fst]; auto.
        unfold m_parse_from. rewrite <- G', set_get_id. exact G.
  Qed.
End S.
