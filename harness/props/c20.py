"""C20  Short uuid strings are a bijective encoding of UUIDs  (ak/short_uuid.py)"""
import ast
import os

from harness.lib import sx as SX
from harness.props import c20_translate

ID = "C20"
COQ_DIR = "C20"
RUN_MOD = "C20.Run"
MODEL_TARGETS = ["C20/Run.vo"]
PROOF_TARGETS = ["C20/Lemmas.vo", "C20/TransEq.vo"]
PROPS = ["C20/Props.v", "C20/PropsTranslated.v"]
ALLOWED_AXIOMS = []
IMPL_TIMEOUT = 5.0
COQ_SHARD = 80   # printed observations of long call sequences overflow coqc's stack in bigger files
RULE = ("single calls: boundary values 0, 2^128-1, 57^k, 57^k +-1, random 128-bit values; every single-digit string "
        "(22 positions x 57 letters); lengths 0/21/23; excluded alphanumerics, punctuation and non-ASCII at "
        "every position; encodings of numbers in [2^128, 57^22); canonical/braces/urn/32-hex forms; non-str "
        "arguments.  SEQUENCES of calls made in one process on a freshly loaded module (kind seq:<family>): a string then "
        "its letter-case variants (lower/upper/swapcase/casefold/title, single flips) in both orders and through both "
        "decoders; a string then decorated/truncated/extended/unicode-folded relatives (blanks, braces, urn:, dashes, "
        "zero-width, fullwidth, look-alike letters, padding letter added/removed/shifted); the same call 2-3 times; valid "
        "then invalid and back; every form of one uuid through both decoders and the encoder; encode then decode (and "
        "relatives of the encoder's output); uuids sharing low/high bits or hash(); strings at edit distance 1-2, rotations; "
        "mixed histories of 6-12 calls over a small pool; histories of ~460 calls with 300 distinct arguments for one "
        "function (bounded memories evict), oldest arguments asked again.  Each call of a sequence is also run ALONE on a "
        "freshly loaded module.  Non-trivial = distinct case that reaches the codec (to_short of a non-zero value, "
        "from_short of a 22-character string, from_str, or a sequence of >= 2 calls).")
TRUSTED_BASE = [
    "uuid.UUID(int=n) raises ValueError exactly when not 0 <= n < 2**128 (CPython Lib/uuid.py), uuid.UUID(str) "
    "is an oracle value passed to the model for uuid_from_str and assumed to reject every string shorter than 32 characters",
    "gen/C20_Consts.v: _ALPHABET, _SHORT_GUID_LEN and the exception classes caught around the decoder are read from ak/short_uuid.py by harness/props/c20.py:gen_consts (ast, fail-closed)",
    "the shared translator harness/lib/pytranslate.py (Python ast -> Gallina, NOT verified; harness/props/c20_translate.py is the thin "
    "C20 wrapper: ENTRY parameter types, the uuid externals, whole-module mode; self test "
    "`python -m harness.lib.pytranslate --selftest` compares ~4000 calls of 19 translated functions with CPython) and "
    "coq/Common/PyLib.v (+ the uuid_lib record of coq/C20/PyLib.v), which gives each Python construct its meaning (int=Z, str=list of code points, floor // and %, negative "
    "indices and clamped slices, IndexError/KeyError/ValueError/TypeError of [] / dict[] / .index / .rjust, dict = association list "
    "where a later key wins, short-circuit and/or, try/except as a match on the res monad, while = Fixpoint on fuel with Err Hang). "
    "Supported subset (anything else raises = proof step broken): module level = docstring, `import uuid`, NAME = pure expression, "
    "plain defs (no decorators/defaults/*args/nested defs/recursion/global); statements = assignment to names or tuples of names, "
    "augmented assignment on int/str, if/elif/else, pass, assert, return <expr>, raise Class(...) [from name], bare raise, "
    "try/except Class|(Classes) [as name] without else/finally, while and for (over str, list, reversed, enumerate, range, zip) "
    "without else/break/continue/return inside; expressions = int/str/bool literals, names, + - * // % divmod unary-, ** and << by "
    "a literal, str + / * , comparisons, in / not in, and/or/not, conditional expression, len, isinstance(x, str|int), seq[i], "
    "[a:b], [::-1], dict[k], list.index, str.rjust/ljust/strip/lstrip/rstrip/join, list(), dict(), one-`for` comprehensions, calls "
    "of the module's own functions, uuid.UUID(int=e), uuid.UUID(str), .int; exception classes ValueError KeyError IndexError "
    "TypeError AssertionError AttributeError (+ LookupError, Exception in except clauses)",
    "the standard library enters the translated functions as the record uuid_lib (coq/C20/PyLib.v) and the theorems instantiate it "
    "with coq/C20/TransInst.v:mk_lib = the same contracts the hand model assumes: a UUID object is its 128-bit integer (u.int), "
    "uuid.UUID(int=n) returns it or raises ValueError exactly when not 0 <= n < 2**128, uuid.UUID(str) answers as the recorded "
    "oracle value for the string of the call (of_str_oracle) and is unknown (OtherErr) for any other string",
    "parameter types of the API functions declared in c20_translate.ENTRY: uuid_from_short_str(any object: a str or something that is "
    "not a str), uuid_to_short_str(uuid.UUID), uuid_from_str(str); the helpers' types are inferred from their call sites",
    "the model of a call sequence is the single-call model applied to each call (eval_seq = map eval_call): that ak/short_uuid.py "
    "keeps no state between calls is NOT proved about the hand model, it is checked by running the generated call sequences "
    "(and every call alone) against the implementation; importlib.reload(ak.short_uuid) is taken to restore the state "
    "the module has right after import (state kept outside that module would survive it).  (For a source the translator accepts "
    "it also follows from the subset, which has no construct that writes module-level or shared state.)",
]
ASSUMPTIONS = ["arguments of uuid_to_short_str are uuid.UUID objects (0 <= int < 2**128)"]
MODELLED = ("ak/short_uuid.py completely, twice: hand-written Gallina model (coq/C20/Model.v) and the machine translation of the "
            "current source (coq/gen/C20_Translated.v), proved equal (coq/C20/TransEq.v); uuid.UUID itself is trusted")

ALPHA57 = "23456789ABCDEFGHJKLMNPQRSTUVWXYZabcdefghijkmnopqrstuvwxyz"


class ExtractError(Exception):
    pass


# ------------------------------------------------------------------ constants
def gen_consts(repo):
    """constants (ast extractor below) + translation of the whole module (c20_translate / harness/lib/pytranslate.py).  The
    translation of THIS source (or the stub saying why there is none) is written even when the constant extractor refuses
    the source; any refusal is raised (= proof step broken)."""
    src = open(os.path.join(repo, "ak", "short_uuid.py")).read()
    try:
        translated, terr = c20_translate.translate(src), None
    except c20_translate.Unsupported as e:
        translated, terr = c20_translate.stub(str(e)), e
    from harness.lib import coqrun
    try:
        gens = _gen_consts_only(src)
    except Exception:
        with coqrun.Lock():
            coqrun.write_gen("C20_Translated", translated)
        raise
    gens["C20_Translated"] = translated
    if terr is not None:
        with coqrun.Lock():
            for name, text in gens.items():
                coqrun.write_gen(name, text)
        raise ExtractError(f"translator (harness/props/c20_translate.py -> harness/lib/pytranslate.py): {terr}")
    return gens


def _gen_consts_only(src):
    tree = ast.parse(src)
    alphabet = None
    short_len = None
    caught = None
    for node in tree.body:
        if isinstance(node, ast.Assign) and len(node.targets) == 1 and isinstance(node.targets[0], ast.Name):
            name = node.targets[0].id
            if name == "_ALPHABET":
                try:
                    val = eval(compile(ast.Expression(node.value), "<alphabet>", "eval"), {"list": list, "__builtins__": {}})
                except Exception as e:
                    raise ExtractError(f"_ALPHABET is not a literal expression: {e}")
                if isinstance(val, str):
                    val = list(val)
                if not (isinstance(val, list) and all(isinstance(c, str) and len(c) == 1 for c in val)):
                    raise ExtractError("_ALPHABET is not a list of characters")
                alphabet = val
            elif name == "_SHORT_GUID_LEN":
                if not (isinstance(node.value, ast.Constant) and isinstance(node.value.value, int)):
                    raise ExtractError("_SHORT_GUID_LEN is not an int literal")
                short_len = node.value.value
        if isinstance(node, ast.FunctionDef) and node.name == "uuid_from_short_str":
            tries = [n for n in node.body if isinstance(n, ast.Try)]
            if len(tries) != 1 or len(tries[0].handlers) != 1:
                raise ExtractError("uuid_from_short_str: expected exactly one try with one handler")
            h = tries[0].handlers[0]
            # the handler must translate into ValueError
            if not (len(h.body) == 1 and isinstance(h.body[0], ast.Raise) and isinstance(h.body[0].exc, ast.Call)
                    and isinstance(h.body[0].exc.func, ast.Name) and h.body[0].exc.func.id == "ValueError"):
                raise ExtractError("uuid_from_short_str: handler does not raise ValueError")
            t = h.type
            if t is None:
                raise ExtractError("bare except")
            names = [t] if isinstance(t, ast.Name) else list(t.elts) if isinstance(t, ast.Tuple) else None
            if names is None or not all(isinstance(n, ast.Name) for n in names):
                raise ExtractError("unrecognised except clause")
            caught = [n.id for n in names]
    if alphabet is None or short_len is None or caught is None:
        raise ExtractError("could not find _ALPHABET / _SHORT_GUID_LEN / except clause")
    emap = {"ValueError": "ValueErr", "KeyError": "KeyErr", "IndexError": "IndexErr", "TypeError": "TypeErr",
            "LookupError": "KeyErr; IndexErr", "Exception": "ValueErr; KeyErr; IndexErr; AssertErr; AttrErr; TypeErr; OtherErr"}
    for c in caught:
        if c not in emap:
            raise ExtractError(f"unknown exception class {c}")
    if not 0 <= short_len <= 200:
        raise ExtractError("unreasonable _SHORT_GUID_LEN")
    text = ("(* generated from ak/short_uuid.py by harness/props/c20.py -- do not edit *)\n"
            "From Coq Require Import ZArith List.\nFrom AK Require Import Common.Err.\nImport ListNotations.\n"
            f"Definition alphabet : list Z := {SX.cZlist(ord(c) for c in alphabet)}.\n"
            f"Definition short_len : nat := {short_len}%nat.\n"
            f"Definition caught : list err := [{'; '.join(emap[c] for c in caught)}].\n")
    return {"C20_Consts": text}


# ------------------------------------------------------------------ cases
def enc57(n, alpha=ALPHA57, width=22):
    out = ""
    while n:
        n, d = divmod(n, len(alpha))
        out += alpha[d]
    return out + alpha[0] * (width - len(out))


def gen_cases(rng, tier):
    big = tier == "thorough"
    cases = []
    M = 1 << 128

    def to_short(u):
        cases.append({"k": "to_short", "u": u})

    def from_short(s):
        cases.append({"k": "from_short", "s": s})

    def from_str(s):
        cases.append({"k": "from_str", "s": s})
    for u in [0, 1, 56, 57, 58, M - 1, M - 2, M >> 1]:
        to_short(u)
    for k in range(1, 22):
        for d in (-1, 0, 1):
            v = 57 ** k + d
            if 0 <= v < M:
                to_short(v)
    for _ in range(4000 if big else 300):
        to_short(rng.getrandbits(rng.choice([8, 16, 32, 64, 100, 127, 128])))
    # every single-digit string
    for pos in range(22):
        for ch in ALPHA57:
            s = ALPHA57[0] * pos + ch + ALPHA57[0] * (21 - pos)
            from_short(s)
    # wrong lengths
    for n in (0, 1, 21, 23, 32, 36):
        from_short(ALPHA57[3] * n)
    # foreign characters at every position
    foreign = "01IOl-_ {}é中\U0001f600\n"
    for pos in range(22):
        for ch in (foreign if big else rng.sample(foreign, 5)):
            base = enc57(rng.getrandbits(120))
            from_short(base[:pos] + ch + base[pos + 1:])
    # numbers >= 2^128 that still have 22 digits
    top = 57 ** 22
    for v in [M, M + 1, top - 1, top - 57, (M + top) // 2]:
        from_short(enc57(v))
    for _ in range(2000 if big else 120):
        from_short(enc57(rng.randrange(M, top)))
    for _ in range(3000 if big else 200):
        from_short(enc57(rng.getrandbits(128)))
    for _ in range(2000 if big else 100):
        from_short("".join(rng.choice(ALPHA57) for _ in range(22)))
    # near the 2^128 boundary
    for d in range(-3, 4):
        from_short(enc57(M + d))
    # non-str arguments
    for tag in ("none", "int", "bytes", "list"):
        cases.append({"k": "from_short", "s": None, "nonstr": tag})
    # uuid_from_str
    import uuid as _u
    for _ in range(1500 if big else 120):
        v = rng.getrandbits(128)
        u = _u.UUID(int=v)
        form = rng.choice(["canon", "hex", "braces", "urn", "short", "upper"])
        s = {"canon": str(u), "hex": u.hex, "braces": "{" + str(u) + "}", "urn": u.urn,
             "short": enc57(v), "upper": str(u).upper()}[form]
        from_str(s)
    for s in ["", "x", "0" * 22, "0" * 32, "g" * 32, "-" * 22, str(_u.UUID(int=5))[:-1], enc57(M), enc57(7) + "2"]:
        from_str(s)
    cases += gen_seq_cases(rng, tier)
    return cases


# ---- sequences of calls made in ONE process (state kept between calls becomes visible)
FULLWIDTH = {c: chr(ord(c) - 0x21 + 0xFF01) for c in ALPHA57}
CONFUSABLE = {"O": "0", "o": "0", "I": "1", "i": "1", "L": "l", "Z": "2", "z": "2", "S": "5", "s": "5", "B": "8", "b": "6",
              "2": "Z", "5": "S", "8": "B", "6": "b", "1": "l", "0": "O"}


def case_variants(s, rng, n_flips=3):
    """strings that differ from s only in letter case (s itself excluded)"""
    out = [s.lower(), s.upper(), s.swapcase(), s.casefold(), s.capitalize(), s.title()]
    letters = [i for i, c in enumerate(s) if c.swapcase() != c]
    for i in rng.sample(letters, min(n_flips, len(letters))):
        out.append(s[:i] + s[i].swapcase() + s[i + 1:])
    if len(letters) >= 2:
        i, j = rng.sample(letters, 2)
        t = list(s)
        t[i], t[j] = t[i].swapcase(), t[j].swapcase()
        out.append("".join(t))
    seen, res = {s}, []
    for v in out:
        if v not in seen:
            seen.add(v)
            res.append(v)
    return res


def decorated_variants(s, rng):
    """strings a careless normalisation (strip / replace / truncate / unicode folding) maps onto s"""
    a0 = ALPHA57[0]
    i = rng.randrange(1, max(2, len(s)))
    j = rng.randrange(len(s)) if s else 0
    out = [" " + s, s + " ", s + "\n", "\t" + s + " ", s + "\x00", "{" + s + "}", "urn:uuid:" + s, "uuid:" + s,
           s[:i] + "-" + s[i:], s[:i] + " " + s[i:], s[:i] + "\u200b" + s[i:], s[:i] + "_" + s[i:],
           s + a0, a0 + s, s[:-1], s[1:], s + s[-1:], a0 + s[:-1], s[1:] + a0, s.rstrip(a0), s.lstrip(a0),
           s[::-1], s + s, "'" + s + "'", '"' + s + '"', s + "=", s + "\r\n"]
    if s:
        c = s[j]
        if c in FULLWIDTH:
            out.append(s[:j] + FULLWIDTH[c] + s[j + 1:])
        for k, ch in enumerate(s):
            if ch in CONFUSABLE:
                out.append(s[:k] + CONFUSABLE[ch] + s[k + 1:])
                break
        out.append(s[:j] + s[j] + "\u0301" + s[j + 1:])
    seen, res = {s}, []
    for v in out:
        if v not in seen:
            seen.add(v)
            res.append(v)
    return res


def gen_seq_cases(rng, tier):
    import uuid as _u
    big = tier == "thorough"
    M = 1 << 128
    top = 57 ** 22
    out = []

    def seq(tag, calls):
        out.append({"k": "seq", "tag": tag, "calls": [list(c) for c in calls]})

    def rand_uuid():
        return rng.getrandbits(rng.choice([16, 64, 100, 127, 128, 128, 128]))

    def rand_short():
        # strings with many letters (case matters) as well as encodings of random uuids
        if rng.random() < 0.5:
            return enc57(rng.getrandbits(128))
        s = "".join(rng.choice(ALPHA57[8:]) for _ in range(21)) + rng.choice(ALPHA57[:40])
        return s

    def dec_op():
        return rng.choice(["from_str", "from_short"])

    def forms(v):
        u = _u.UUID(int=v)
        return {"canon": str(u), "upper": str(u).upper(), "hex": u.hex, "braces": "{" + str(u) + "}", "urn": u.urn}

    n = 140 if big else 36
    # 1. a string, then strings differing from it only in letter case (both orders, both decoders, and across them)
    for _ in range(n):
        s = rand_short()
        for v in case_variants(s, rng):
            o1, o2 = dec_op(), dec_op()
            first, second = (s, v) if rng.random() < 0.5 else (v, s)
            seq("case-variants", [(o1, first), (o2, second)])
        vs = case_variants(s, rng)
        pool = [s] + vs
        seq("case-variants-many", [("from_str", x) for x in [s] + vs + [s]])
        seq("case-variants-many", [(dec_op(), rng.choice(pool)) for _ in range(rng.randrange(3, 9))])
    # 2. a string, then decorated / truncated / extended / folded relatives of it
    for _ in range(n):
        s = rand_short() if rng.random() < 0.7 else enc57(rng.getrandbits(rng.choice([8, 40, 90])))
        vs = decorated_variants(s, rng)
        for v in rng.sample(vs, min(len(vs), 8 if big else 5)):
            o1, o2 = dec_op(), dec_op()
            first, second = (s, v) if rng.random() < 0.7 else (v, s)
            seq("decorated", [(o1, first), (o2, second)])
        seq("decorated-many", [(dec_op(), x) for x in [s] + vs + [s]])
    # 3. the same call twice / three times (valid, invalid, canonical, too big)
    for _ in range(n):
        v = rng.getrandbits(128)
        arg = rng.choice([enc57(v), enc57(rng.randrange(M, top)), forms(v)["canon"], forms(v)["hex"],
                          enc57(v)[:-1] + "0", enc57(v)[:-1], ""])
        o = dec_op()
        seq("same-twice", [(o, arg)] * rng.choice([2, 3]))
        seq("same-twice", [("to_short", v)] * rng.choice([2, 3]))
        seq("same-twice", [("from_str", arg), ("from_short", arg), ("from_str", arg), ("from_short", arg)])
    # 4. valid then invalid and invalid then valid, unrelated strings (a remembered last result / last error)
    for _ in range(n):
        good = [enc57(rng.getrandbits(128)) for _ in range(2)]
        bad = rng.choice([enc57(rng.randrange(M, top)), good[0][:5] + rng.choice("01IOl-é") + good[0][6:],
                          good[0][:-1], good[0] + "2", "", "z" * 22])
        o = dec_op()
        seq("valid-invalid", [(o, good[0]), (o, bad), (o, good[1]), (o, bad)])
        seq("valid-invalid", [(o, bad), (o, good[0])])
        seq("valid-invalid", [("from_short_nonstr", rng.choice(sorted(NONSTR))), ("from_short", good[0]),
                              ("from_short_nonstr", rng.choice(sorted(NONSTR)))])
    # 5. every form of one uuid through both decoders and the encoder, in random order
    for _ in range(n):
        v = rand_uuid()
        f = forms(v)
        f["short"] = enc57(v)
        calls = [("from_str", x) for x in f.values()] + [("from_short", x) for x in f.values()] + [("to_short", v)] * 2
        rng.shuffle(calls)
        seq("forms-of-one-uuid", calls[:rng.randrange(4, len(calls) + 1)])
        k = rng.choice(["canon", "upper", "hex", "braces", "urn"])
        seq("canonical-then-short-decoder", [("from_str", f[k]), ("from_short", f[k]), ("to_short", v), ("from_str", f[k])])
        seq("canonical-then-short-decoder", [("to_short", v), ("from_str", f[k]), ("to_short", v)])
    # 6. encode then decode, decode then encode, decode relatives of a string the encoder produced
    for _ in range(n):
        v = rand_uuid()
        s = enc57(v)
        seq("encode-decode", [("to_short", v), ("from_short", s), ("from_str", s), ("to_short", v)])
        seq("encode-decode", [("from_short", s), ("to_short", v), ("from_short", s)])
        seq("encode-decode", [("from_str", s), ("to_short", v)])
        rel = case_variants(s, rng, 1) + decorated_variants(s, rng)
        seq("encode-then-relative", [("to_short", v), (dec_op(), rng.choice(rel)), (dec_op(), s)])
        w = rand_uuid()
        seq("encode-decode", [("to_short", v), ("to_short", w), ("from_short", enc57(w)), ("from_short", s), ("to_short", v)])
    # 7. uuids a coarse key would identify (same low / high / middle bits, same hash, byte order)
    for _ in range(n):
        v = rng.getrandbits(128)
        other = rng.choice([
            v ^ (rng.getrandbits(32) + 1) << 96, v ^ (rng.getrandbits(63) + 1) << 64, v ^ (rng.getrandbits(63) + 1),
            v ^ (1 << rng.randrange(128)), (v + (2 ** 61 - 1)) % M, (v & ((1 << 64) - 1)), v >> 64,
            int.from_bytes(v.to_bytes(16, "big"), "little"), (v * 57) % M, v // 57, M - 1 - v])
        other %= M
        if other == v:
            other = (v + 1) % M
        o = dec_op()
        seq("related-uuids", [("to_short", v), ("to_short", other), (o, enc57(v)), (o, enc57(other)), ("to_short", v)])
        seq("related-uuids", [(o, enc57(other)), (o, enc57(v)), ("to_short", other), ("to_short", v)])
    # 8. digit-shifted strings of small numbers (keys stripped of the padding letter)
    for _ in range(n):
        v = rng.getrandbits(rng.choice([5, 11, 30, 60])) + 1
        s = enc57(v)
        k = rng.randrange(1, 22 - len(s.rstrip(ALPHA57[0])) + 1)
        shifted = ALPHA57[0] * k + s[:22 - k]
        o = dec_op()
        seq("digit-shift", [(o, s), (o, shifted), ("to_short", v), (o, s)])
    # 8b. valid strings at a small edit distance (one letter substituted, two letters transposed, rotation, reversal):
    #     keys built from a part of the string, from its letters as a set, from a checksum
    for _ in range(n):
        s = rand_short()
        i, j = rng.sample(range(22), 2)
        sub1 = s[:i] + rng.choice([c for c in ALPHA57 if c != s[i]]) + s[i + 1:]
        tl = list(s)
        tl[i], tl[j] = tl[j], tl[i]
        near = [sub1, "".join(tl), s[1:] + s[:1], s[-1:] + s[:-1], s[::-1], s[:11][::-1] + s[11:], s[11:] + s[:11]]
        o = dec_op()
        x = rng.choice(near)
        seq("near-strings", [(o, s), (o, x), (o, s)])
        seq("near-strings", [(dec_op(), y) for y in [s] + rng.sample(near, 4) + [s]])
    # 9. longer mixed histories over a small pool of related arguments
    for _ in range(n):
        v = rng.getrandbits(128)
        s = rand_short()
        pool = [s, enc57(v)] + rng.sample(case_variants(s, rng), 2) + rng.sample(decorated_variants(s, rng), 2) + \
            [forms(v)[rng.choice(["canon", "upper", "hex", "braces", "urn"])]]
        calls = []
        for _ in range(rng.randrange(6, 13)):
            r = rng.random()
            if r < 0.15:
                calls.append(("to_short", rng.choice([v, _ref_decode(s)[1] if _ref_decode(s)[0] == "ok" else v])))
            elif r < 0.2:
                calls.append(("from_short_nonstr", rng.choice(sorted(NONSTR))))
            else:
                calls.append((dec_op(), rng.choice(pool)))
        seq("mixed-history", calls)
    # 10. long histories (bounded memories fill up and evict: more distinct arguments than a typical maxsize, each
    #     argument met again later, relatives of earlier arguments in between)
    sizes = [300, 300, 300, 300, 1100, 1100] if big else [300, 300]
    for idx, size in enumerate(sizes):
        o = ["from_str", "from_short"][idx % 2]      # the memory of ONE function is filled beyond 128 / 256 (1024) entries
        base = [rand_short() for _ in range(size)]
        pool = list(base)
        for s in rng.sample(base, 40):
            pool.append(rng.choice(case_variants(s, rng, 1)))
            pool.append(rng.choice(decorated_variants(s, rng)))
        calls = [(o, s) for s in base]
        calls += [(o, s) for s in base[:30]]          # the oldest entries again, after they may have been evicted
        for _ in range(100):
            r = rng.random()
            if r < 0.1:
                v = rng.getrandbits(128)
                calls.append(("to_short", v))
                pool.append(enc57(v))
            else:
                calls.append((dec_op(), rng.choice(pool)))
        calls += [(o, s) for s in rng.sample(base, 30)]
        seq("long-history", calls)
    return out


def kind(case):
    return case["k"] if case["k"] != "seq" else "seq:" + case.get("tag", "?")


def shrink_candidates(case):
    """shorter histories: every call alone, the history without one call, every pair (in order)"""
    if case.get("k") != "seq" or len(case["calls"]) < 2:
        return
    calls = case["calls"]
    n = len(calls)
    subs = [[c] for c in calls] + [calls[:i] + calls[i + 1:] for i in range(n)]
    if n > 2:
        subs += [[calls[i], calls[j]] for j in range(n - 1, 0, -1) for i in range(j)]
    seen = set()
    for s in subs:
        key = repr(s)
        if key not in seen and len(s) < n:
            seen.add(key)
            yield {"k": "seq", "tag": case.get("tag", "?"), "calls": s}


# ------------------------------------------------------------------ implementation
NONSTR = {"none": None, "int": 1234567890123456789012, "bytes": b"2" * 22, "list": list("2" * 22)}


def _call(f, *a):
    import uuid
    try:
        r = f(*a)
        if not isinstance(r, uuid.UUID):
            return ["err", "NotAUUID"]
        return ["ok", r.int]
    except BaseException as e:  # noqa
        if type(e).__name__ == "Hang":
            raise
        return ["err", SX.exc_name(e)]


def _alpha(su):
    a = getattr(su, "_ALPHABET", None)
    try:
        a = "".join(a)
    except Exception:
        return None
    return a if len(a) == 57 and len(set(a)) == 57 else None


def _fresh_module():
    """ak.short_uuid with its module-level state as right after import: every case (and every
    'alone' re-run of a call) starts from there, so a replay of one case reproduces"""
    import importlib
    from ak import short_uuid as su
    return importlib.reload(su)


def _fresh_str(s):
    # a new string object for every call (and no reference kept afterwards), as a caller who
    # builds the argument on the fly would pass: identities of arguments may repeat
    return "".join([c for c in s]) if isinstance(s, str) else s


def _do_call(su, op, arg):
    """one API call -> {"r": result, ["std": what uuid.UUID(arg) gives]}"""
    import uuid
    if op == "to_short":
        try:
            s = su.uuid_to_short_str(uuid.UUID(int=arg))
        except BaseException as e:  # noqa
            if type(e).__name__ == "Hang":
                raise
            return {"r": ["err", SX.exc_name(e)]}
        if not isinstance(s, str):
            return {"r": ["err", "NotAString"]}
        return {"r": ["ok", s]}
    if op == "from_short":
        return {"r": _call(su.uuid_from_short_str, _fresh_str(arg))}
    if op == "from_short_nonstr":
        a = NONSTR[arg]
        return {"r": _call(su.uuid_from_short_str, list(a) if isinstance(a, list) else a)}
    if op == "from_str":
        try:
            std = uuid.UUID(arg).int
        except ValueError:
            std = None
        return {"r": _call(su.uuid_from_str, _fresh_str(arg)), "std": std}
    raise ValueError(op)


def impl_run(case):
    import uuid
    su = _fresh_module()
    k = case["k"]
    if k == "to_short":
        u = uuid.UUID(int=case["u"])
        try:
            s = su.uuid_to_short_str(u)
        except Exception as e:
            return {"r": ["err", SX.exc_name(e)]}
        if not isinstance(s, str):
            return {"r": ["err", "NotAString"]}
        return {"r": ["ok", s], "back": _call(su.uuid_from_short_str, s), "alpha": _alpha(su)}
    if k == "from_short":
        arg = case["s"] if case["s"] is not None else NONSTR[case["nonstr"]]
        return {"r": _call(su.uuid_from_short_str, arg), "alpha": _alpha(su)}
    if k == "from_str":
        try:
            std = uuid.UUID(case["s"]).int
        except ValueError:
            std = None
        return {"r": _call(su.uuid_from_str, case["s"]), "std": std, "alpha": _alpha(su)}
    if k == "seq":
        # the calls one after another in this process, on one freshly loaded module ...
        res = [_do_call(su, op, arg) for op, arg in case["calls"]]
        alpha = _alpha(su)
        # ... and each call once more ALONE on a freshly loaded module
        alone = [_do_call(_fresh_module(), op, arg)["r"] for op, arg in case["calls"]]
        return {"seq": res, "alone": alone, "alpha": alpha}
    raise ValueError(k)


# ------------------------------------------------------------------ model side
def _coq_call(op, arg, o):
    if op == "to_short":
        return f"CToShort {SX.cZ(arg)}"
    if op == "from_short":
        return f"CFromShort (PStr {SX.cstr(arg)})"
    if op == "from_short_nonstr":
        return "CFromShort PNotStr"
    return f"CFromStr {SX.copt(o['std'], SX.cZ)} {SX.cstr(arg)}"


SEQ_PRINT_MAX = 40   # longer histories are compared inside Coq (SeqCmp) instead of being printed


def _coq_outcome(op, r):
    if r[0] == "ok":
        return f"OStr {SX.cstr(r[1])}" if op == "to_short" else f"ORes (Ok {SX.cZ(r[1])})"
    return f"ORes (Err {SX.COQ_ERR[SX.ERR_CODES.get(r[1], SX.ERR_OTHER)]})"


def coq_case(case, obs):
    k = case["k"]
    if k == "to_short":
        return f"ToShort {SX.cZ(case['u'])}"
    if k == "from_short":
        if case["s"] is None:
            return "FromShort PNotStr"
        return f"FromShort (PStr {SX.cstr(case['s'])})"
    if k == "seq":
        calls = SX.clist(_coq_call(op, arg, o) for (op, arg), o in zip(case["calls"], obs["seq"]))
        if len(case["calls"]) <= SEQ_PRINT_MAX:
            return "Seq " + calls
        return f"SeqCmp {calls} {SX.clist(_coq_outcome(op, o['r']) for (op, _), o in zip(case['calls'], obs['seq']))}"
    return f"FromStr {SX.copt(obs['std'], SX.cZ)} {SX.cstr(case['s'])}"


def in_model(case, obs):
    # a call that did not return has no observation to compare (the oracle reports it)
    return "__hang__" not in obs


def _sx_result(op, r):
    if op == "to_short":
        return SX.s(r[1]) if r[0] == "ok" else SX.err(r[1])
    return SX.ok(r[1]) if r[0] == "ok" else SX.err(r[1])


def expected_sx(case, obs):
    if case["k"] == "seq" and len(case["calls"]) > SEQ_PRINT_MAX:
        return "(1)"
    if case["k"] == "seq":
        return SX.dumps([_sx_result(op, o["r"]) for (op, _), o in zip(case["calls"], obs["seq"])])
    return SX.dumps(_sx_result(case["k"], obs["r"]))


# ------------------------------------------------------------------ oracle (statement, independently)
def _ref_decode(s, alpha=None):
    """what the property demands of uuid_from_short_str"""
    alpha = alpha or ALPHA57
    if not isinstance(s, str) or len(s) != 22 or any(c not in alpha for c in s):
        return ["err", "ValueError"]
    v = 0
    for c in reversed(s):
        v = v * 57 + alpha.index(c)
    if v >= 1 << 128:
        return ["err", "ValueError"]
    return ["ok", v]


def _judge(op, arg, r, std, alpha):
    """the property's demand on ONE call, whatever was called before -> [(sig, msg)]"""
    if op == "to_short":
        if r[0] != "ok":
            return [("encode-raises", f"uuid_to_short_str({arg}) raised {r[1]}")]
        s = r[1]
        a = alpha or ALPHA57
        if len(s) != 22 or len(set(a)) != 57 or any(c not in a for c in s):
            return [("shape", f"encoding {s!r} of {arg} is not 22 letters of a 57-letter alphabet")]
        if _ref_decode(s, alpha) != ["ok", arg]:
            return [("encode-wrong", f"uuid_to_short_str({arg}) = {s!r}, which denotes {_ref_decode(s, alpha)}")]
        return []
    if op in ("from_short", "from_short_nonstr"):
        want = _ref_decode(arg if op == "from_short" else None, alpha)
        if want != r:
            sig = "reject-not-valueerror" if want[0] == "err" and r[0] == "err" else \
                  "accepts-invalid" if want[0] == "err" else "decode-wrong"
            return [(sig, f"uuid_from_short_str({arg!r}) gave {r}, the property demands {want}")]
        return []
    want = ["ok", std] if std is not None else _ref_decode(arg, alpha)
    if want != r:
        sig = "from-str-reject-not-valueerror" if want[0] == "err" and r[0] == "err" else "from-str-wrong"
        return [(sig, f"uuid_from_str({arg!r}) gave {r}, the property demands {want}")]
    return []


def _show_calls(calls):
    names = {"to_short": "uuid_to_short_str", "from_short": "uuid_from_short_str",
             "from_short_nonstr": "uuid_from_short_str", "from_str": "uuid_from_str"}
    shown = [f"{names[op]}({arg!r})" for op, arg in calls]
    if len(shown) > 7:
        shown = shown[:2] + [f"... {len(shown) - 5} more calls ..."] + shown[-3:]
    return "; ".join(shown)


def oracle(case, obs):
    if "__hang__" in obs:
        return [("hang", "call did not return")]
    out = []
    k = case["k"]
    if k == "seq":
        calls = case["calls"]
        for i, ((op, arg), o, alone) in enumerate(zip(calls, obs["seq"], obs["alone"])):
            if o["r"] != alone:
                # calls must not influence each other: the same call alone (fresh module) answers differently
                out.append(("history-dependent",
                            f"call #{i + 1} {_show_calls([calls[i]])} gave {o['r']} after [{_show_calls(calls[:i])}] "
                            f"but {alone} when it is the only call made"))
            for sig, msg in _judge(op, arg, o["r"], o.get("std"), obs.get("alpha")):
                out.append(("seq-" + sig, f"call #{i + 1} of [{_show_calls(calls[:i + 1])}]: {msg}"))
        return out
    r = obs["r"]
    if k == "to_short":
        if r[0] != "ok":
            return [("encode-raises", f"uuid_to_short_str({case['u']}) raised {r[1]}")]
        s = r[1]
        alpha = obs.get("alpha") or ALPHA57
        if len(s) != 22 or len(set(alpha)) != 57 or any(c not in alpha for c in s):
            out.append(("shape", f"encoding {s!r} of {case['u']} is not 22 letters of a 57-letter alphabet"))
        if obs["back"] != ["ok", case["u"]]:
            out.append(("roundtrip", f"from_short(to_short({case['u']})) = {obs['back']}"))
    elif k == "from_short":
        out += _judge("from_short", case["s"], r, None, obs.get("alpha"))
    else:
        out += _judge("from_str", case["s"], r, obs["std"], obs.get("alpha"))
    return out


def nontrivial(case, obs):
    k = case["k"]
    if k == "to_short":
        return case["u"] > 0
    if k == "from_short":
        return isinstance(case["s"], str) and len(case["s"]) == 22
    if k == "seq":
        return len(case["calls"]) >= 2
    return True


def outcome(case, obs):
    if "__hang__" in obs:
        return "hang"
    if case["k"] == "seq":
        oks = [o["r"][0] == "ok" for o in obs["seq"]]
        return "seq:" + ("all-ok" if all(oks) else "all-raise" if not any(oks) else "some-ok-some-raise")
    r = obs["r"]
    return case["k"] + ":" + (r[0] if r[0] == "ok" else r[1])


TECHNIQUE = ("Coq proof (induction over digit lists / fuel) on a hand-written Gallina model + the source translated to Gallina on "
             "every run by a fail-closed Python-ast translator and PROVED extensionally equal to the hand model (so the property "
             "theorems are re-checked against the current text of the code) + per-run correspondence check (vm_compute of hand "
             "model AND translated functions vs implementation) + constants regenerated from the source")
LEVEL_TEXT = ("Full: roundtrip, shape, injective, accept_iff, surjective_on_valid, reject_value_error, from_str_both are "
              "proved in Coq for ALL 2^128 uuids and ALL strings (unbounded lists of code points) about the model of "
              "ak/short_uuid.py; calls_independent, seq_decode_exact, seq_decode_injective, seq_encode_decode lift them to "
              "arbitrary histories of calls (the model keeps no state, so these are corollaries; their content for the code "
              "lies in the correspondence on call sequences); alphabet, length and the caught exception classes are re-read "
              "from the source on every run, so NoDup alphabet, 2^128 <= 57^22 and 'KeyError is translated' are re-proved "
              "against the current code.  Tie to the code, second kind: on every run harness/lib/pytranslate.py (through harness/props/c20_translate.py) translates the "
              "whole current ak/short_uuid.py into coq/gen/C20_Translated.v and coq/C20/TransEq.v proves, for all inputs, "
              "translated_str_to_int_eq, translated_int_to_str_eq (fuel >= log2 n + 2), translated_to_short_eq, "
              "translated_from_short_eq, translated_from_str_eq, translated_seq_eq (translated function = hand model) and hence "
              "roundtrip_translated, shape_translated, injective_translated, accept_iff_translated, surjective_on_valid_translated, "
              "reject_value_error_translated, from_str_both_translated (coq/C20/PropsTranslated.v, fuel >= 130): an edit of the "
              "source that changes behaviour breaks one of these proof obligations (or leaves the translator's subset, which is "
              "reported as a broken proof step too), not only the correspondence.  The model AND the translated functions are compared "
              "with the implementation on ~2300 boundary/exhaustive-per-digit single calls and ~1300 call sequences (~7000 calls) "
              "per run.  Tested only (correspondence + oracle, not proved about the hand model): that the implementation's answer to "
              "a call does not depend on earlier calls.  Price: a behaviour-preserving rewrite of the source that the equivalence "
              "proof does not survive (e.g. a structurally different loop) is reported as a broken obligation with no failing input.")
LEVEL_NOTE = ("Trusted: Coq kernel + vm_compute; the translator harness/lib/pytranslate.py (+ wrapper c20_translate.py) and the Python semantics written down in "
              "coq/Common/PyLib.v (self-tested against CPython, not verified); the hand model's fidelity is no longer trusted for the "
              "source the translator accepts (it is proved equal to the translation), only the translator's; "
              "uuid.UUID(int=)/uuid.UUID(str)/.int of the standard library (record uuid_lib, instantiated by TransInst.mk_lib); "
              "the declared parameter types of the three API functions; the ast extractor and harness. "
              "Print Assumptions: closed under the global context for every theorem (29 statements; coqchk clean in the thorough tier).")
DESIGN_REF = "DESIGN.md section 8, C20"
