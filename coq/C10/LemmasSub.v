(* C10/LemmasSub.v -- coloured renderings of compound objects: every sub-palette
   used by the rendering carries the colours of the configuration in force as
   extended by class registrations (the only thing a rendering adds to a
   configuration) at the moment the sub-palette was first requested. *)
From Coq Require Import ZArith List Bool Lia.
From AK Require Import Common.Sx Common.Err C10.Sgr C10.SgrLemmas C10.Base gen.C10_Consts C10.Model
  C10.Lemmas C10.LemmasInv C10.LemmasRun C10.LemmasPure C10.LemmasTop.
Import ListNotations.
Open Scope Z_scope.

Section Sub.
Variable fts : list (Z * ftdef).

(* ---- anything preserved by get_sub_palette and by the enum cell cache is
   preserved by a whole rendering ---- *)
Section Preserve.
Variable cp : pid.
Variable P : world -> Prop.
Hypothesis P_get_sub : forall w K w' q, st_ok fts w cp -> P w -> get_sub true w cp K = Ok (w', q) -> P w'.
Hypothesis P_enum : forall w ft e v modi, P w -> P (fst (enum_cell fts w ft e v v modi)).

Lemma pres_render_item w it w' cs :
  st_ok fts w cp -> item_ok it -> P w -> render_item true fts w cp it = Ok (w', cs) -> P w'.
Proof.
  intros Hst Hok Hp. destruct it as [[K|] a t|t|ft K vkey lit modi]; cbn [render_item].
  - destruct (get_sub true w cp K) as [[w1 q]|] eqn:E; [|discriminate]. cbn [bind fst snd].
    intros [= <- _]. eapply P_get_sub; eassumption.
  - intros [= <- _]. exact Hp.
  - intros [= <- _]. exact Hp.
  - destruct (get_sub true w cp K) as [[w1 q]|] eqn:E; [|discriminate]. cbn [bind fst snd].
    pose proof (P_get_sub _ _ _ _ Hst Hp E) as H1. pose proof (P_enum w1 ft q lit modi H1) as H2.
    destruct (enum_cell fts w1 ft q lit lit modi) as [w2 c2]. cbn [fst] in H2. intros [= <- _]. exact H2.
Qed.

Lemma pres_render_line l : forall w w' cs,
  st_ok fts w cp -> Forall item_ok l -> P w -> render_line true fts w cp l = Ok (w', cs) -> P w'.
Proof.
  induction l as [|it l IH]; intros w w' cs Hst Hok Hp; cbn [render_line]; [intros [= <- _]; exact Hp|].
  inversion Hok as [|? ? Hit Hl]; subst.
  destruct (render_item true fts w cp it) as [[w1 c1]|] eqn:E1; [|discriminate]. cbn [bind fst snd].
  destruct (render_line true fts w1 cp l) as [[w2 c2]|] eqn:E2; [|discriminate]. cbn [bind fst snd].
  intros [= <- _].
  pose proof (good_render_item true fts _ _ _ _ _ (proj1 (proj1 Hst)) (proj2 Hst) Hit E1) as G1.
  eapply IH; [exact (st_ok_good fts _ _ _ Hst G1)|exact Hl| |exact E2]. eapply pres_render_item; eassumption.
Qed.

Lemma pres_render_lines ls : forall w w' css,
  st_ok fts w cp -> Forall (Forall item_ok) ls -> P w -> render_lines true fts w cp ls = Ok (w', css) -> P w'.
Proof.
  induction ls as [|l ls IH]; intros w w' css Hst Hok Hp; cbn [render_lines]; [intros [= <- _]; exact Hp|].
  inversion Hok as [|? ? Hl Hls]; subst.
  destruct (render_line true fts w cp l) as [[w1 c1]|] eqn:E1; [|discriminate]. cbn [bind fst snd].
  destruct (render_lines true fts w1 cp ls) as [[w2 c2]|] eqn:E2; [|discriminate]. cbn [bind fst snd].
  intros [= <- _].
  pose proof (good_render_line true fts _ _ _ _ _ (proj1 (proj1 Hst)) (proj2 Hst) Hl E1) as G1.
  eapply IH; [exact (st_ok_good fts _ _ _ Hst G1)|exact Hls| |exact E2]. eapply pres_render_line; eassumption.
Qed.

Lemma pres_touch_subs ks : forall w w', st_ok fts w cp -> P w -> touch_subs true w cp ks = Ok w' -> P w'.
Proof.
  induction ks as [|K ks IH]; intros w w' Hst Hp; cbn [touch_subs]; [intros [= <-]; exact Hp|].
  destruct (get_sub true w cp K) as [[w1 q]|] eqn:E; [|discriminate]. cbn [bind fst]. intros E2.
  pose proof (good_get_sub true fts _ _ _ _ _ (proj1 (proj1 Hst)) (proj2 Hst) E) as G1.
  eapply IH; [exact (st_ok_good fts _ _ _ Hst G1)| |exact E2]. eapply P_get_sub; eassumption.
Qed.

Lemma pres_gen_lines w o w' ls :
  st_ok fts w cp -> obj_ok o -> P w -> gen_lines true fts w cp o = Ok (w', ls) -> P w'.
Proof.
  intros Hst Hok Hp. unfold gen_lines.
  destruct (touch_subs true w cp (o_subs o)) as [w1|] eqn:E; [|discriminate]. cbn [bind]. intros E2.
  pose proof (good_touch_subs true fts _ _ _ _ (proj1 (proj1 Hst)) (proj2 Hst) E) as G1.
  eapply pres_render_lines; [exact (st_ok_good fts _ _ _ Hst G1)|exact Hok| |exact E2]. eapply pres_touch_subs; eassumption.
Qed.

Lemma pres_consume w o mode w' ts :
  st_ok fts w cp -> obj_ok o -> P w -> consume true fts w cp o mode = Ok (w', ts) -> P w'.
Proof.
  intros Hst Hok Hp. unfold consume.
  destruct (gen_lines true fts w cp o) as [[w1 ls]|] eqn:E1; [|discriminate]. cbn [bind].
  pose proof (pres_gen_lines _ _ _ _ Hst Hok Hp E1) as H1.
  destruct (mode =? 0); [intros [= <- _]; exact H1|].
  destruct (mode =? 1); [intros [= <- _]; exact H1|].
  pose proof (good_gen_lines true fts _ _ _ _ _ (proj1 (proj1 Hst)) (proj2 Hst) Hok E1) as G1.
  destruct (gen_lines true fts w1 cp o) as [[w2 ls2]|] eqn:E2; [|discriminate]. cbn [bind].
  pose proof (pres_gen_lines _ _ _ _ (st_ok_good fts _ _ _ Hst G1) Hok H1 E2) as H2.
  destruct (mode =? 2); intros [= <- _]; exact H2.
Qed.
End Preserve.

(* ---- the configuration of a palette during class_call ---- *)
Definition conf_grows (a b : conf) : Prop := conf_ext a b /\ c_nocolor b = c_nocolor a.

Lemma conf_grows_refl a : conf_grows a a.
Proof. split; [apply conf_ext_refl|reflexivity]. Qed.

Lemma conf_grows_trans a b c : conf_grows a b -> conf_grows b c -> conf_grows a c.
Proof. intros [E1 N1] [E2 N2]. split; [eapply conf_ext_trans; eassumption|congruence]. Qed.

Lemma cc_new_conf w2 c K w' p cf1 :
  conf_step cf1 (conf_of w2 c) ->
  cc_new true w2 c false K = Ok (w', p) -> conf_grows cf1 (conf_of w' c).
Proof.
  intros St. unfold cc_new. destruct (alloc true w2) as [[w4 q]|] eqn:Ea; [|discriminate].
  destruct (alloc_ok _ _ _ _ Ea) as [_ E4].
  intros H. assert (w' = cc_store (put_pal w4 q (new_pal w2 c false K)) c false K q) as -> by congruence.
  clear H. subst w4. unfold cc_store. cbn iota. rewrite conf_of_put_eq.
  change (conf_of (put_pal (set_oracle w2 (tl (w_oracle w2))) q (new_pal w2 c false K)) c) with (conf_of w2 c).
  split; [|cbn [cache_put c_nocolor]; apply St].
  eapply conf_ext_trans; [apply (conf_step_ext _ _ St)|].
  split; cbn [cache_put c_smap c_reg]; [exists []; symmetry; apply app_nil_r|apply incl_refl].
Qed.

Lemma register_conf_step w c K : w_synced w = [] -> conf_step (conf_of w c) (conf_of (register w c K) c).
Proof. intros Hs. rewrite register_eq by exact Hs. rewrite conf_of_put_eq. apply register_raw_step. Qed.

Lemma class_call_conf w copt K w' p :
  w_synced w = [] -> class_call true w copt false K false = Ok (w', p) ->
  conf_grows (conf_of (fst (cc_pre w copt)) (snd (cc_pre w copt))) (conf_of w' (snd (cc_pre w copt))).
Proof.
  intros Hs. rewrite class_call_eq.
  assert (w_synced (fst (cc_pre w copt)) = []) as Hs1 by (rewrite (moves_synced true fts _ _ (moves_cc_pre true fts w copt)); exact Hs).
  remember (fst (cc_pre w copt)) as w1 eqn:E1. remember (snd (cc_pre w copt)) as c eqn:Ec. clear E1 Ec.
  destruct (zfind K (c_cache (conf_of w1 c))) as [q|].
  - intros H. assert (w' = w1) as -> by congruence. apply conf_grows_refl.
  - intros H. exact (cc_new_conf _ _ _ _ _ _ (register_conf_step w1 c K Hs1) H).
Qed.

(* ---- the invariant of a coloured rendering in progress ---- *)
Definition sub_inv (cf0 : conf) (c : cid) (cp : pid) (w : world) : Prop :=
  conf_grows cf0 (conf_of w c) /\
  p_conf (pal_of w cp) = c /\ p_nocolor (pal_of w cp) = false /\
  forall K q, zfind K (p_subs (pal_of w cp)) = Some q ->
    exists cf', conf_grows cf0 cf' /\ p_colors (pal_of w q) = local_colors cf' K false.

Lemma sub_inv_get_sub cf0 c cp w K w' q :
  st_ok fts w cp -> sub_inv cf0 c cp w -> get_sub true w cp K = Ok (w', q) -> sub_inv cf0 c cp w'.
Proof.
  intros [Hi Hh] (G & Pc & Pn & S) E.
  pose proof (moves_get_sub true fts _ _ _ _ _ (proj1 Hi) Hh E) as (_ & Gr & _).
  revert E. unfold get_sub. destruct (zfind K (p_subs (pal_of w cp))) as [q0|] eqn:Ez.
  - intros [= <- <-]. exact (conj G (conj Pc (conj Pn S))).
  - rewrite Pc, Pn.
    destruct (class_call true w (Some c) false K false) as [[w1 q1]|] eqn:Ec; [|discriminate]. cbn [bind].
    intros [= <- <-].
    pose proof (class_call_conf _ _ _ _ _ (proj1 Hi) Ec) as G1. cbn [cc_pre fst snd] in G1.
    destruct (cache_reset_world fts _ _ _ _ _ Hi Ec) as [Cq _].
    destruct (moves_class_call true fts _ _ _ _ _ _ (proj1 Hi) Ec) as (_ & _ & L1).
    assert (pal_of w1 cp = pal_of w cp) as Ecp.
    { destruct L1 as (_ & _ & L). apply L. unfold hpinned. apply in_or_app. left. exact Hh. }
    assert (conf_grows cf0 (conf_of w1 c)) as G2 by (eapply conf_grows_trans; eassumption).
    split; [exact G2|]. rewrite pal_of_put_eq. unfold add_sub. cbn [p_conf p_nocolor p_subs].
    split; [rewrite Ecp; exact Pc|]. split; [rewrite Ecp; exact Pn|].
    intros K' q' Hz. cbn [zfind] in Hz. destruct (Z.eqb_spec K K') as [<-|Hne].
    + injection Hz as <-. exists (conf_of w1 c). split; [exact G2|].
      destruct (Z.eq_dec q1 cp) as [->|Hq].
      * rewrite pal_of_put_eq. cbn [p_colors]. exact Cq.
      * rewrite pal_of_put_ne by exact Hq. exact Cq.
    + rewrite Ecp in Hz. destruct (S _ _ Hz) as (cf' & Gc & Col). exists cf'. split; [exact Gc|]. rewrite <- Col.
      destruct Gr as (_ & _ & _ & Q). exact (Q cp K' q' Hh Hz).
Qed.

Lemma sub_inv_enum cf0 c cp w ft e v modi :
  sub_inv cf0 c cp w -> sub_inv cf0 c cp (fst (enum_cell fts w ft e v v modi)).
Proof.
  intros H. unfold enum_cell.
  destruct (zfind v (match zfind e (match zfind ft (w_enums w) with Some c0 => c0 | None => [] end) with Some x => x | None => [] end));
    cbn [fst]; exact H.
Qed.

(* after mk_palette: the palette of the object, its configuration, its existing sub-palettes *)
Lemma sub_inv_start w copt K w1 cp :
  inv fts w -> class_call true w copt false K false = Ok (w1, cp) ->
  sub_inv (conf_of (fst (cc_pre w copt)) (snd (cc_pre w copt))) (snd (cc_pre w copt)) cp w1.
Proof.
  intros Hi E. pose proof (class_call_conf _ _ _ _ _ (proj1 Hi) E) as G.
  destruct (moves_class_call true fts _ _ _ _ _ _ (proj1 Hi) E) as (M & Pst & _).
  unfold cc_post in Pst. apply zfind_In in Pst.
  pose proof (inv_moves fts _ _ Hi M) as (_ & _ & _ & Hc & _).
  pose proof (conf_of_cache_in _ _ _ _ Pst) as Hin.
  destruct (Hc _ _ _ _ Hin Pst) as (_ & B & D & _ & F).
  split; [exact G|]. split; [exact D|]. split; [exact B|].
  intros K' q Hz. apply zfind_In in Hz. pose proof (F _ _ Hz) as Hq.
  destruct (Hc _ _ _ _ Hin Hq) as (A' & _). eexists. split; [exact G|exact A'].
Qed.

Lemma render_colour_subs w obj copt mode ids w' outs :
  inv fts w -> obj_ok obj ->
  step true fts w (ORender obj copt false PNone mode ids) = Ok (w', outs) ->
  exists subc,
    outs = texts_of mode (pure_lines fts (top_colors (conf_in_force w copt) (o_cls obj)) subc (o_lines obj)) /\
    forall K, In K (lines_subs (o_lines obj)) ->
      exists cf', conf_grows (conf_in_force w copt) cf' /\ subc K = local_colors cf' K false.
Proof.
  intros Hi Hobj. cbn [step].
  pose proof (inv_set_oracle fts w ids Hi) as H0.
  destruct (mk_palette true (set_oracle w ids) (o_cls obj) PNone copt false) as [[w1 cp]|] eqn:E1; [|discriminate].
  cbn [bind]. assert (PNone <> PSynced) as Hpa by discriminate.
  pose proof (inv_mk_palette fts _ _ _ _ _ _ _ H0 Hpa E1) as H1.
  pose proof (inv_set_stack fts w1 [cp] H1) as H1'.
  destruct (consume true fts (set_stack w1 [cp]) cp obj mode) as [[w2 t2]|] eqn:E2; [|discriminate].
  cbn [bind fst snd]. intros [= <- <-].
  assert (st_ok fts (set_stack w1 [cp]) cp) as Hst by (split; [exact H1'|left; reflexivity]).
  destruct (consume_pure fts _ _ _ _ _ _ Hst Hobj E2) as (-> & G & Pr).
  cbn [mk_palette] in E1.
  pose proof (sub_inv_start _ _ _ _ _ H0 E1) as S1.
  assert (sub_inv (conf_of (fst (cc_pre (set_oracle w ids) copt)) (snd (cc_pre (set_oracle w ids) copt)))
                  (snd (cc_pre (set_oracle w ids) copt)) cp (set_stack w1 [cp])) as S1' by exact S1.
  pose proof (pres_consume cp _ (fun w K w' q Hs Hp Eg => sub_inv_get_sub _ _ _ _ _ _ _ Hs Hp Eg)
                (fun w ft e v modi Hp => sub_inv_enum _ _ _ _ _ _ _ _ Hp) _ _ _ _ _ Hst Hobj S1' E2) as (_ & _ & _ & S2).
  exists (subcol w2 cp). split.
  - rewrite plines_pure. f_equal. f_equal.
    rewrite (grows_cp _ _ _ (proj2 G)) by (left; reflexivity).
    change (pal_of (set_stack w1 [cp]) cp) with (pal_of w1 cp).
    rewrite (class_call_colours fts _ _ _ _ _ H0 E1). fold (conf_in_force (set_oracle w ids) copt).
    rewrite conf_in_force_oracle. reflexivity.
  - intros K HK. specialize (Pr K HK). unfold present in Pr. unfold subcol.
    destruct (zfind K (p_subs (pal_of w2 cp))) as [q|] eqn:Ez; [|congruence].
    destruct (S2 _ _ Ez) as (cf' & Gc & Col). exists cf'. split; [|exact Col].
    fold (conf_in_force (set_oracle w ids) copt) in Gc. rewrite conf_in_force_oracle in Gc. exact Gc.
Qed.

(* ---- warm configurations: every syntax id the class uses is present and
   resolved; then later registrations cannot change the class's colours ---- *)
Definition warm_cls (cf : conf) (K : cls) : bool :=
  forallb (fun as_ => zhas (snd as_) (c_smap cf) &&
                      match resolve (S (length (c_smap cf))) (c_smap cf) (snd as_) with Some _ => true | None => false end)
          (k_local (cinfo K)).

Lemma resolve_S f : forall m s st, resolve f m s = Some st -> resolve (S f) m s = Some st.
Proof.
  induction f as [|f IH]; intros m s st; [discriminate|].
  intros H. cbn [resolve] in H. change (resolve (S (S f)) m s) with
    (match zfind s m with
     | None => None
     | Some d => match d_parent d with
                 | None => Some (mkStyle (match d_fg d with FCol n => Some n | _ => None end) (d_bold d))
                 | Some p => match resolve (S f) m p with
                             | None => None
                             | Some ps => Some (mkStyle (match d_fg d with FInherit => s_fg ps | FDash => None | FCol n => Some n end)
                                                        (match d_bold d with Some b => Some b | None => s_bold ps end))
                             end
                 end
     end).
  destruct (zfind s m) as [d|]; [|discriminate]. destruct (d_parent d) as [p|]; [|exact H].
  destruct (resolve f m p) as [ps|] eqn:E; [|discriminate]. rewrite (IH _ _ _ E). exact H.
Qed.

Lemma resolve_plus k : forall f m s st, resolve f m s = Some st -> resolve (f + k) m s = Some st.
Proof.
  induction k as [|k IH]; intros f m s st H; [rewrite Nat.add_0_r; exact H|].
  rewrite Nat.add_succ_r. apply resolve_S. apply IH. exact H.
Qed.

Lemma resolve_app f : forall m x s st, resolve f m s = Some st -> resolve f (m ++ x) s = Some st.
Proof.
  induction f as [|f IH]; intros m x s st; [discriminate|]. cbn [resolve].
  destruct (zfind s m) as [d|] eqn:E; [|discriminate]. rewrite (zfind_app_some _ _ x _ E).
  destruct (d_parent d) as [p|]; [|auto].
  destruct (resolve f m p) as [ps|] eqn:Ep; [|discriminate]. rewrite (IH _ x _ _ Ep). auto.
Qed.

Lemma get_color_ext nc m x s :
  zhas s m = true -> resolve (S (length m)) m s <> None -> get_color nc (m ++ x) s = get_color nc m s.
Proof.
  intros Hh Hr. unfold get_color. rewrite Hh, (zhas_app _ _ x Hh). destruct nc; [reflexivity|].
  destruct (resolve (S (length m)) m s) as [st|] eqn:E; [|congruence].
  rewrite app_length. change (S (length m + length x)) with (S (length m) + length x)%nat.
  rewrite (resolve_plus (length x) _ _ _ _ (resolve_app _ _ x _ _ E)). reflexivity.
Qed.

Lemma local_colors_warm cf cf' K nc :
  conf_grows cf cf' -> warm_cls cf K = true -> local_colors cf' K nc = local_colors cf K nc.
Proof.
  intros [[(x & X) _] N] Hw. unfold local_colors. apply map_ext_in. intros [a s] Hin. cbn [fst snd].
  destruct nc; [reflexivity|]. f_equal. rewrite N, X.
  unfold warm_cls in Hw. rewrite forallb_forall in Hw. specialize (Hw _ Hin). cbn [snd] in Hw.
  apply andb_prop in Hw as [H1 H2]. apply get_color_ext; [exact H1|].
  destruct (resolve (S (length (c_smap cf))) (c_smap cf) s); [discriminate|discriminate].
Qed.

Lemma top_colors_warm cf K : warm_cls cf K = true -> top_colors cf K = local_colors cf K false.
Proof.
  intros Hw. unfold top_colors. apply local_colors_warm; [|exact Hw].
  destruct (register_raw_step reg_fuel cf K) as (N & E & _). split; [exact E|exact N].
Qed.

Lemma pure_line_ext top f g l :
  (forall K, In K (line_subs l) -> f K = g K) -> pure_line fts top f l = pure_line fts top g l.
Proof.
  unfold pure_line. induction l as [|it l IH]; intros H; [reflexivity|]. cbn [flat_map]. f_equal.
  - apply pure_item_ext. intros K HK. apply H. unfold line_subs. cbn [flat_map]. apply in_or_app. left. exact HK.
  - apply IH. intros K HK. apply H. unfold line_subs. cbn [flat_map]. apply in_or_app. right. exact HK.
Qed.

Lemma pure_lines_ext top f g ls :
  (forall K, In K (lines_subs ls) -> f K = g K) -> pure_lines fts top f ls = pure_lines fts top g ls.
Proof.
  unfold pure_lines. induction ls as [|l ls IH]; intros H; [reflexivity|]. cbn [map]. f_equal.
  - apply pure_line_ext. intros K HK. apply H. unfold lines_subs. cbn [flat_map]. apply in_or_app. left. exact HK.
  - apply IH. intros K HK. apply H. unfold lines_subs. cbn [flat_map]. apply in_or_app. right. exact HK.
Qed.

(* closed form for compound objects under a warm configuration *)
Lemma render_colour_warm w obj copt mode ids w' outs :
  inv fts w -> obj_ok obj ->
  warm_cls (conf_in_force w copt) (o_cls obj) = true ->
  (forall K, In K (lines_subs (o_lines obj)) -> warm_cls (conf_in_force w copt) K = true) ->
  step true fts w (ORender obj copt false PNone mode ids) = Ok (w', outs) ->
  outs = texts_of mode (pure_lines fts (local_colors (conf_in_force w copt) (o_cls obj) false)
                                   (fun K => local_colors (conf_in_force w copt) K false) (o_lines obj)).
Proof.
  intros Hi Hobj Wt Ws E. destruct (render_colour_subs _ _ _ _ _ _ _ Hi Hobj E) as (subc & -> & Hsub).
  f_equal. rewrite (top_colors_warm _ _ Wt). apply pure_lines_ext.
  intros K HK. destruct (Hsub K HK) as (cf' & G & ->). apply local_colors_warm; [exact G|apply Ws; exact HK].
Qed.

End Sub.
