"""C12  Tables are rectangular, aligned, width-bounded and account for every record
(ak/ppobj.py PPTable / _PPTableImpl / ReprStructure / FieldType / PPEnumFieldType, ak/color.py resize_chunks_list)"""
import ast
import os
import re

from harness.lib import sx as SX

ID = "C12"
COQ_DIR = "C12"
RUN_MOD = "C12.Run"
MODEL_TARGETS = ["C12/Run.vo"]
PROOF_TARGETS = ["C12/Lemmas.vo", "C12/HistLemmas.vo"]
PROPS = ["C12/Props.v"]
ALLOWED_AXIOMS = []
IMPL_TIMEOUT = 10.0
COQ_SHARD = 150

RULE = ("tables built through the public constructor PPTable(records, fields=, fmt=, fields_types=, fields_titles=, "
        "header=, footer=, limits=, skip_columns=): 1-4 fields, 1-6 columns (repeated fields, any order), width bounds "
        "none / ':w' / ':a-b' with 0 <= a <= b <= 12 (focus on 0..3) and a few a > b, break-by on 0-2 columns, enum "
        "fields (int / str / None keys, optional MISSING entry, names with syntax) in the modifiers none/full/val/name "
        "with missing and None values, 0-80 records of ints, bools, None, floats, tuples, strings (border characters "
        "| + - ., blanks, non-ASCII, empty, long), header / footer absent, empty, short and longer than the table, "
        "multi-line titles (newline, blanks to strip, non-str items), record limits from the fmt and from limits= chosen "
        "around len(lines) = n_first + n_last + 1, plus rejected inputs (bad modifier, every column skipped, empty "
        "title list).  Plus 2 (thorough 6) LONG tables per run: 1100-1500 visible records (no limits, or limits above the "
        "count), two columns of short values whose widest value sits after the 1000th record (column 0) / anywhere (column "
        "1) and fits the column's maximum or has to be cut to it.  Plus histories (400 quick / 4000 thorough): 1-3 such tables alive in one process, some sharing one "
        "PPEnumFieldType object between fields / tables or being near copies of each other (same field names, other columns, "
        "widths, limits, records), and 4-25 calls on them: the whole table printed (str() of the no-colour rendering, or the "
        "coloured rendering with the colour sequences stripped) any number of times, line iterators iter(table.ch_text()) of "
        "one or several tables opened and advanced 1-6 lines at a time in any interleaving (also interleaved with whole "
        "prints) and read to their end, table.set_fmt(...) (columns kept / '*' / same columns with other widths / new "
        "columns, limits kept / '*' / 'n:m', rarely a rejected modifier), table.remove_columns before the first print, "
        "PPTable(other records, fmt_obj=table.fmt, header=, footer=, limits=) clones; every call's result (lines / nothing / "
        "exception class) is compared with the model.  Non-trivial = distinct table that is printed and has at least one "
        "record; a history is non-trivial when at least two of its calls returned table lines.")
TRUSTED_BASE = [
    "Python's str(value), ==, isinstance(value, Number), str.split('\\n') and the set of characters removed by str.strip() "
    "(the harness passes str(value), the alignment class, 'is None' and the ==-class index of every value to the model; "
    "the strip() whitespace table is written out in C12/Model.v)",
    "len(str(PPEnumFieldType.MISSING)) (address dependent) is observed in the implementation run and passed to the model",
    "gen/C12_Consts.v: default column widths, dots count and character, blank, border characters, the slack of the record "
    "limit test, the texts of the skipped-records line and of the default footer, the enum defaults and _DFLT_LIMIT_LINES "
    "are read from ak/ppobj.py by harness/props/c12.py:gen_consts (ast, fail-closed)",
    "the fmt string used to build a table is composed by the harness from safe field names (f0..f3); parsing of fmt strings is "
    "property C13's subject and is not modelled here (the same holds for the fmt strings given to set_fmt)",
    "histories: the coloured rendering is observed through CHText.strip_colors(str(table)); a line delivered by an iterator is "
    "read as str(CHText(line)) after its batch was fetched and again at the end of the history (harness/props/c12.py:_impl_hist)",
]
ASSUMPTIONS = [
    "records are sequences with one value per field; values, header, footer and enum names contain no line break",
    "record limits are non-negative; header / footer / enum names are str",
    "Python-equal values of an enum column have the same str() (no True / 1 / 1.0 mixture in one enum column): the "
    "per-value text cache of PPEnumFieldType is not modelled",
    "histories: set_fmt is not called while a line iterator of that table is running, remove_columns only before the table "
    "(in its present format) was printed, and the records of a table are not changed between prints -- otherwise the column "
    "widths kept from the first print (col.width) make the text differ from a fresh print; the model has no such memory",
]
MODELLED = ("ak/ppobj.py: _PPTableImpl.gen_ch_lines/_make_table_line, ReprStructure.detect_actual_columns_widths and "
            "gen_title_lines_ch_chunks_all, RecordField._gen_title_lines/get_title_cell_text_len, FieldType.fit_to_width and "
            "default cell text, PPEnumFieldType text and length, limits selection (fmt section / limits=), skip_columns, "
            "modifier verification; ak/color.py: calc_chunks_len, resize_chunks_list; histories (C12/Hist.v): whole prints, "
            "lazy line iterators (CHTextResult.__iter__), _PPTableImpl.set_fmt / PPTableFormat._set_parsed_fmt / "
            "ReprStructure._set_parsed_fmt (columns and limits kept or replaced, widths negotiated again), remove_columns, "
            "PPTable(fmt_obj=) clones.  Not modelled: colours (only the visible text), fmt string parsing (C13), value paths "
            "other than positions, the column widths kept between prints (observable only after remove_columns on a printed "
            "table or after the records changed), threads.")

ENUM_MODS = ("full", "val", "name")


class ExtractError(Exception):
    pass


# ------------------------------------------------------------------ constants
def _find(body, name, typ):
    for n in body:
        if isinstance(n, typ) and n.name == name:
            return n
    raise ExtractError(f"{typ.__name__} {name} not found")


def _one(pattern, texts, what):
    hits = [m for m in (re.fullmatch(pattern, t, re.S) for t in texts) if m]
    if len(hits) != 1:
        raise ExtractError(f"{what}: expected exactly one statement of the known shape, found {len(hits)}")
    return hits[0]


def _lit(text, what):
    try:
        v = ast.literal_eval(text)
    except Exception as e:  # noqa
        raise ExtractError(f"{what}: not a literal: {text!r} ({e})")
    return v


def _char(text, what):
    v = _lit(text, what)
    if not (isinstance(v, str) and len(v) == 1):
        raise ExtractError(f"{what}: expected a single character, got {v!r}")
    return ord(v)


def _stmts(fn):
    """unparsed text of every statement of a function, nested ones included"""
    out = []
    for n in ast.walk(fn):
        if isinstance(n, ast.stmt) and n is not fn:
            out.append(ast.unparse(n))
    return out


def gen_consts(repo):
    src = open(os.path.join(repo, "ak", "ppobj.py")).read()
    tree = ast.parse(src)
    c = {}
    # --- FieldType.__init__(self, min_width=1, max_width=999)
    ft = _find(tree.body, "FieldType", ast.ClassDef)
    init = _find(ft.body, "__init__", ast.FunctionDef)
    names = [a.arg for a in init.args.args]
    if names != ["self", "min_width", "max_width"] or len(init.args.defaults) != 2:
        raise ExtractError("FieldType.__init__ signature changed")
    d = [_lit(ast.unparse(x), "FieldType.__init__ default") for x in init.args.defaults]
    if not all(isinstance(x, int) and not isinstance(x, bool) and 0 <= x <= 5000 for x in d):
        raise ExtractError(f"FieldType.__init__ defaults are not small non-negative ints: {d}")
    c["dflt_min_width"], c["dflt_max_width"] = d
    if [ast.unparse(s) for s in init.body] != ["self.min_width = min_width", "self.max_width = max_width"]:
        raise ExtractError("FieldType.__init__ body changed")
    # --- fit_to_width
    fit = _stmts(_find(ft.body, "fit_to_width", ast.FunctionDef))
    m = _one(r"dots_len = min\((\d+), width\)", fit, "fit_to_width dots_len")
    c["dots_max"] = int(m.group(1))
    _one(r"visible_text_len = width - dots_len", fit, "fit_to_width visible_text_len")
    _one(r"result = CHText\.resize_chunks_list\(ch_chunks, visible_text_len\)", fit, "fit_to_width resize")
    m = _one(r"result\.append\(cp\.warn\(('.*') \* dots_len\)\)", fit, "fit_to_width dots")
    c["c_dot"] = _char(m.group(1), "dots character")
    m = _one(r"filler = cp\.text\(('.*') \* filler_len\)", fit, "fit_to_width filler")
    c["c_space"] = _char(m.group(1), "filler character")
    _one(r"filler_len = width - CHText\.calc_chunks_len\(ch_chunks\)", fit, "fit_to_width filler_len")
    # --- _PPTableImpl
    impl = _find(tree.body, "_PPTableImpl", ast.ClassDef)
    init = _stmts(_find(impl.body, "__init__", ast.FunctionDef))
    m = _one(r"self\.footer = footer if footer is not None else f'([^{}']*)\{len\(self\.records\)\}([^{}']*)'", init,
             "default footer")
    c["footer_prefix"], c["footer_suffix"] = m.group(1), m.group(2)
    gen = _find(impl.body, "gen_ch_lines", ast.FunctionDef)
    st = _stmts(gen)
    # the test that decides whether limits apply
    slack = None
    for n in ast.walk(gen):
        if isinstance(n, ast.If):
            t = ast.unparse(n.test)
            m = re.fullmatch(r"n_first is not None and n_last is not None and \(?len\(table_lines\) (>=|>) "
                             r"n_first \+ n_last(?: \+ (\d+))?\)?", t)
            if m:
                if slack is not None:
                    raise ExtractError("two record-limit tests")
                k = int(m.group(2) or 0)
                slack = k if m.group(1) == ">" else k - 1
    if slack is None or slack < 0:
        raise ExtractError("record-limit test 'len(table_lines) > n_first + n_last + k' not recognised")
    c["limit_slack"] = slack
    m = _one(r"sep = cp\.border\(('.*')\)", st, "separator")
    c["c_sep"] = _char(m.group(1), "separator")
    m = _one(r"border_line = CHText\.make\(\[cp\.border\(''\.join\(\(('.*') \+ ('.*') \* col\.width for col in columns\)\) "
             r"\+ ('.*')\)\]\)", st, "border line")
    c["c_plus"] = _char(m.group(1), "border corner")
    c["c_minus"] = _char(m.group(2), "border dash")
    if _char(m.group(3), "border end") != c["c_plus"]:
        raise ExtractError("border line ends with a different corner character")
    _one(r"table_width = sum\(\(col\.width for col in columns\)\) \+ len\(columns\) \+ 1", st, "table_width")
    m = _one(r"break_line\.ch_text = CHText\(sep, ('.*') \* \(table_width - 2\), sep\)", st, "break line")
    if _char(m.group(1), "break line filler") != c["c_space"]:
        raise ExtractError("break line is not filled with the blank used for padding")
    m = _one(r"skipped_line_contents = FieldType\.fit_to_width\(\[cp\.warn\(('[^']*')\), "
             r"cp\.text\(f'\{n_skipped\}([^{}']*)'\)\], table_width - 2, ALIGN_LEFT, cp\)", st, "skipped-records line")
    c["skip_prefix"] = _lit(m.group(1), "skip prefix")
    c["skip_suffix"] = m.group(2)
    # --- PPTableFormat._DFLT_LIMIT_LINES
    fmtc = _find(tree.body, "PPTableFormat", ast.ClassDef)
    dl = None
    for n in fmtc.body:
        if isinstance(n, ast.Assign) and ast.unparse(n.targets[0]) == "_DFLT_LIMIT_LINES":
            dl = _lit(ast.unparse(n.value), "_DFLT_LIMIT_LINES")
    if not (isinstance(dl, tuple) and len(dl) == 2 and all(isinstance(x, int) and 0 <= x <= 5000 for x in dl)):
        raise ExtractError(f"_DFLT_LIMIT_LINES is not a pair of small non-negative ints: {dl!r}")
    c["dflt_limit_first"], c["dflt_limit_last"] = dl
    # --- PPEnumFieldType
    en = _find(tree.body, "PPEnumFieldType", ast.ClassDef)
    st = _stmts(_find(en.body, "__init__", ast.FunctionDef))
    m = _one(r"self\.enum_missing_value = enum_values\.get\(self\.MISSING, \(('[^']*'), '[^']*'\)\)", st, "enum missing default")
    c["enum_dflt_missing"] = _lit(m.group(1), "enum missing name")
    m = _one(r"self\.max_val_len = max\(\(len\(str\(x\)\) for x in self\.enum_values if x is not None\), default=(\d+)\)", st,
             "enum max_val_len")
    c["enum_dflt_val_len"] = int(m.group(1))
    mods = None
    for n in en.body:
        if isinstance(n, ast.Assign) and ast.unparse(n.targets[0]) == "_FMT_MODIFIERS":
            mods = _lit(ast.unparse(n.value), "_FMT_MODIFIERS")
    if not isinstance(mods, dict) or sorted(mods) != sorted(ENUM_MODS):
        raise ExtractError(f"enum format modifiers changed: {mods!r}")
    for k in ("footer_prefix", "footer_suffix", "skip_prefix", "skip_suffix", "enum_dflt_missing"):
        if "\n" in c[k]:
            raise ExtractError(f"{k} contains a line break")
    nat = lambda k: f"Definition {k} : nat := {SX.cnat(c[k])}.\n"   # noqa
    ch = lambda k: f"Definition {k} : Z := {SX.cZ(c[k])}%Z.\n"      # noqa
    st_ = lambda k: f"Definition {k} : list Z := {SX.cstr(c[k])}.\n"  # noqa
    text = ("(* generated from ak/ppobj.py by harness/props/c12.py -- do not edit *)\n"
            "From Coq Require Import ZArith List.\nImport ListNotations.\n"
            + nat("dflt_min_width") + nat("dflt_max_width") + nat("dots_max") + ch("c_dot") + ch("c_space")
            + ch("c_sep") + ch("c_plus") + ch("c_minus") + nat("limit_slack")
            + st_("skip_prefix") + st_("skip_suffix") + st_("footer_prefix") + st_("footer_suffix")
            + st_("enum_dflt_missing") + nat("enum_dflt_val_len")
            + nat("dflt_limit_first") + nat("dflt_limit_last"))
    return {"C12_Consts": text}


# ------------------------------------------------------------------ values
def dec(v):
    """JSON value of a case -> python value"""
    if isinstance(v, dict):
        if v.get("t") == "tuple":
            return tuple(dec(x) for x in v["v"])
        raise ValueError(f"bad value {v!r}")
    if isinstance(v, list):
        return [dec(x) for x in v]
    return v


def is_right(v):
    from numbers import Number
    return v is True or v is False or v is None or isinstance(v, Number)


def _key(v):
    """hashable stand-in with the same == classes as v"""
    if isinstance(v, list):
        return ("__list__", tuple(_key(x) for x in v))
    if isinstance(v, tuple):
        return tuple(_key(x) for x in v)
    return v


class EqIds:
    def __init__(self):
        self.ids = {}

    def __call__(self, v):
        return self.ids.setdefault(_key(v), len(self.ids))


def visible_cols(case):
    """[(col dict)] after skip_columns; col dicts are normalised"""
    cols = case.get("cols")
    if cols is None:
        cols = [{"f": i, "mod": None, "brk": False, "w": None} for i in range(len(case["fields"]))]
    skip = set(case.get("skip") or [])
    return [c for c in cols if c["f"] not in skip]


def all_cols(case):
    cols = case.get("cols")
    if cols is None:
        cols = [{"f": i, "mod": None, "brk": False, "w": None} for i in range(len(case["fields"]))]
    return cols


def col_bounds(c):
    w = c.get("w")
    if w is None:
        return None
    return (w[0], w[0]) if len(w) == 1 else (w[0], w[1])


def make_fmt(case):
    cols = case.get("cols")
    parts = []
    if cols is not None:
        for c in cols:
            s = case["fields"][c["f"]]["name"]
            if c.get("mod"):
                s += "/" + c["mod"]
            if c.get("brk"):
                s += "!"
            w = c.get("w")
            if w is not None:
                s += ":" + "-".join(str(x) for x in w)
            parts.append(s)
    fl = case.get("fmt_limits")
    cs = ",".join(parts)
    if fl is None:
        return cs if cols is not None else None
    if fl == "*":
        return cs + ";*"
    return cs + f";{fl[0]}:{fl[1]}"


def effective_limits(case):
    al = case.get("arg_limits")
    if al is not None:
        return al[0], al[1]
    fl = case.get("fmt_limits")
    if fl is None or fl == "*":
        return None, None
    return fl[0], fl[1]


def title_arg(t):
    """case title -> python argument for fields_titles"""
    if t is None:
        return None
    items = [dec(x["o"]) if isinstance(x, dict) and "o" in x else x for x in t["items"]]
    if t.get("single") and len(items) == 1:
        return items[0]
    return items if not t.get("tuple") else tuple(items)


# ------------------------------------------------------------------ implementation
def _impl_chunks(case):
    """FieldType.fit_to_width / CHText.resize_chunks_list called directly on lists of chunks"""
    from ak.color import CHText
    from ak.ppobj import PPTable, FieldType
    chunks = [CHText.Chunk.make_plain(t) for t in case["chunks"]]
    try:
        if case["k"] == "fit":
            cp = PPTable._mk_palette(None, True, None)
            res = FieldType.fit_to_width(chunks, case["w"], case["al"], cp)
        else:
            res = CHText.resize_chunks_list(chunks, case["n"])
        texts = [c.text for c in res]
    except Exception as e:  # noqa
        return {"r": ["err", SX.exc_name(e)]}
    if not all(isinstance(t, str) for t in texts):
        return {"r": ["err", "NotAString"]}
    return {"r": ["ok", texts]}


def _build_table(case, enums=None):
    """PPTable(...) of a table description.  enums: {enum_id: PPEnumFieldType}; fields that carry the same
    "enum_id" (in this or in another table of a history) get the very same field type object"""
    from ak.ppobj import PPTable, PPEnumFieldType
    fields = case["fields"]
    ftypes = {}
    ftitles = {}
    for f in fields:
        if f.get("enum") is not None:
            eid = f.get("enum_id")
            ft = enums.get(eid) if (enums is not None and eid is not None) else None
            if ft is None:
                ev = {}
                for k, name, syn in f["enum"]["keys"]:
                    ev[dec(k)] = name if syn is None else (name, syn)
                if f["enum"].get("missing") is not None:
                    ev[PPEnumFieldType.MISSING] = tuple(f["enum"]["missing"])
                ft = PPEnumFieldType(ev)
                if enums is not None and eid is not None:
                    enums[eid] = ft
            ftypes[f["name"]] = ft
        if f.get("title") is not None:
            ftitles[f["name"]] = title_arg(f["title"])
    records = [tuple(dec(v) for v in r) for r in case["records"]]
    kw = {}
    if case.get("skip"):
        kw["skip_columns"] = [fields[i]["name"] for i in case["skip"]]
    al = case.get("arg_limits")
    return PPTable(records, fields=[f["name"] for f in fields], fmt=make_fmt(case),
                   fields_types=ftypes or None, fields_titles=ftitles or None,
                   header=case.get("header"), footer=case.get("footer"),
                   limits=tuple(al) if al is not None else None, **kw)


def _whole_text(table, mode):
    """what print shows: str() of the no-colour rendering ("nc"); for the coloured rendering ("c") the
    printed text with the colour sequences taken out (colours themselves are not C12's subject)"""
    from ak.color import CHText
    if mode == "c":
        return CHText.strip_colors(str(table))
    return str(table.ch_text(no_color=True))


def impl_run(case):
    if case.get("k") in ("fit", "resize"):
        return _impl_chunks(case)
    if case.get("k") == "hist":
        return _impl_hist(case)
    from ak.ppobj import PPEnumFieldType
    missing_len = len(str(PPEnumFieldType.MISSING))
    try:
        table = _build_table(case)
        text = _whole_text(table, "nc")
    except Exception as e:  # noqa
        return {"r": ["err", SX.exc_name(e)], "missing_len": missing_len}
    if not isinstance(text, str):
        return {"r": ["err", "NotAString"], "missing_len": missing_len}
    return {"r": ["ok", text.split("\n")], "missing_len": missing_len}


DRAIN = 2000        # ["next", g, DRAIN]: read iterator g to its end (no generated table has that many lines)


def setfmt_string(t, cs, ls):
    """the fmt string of ["setfmt", i, cs, ls] for table description t"""
    if cs == "keep":
        part = ""
    elif cs == "*":
        part = "*"
    else:
        part = make_fmt({"fields": t["fields"], "cols": cs, "fmt_limits": None})
    if ls is None:
        return part
    if ls == "*":
        return part + ";*"
    return part + f";{ls[0]}:{ls[1]}"


def _impl_hist(case):
    """a history: constructor calls, then the operations; one event per call:
    ["ok", lines] (no lines for calls that return nothing) or ["err", exception class]"""
    from ak.ppobj import PPTable, PPEnumFieldType
    from ak.color import CHText
    missing_len = len(str(PPEnumFieldType.MISSING))
    enums = {}
    tables = []
    descr = []            # the description each table was built from (field names for fmt strings)
    ev = []
    for t in case["tables"]:
        try:
            tables.append(_build_table(t, enums))
            ev.append(["ok", []])
        except Exception as e:  # noqa
            tables.append(None)
            ev.append(["err", SX.exc_name(e)])
        descr.append(t)
    gens = []
    kept = []             # (event, position, line object, mode, text when it was yielded)

    def line_text(line, mode):
        text = str(CHText(line))
        return CHText.strip_colors(text) if mode == "c" else text

    for op in case["ops"]:
        k = op[0]
        if k not in ("str", "open", "next", "setfmt", "rmcols", "clone"):
            raise RuntimeError(f"unknown operation {op!r}")
        try:
            if k == "str":
                text = _whole_text(tables[op[1]], op[2])
                ev.append(["ok", text.split("\n")] if isinstance(text, str) else ["err", "NotAString"])
            elif k == "open":
                res = tables[op[1]].ch_text() if op[2] == "c" else tables[op[1]].ch_text(no_color=True)
                gens.append((iter(res), op[2]))
                ev.append(["ok", []])
            elif k == "next":
                it, mode = gens[op[1]]
                raw = []
                for _ in range(op[2]):
                    try:
                        raw.append(next(it))
                    except StopIteration:
                        break
                # the lines are values the caller may keep (zip of two tables, list(t.ch_text())): they are read
                # after the whole batch has been fetched and once more at the end of the history
                lines = [line_text(line, mode) for line in raw]
                for j, line in enumerate(raw):
                    kept.append((len(ev), j, line, mode, lines[j]))
                ev.append(["ok", lines])
            elif k == "setfmt":
                tables[op[1]].set_fmt(setfmt_string(descr[op[1]], op[2], op[3]))
                ev.append(["ok", []])
            elif k == "rmcols":
                tables[op[1]].remove_columns([descr[op[1]]["fields"][i]["name"] for i in op[2]])
                ev.append(["ok", []])
            elif k == "clone":
                src = tables[op[1]]
                lim = op[5]
                tables.append(PPTable([tuple(dec(v) for v in r) for r in op[2]], fmt_obj=src.fmt,
                                      header=op[3], footer=op[4], limits=tuple(lim) if lim is not None else None))
                descr.append(descr[op[1]])
                ev.append(["ok", []])
        except Exception as e:  # noqa
            ev.append(["err", SX.exc_name(e)])
            if op[0] == "clone":
                tables.append(None)
                descr.append(descr[op[1]])
    changed = 0
    for e, j, line, mode, text in kept:
        try:
            now = line_text(line, mode)
        except Exception as exc:  # noqa
            now = "<" + SX.exc_name(exc) + ">"
        if now != text:
            changed += 1
            if ev[e][0] == "ok":
                ev[e][1][j] = now
    return {"ev": ev, "missing_len": missing_len, "lines_changed_later": changed}


# ------------------------------------------------------------------ model side
def _cnat_opt(x):
    return "None" if x is None else f"(Some {SX.cnat(x)})"


def _chunks_term(texts):
    return SX.clist(SX.cstr(t) for t in texts) if texts else "(@nil (list Z))"


def _cells_term(rec, eq):
    cells = []
    for jv in rec:
        v = dec(jv)
        cells.append(f"mkCell {SX.cstr(str(v))} {SX.cbool(is_right(v))} {SX.cbool(v is None)} {SX.cZ(eq(v))}")
    return SX.clist(cells) if cells else "(@nil cell)"


def _records_term(records, eq):
    recs = [_cells_term(r, eq) for r in records]
    return SX.clist(recs) if recs else "(@nil (list cell))"


def _cols_term(cols):
    cl = []
    for c in cols:
        mod = {None: "MNone", "full": "MFull", "val": "MVal", "name": "MName"}.get(c.get("mod"), "MBad")
        b = col_bounds(c)
        ws = "None" if b is None else f"(Some ({SX.cnat(b[0])}, {SX.cnat(b[1])}))"
        cl.append(f"mkCol {SX.cnat(c['f'])} {mod} {SX.cbool(bool(c.get('brk')))} {ws}")
    return SX.clist(cl) if cl else "(@nil col)"


def _arg_limits_term(al):
    return "None" if al is None else f"(Some ({_cnat_opt(al[0])}, {_cnat_opt(al[1])}))"


def _table_term(case, eq, missing_len):
    fterms = []
    for f in case["fields"]:
        t = f.get("title")
        if t is None:
            tt = "None"
        else:
            items = []
            for x in t["items"]:
                if isinstance(x, dict) and "o" in x:
                    v = dec(x["o"])
                    if isinstance(v, str):
                        items.append(f"TStr {SX.cstr(v)}")
                    else:
                        items.append(f"TObj {SX.cstr(str(v))} {SX.cbool(is_right(v))}")
                else:
                    items.append(f"TStr {SX.cstr(x)}")
            tt = "(Some " + (SX.clist(items) if items else "(@nil traw)") + ")"
        e = f.get("enum")
        if e is None:
            kk = "KDefault"
        else:
            keys = []
            for k, name, _syn in e["keys"]:
                v = dec(k)
                keys.append(f"mkKey {SX.cZ(eq(v))} {SX.cnat(len(str(v)))} {SX.cbool(v is None)} {SX.cstr(name)}")
            if e.get("missing") is not None:
                keys.append(f"mkKey (-2) {SX.cnat(missing_len)} false {SX.cstr(e['missing'][0])}")
            ks = SX.clist(keys) if keys else "(@nil ekey)"
            ms = "None" if e.get("missing") is None else f"(Some {SX.cstr(e['missing'][0])})"
            kk = f"(KEnum (mkEnum {ks} {ms}))"
        fterms.append(f"mkField {SX.cstr(f['name'])} {tt} {kk}")
    cols = case.get("cols")
    cterm = "None" if cols is None else "(Some " + _cols_term(cols) + ")"
    rterm = _records_term(case["records"], eq)
    skip = case.get("skip") or []
    sterm = SX.clist(SX.cnat(i) for i in skip) if skip else "(@nil nat)"
    hd = case.get("header")
    ft = case.get("footer")
    fl = case.get("fmt_limits")
    flt = "None" if fl is None or fl == "*" else f"(Some ({SX.cnat(fl[0])}, {SX.cnat(fl[1])}))"
    alt = _arg_limits_term(case.get("arg_limits"))
    fs = SX.clist(fterms) if fterms else "(@nil field)"
    return f"mkTable {fs} {cterm} {sterm} {rterm} {SX.copt(hd, SX.cstr)} {SX.copt(ft, SX.cstr)} {flt} {alt}"


def _res_term(r):
    if r[0] == "ok":
        lines = SX.clist(SX.cstr(l) for l in r[1]) if r[1] else "(@nil (list Z))"
        return f"(Ok {lines})"
    return f"(@Err (list (list Z)) {SX.COQ_ERR[SX.ERR_CODES.get(r[1], SX.ERR_OTHER)]})"


def _hist_term(case, obs):
    missing_len = obs.get("missing_len", 33)
    eqs = [EqIds() for _ in case["tables"]]          # a clone shares the == classes of its source (enum keys)
    tterms = [f"({_table_term(t, eqs[i], missing_len)})" for i, t in enumerate(case["tables"])]
    ops = []
    for op in case["ops"]:
        k = op[0]
        if k == "str":
            ops.append(f"ORender {SX.cnat(op[1])}")
        elif k == "open":
            ops.append(f"OOpen {SX.cnat(op[1])}")
        elif k == "next":
            ops.append(f"ONext {SX.cnat(op[1])} {SX.cnat(op[2])}")
        elif k == "setfmt":
            cs, ls = op[2], op[3]
            cst = "CKeep" if cs == "keep" else "CAll" if cs == "*" else f"(CCols {_cols_term(cs)})"
            lst = "LKeep" if ls is None else "(LSet (None, None))" if ls == "*" else \
                f"(LSet (Some {SX.cnat(ls[0])}, Some {SX.cnat(ls[1])}))"
            ops.append(f"OSetFmt {SX.cnat(op[1])} {cst} {lst}")
        elif k == "rmcols":
            sk = SX.clist(SX.cnat(i) for i in op[2]) if op[2] else "(@nil nat)"
            ops.append(f"ORemove {SX.cnat(op[1])} {sk}")
        elif k == "clone":
            eq = eqs[op[1]]
            eqs.append(eq)
            ops.append(f"OClone {SX.cnat(op[1])} {_records_term(op[2], eq)} {SX.copt(op[3], SX.cstr)} "
                       f"{SX.copt(op[4], SX.cstr)} {_arg_limits_term(op[5])}")
        else:
            raise ValueError(f"unknown operation {op!r}")
    tt = SX.clist(tterms) if tterms else "(@nil table)"
    ot = SX.clist(ops) if ops else "(@nil op)"
    evs = [_res_term(e) for e in obs["ev"]]
    et = SX.clist(evs) if evs else "(@nil (res (list (list Z))))"
    return f"HistCase {tt} {ot} {et}"


def coq_case(case, obs):
    k = case.get("k")
    if k in ("fit", "resize"):
        exp = SX.cstr("".join(obs["r"][1]))     # only the text is an observable of the property
        if k == "fit":
            al = {1: "ALeft", 2: "ACenter", 3: "ARight"}[case["al"]]
            return f"FitCase {_chunks_term(case['chunks'])} {SX.cnat(case['w'])} {al} {exp}"
        return f"ResizeCase {_chunks_term(case['chunks'])} {SX.cnat(case['n'])} {exp}"
    if k == "hist":
        return _hist_term(case, obs)
    tbl = _table_term(case, EqIds(), obs.get("missing_len", 33))
    return f"mkCase ({tbl}) {_res_term(obs['r'])}"


def expected_sx(case, obs):
    # the exact comparison of the lines is done inside Coq (C12/Run.v, run_verdict in C12/Lemmas.v):
    # the model prints (1) iff its lines / exception class are identical to the implementation's
    return "(1)"


# ------------------------------------------------------------------ oracle (the statement, independently of the model)
def _fits(text, cell, w):
    """cell shows `text` in width w: the full text padded, or a prefix of it ending in dots"""
    if len(cell) != w:
        return False
    if len(text) <= w:
        return cell == text.ljust(w) or cell == text.rjust(w)
    if w == 0:
        return cell == ""
    return any(cell == text[:w - d] + "." * d for d in range(1, min(3, w) + 1))


def _fits_any(cands, cell, w):
    return any(_fits(t, cell, w) for t in cands)


def _title_lines(f):
    """what RecordField documents: str items are split at newlines and stripped, other items shown as is"""
    t = f.get("title")
    items = [f["name"]] if t is None else [dec(x["o"]) if isinstance(x, dict) and "o" in x else x for x in t["items"]]
    out = []
    for it in items:
        if isinstance(it, str):
            out += [l.strip() for l in it.split("\n")]
        else:
            out.append(str(it))
    return out


def _enum_dict(f):
    e = f["enum"]
    return {_key(dec(k)): name for k, name, _ in e["keys"]}


def _cell_candidates(f, c, v, w):
    """texts the cell of value v in column c may show in full"""
    if f.get("enum") is None:
        return [str(v)]
    names = _enum_dict(f)
    mod = c.get("mod") or "full"
    miss = f["enum"]["missing"][0] if f["enum"].get("missing") is not None else "<???>"
    out = []
    if _key(v) in names:
        name = names[_key(v)]
    else:
        name = miss
        if v is None:
            out.append("None")
    if mod == "val":
        out.append(str(v))
    elif mod == "name":
        out.append(name)
    else:
        core = str(v) + " " + name
        out += [" " * k + core for k in range(0, max(w, 0) + 1)]
    return out


def enum_aliasing(case):
    """an enum column holds ==-equal values (or keys) whose str() differ, e.g. 1 / True / 1.0:
    PPEnumFieldType caches the cell text per ==-class, which the model does not follow"""
    for i, f in enumerate(case["fields"]):
        if f.get("enum") is None:
            continue
        seen = {}
        vals = [dec(k) for k, _, _ in f["enum"]["keys"]] + [dec(r[i]) for r in case["records"] if i < len(r)]
        for v in vals:
            t = (type(v).__name__, str(v))
            if seen.setdefault(_key(v), t) != t:
                return True
    return False


def in_model(case, obs):
    if case.get("k") in ("fit", "resize"):
        return "r" in obs and obs["r"][0] == "ok"
    if case.get("k") == "hist":
        return "ev" in obs and hist_walk(case)[0] == "" and not hist_enum_aliasing(case)
    nf = len(case["fields"])
    return (not enum_aliasing(case)) and all(len(r) == nf for r in case["records"]) and "r" in obs


def bad_modifier(case):
    fields = case["fields"]
    for c in all_cols(case):
        m = c.get("mod")
        if m is not None and (fields[c["f"]].get("enum") is None or m not in ENUM_MODS):
            return True
    return False


def domain(case):
    """'' if the table must be printed, else the reason why the constructor / printer may reject it"""
    fields = case["fields"]
    if bad_modifier(case):
        return "format modifier not supported by the field type"
    vis = visible_cols(case)
    if not vis:
        return "no visible column"
    for c in vis:
        if not _title_lines(fields[c["f"]]):
            return "empty title"
    return ""


def _has_nl(case):
    def bad(s):
        return isinstance(s, str) and "\n" in s
    if bad(case.get("header")) or bad(case.get("footer")):
        return True
    for f in case["fields"]:
        if f.get("enum"):
            if any(bad(n) or bad(dec(k)) for k, n, _ in f["enum"]["keys"]):
                return True
            if f["enum"].get("missing") and bad(f["enum"]["missing"][0]):
                return True
    return any("\n" in str(dec(v)) for r in case["records"] for v in r)


def _oracle_chunks(case, obs):
    r = obs["r"]
    if r[0] != "ok":
        return [("raises", f"{case['k']} raised {r[1]}")]
    text = "".join(case["chunks"])
    got = "".join(r[1])
    if case["k"] == "resize":
        n = case["n"]
        want = text[:n] + " " * (n - len(text))
        if got != want:
            return [("resize-wrong", f"resize_chunks_list({case['chunks']!r}, {n}) gives {got!r}")]
        return []
    w, al = case["w"], case["al"]
    if len(got) != w:
        return [("fit-not-exact", f"fit_to_width({case['chunks']!r}, {w}) gives {len(got)} characters: {got!r}")]
    if len(text) <= w:
        f = w - len(text)
        want = {1: text + " " * f, 3: " " * f + text, 2: " " * (f // 2) + text + " " * (f - f // 2)}[al]
        if got != want:
            return [("fit-content", f"fit_to_width({case['chunks']!r}, {w}, align {al}) gives {got!r}")]
    elif not _fits(text, got, w):
        return [("fit-content", f"fit_to_width({case['chunks']!r}, {w}) gives {got!r}: not a prefix ending in dots")]
    return []


# ------------------------------------------------------------------ histories: the table descriptions behind the calls
def t_setfmt(t, cs, ls):
    """description of table t after table.set_fmt(setfmt_string(t, cs, ls)); None if the fmt is rejected"""
    new = dict(t)
    if cs == "keep":
        new["cols"] = [dict(c) for c in visible_cols(t)]
    elif cs == "*":
        new["cols"] = None
    else:
        new["cols"] = cs
    new["skip"] = None
    if ls is None:
        a, b = effective_limits(t)
    elif ls == "*":
        a, b = None, None
    else:
        a, b = ls
    new["fmt_limits"] = None
    new["arg_limits"] = [a, b]
    return None if bad_modifier(new) else new


def t_rmcols(t, skip):
    new = dict(t)
    new["skip"] = sorted(set((t.get("skip") or []) + list(skip)))
    return new


def t_clone(t, recs, hd, ft, lim):
    return {"fields": t["fields"], "cols": [dict(c) for c in visible_cols(t)], "skip": None, "fmt_limits": None,
            "arg_limits": list(lim) if lim is not None else list(effective_limits(t)),
            "records": recs, "header": hd, "footer": ft}


def hist_walk(case):
    """replay a history on the table descriptions.
    -> (why, steps): why = '' or the reason the history is outside the modelled domain;
    steps[k] (one per operation) = {"op", "table": description printed (str / first next), "ver": (table, version),
    "gen": g, "first": this next starts the iterator, "drain": the iterator is read to its end, "expect_err": bool}"""
    tabs = []
    for t in case["tables"]:
        if bad_modifier(t):
            return "an initial table is rejected by the constructor", []
        tabs.append(t)
    ver = [0] * len(tabs)
    printed = [False] * len(tabs)        # printed (or an iterator started) since the version began
    gens = []                            # {"i", "started", "drained", "table", "ver"}
    steps = []
    for op in case["ops"]:
        k = op[0]
        st = {"op": op}
        if k in ("str", "open", "setfmt", "rmcols", "clone"):
            i = op[1]
            if not (isinstance(i, int) and 0 <= i < len(tabs)):
                return f"no table {i}", steps
        if k == "str":
            st["table"], st["ver"] = tabs[i], (i, ver[i])
            printed[i] = True
        elif k == "open":
            gens.append({"i": i, "started": False, "drained": False, "table": None, "ver": None})
        elif k == "next":
            g, n = op[1], op[2]
            if not (isinstance(g, int) and 0 <= g < len(gens)) or not (isinstance(n, int) and n >= 0):
                return f"no iterator {g}", steps
            G = gens[g]
            st["gen"] = g
            if n > 0 and not G["started"]:
                G["started"], G["table"], G["ver"] = True, tabs[G["i"]], (G["i"], ver[G["i"]])
                printed[G["i"]] = True
                st["first"] = True
            st["table"], st["ver"] = G["table"], G["ver"]
            if n >= DRAIN and G["started"]:
                G["drained"] = True
                st["drain"] = True
        elif k == "setfmt":
            if any(G["i"] == i and G["started"] and not G["drained"] for G in gens):
                return "set_fmt while a line iterator of the table is running", steps
            new = t_setfmt(tabs[i], op[2], op[3])
            if new is None:
                st["expect_err"] = True
            else:
                tabs[i] = new
                ver[i] += 1
                printed[i] = False
        elif k == "rmcols":
            if printed[i]:
                return "remove_columns after the table was printed (column widths are kept: not modelled)", steps
            tabs[i] = t_rmcols(tabs[i], op[2])
        elif k == "clone":
            tabs.append(t_clone(tabs[i], op[2], op[3], op[4], op[5]))
            ver.append(0)
            printed.append(False)
        else:
            return f"unknown operation {k}", steps
        steps.append(st)
    return "", steps


def hist_enum_aliasing(case):
    """==-equal values with different str() meet in one enum type (shared by fields / tables / clones)"""
    groups = {}
    n = 0
    srcs = list(range(len(case["tables"])))
    tabs = list(case["tables"])
    recs = [list(t["records"]) for t in tabs]
    for op in case["ops"]:
        if op[0] == "clone" and isinstance(op[1], int) and 0 <= op[1] < len(tabs):
            recs[srcs[op[1]]] = recs[srcs[op[1]]] + list(op[2])
            srcs.append(srcs[op[1]])
            tabs.append(tabs[op[1]])
            recs.append(None)
    for ti, t in enumerate(case["tables"]):
        for fi, f in enumerate(t["fields"]):
            if f.get("enum") is None:
                continue
            eid = f.get("enum_id")
            if eid is None:
                n += 1
                eid = ("own", n)
            g = groups.setdefault(eid, [])
            g += [dec(k) for k, _, _ in f["enum"]["keys"]] + [dec(r[fi]) for r in recs[ti] if fi < len(r)]
    for vals in groups.values():
        seen = {}
        for v in vals:
            t = (type(v).__name__, str(v))
            if seen.setdefault(_key(v), t) != t:
                return True
    return False


def _oracle_hist(case, obs):
    why, steps = hist_walk(case)
    if why:
        return []
    ev = obs.get("ev")
    nt = len(case["tables"])
    if not isinstance(ev, list) or len(ev) != nt + len(steps):
        return [("history-events", "the number of recorded events differs from the number of calls")]
    out = []
    for i in range(nt):
        if ev[i][0] != "ok":
            out.append(("raises", f"constructing table {i} raised {ev[i][1]}"))
    if out:
        return out
    if obs.get("lines_changed_later"):
        out.append(("yielded-line-changed-later", f"{obs['lines_changed_later']} line(s) delivered by a line iterator show another "
                    "text at the end of the history than when they were delivered (the line objects are shared / reused)"))
    whole = {}            # (table, version) -> (lines, where) : a complete rendering
    parts = {}            # iterator -> lines delivered so far
    gver = {}
    gtab = {}
    done = set()

    def complete(verk, lines, tdesc, where):
        for sig, msg in oracle({k: v for k, v in tdesc.items() if k != "k"}, {"r": ["ok", lines]}):
            out.append((sig, f"{where}: {msg}"))
        if verk in whole and whole[verk][0] != lines:
            a, wa = whole[verk]
            j = next((x for x in range(min(len(a), len(lines))) if a[x] != lines[x]), min(len(a), len(lines)))
            out.append(("history-dependent-rendering",
                        f"table {verk[0]} printed twice without any change to it: {wa} and {where} differ at line {j}: "
                        f"{a[j] if j < len(a) else None!r} / {lines[j] if j < len(lines) else None!r}"))
        whole.setdefault(verk, (lines, where))

    for n, st in enumerate(steps):
        e = ev[nt + n]
        op = st["op"]
        where = f"call {n} {op[0]}({op[1]})"
        if op[0] == "str":
            if e[0] != "ok":
                if not (domain(st["table"]) or _has_nl(st["table"])):
                    out.append(("raises", f"{where}: printing the table raised {e[1]}"))
                continue
            complete(st["ver"], e[1], st["table"], where)
        elif op[0] == "next":
            g = st["gen"]
            if e[0] != "ok":
                if st.get("table") is not None and not (domain(st["table"]) or _has_nl(st["table"])):
                    out.append(("raises", f"{where}: the line iterator raised {e[1]}"))
                done.add(g)
                continue
            if st.get("table") is None:
                continue
            parts.setdefault(g, [])
            parts[g] = parts[g] + e[1]
            gver[g], gtab[g] = st["ver"], st["table"]
            if st.get("drain") and g not in done:
                done.add(g)
                complete(st["ver"], parts[g], st["table"], f"iterator {g} (read to its end at call {n})")
        elif op[0] == "setfmt":
            if st.get("expect_err"):
                continue
            if e[0] != "ok":
                out.append(("raises", f"{where}: set_fmt (columns {op[2]!r}, limits {op[3]!r}) raised {e[1]}"))
        elif e[0] != "ok":
            out.append(("raises", f"{where} raised {e[1]}"))
    # lines of iterators that were not read to their end: a prefix of the table's text
    for g, lines in parts.items():
        if g in done or gver[g] not in whole:
            continue
        a = whole[gver[g]][0]
        if a[:len(lines)] != lines:
            j = next((x for x in range(min(len(a), len(lines))) if a[x] != lines[x]), min(len(a), len(lines)))
            out.append(("history-dependent-rendering",
                        f"iterator {g} over table {gver[g][0]}: line {j} is {lines[j] if j < len(lines) else None!r}, "
                        f"the table printed as a whole has {a[j] if j < len(a) else None!r}"))
    seen = set()
    uniq = []
    for sig, msg in out:
        if sig not in seen:
            seen.add(sig)
            uniq.append((sig, msg))
    return uniq


def oracle(case, obs):
    if "__hang__" in obs:
        return [("hang", "the call did not return")]
    if case.get("k") in ("fit", "resize"):
        return _oracle_chunks(case, obs)
    if case.get("k") == "hist":
        return _oracle_hist(case, obs)
    r = obs["r"]
    why = domain(case)
    if r[0] != "ok":
        if why or _has_nl(case):
            return []
        return [("raises", f"printing the table raised {r[1]}")]
    if why or _has_nl(case):
        return []          # outside the property's domain: nothing is demanded
    L = r[1]
    out = []
    fields = case["fields"]
    vis = visible_cols(case)
    # 1. rectangular
    lens = sorted({len(l) for l in L})
    if len(lens) != 1:
        bad = next(i for i, l in enumerate(L) if len(l) != len(L[0]))
        out.append(("not-rectangular", f"line {bad} has visible width {len(L[bad])}, line 0 has {len(L[0])}: {L[bad]!r}"))
    b = L[0]
    if not re.fullmatch(r"\+(-*\+)+", b):
        return out + [("border-malformed", f"first line is not a border: {b!r}")]
    P = [i for i, ch in enumerate(b) if ch == "+"]
    ws = [P[i + 1] - P[i] - 1 for i in range(len(P) - 1)]
    tw = len(b)
    if len(ws) != len(vis):
        return out + [("column-count", f"border shows {len(ws)} columns, the table has {len(vis)}")]
    # 3. width bounds
    for j, (c, w) in enumerate(zip(vis, ws)):
        lo, hi = col_bounds(c) or (1, 999)
        if lo <= hi and not lo <= w <= hi:
            out.append(("width-out-of-bounds", f"column {j} is {w} wide, configured {lo}..{hi}"))

    def split_cells(line):
        return [line[P[j] + 1:P[j + 1]] for j in range(len(ws))]

    def seps_ok(line):
        return len(line) >= tw and all(line[p] == "|" for p in P)
    # 4. header, titles
    idx = 1
    hd = case.get("header")
    if hd:
        if idx >= len(L):
            return out + [("structure", "header line missing")]
        l = L[idx]
        if not (len(l) >= 2 and l[0] == "|" and l[-1] == "|" and _fits(hd, l[1:-1], tw - 2)):
            out.append(("header-content", f"header line {l!r} does not show {hd!r} in width {tw - 2}"))
        idx += 1
    tls = [_title_lines(fields[c["f"]]) for c in vis]
    nt = max(len(t) for t in tls)
    for i in range(nt):
        if idx >= len(L):
            return out + [("structure", "title line missing")]
        l = L[idx]
        if not seps_ok(l):
            out.append(("separator-misaligned", f"title line {l!r}: no '|' under every '+' of {b!r}"))
        else:
            for j, cell in enumerate(split_cells(l)):
                want = tls[j][i] if i < len(tls[j]) else ""
                if not _fits(want, cell, ws[j]):
                    out.append(("title-content", f"title cell {cell!r} (line {i}, column {j}) does not show {want!r}"))
        idx += 1
    if idx >= len(L) or L[idx] != b:
        return out + [("structure", f"no border line after the titles (line {idx})")]
    idx += 1
    # 5. footer, last border
    ft = case.get("footer")
    if ft is None:
        ft = f"Total {len(case['records'])} records"
    end = len(L)
    if ft:
        if not _fits(ft, L[-1], tw):
            out.append(("footer-content", f"footer line {L[-1]!r} does not show {ft!r} in width {tw}"))
        end -= 1
    if end - 1 < idx or L[end - 1] != b:
        return out + [("structure", "no closing border line")]
    body = L[idx:end - 1]
    # 6. records: expected sequence of table lines
    recs = [[dec(v) for v in r] for r in case["records"]]
    brk = [c["f"] for c in vis if c.get("brk")]
    E = []
    prev = None
    for i, rec in enumerate(recs):
        cur = [rec[f] for f in brk]
        if prev is not None and prev != cur:
            E.append(None)
        E.append(i)
        prev = cur

    def line_matches(l, e):
        if e is None:
            if l != "|" + " " * (tw - 2) + "|":
                return ("break-line", f"break-by line {l!r} is not a blank service line of width {tw}")
            return None
        if not seps_ok(l):
            return ("separator-misaligned", f"record line {l!r}: no '|' under every '+' of {b!r}")
        for j, cell in enumerate(split_cells(l)):
            c = vis[j]
            v = recs[e][c["f"]]
            if not _fits_any(_cell_candidates(fields[c["f"]], c, v, ws[j]), cell, ws[j]):
                if fields[c["f"]].get("enum") is not None and enum_aliasing(case):
                    return ("enum-equal-values-share-text",
                            f"record {e} column {j}: enum cell {cell!r} does not show the value {v!r} (an ==-equal "
                            f"value of another type was printed before it)")
                return ("cell-content", f"record {e} column {j}: cell {cell!r} (width {ws[j]}) does not show the value {v!r}")
        return None

    def match_all(lines, es):
        for l, e in zip(lines, es):
            x = line_matches(l, e)
            if x:
                return x
        return None

    nf, nl = effective_limits(case)
    limited = nf is not None and nl is not None

    def check_all():
        if len(body) != len(E):
            return ("records-accounting",
                    f"{len(recs)} records / {len(E)} table lines, limits {nf}:{nl}, but the body has {len(body)} lines")
        return match_all(body, E)

    def check_limited():
        if len(body) != nf + nl + 1:
            if len(body) == len(E):
                return ("limits-ignored", f"{len(E)} table lines, limits {nf}:{nl}, but every line is shown")
            return ("records-accounting",
                    f"{len(recs)} records / {len(E)} table lines, limits {nf}:{nl}, but the body has {len(body)} lines")
        first, last = E[:nf], (E[len(E) - nl:] if nl else [])
        x = match_all(body[:nf], first) or match_all(body[nf + 1:], last)
        if x:
            return x
        shown = sum(1 for e in first + last if e is not None)
        sk = body[nf]
        want = f"... {len(recs) - shown} records skipped"
        if not (len(sk) >= 2 and sk[0] == "|" and sk[-1] == "|" and _fits(want, sk[1:-1], tw - 2)):
            return ("records-accounting",
                    f"{len(recs)} records, {shown} shown, but the skipped-records line is {sk!r}")
        return None

    if (not limited) or len(E) <= nf + nl:
        x = check_all()                 # nothing may be hidden
    elif len(E) == nf + nl + 1:
        x = check_all()                 # one line too many: showing it, or hiding it behind the notice, both comply
        if x:
            x = check_limited() and x
    else:
        x = check_limited()
    if x:
        out.append(x)
    # 7. a column is as wide as its title and the cells of the records that are shown need, within its bounds
    #    (ordinary columns; the length of an enum cell is PPEnumFieldType's own business)
    if not out:
        if len(body) == len(E):
            shown = [e for e in E if e is not None]
        else:
            shown = [e for e in E[:nf] + (E[len(E) - nl:] if nl else []) if e is not None]
        for j, (c, w) in enumerate(zip(vis, ws)):
            f = fields[c["f"]]
            lo, hi = col_bounds(c) or (1, 999)
            if f.get("enum") is not None or lo > hi:
                continue
            need = max([len(str(l)) for l in tls[j]] + [len(str(recs[e][c["f"]])) for e in shown])
            want = min(hi, max(lo, need))
            if w != want:
                out.append(("width-not-negotiated", f"column {j} is {w} wide; title and shown cells need {need}, "
                            f"bounds {lo}..{hi}: expected {want}"))
                break
    return out


# ------------------------------------------------------------------ generator
STR_POOL = ["", " ", "a", "ab", "abc", "abcd", "abcde", "x|y", "+-+", "--", "|", "+", "...", "a.b", " lead", "trail ",
            "Jerry", "Hermiona", "longer text value", "a much longer text value, really", "é", "naïve", "日本語", "Ωmega",
            "tab\there", "a  b", "None", "True", "0", "-", "||||", "+--+--+", "\U0001f600x", "q" * 13, "w" * 40]
NAME_POOL = ["Ok", "Active", "Error status", "", "x", "a|b", "Disabled for now", "é+", "n/a", "..."]
SYN_POOL = [None, None, "name_good", "name_warn", "error", "no_such_syntax"]
TITLE_STR = ["id", "", "x", "name", "a long title", "two\nlines", " padded \n  more  ", "\n", "t|t", "a\n\nb", "é\tq",
             " wide blank ", "+-", "l1\nl2\nl3"]


def _rand_value(rng, small=False):
    k = rng.random()
    if k < 0.30:
        return rng.choice([0, 1, 2, 3, 7, 10, 42, 100, 999, -1, -25, 12345, 10 ** 12, 2 ** 70]) if not small else rng.randrange(4)
    if k < 0.40:
        return None
    if k < 0.48:
        return rng.choice([True, False])
    if k < 0.55:
        return rng.choice([1.0, 0.5, -2.25, 1e20, 3.14159, 0.0])
    if k < 0.60:
        return rng.choice([{"t": "tuple", "v": [1, "a"]}, {"t": "tuple", "v": []}, [1, 2], [], [None, "x|"]])
    return rng.choice(STR_POOL)


def _rand_width(rng, focus):
    k = rng.random()
    if k < 0.25:
        return None
    hi = 3 if focus == "narrow" else 12
    if k < 0.55:
        return [rng.randint(0, hi)]
    a = rng.randint(0, hi)
    b = rng.randint(a, hi if rng.random() < 0.8 else 30)
    if rng.random() < 0.03:
        a, b = b + 1, a
    return [a, b]


def _rand_title(rng):
    k = rng.random()
    if k < 0.55:
        return None
    if k < 0.75:
        return {"items": [rng.choice(TITLE_STR)], "single": True}
    if k < 0.80:
        return {"items": [{"o": rng.choice([5, 0, True, 2.5, 1234567])}], "single": True}
    n = rng.randint(1, 3) if rng.random() > 0.03 else 0
    items = []
    for _ in range(n):
        if rng.random() < 0.6:
            items.append(rng.choice(TITLE_STR))
        else:
            items.append({"o": rng.choice([5, None, False, 777, 0.5, {"t": "tuple", "v": [1]}])})
    return {"items": items, "single": False, "tuple": rng.random() < 0.5}


def _rand_enum(rng):
    kind = rng.choice(["int", "int", "str", "mixed"])
    pool = {"int": [1, 2, 3, 10, 20, 999, -5, 100000], "str": ["A", "B", "ok", "failed", "", "x|y"],
            "mixed": [1, 2, "A", "ok", 10, None]}[kind]
    n = rng.randint(0, min(4, len(pool)))
    keys = rng.sample(pool, n)
    if kind != "mixed" and rng.random() < 0.2:
        keys.append(None)
    e = {"keys": [[k, rng.choice(NAME_POOL), rng.choice(SYN_POOL)] for k in keys], "missing": None}
    if rng.random() < 0.25:
        e["missing"] = [rng.choice(["?", "unknown", "<none>", ""]), rng.choice(["error", "name_warn"])]
    # values a record may hold: the keys, unknown values, None
    vals = list(keys) + [None, None] + {"int": [4, 77, 123456789], "str": ["C", "zz top"], "mixed": [3, "B"]}[kind]
    return e, vals


def gen_table(rng, focus, shared=None):
    """shared: [(enum_id, enum, values)] enum types that several fields / tables of a history may use"""
    nf = rng.choice([1, 1, 2, 2, 3, 3, 4])
    fields = []
    fvals = []
    for i in range(nf):
        f = {"name": f"f{i}", "title": _rand_title(rng), "enum": None}
        vals = None
        if rng.random() < (0.6 if focus == "enum" else 0.2):
            if shared and rng.random() < 0.75:
                f["enum_id"], f["enum"], vals = rng.choice(shared)
            else:
                f["enum"], vals = _rand_enum(rng)
        elif rng.random() < 0.4:
            # low-cardinality column (break-by becomes interesting), may mix ==-equal values
            vals = rng.sample([0, 1, True, 1.0, False, None, "a", "b", "", 2, "x|y"], rng.randint(1, 4))
        fields.append(f)
        fvals.append(vals)
    case = {"fields": fields}
    if focus == "tiny":
        # one or two very narrow columns, usually with break-by: the service lines are 2..4 wide
        cols = []
        for _ in range(rng.choice([1, 1, 2])):
            a = rng.choice([0, 0, 1, 2])
            w = rng.choice([[a], [a], [a, a + rng.randint(0, 2)]])
            cols.append({"f": rng.randrange(nf), "mod": None, "brk": rng.random() < 0.7, "w": w})
        for c in cols:
            if fields[c["f"]]["enum"] is not None and rng.random() < 0.5:
                c["mod"] = rng.choice(ENUM_MODS)
        case["cols"] = cols
    elif rng.random() < 0.2:
        case["cols"] = None
    else:
        nc = rng.choice([1, 1, 2, 2, 3, 3, 4, 5, 6])
        cols = []
        for _ in range(nc):
            fi = rng.randrange(nf)
            mod = None
            if fields[fi]["enum"] is not None and rng.random() < 0.7:
                mod = rng.choice(ENUM_MODS)
            if rng.random() < 0.01:
                mod = rng.choice(["bad", "val", "short"])
            cols.append({"f": fi, "mod": mod, "brk": rng.random() < (0.5 if focus == "break" else 0.15),
                         "w": _rand_width(rng, focus)})
        case["cols"] = cols
    case["skip"] = None
    if rng.random() < 0.08:
        case["skip"] = sorted(rng.sample(range(nf), rng.randint(1, nf) if rng.random() < 0.15 else 1))
    # limits
    nfirst = nlast = None
    case["fmt_limits"] = None
    case["arg_limits"] = None
    lim_p = 0.8 if focus == "limits" else 0.3
    if rng.random() < lim_p:
        nfirst, nlast = rng.choice([0, 0, 1, 1, 2, 3, 5]), rng.choice([0, 0, 1, 1, 2, 3, 4])
        k = rng.random()
        if k < 0.5:
            case["fmt_limits"] = [nfirst, nlast]
        elif k < 0.85:
            case["arg_limits"] = [nfirst, nlast]
        else:
            case["fmt_limits"] = [rng.randint(0, 3), rng.randint(0, 3)]
            case["arg_limits"] = [nfirst, nlast]
    elif rng.random() < 0.1:
        case["fmt_limits"] = rng.choice(["*", [1, 1]])
        case["arg_limits"] = rng.choice([None, [None, None], [2, None], [None, 0]])
        nfirst = nlast = None
    # records
    if nfirst is not None and rng.random() < 0.8:
        nrec = max(0, nfirst + nlast + 1 + rng.choice([-2, -1, 0, 0, 1, 1, 2, 3, 6]))
    else:
        nrec = rng.choice([0, 1, 2, 3, 4, 5, 6, 8, 12]) if focus != "big" else rng.randint(20, 80)
    recs = []
    for _ in range(nrec):
        rec = []
        for i in range(nf):
            if fvals[i] is not None:
                rec.append(rng.choice(fvals[i]))
            else:
                rec.append(_rand_value(rng))
        recs.append(rec)
    if rng.random() < 0.3 and recs:
        recs.sort(key=lambda r: str(r[0]))       # runs of equal values
    case["records"] = recs
    case["header"] = rng.choice([None, None, "", "T", "My Table", "My Table Description that is rather long |+-|", "é" * 9])
    case["footer"] = rng.choice([None, None, "", "end", "a footer that is much longer than any narrow table ...", "|"])
    return case


def gen_long(rng):
    """a LONG table (more visible records than any sample / batch size a printer may use: 1100-1500), two
    columns of short values, no record limits or limits above the count; the widest value of a column sits near the
    end, it either fits into the column's configured maximum or has to be cut to exactly that maximum"""
    n = rng.randint(1100, 1500)
    nf = 2
    fields = [{"name": f"f{i}", "title": rng.choice([None, {"items": ["m"], "single": True}]), "enum": None}
              for i in range(nf)]
    recs = [[rng.choice(["ok", "a", "", 1, 7, None]) if rng.random() < 0.1 else "ok" for _ in range(nf)] for _ in range(n)]
    cols = []
    for i in range(nf):
        mx = rng.choice([6, 9, 14])
        wide = rng.choice(["timeout", "node-17 down", "E" * 16, 1234567, "abcd"])
        # column 0: after the 1000th record; column 1: anywhere (early only / in the middle / late)
        recs[rng.randint(1001, n - 1) if i == 0 else rng.choice([rng.randint(0, 60), rng.randint(0, n - 1)])][i] = wide
        if rng.random() < 0.5:
            recs[rng.randint(n - 40, n - 1)][i] = rng.choice(["late", "x" * 20, -123456])
        # column 0 always negotiates its width; its wide value fits the maximum (mx >= 9: shown in full) or not
        cols.append({"f": i, "mod": None, "brk": False, "w": rng.choice([[1, mx], [0, mx], None, [mx]][:3 if i == 0 else 4])})
    case = {"fields": fields, "cols": cols, "skip": None, "fmt_limits": None, "arg_limits": None,
            "records": recs, "header": rng.choice([None, "T"]), "footer": None}
    k = rng.randrange(3)
    if k == 0:
        case["fmt_limits"] = "*"
    elif k == 1:
        case["arg_limits"] = [n + rng.randint(0, 5), 0] if rng.random() < 0.5 else [1050, n - 1050 + rng.randint(0, 3)]
    else:
        case["fmt_limits"] = [1, 1]
        case["arg_limits"] = [None, None]
    return case


# ------------------------------------------------------------------ generator of histories
def _rand_cols(rng, fields, focus):
    cols = []
    for _ in range(rng.choice([1, 1, 2, 2, 3, 4])):
        fi = rng.randrange(len(fields))
        mod = None
        if fields[fi]["enum"] is not None and rng.random() < 0.7:
            mod = rng.choice(ENUM_MODS)
        if rng.random() < 0.03:
            mod = rng.choice(["bad", "val"])
        cols.append({"f": fi, "mod": mod, "brk": rng.random() < 0.3, "w": _rand_width(rng, focus)})
    return cols


def _field_values(rng, t, fi):
    """values a further record may hold in field fi of table description t"""
    f = t["fields"][fi]
    seen = [r[fi] for r in t["records"]]
    if f.get("enum") is not None:
        pool = [k for k, _, _ in f["enum"]["keys"]] + [None] + seen
        return pool
    return seen + [_rand_value(rng) for _ in range(2)]


def gen_hist(rng):
    import copy
    shared = []
    for eid in range(rng.choice([0, 1, 1, 2])):
        e, vals = _rand_enum(rng)
        shared.append((eid, e, vals))
    focuses = ["break", "break", "limits", "limits", "tiny", "narrow", "enum", "plain"]
    tables = []
    for _ in range(rng.choice([1, 2, 2, 2, 3])):
        t = gen_table(rng, rng.choice(focuses + (["enum"] * 4 if shared else [])), shared)
        for c in all_cols(t):
            if c.get("mod") is not None and (t["fields"][c["f"]].get("enum") is None or c["mod"] not in ENUM_MODS):
                c["mod"] = None
        if t.get("cols") is not None and not t["cols"]:
            t["cols"] = None
        tables.append(t)
    if len(tables) < 3 and rng.random() < 0.35:
        # a sibling: the same fields (and shared enum objects), other columns / widths / limits / records
        src = rng.choice(tables)
        for i, f in enumerate(src["fields"]):
            if f.get("enum") is not None and f.get("enum_id") is None:
                f["enum_id"] = 100 + 10 * tables.index(src) + i      # shared with the copy
        t = copy.deepcopy(src)
        cols = [c for c in _rand_cols(rng, t["fields"], "narrow")
                if c["mod"] is None or (c["mod"] in ENUM_MODS and t["fields"][c["f"]].get("enum") is not None)]
        t["cols"] = cols or None
        t["skip"] = None
        if rng.random() < 0.5:
            rng.shuffle(t["records"])
            t["records"] = t["records"][:rng.randint(0, len(t["records"]))]
        if rng.random() < 0.5:
            t["fmt_limits"], t["arg_limits"] = [rng.choice([0, 1, 2]), rng.choice([0, 1, 2])], None
        tables.append(t)
    style = rng.choice(["interleave", "interleave", "sequence", "mixed"])
    tabs = list(tables)
    printed = [False] * len(tabs)
    gens = []
    ops = []

    def mode():
        return "nc" if rng.random() < 0.85 else "c"

    def do_open(i):
        ops.append(["open", i, mode()])
        gens.append({"i": i, "started": False, "drained": False})

    def busy(i):
        return any(G["i"] == i and G["started"] and not G["drained"] for G in gens)

    if style == "interleave":
        order = list(range(len(tabs)))
        if rng.random() < 0.4:
            order.append(rng.randrange(len(tabs)))
        rng.shuffle(order)
        for i in order:
            do_open(i)
    w = {"interleave": {"str": 1, "open": 0.3, "next": 8, "setfmt": 0.4, "clone": 0.3, "rmcols": 0.2},
         "sequence": {"str": 4, "open": 0.3, "next": 0.5, "setfmt": 2.5, "clone": 1, "rmcols": 0.6},
         "mixed": {"str": 2, "open": 1, "next": 4, "setfmt": 1.5, "clone": 0.7, "rmcols": 0.4}}[style]
    for _ in range(rng.randint(6, 16) if style == "interleave" else rng.randint(4, 10)):
        acts = ["str", "open"]
        if any(not G["drained"] for G in gens):
            acts.append("next")
        if any(not busy(i) for i in range(len(tabs))):
            acts.append("setfmt")
        if len(tabs) < 4:
            acts.append("clone")
        if any(not p for p in printed):
            acts.append("rmcols")
        a = rng.choices(acts, weights=[w[x] for x in acts])[0]
        if a == "str":
            i = rng.randrange(len(tabs))
            ops.append(["str", i, mode()])
            printed[i] = True
        elif a == "open":
            do_open(rng.randrange(len(tabs)))
        elif a == "next":
            g = rng.choice([j for j, G in enumerate(gens) if not G["drained"]])
            k = rng.choice([1, 1, 1, 2, 2, 3, 4, 6, DRAIN])
            ops.append(["next", g, k])
            gens[g]["started"] = True
            printed[gens[g]["i"]] = True
            if k >= DRAIN:
                gens[g]["drained"] = True
        elif a == "setfmt":
            i = rng.choice([j for j in range(len(tabs)) if not busy(j)])
            t = tabs[i]
            k = rng.random()
            if k < 0.25:
                cs = "keep"
            elif k < 0.4:
                cs = "*"
            elif k < 0.65:
                # the same columns, other widths (usually narrower)
                cs = [dict(c, w=rng.choice([[0], [1], [2], [3], [1, 4], None])) for c in visible_cols(t)] or "*"
            else:
                cs = _rand_cols(rng, t["fields"], rng.choice(["narrow", "plain"]))
            k = rng.random()
            ls = None if k < 0.4 else "*" if k < 0.55 else [rng.choice([0, 0, 1, 1, 2, 3]), rng.choice([0, 0, 1, 1, 2, 3])]
            ops.append(["setfmt", i, cs, ls])
            new = t_setfmt(t, cs, ls)
            if new is not None:
                tabs[i] = new
                printed[i] = False
        elif a == "clone":
            i = rng.randrange(len(tabs))
            t = tabs[i]
            nf = len(t["fields"])
            pools = [_field_values(rng, t, fi) for fi in range(nf)]
            recs = [[rng.choice(pools[fi]) if pools[fi] else _rand_value(rng) for fi in range(nf)]
                    for _ in range(rng.choice([0, 1, 2, 3, 5, 8]))]
            lim = rng.choice([None, None, [None, None], [1, 1], [0, 2], [2, 0], [0, 0]])
            hd = rng.choice([None, "", "clone", "a clone with a long header text"])
            ft = rng.choice([None, "", "end of clone"])
            ops.append(["clone", i, recs, hd, ft, lim])
            tabs.append(t_clone(t, recs, hd, ft, lim))
            printed.append(False)
        elif a == "rmcols":
            i = rng.choice([j for j, p in enumerate(printed) if not p])
            sk = sorted(rng.sample(range(len(tabs[i]["fields"])), 1))
            if all(c["f"] in sk for c in visible_cols(tabs[i])) and rng.random() < 0.8:
                continue                      # (mostly) keep a column
            ops.append(["rmcols", i, sk])
            tabs[i] = t_rmcols(tabs[i], sk)
    # read every iterator to its end, then print some tables once more
    rest = [j for j, G in enumerate(gens) if not G["drained"]]
    rng.shuffle(rest)
    for g in rest:
        ops.append(["next", g, DRAIN])
    for i in range(len(tabs)):
        if rng.random() < 0.5:
            ops.append(["str", i, "nc"])
    return {"k": "hist", "tables": tables, "ops": ops}


CHUNK_POOL = ["", "a", "ab", "abc", "abcd", " ", "  ", "...", "|", "é", "日本", "x" * 7, "0123456789"]


def gen_chunk_case(rng):
    chunks = [rng.choice(CHUNK_POOL) for _ in range(rng.choice([0, 1, 1, 2, 2, 3, 4]))]
    total = sum(len(c) for c in chunks)
    n = max(0, total + rng.choice([-9, -4, -3, -2, -1, 0, 0, 1, 2, 3, 5])) if rng.random() < 0.85 else rng.randint(0, 4)
    if rng.random() < 0.6:
        return {"k": "fit", "chunks": chunks, "w": n, "al": rng.choice([1, 2, 3])}
    return {"k": "resize", "chunks": chunks, "n": n}


def gen_cases(rng, tier):
    big = tier == "thorough"
    n = 30000 if big else 1500
    cases = []
    focuses = ["plain", "narrow", "narrow", "enum", "enum", "break", "limits", "limits", "tiny", "tiny"]
    for i in range(n):
        cases.append(gen_table(rng, focuses[i % len(focuses)]))
    for i in range(300 if big else 15):
        cases.append(gen_table(rng, "big"))
    for i in range(6 if big else 2):
        cases.append(gen_long(rng))
    for i in range(6000 if big else 500):
        cases.append(gen_chunk_case(rng))
    hist = [gen_hist(rng) for i in range(4000 if big else 400)]
    # histories are the heaviest cases for the model evaluation: spread them evenly over the Coq shards
    step = max(1, len(cases) // max(1, len(hist)))
    out = []
    for i, c in enumerate(cases):
        out.append(c)
        if i % step == step - 1 and hist:
            out.append(hist.pop())
    return out + hist


def search_cases(rng, tier):
    cases = []
    focuses = ["narrow", "limits", "enum", "break", "plain", "tiny"]
    for i in range(4000):
        cases.append(gen_table(rng, focuses[i % len(focuses)]))
    for i in range(1500):
        cases.append(gen_chunk_case(rng))
    for i in range(1500):
        cases.append(gen_hist(rng))
    return cases


def hist_tags(case):
    tags = set()
    started = {}
    gens = []
    for op in case["ops"]:
        if op[0] == "open":
            gens.append(op[1])
        elif op[0] == "next":
            if op[2] > 0:
                started[op[1]] = op[2] < DRAIN
            live = {gens[g] for g, v in started.items() if v and g < len(gens)}
            tags.add("interleaved" if len(live) >= 2 else "iter")
        elif op[0] in ("setfmt", "clone", "rmcols"):
            tags.add(op[0])
        if op[0] in ("str", "open") and op[2] == "c":
            tags.add("colour")
    if any(f.get("enum_id") is not None for t in case["tables"] for f in t["fields"]):
        tags.add("shared-enum")
    return sorted(tags)


def kind(case):
    if case.get("k") in ("fit", "resize"):
        return case["k"]
    if case.get("k") == "hist":
        return "hist:" + "+".join(hist_tags(case))
    tags = []
    if any(f.get("enum") is not None for f in case["fields"]):
        tags.append("enum")
    if any(c.get("brk") for c in all_cols(case)):
        tags.append("break")
    if case.get("fmt_limits") is not None or case.get("arg_limits") is not None:
        tags.append("limits")
    if any((col_bounds(c) or (1, 999))[1] <= 3 for c in all_cols(case)):
        tags.append("narrow")
    return "+".join(tags) or "plain"


def nontrivial(case, obs):
    if case.get("k") in ("fit", "resize"):
        return "r" in obs and obs["r"][0] == "ok" and len(case["chunks"]) >= 1
    if case.get("k") == "hist":
        # at least two calls returned lines of a table that has records
        return "ev" in obs and sum(1 for e in obs["ev"] if e[0] == "ok" and len(e[1]) >= 4) >= 2 and \
            any(t["records"] for t in case["tables"])
    return "r" in obs and obs["r"][0] == "ok" and len(case["records"]) >= 1


def outcome(case, obs):
    if "__hang__" in obs:
        return "hang"
    if case.get("k") == "hist":
        errs = sorted({e[1] for e in obs["ev"] if e[0] != "ok"})
        return "hist:ok" if not errs else "hist:" + "+".join(errs)
    r = obs["r"]
    if r[0] != "ok":
        return r[1]
    if case.get("k") in ("fit", "resize"):
        return case["k"] + ":ok"
    if any("records skipped" in l or l.startswith("|...") for l in r[1]):
        return "ok+skipped"
    return "ok"


def shrink_candidates(case):
    import copy
    if case.get("k") in ("fit", "resize"):
        for i in range(len(case["chunks"])):
            c = copy.deepcopy(case)
            del c["chunks"][i]
            yield c
        return
    if case.get("k") == "hist":
        ops = case["ops"]
        # shorter histories first: drop the tail, then single calls that shift no index
        for n in (len(ops) // 2, len(ops) - 1):
            if 0 < n < len(ops):
                c = copy.deepcopy(case)
                c["ops"] = ops[:n]
                yield c
        for j in range(len(ops) - 1, -1, -1):
            if ops[j][0] in ("str", "next", "setfmt", "rmcols"):
                c = copy.deepcopy(case)
                del c["ops"][j]
                if hist_walk(c)[0] == "":
                    yield c
        used = {op[1] for op in ops if op[0] != "next"}
        if len(case["tables"]) > 1 and (len(case["tables"]) - 1) not in used and not any(op[0] == "clone" for op in ops):
            c = copy.deepcopy(case)
            del c["tables"][-1]
            yield c
        for ti, t in enumerate(case["tables"]):
            for i in range(len(t["records"]) - 1, -1, -1):
                c = copy.deepcopy(case)
                del c["tables"][ti]["records"][i]
                yield c
        for j, op in enumerate(ops):
            if op[0] == "next" and 1 < op[2] < DRAIN:
                c = copy.deepcopy(case)
                c["ops"][j][2] = op[2] - 1
                yield c
        return
    n = len(case["records"])
    for i in range(n):
        c = copy.deepcopy(case)
        del c["records"][i]
        yield c
    cols = case.get("cols")
    if cols is not None and len(cols) > 1:
        for i in range(len(cols)):
            c = copy.deepcopy(case)
            del c["cols"][i]
            yield c
    for k in ("header", "footer"):
        if case.get(k):
            c = copy.deepcopy(case)
            c[k] = "" if k == "footer" else None
            yield c
    for i, f in enumerate(case["fields"]):
        if f.get("title") is not None:
            c = copy.deepcopy(case)
            c["fields"][i]["title"] = None
            yield c


TECHNIQUE = ("Coq proofs (induction over chunk lists, column lists and record lists) on a hand-written Gallina model of the "
             "table printer and of histories of calls on several tables + per-run correspondence check of the exact printed "
             "lines of every call (vm_compute vs implementation) + literal constants regenerated from the source")
LEVEL_TEXT = ("Full, about the Gallina model of the table printer, for ALL table descriptions (any fields, columns, records, "
              "texts, widths incl. 0 and min = max, limits): rectangular (every printed line has width sum(w)+n+1), "
              "separators_aligned (on offsets: '+' of the border / '|' of every title and record line at every mark; both "
              "ends of header and service lines), width_bounds and width_negotiated (each width = clipped maximum of title "
              "and visible cells; the loop's early exit is harmless), cell_content + cell_full_text + title_content + "
              "header_footer_content (the slice between two marks is exactly that record's value: in full and padded, or a "
              "prefix + min(3,w) dots), fit_exact / fit_content / resize_exact (fit_to_width and resize_chunks_list for "
              "every chunk list, width and alignment), limits_accounting (all lines shown in order, or exactly first n ++ "
              "notice ++ last m with announced + shown = total, the hidden records a contiguous run) and limits_nontrivial "
              "(a notice hides >= 1 record; needs slack >= 1 re-proved from the source), service_lines + dec_is_decimal "
              "(the notice prints that number), render_ok_iff / render_errors (which inputs are rejected, with which "
              "exception), run_verdict (the in-Coq comparison used by the correspondence check is exact).  The literals the "
              "proofs rely on are re-read from ak/ppobj.py on every run (consts_ok).  Histories (C12/Hist.v: several tables, whole "
              "prints, interleaved line iterators, set_fmt, remove_columns, fmt_obj clones), full for the model: render_alone + "
              "history_free (every whole print of a table that was not re-formatted is the rendering of that table alone, "
              "whatever was printed, iterated, re-formatted or cloned in between), tables_frame / iterators_frame (a call changes "
              "only the table / iterator it is addressed to), iterator_start + iterator_stream (an iterator delivers exactly the "
              "lines of the table as it was at its first next(), in order, whatever happens in between), set_fmt_spec / "
              "set_fmt_ok_iff / remove_columns_spec / clone_spec; that the implementation, with its caches and shared objects "
              "(col.width, PPEnumFieldType text and length caches, palette singletons, shared RecordFields, service-line markers), "
              "behaves like this memory-less model is tested by the correspondence on generated histories.  Tested only (correspondence + oracle, "
              "not proved): fidelity of the model to the code; placement of break-by lines (the model's definition is the "
              "specification).  Not covered: colours, fmt-string parsing (C13), the per-value text cache of PPEnumFieldType "
              "for ==-equal values of different types (see c12.notes.md), histories in which remembered column widths show "
              "(remove_columns after a print, records changed between prints, set_fmt during an iteration), threads, negative "
              "limits.")
LEVEL_NOTE = ("Trusted: Coq kernel + vm_compute; the hand model's fidelity (checked by correspondence, not proved); Python's "
              "str()/==/strip() as passed in by the harness; the ast extractor and harness.")
DESIGN_REF = "DESIGN.md section 8, C12"
