(* C05/LemmasMap.v -- MapProds: the conversion of a valid derivation tree
   returns dict(key/value pairs of the template frontier, in source order);
   python's dict(): first position of a key, last value. *)
From Coq Require Import ZArith List Bool Lia.
From AK Require Import Common.Err LLP.Base gen.C05_Consts C05.Model C05.Lemmas.
Import ListNotations.

(* brackets and delimiter (spine), plus the assignment symbol *)
Definition mbr (o : mopts) : list sym := opt_cat [mo_open o; Some (mo_delim o); mo_close o].
Definition mpunct (o : mopts) : list sym := mo_assign o :: mbr o.

Definition mpair (result : sym) : sym := result ++ sfx_kv_pair.
Definition mtail (result : sym) : sym := result ++ sfx_kv_tail.

Record mopts_ok (result : sym) (o : mopts) : Prop := mkMok {
  mok_br : is_some (mo_open o) = is_some (mo_close o);
  mok_opt : mo_opt o = true -> is_some (mo_open o) = true;
  mok_key_punct : ~ In (mo_key o) (mpunct o);
  mok_val_punct : ~ In (mo_val o) (mpunct o);
  mok_key_own : ~ In (mo_key o) [result; mpair result; mtail result];
  mok_val_own : ~ In (mo_val o) [result; mpair result; mtail result];
  mok_punct_own : forall s, In s (mpunct o) -> ~ In s [result; mpair result; mtail result] }.

Lemma map_ctor_ok : forall op key asg val d c opt afd o,
  map_ctor op key asg val d c opt afd = Ok o ->
  mo_open o = op /\ mo_key o = key /\ Some (mo_assign o) = asg /\ mo_val o = val /\ Some (mo_delim o) = d /\
  mo_close o = c /\ is_some (mo_open o) = is_some (mo_close o) /\
  (mo_opt o = true -> is_some (mo_open o) = true).
Proof.
  intros op key asg val d c opt afd o. unfold map_ctor.
  destruct op, c, asg, d, opt as [[|]|]; simpl; intro H; try discriminate;
    injection H as <-; simpl; repeat split; auto; try discriminate.
Qed.

Definition mcontent_b (o : mopts) (t : rt) : bool := negb (mem (rname t) (mpunct o)).
Definition mcontent (result : sym) (o : mopts) (t : rt) : list rt :=
  filter (mcontent_b o) (frontier (map_gen (map_init result o)) t).

(* keys and values are cleaned as container entries, pair by pair *)
Fixpoint clean_pairs (E : env) (l : list rt) : res (list (cv * cv)) :=
  match l with
  | k :: v :: r =>
      match get_te (cl E k (MClean true false)) with
      | Err e => Err e
      | Ok k' =>
          match get_te (cl E v (MClean true false)) with
          | Err e => Err e
          | Ok v' => match clean_pairs E r with
                     | Ok ps => Ok ((item_value k', item_value v') :: ps)
                     | Err e => Err e
                     end
          end
      end
  | _ => Ok []
  end.

(* ------------------------------------------------------------------ *)
(* unfolding of the model                                              *)

Lemma cl_kvtail_node : forall E n ch T,
  cl E (RNode n ch) (MKvTail T) =
  match sig_get (mt_tsigs T) (n, map rname ch) with
  | None => Err AssertErr
  | Some pos => match map_collect T (map (cl E) ch) pos with Ok l => Ok (OPairs l) | Err e => Err e end
  end.
Proof. reflexivity. Qed.

Lemma cl_kvtail_null : forall E n T,
  cl E (RNull n) (MKvTail T) =
  match sig_get (mt_tsigs T) (n, []) with
  | None => Err AssertErr
  | Some pos => match map_collect T [] pos with Ok l => Ok (OPairs l) | Err e => Err e end
  end.
Proof. reflexivity. Qed.

Lemma cl_kvpair_node : forall E n k a v T,
  (n, [rname k; rname a; rname v]) = mt_kv T ->
  cl E (RNode n [k; a; v]) (MKvPair T) =
  match get_te (cl E k (MClean true false)) with
  | Err e => Err e
  | Ok k' => match get_te (cl E v (MClean true false)) with
             | Err e => Err e
             | Ok v' => Ok (OPairs [(item_value k', item_value v')])
             end
  end.
Proof.
  intros E n k a v T H. cbn [cl rsig rname map]. rewrite H.
  assert (R : sig_eqb (mt_kv T) (mt_kv T) = true) by now apply sig_eqb_eq.
  rewrite R. reflexivity.
Qed.

Definition rs_of (E : env) (t : rt) : list (mode -> res out) :=
  match t with RNode _ ch | RSeq _ ch => map (cl E) ch | _ => [] end.

Lemma cl_clean_map : forall E t fc fch T,
  tmpl_get (e_tmpl E) (rname t) = Some (TM T) ->
  cl E t (MClean fc fch) =
  match sig_get (mt_sigs T) (rsig t) with
  | None => Err AssertErr
  | Some pos =>
     if mo_opt (mt_o T) && is_rnull t then Ok (OTe (embed t) fch)
     else match map_collect T (rs_of E t) pos with
          | Err e => Err e
          | Ok pairs => match py_dict pairs with
                        | Err e => Err e
                        | Ok d => Ok (OTe (mkTe (rname t) true (CDict d)) fch)
                        end
          end
  end.
Proof. intros. destruct t; simpl in *; rewrite H; reflexivity. Qed.

Lemma sfx_pair_tail_differ : sfx_kv_pair <> sfx_kv_tail.
Proof. discriminate. Qed.

Section MapTemplate.
  Variable result : sym.
  Variable o : mopts.
  Hypothesis OK : mopts_ok result o.

  Let T := map_init result o.
  Let pair := mpair result.
  Let tail := mtail result.
  Let P := map_gen T.
  Let key := mo_key o.
  Let val := mo_val o.
  Let asg := mo_assign o.

  Definition all_br (p : list sym) : Prop := Forall (fun s => In s (mbr o)) p.

  Inductive mshape : list sym -> Prop :=
  | ms_punct p : all_br p -> mshape p
  | ms_pair pre post : all_br pre -> all_br post -> mshape (pre ++ pair :: tail :: post).

  Lemma pair_not_result : pair <> result.
  Proof. apply app_neq_self. apply sfx_nonempty. Qed.
  Lemma tail_not_result : tail <> result.
  Proof. apply app_neq_self. apply sfx_nonempty. Qed.
  Lemma pair_not_tail : pair <> tail.
  Proof. unfold pair, tail, mpair, mtail. intro H. apply app_inv_head in H. now apply sfx_pair_tail_differ. Qed.

  Lemma br_punct : forall s, In s (mbr o) -> In s (mpunct o).
  Proof. intros s H. right. exact H. Qed.

  Lemma own_not_br : forall s, In s [result; pair; tail] -> ~ In s (mbr o).
  Proof. intros s Hs Hb. apply (mok_punct_own _ _ OK s (br_punct _ Hb)). exact Hs. Qed.

  Definition mp_of : list (list (option sym)) :=
    let mp0 := [[mo_open o; mo_close o]; [mo_open o; Some pair; Some tail; mo_close o]] in
    if mo_opt o then mp0 ++ [[]] else mp0.
  Definition tp_of : list (list (option sym)) :=
    if mo_afd o then [[Some (mo_delim o); Some pair; Some tail]; [Some (mo_delim o)]; []]
    else [[Some (mo_delim o); Some pair; Some tail]; []].

  Lemma sigs_eq : mt_sigs T = make_sigs result pair tail mp_of.
  Proof. reflexivity. Qed.
  Lemma tsigs_eq : mt_tsigs T = make_sigs tail pair tail tp_of.
  Proof. reflexivity. Qed.
  Lemma kv_eq : mt_kv T = (pair, [key; asg; val]).
  Proof. reflexivity. Qed.

  Lemma map_shapes : forall p,
    In p (sig_prods (mt_sigs T)) \/ In p (sig_prods (mt_tsigs T)) -> mshape p.
  Proof.
    intros p H.
    assert (G : In p (map opt_cat
                 [[mo_open o; mo_close o]; [mo_open o; Some pair; Some tail; mo_close o]; [];
                  [Some (mo_delim o); Some pair; Some tail]; [Some (mo_delim o)]])).
    { destruct H as [H|H].
      - rewrite sigs_eq in H. apply sig_prods_in in H. apply in_map_iff in H as [q [<- Hq]]. apply in_map.
        unfold mp_of in Hq. destruct (mo_opt o); simpl in Hq; simpl; tauto.
      - rewrite tsigs_eq in H. apply sig_prods_in in H. apply in_map_iff in H as [q [<- Hq]]. apply in_map.
        unfold tp_of in Hq. destruct (mo_afd o); simpl in Hq; simpl; tauto. }
    clear H. simpl in G.
    destruct (mo_open o) as [op|] eqn:Eo, (mo_close o) as [c|] eqn:Ec; simpl in G;
      repeat (destruct G as [<-|G]; [| ]); try contradiction;
      (let pt := (unfold all_br, mbr; rewrite ?Eo, ?Ec; simpl; repeat constructor; simpl; tauto) in
       first [ apply ms_punct; pt
             | apply (ms_pair [] []); pt | apply (ms_pair [_] [_]); pt
             | apply (ms_pair [_] []); pt | apply (ms_pair [] [_]); pt ]).
  Qed.

  Lemma P_result : plookup P result = Some (sig_prods (mt_sigs T)).
  Proof. unfold P, map_gen. cbn [plookup]. change (mt_res T) with result. now rewrite sym_eqb_refl. Qed.

  Lemma P_tail : plookup P tail = Some (sig_prods (mt_tsigs T)).
  Proof.
    unfold P, map_gen. cbn [plookup]. change (mt_res T) with result. change (mt_tail T) with tail.
    assert (E : sym_eqb result tail = false) by (apply sym_eqb_neq; intro H; symmetry in H; now apply tail_not_result).
    now rewrite E, sym_eqb_refl.
  Qed.

  Lemma P_pair : plookup P pair = Some [[key; asg; val]].
  Proof.
    unfold P, map_gen. cbn [plookup]. change (mt_res T) with result. change (mt_tail T) with tail.
    change (mt_pair T) with pair.
    assert (E1 : sym_eqb result pair = false) by (apply sym_eqb_neq; intro H; symmetry in H; now apply pair_not_result).
    assert (E2 : sym_eqb tail pair = false) by (apply sym_eqb_neq; intro H; symmetry in H; now apply pair_not_tail).
    now rewrite E1, E2, sym_eqb_refl.
  Qed.

  Lemma P_other : forall s, ~ In s [result; pair; tail] -> plookup P s = None.
  Proof.
    intros s H. unfold P, map_gen. cbn [plookup]. change (mt_res T) with result. change (mt_tail T) with tail.
    change (mt_pair T) with pair.
    assert (E1 : sym_eqb result s = false) by (apply sym_eqb_neq; intro; subst; apply H; simpl; tauto).
    assert (E2 : sym_eqb tail s = false) by (apply sym_eqb_neq; intro; subst; apply H; simpl; tauto).
    assert (E3 : sym_eqb pair s = false) by (apply sym_eqb_neq; intro; subst; apply H; simpl; tauto).
    now rewrite E1, E2, E3.
  Qed.

  Lemma P_punct : forall s, In s (mpunct o) -> plookup P s = None.
  Proof. intros s H. apply P_other. apply (mok_punct_own _ _ OK s H). Qed.
  Lemma P_key : plookup P key = None.
  Proof. apply P_other. apply (mok_key_own _ _ OK). Qed.
  Lemma P_val : plookup P val = None.
  Proof. apply P_other. apply (mok_val_own _ _ OK). Qed.

  Lemma sigs_get : forall names,
    In names (sig_prods (mt_sigs T)) ->
    sig_get (mt_sigs T) (result, names) = Some (find_index names pair, find_index names tail).
  Proof.
    intros names H. rewrite sigs_eq in *. apply sig_prods_in in H. rewrite make_sigs_get. simpl.
    match goal with |- (if ?b then _ else _) = _ => assert (Hb : b = true) end.
    { apply existsb_exists. apply in_map_iff in H as [q [Eq Hq]]. exists q. split; auto.
      apply sig_eqb_eq. now rewrite Eq. }
    rewrite Hb. reflexivity.
  Qed.

  Lemma tsigs_get : forall names,
    In names (sig_prods (mt_tsigs T)) ->
    sig_get (mt_tsigs T) (tail, names) = Some (find_index names pair, find_index names tail).
  Proof.
    intros names H. rewrite tsigs_eq in *. apply sig_prods_in in H. rewrite make_sigs_get. simpl.
    match goal with |- (if ?b then _ else _) = _ => assert (Hb : b = true) end.
    { apply existsb_exists. apply in_map_iff in H as [q [Eq Hq]]. exists q. split; auto.
      apply sig_eqb_eq. now rewrite Eq. }
    rewrite Hb. reflexivity.
  Qed.

  Lemma map_split : forall (ch : list rt) pre x y post,
    map rname ch = pre ++ x :: y :: post ->
    exists c1 cx cy c2, ch = c1 ++ cx :: cy :: c2 /\ map rname c1 = pre /\ rname cx = x /\ rname cy = y /\ map rname c2 = post.
  Proof.
    intros ch pre. revert ch. induction pre as [|p pre IH]; intros ch x y post H.
    - destruct ch as [|cx [|cy c2]]; simpl in H; try discriminate.
      injection H as Hx Hy Hp. exists [], cx, cy, c2. auto.
    - destruct ch as [|c ch]; simpl in H; [discriminate|]. injection H as Hc H.
      destruct (IH _ _ _ _ H) as (c1 & cx & cy & c2 & -> & H1 & H2 & H3 & H4).
      exists (c :: c1), cx, cy, c2. simpl. rewrite H1, Hc. auto.
  Qed.

  Lemma br_children_content : forall ch,
    all_br (map rname ch) -> filter (mcontent_b o) (flat_map (frontier P) ch) = [].
  Proof.
    induction ch as [|c ch IH]; simpl; intro H; [reflexivity|].
    inversion H as [|? ? Hc Hr]; subst. rewrite filter_app, IH by assumption.
    apply br_punct in Hc.
    rewrite (frontier_ext P c (P_punct _ Hc)). cbn [filter]. unfold mcontent_b.
    apply mem_In in Hc. now rewrite Hc.
  Qed.

  Lemma nth_error_map_cl : forall E (c1 : list rt) cx c2,
    nth_error (map (cl E) (c1 ++ cx :: c2)) (length c1) = Some (cl E cx).
  Proof. intros. rewrite map_app. rewrite nth_error_app2; rewrite map_length; [|lia]. now rewrite Nat.sub_diag. Qed.

  (* one key/value pair *)
  Lemma pair_denote : forall E cp,
    rname cp = pair -> valid P cp = true ->
    exists k a v, cp = RNode pair [k; a; v] /\
      filter (mcontent_b o) (frontier P cp) = [k; v] /\
      cl E cp (MKvPair T) =
      match get_te (cl E k (MClean true false)) with
      | Err e => Err e
      | Ok k' => match get_te (cl E v (MClean true false)) with
                 | Err e => Err e
                 | Ok v' => Ok (OPairs [(item_value k', item_value v')])
                 end
      end.
  Proof.
    intros E cp Hn V. destruct cp as [n x|n|n ch|n ch]; cbn [rname] in Hn; subst n.
    - rewrite (valid_tok _ _ _ _ P_pair) in V. discriminate.
    - rewrite (valid_null _ _ _ P_pair) in V. simpl in V. discriminate.
    - rewrite (valid_node _ _ _ _ P_pair) in V.
      apply andb_true_iff in V as [V Vch]. apply andb_true_iff in V as [_ V]. apply existsb_syms in V.
      destruct V as [V|[]].
      destruct ch as [|k [|a [|v [|w ch]]]]; try discriminate V. injection V as Hk Ha Hv.
      exists k, a, v. split; [reflexivity|]. split.
      + rewrite (frontier_node _ _ _ _ P_pair). simpl flat_map. rewrite app_nil_r.
        rewrite (frontier_ext P k) by (rewrite <- Hk; apply P_key).
        rewrite (frontier_ext P v) by (rewrite <- Hv; apply P_val).
        assert (Ap : In (rname a) (mpunct o)) by (rewrite <- Ha; left; reflexivity).
        rewrite (frontier_ext P a) by (apply P_punct; exact Ap).
        simpl. unfold mcontent_b. rewrite <- Hk, <- Hv.
        assert (M1 : mem key (mpunct o) = false) by (apply mem_false; apply (mok_key_punct _ _ OK)).
        assert (M2 : mem val (mpunct o) = false) by (apply mem_false; apply (mok_val_punct _ _ OK)).
        apply mem_In in Ap. fold key val. rewrite M1, M2, Ap. reflexivity.
      + apply cl_kvpair_node. rewrite kv_eq. now rewrite <- Hk, <- Ha, <- Hv.
    - rewrite (valid_seq _ _ _ _ P_pair) in V. discriminate.
  Qed.

  Lemma collect_node : forall E ch,
    mshape (map rname ch) ->
    (forall c, In c ch -> rname c = tail -> valid P c = true ->
               cl E c (MKvTail T) = match clean_pairs E (filter (mcontent_b o) (frontier P c)) with
                                    | Ok l => Ok (OPairs l) | Err e => Err e end) ->
    forallb (valid P) ch = true ->
    map_collect T (map (cl E) ch) (find_index (map rname ch) pair, find_index (map rname ch) tail) =
    clean_pairs E (filter (mcontent_b o) (flat_map (frontier P) ch)).
  Proof.
    intros E ch SH IH V. inversion SH as [p AP Ep | pre post APre APost Ep].
    - rewrite br_children_content by assumption.
      rewrite (find_index_notin _ pair), (find_index_notin _ tail).
      + reflexivity.
      + intro H. eapply Forall_forall in AP; [|exact H]. revert AP. apply own_not_br. simpl; tauto.
      + intro H. eapply Forall_forall in AP; [|exact H]. revert AP. apply own_not_br. simpl; tauto.
    - symmetry in Ep. destruct (map_split _ _ _ _ _ Ep) as (c1 & cp & ct & c2 & -> & H1 & Hp & Ht & H2).
      assert (NI : ~ In pair pre).
      { intro H. eapply Forall_forall in APre; [|exact H]. revert APre. apply own_not_br. simpl; tauto. }
      assert (NT : ~ In tail pre).
      { intro H. eapply Forall_forall in APre; [|exact H]. revert APre. apply own_not_br. simpl; tauto. }
      rewrite (find_index_app_notin pre pair) by assumption.
      rewrite (find_index_app_notin pre tail) by assumption.
      rewrite find_index_head. simpl find_index at 1.
      assert (E1 : sym_eqb pair tail = false) by (apply sym_eqb_neq; apply pair_not_tail).
      rewrite E1, sym_eqb_refl.
      rewrite Nat.add_0_r. replace (length pre + 1)%nat with (length (c1 ++ [cp])) by (rewrite app_length, <- H1, map_length; reflexivity).
      replace (length pre) with (length c1) by (rewrite <- H1, map_length; reflexivity).
      unfold map_collect, at_pos. cbn [fst snd].
      rewrite nth_error_map_cl.
      replace (c1 ++ cp :: ct :: c2) with ((c1 ++ [cp]) ++ ct :: c2) by (rewrite <- app_assoc; reflexivity).
      rewrite nth_error_map_cl.
      rewrite <- app_assoc. simpl app.
      rewrite flat_map_app, filter_app. rewrite br_children_content by (rewrite H1; assumption).
      simpl flat_map. rewrite !filter_app.
      rewrite (br_children_content c2) by (rewrite H2; assumption).
      rewrite app_nil_r. simpl app.
      assert (Vp : valid P cp = true).
      { rewrite forallb_forall in V. apply V. apply in_or_app. right. now left. }
      destruct (pair_denote E cp Hp Vp) as (k & a & v & Ecp & Fcp & Ccp).
      rewrite Fcp, Ccp. cbn [app clean_pairs].
      destruct (get_te (cl E k (MClean true false))) as [k'|e]; [|reflexivity].
      destruct (get_te (cl E v (MClean true false))) as [v'|e]; [|reflexivity].
      cbn [get_pairs].
      rewrite (IH ct).
      + destruct (clean_pairs E (filter (mcontent_b o) (frontier P ct))); reflexivity.
      + apply in_or_app. right. right. now left.
      + exact Ht.
      + rewrite forallb_forall in V. apply V. apply in_or_app. right. right. now left.
  Qed.

  Lemma kvtail_denote : forall E t,
    rname t = tail -> valid P t = true ->
    cl E t (MKvTail T) = match clean_pairs E (filter (mcontent_b o) (frontier P t)) with
                         | Ok l => Ok (OPairs l) | Err e => Err e end.
  Proof.
    intros E t. induction t as [n v|n|n ch IH|n ch IH] using rt_ind'; intros Hn V; cbn [rname] in Hn; subst n.
    - rewrite (valid_tok _ _ _ _ P_tail) in V. discriminate.
    - rewrite (valid_null _ _ _ P_tail) in V. apply existsb_syms in V.
      rewrite cl_kvtail_null, (tsigs_get [] V), (frontier_null _ _ _ P_tail). reflexivity.
    - rewrite (valid_node _ _ _ _ P_tail) in V.
      apply andb_true_iff in V as [V Vch]. apply andb_true_iff in V as [_ V]. apply existsb_syms in V.
      rewrite cl_kvtail_node, (tsigs_get _ V), (frontier_node _ _ _ _ P_tail).
      rewrite collect_node; [reflexivity| | |exact Vch].
      + apply map_shapes. now right.
      + intros c Hc Hname Vc. rewrite Forall_forall in IH. apply IH; assumption.
    - rewrite (valid_seq _ _ _ _ P_tail) in V. discriminate.
  Qed.

  Lemma map_denote_l : forall E t fc fch,
    tmpl_get (e_tmpl E) result = Some (TM T) ->
    rname t = result -> valid P t = true ->
    cl E t (MClean fc fch) =
    if mo_opt o && is_rnull t then Ok (OTe (embed t) fch)
    else match clean_pairs E (mcontent result o t) with
         | Err e => Err e
         | Ok pairs => match py_dict pairs with
                       | Err e => Err e
                       | Ok d => Ok (OTe (mkTe result true (CDict d)) fch)
                       end
         end.
  Proof.
    intros E t fc fch HT Hn V. rewrite <- Hn in HT.
    rewrite (cl_clean_map E t fc fch T HT). unfold mcontent. fold T. fold P.
    change (mt_o T) with o.
    destruct t as [n v|n|n ch|n ch]; cbn [rname] in Hn; subst n.
    - rewrite (valid_tok _ _ _ _ P_result) in V. discriminate.
    - rewrite (valid_null _ _ _ P_result) in V. apply existsb_syms in V.
      cbn [rsig rname]. rewrite (sigs_get [] V), (frontier_null _ _ _ P_result). reflexivity.
    - rewrite (valid_node _ _ _ _ P_result) in V.
      apply andb_true_iff in V as [V Vch]. apply andb_true_iff in V as [_ V]. apply existsb_syms in V.
      cbn [rsig rname is_rnull rs_of]. rewrite (sigs_get _ V), andb_false_r, (frontier_node _ _ _ _ P_result).
      rewrite collect_node; [reflexivity| | |exact Vch].
      + apply map_shapes. now left.
      + intros c Hc Hname Vc. apply kvtail_denote; assumption.
    - rewrite (valid_seq _ _ _ _ P_result) in V. discriminate.
  Qed.
  Lemma empty_map_l : forall E op c b1 b2 fc fch,
    tmpl_get (e_tmpl E) result = Some (TM T) ->
    mo_open o = Some op -> mo_close o = Some c -> rname b1 = op -> rname b2 = c ->
    valid P (RNode result [b1; b2]) = true /\
    cl E (RNode result [b1; b2]) (MClean fc fch) = Ok (OTe (mkTe result true (CDict [])) fch).
  Proof.
    intros E op c b1 b2 fc fch HT Eo Ec H1 H2.
    assert (Bop : In op (mbr o)) by (unfold mbr; rewrite Eo; simpl; tauto).
    assert (Bc : In c (mbr o)) by (unfold mbr; rewrite Eo, Ec; simpl; tauto).
    assert (V : valid P (RNode result [b1; b2]) = true).
    { rewrite (valid_node _ _ _ _ P_result). cbn [is_nil negb map forallb].
      rewrite (valid_ext P b1) by (rewrite H1; apply P_punct; now apply br_punct).
      rewrite (valid_ext P b2) by (rewrite H2; apply P_punct; now apply br_punct).
      rewrite syms_existsb; [reflexivity|].
      rewrite sigs_eq. apply sig_prods_in. unfold mp_of. rewrite Eo, Ec, H1, H2.
      destruct (mo_opt o); simpl; tauto. }
    split; [exact V|].
    rewrite (map_denote_l E (RNode result [b1; b2]) fc fch HT eq_refl V). cbn [is_rnull]. rewrite andb_false_r.
    unfold mcontent. fold T. fold P. rewrite (frontier_node _ _ _ _ P_result).
    rewrite br_children_content; [reflexivity|].
    constructor; [now rewrite H1|constructor; [now rewrite H2|constructor]].
  Qed.

  Lemma absent_optional_map_l : forall E fc fch,
    tmpl_get (e_tmpl E) result = Some (TM T) -> mo_opt o = true ->
    valid P (RNull result) = true /\
    cl E (RNull result) (MClean fc fch) = Ok (OTe (mkTe result true CNone) fch).
  Proof.
    intros E fc fch HT Hopt.
    assert (V : valid P (RNull result) = true).
    { rewrite (valid_null _ _ _ P_result). apply syms_existsb.
      rewrite sigs_eq. apply sig_prods_in. unfold mp_of. rewrite Hopt.
      apply in_map_iff. exists []. split; [reflexivity|]. apply in_or_app. right. now left. }
    split; [exact V|].
    rewrite (map_denote_l E (RNull result) fc fch HT eq_refl V), Hopt. reflexivity.
  Qed.
End MapTemplate.

(* ------------------------------------------------------------------ *)
(* python dict semantics on string keys                                *)

Definition is_cstr (k : cv) : bool := match k with CStr _ => true | _ => false end.

Definition dict_of (ps : list (cv * cv)) : list (cv * cv) :=
  fold_left (fun d kv => dict_set d (fst kv) (snd kv)) ps [].

Fixpoint dict_get (d : list (cv * cv)) (k : cv) : option cv :=
  match d with
  | [] => None
  | (k', v) :: r => if key_eqb k' k then Some v else dict_get r k
  end.

(* the value of the last pair with that key *)
Definition assoc_last (ps : list (cv * cv)) (k : cv) : option cv :=
  fold_left (fun acc kv => if key_eqb (fst kv) k then Some (snd kv) else acc) ps None.

(* keys in the order of their first occurrence *)
Definition first_occ (ks : list cv) : list cv :=
  fold_left (fun acc k => if existsb (fun k' => key_eqb k' k) acc then acc else acc ++ [k]) ks [].

Lemma str_eqb_eq : forall a b, str_eqb a b = true <-> a = b.
Proof.
  induction a as [|x a IH]; destruct b as [|y b]; simpl; split; intro H; try congruence; auto.
  - apply andb_true_iff in H as [H1 H2]. apply Z.eqb_eq in H1. apply IH in H2. congruence.
  - injection H as -> ->. rewrite Z.eqb_refl. simpl. now apply IH.
Qed.

Lemma key_eqb_str : forall a b, is_cstr a = true -> (key_eqb a b = true <-> a = b).
Proof.
  intros a b Ha. destruct a; try discriminate. destruct b; simpl; split; intro H; try congruence.
  - apply str_eqb_eq in H. now subst.
  - injection H as ->. now apply str_eqb_eq.
Qed.

Lemma key_eqb_refl_str : forall a, is_cstr a = true -> key_eqb a a = true.
Proof. intros a Ha. now apply key_eqb_str. Qed.

Lemma py_dict_hashable : forall ps,
  forallb (fun kv => hashable (fst kv)) ps = true -> py_dict ps = Ok (dict_of ps).
Proof.
  intros ps. unfold py_dict, dict_of. generalize (@nil (cv * cv)).
  induction ps as [|[k v] ps IH]; intros d H; simpl; [reflexivity|].
  simpl in H. apply andb_true_iff in H as [Hk H]. rewrite Hk. now apply IH.
Qed.

Lemma py_dict_unhashable : forall ps,
  forallb (fun kv => hashable (fst kv)) ps = false -> py_dict ps = Err TypeErr.
Proof.
  intros ps. unfold py_dict. generalize (@nil (cv * cv)).
  induction ps as [|[k v] ps IH]; intros d H; simpl in *; [discriminate|].
  destruct (hashable k) eqn:Hk; simpl in H.
  - now apply IH.
  - clear. induction ps as [|kv ps IH]; simpl; auto.
Qed.

Lemma dict_get_set_same : forall d k v, is_cstr k = true -> dict_get (dict_set d k v) k = Some v.
Proof.
  induction d as [|[k0 v0] d IH]; intros k v Hk; simpl.
  - now rewrite key_eqb_refl_str.
  - destruct (key_eqb k0 k) eqn:E; simpl; rewrite E; auto.
Qed.

Lemma key_eqb_trans_false : forall a k k', is_cstr k = true -> key_eqb k k' = false -> key_eqb a k = true -> key_eqb a k' = false.
Proof.
  intros a k k' Hk H1 H2. destruct a, k; simpl in *; try discriminate.
  apply str_eqb_eq in H2. subst. exact H1.
Qed.

Lemma dict_get_set_other : forall d k k' v,
  is_cstr k = true -> key_eqb k k' = false -> dict_get (dict_set d k v) k' = dict_get d k'.
Proof.
  induction d as [|[k0 v0] d IH]; intros k k' v Hk H; simpl.
  - now rewrite H.
  - destruct (key_eqb k0 k) eqn:E; simpl.
    + rewrite (key_eqb_trans_false k0 k k' Hk H E). reflexivity.
    + destruct (key_eqb k0 k'); auto.
Qed.

(* a repeated key keeps the last value *)
Lemma dict_last_wins : forall ps k,
  forallb (fun kv => is_cstr (fst kv)) ps = true ->
  dict_get (dict_of ps) k = assoc_last ps k.
Proof.
  intros ps k. unfold dict_of, assoc_last.
  assert (G : forall d acc, dict_get d k = acc ->
              forallb (fun kv => is_cstr (fst kv)) ps = true ->
              dict_get (fold_left (fun d kv => dict_set d (fst kv) (snd kv)) ps d) k =
              fold_left (fun acc kv => if key_eqb (fst kv) k then Some (snd kv) else acc) ps acc).
  { induction ps as [|[k0 v0] ps IH]; intros d acc Hd H; simpl; [exact Hd|].
    simpl in H. apply andb_true_iff in H as [Hk H]. apply IH; [|exact H].
    destruct (key_eqb k0 k) eqn:E.
    - apply (key_eqb_str k0 k Hk) in E. subst k. now apply dict_get_set_same.
    - rewrite dict_get_set_other by assumption. exact Hd. }
  intro H. apply G; auto.
Qed.

Lemma dict_set_keys : forall d k v,
  map fst (dict_set d k v) = if existsb (fun k' => key_eqb k' k) (map fst d) then map fst d else map fst d ++ [k].
Proof.
  induction d as [|[k0 v0] d IH]; intros k v; simpl; [reflexivity|].
  destruct (key_eqb k0 k) eqn:E; simpl; [reflexivity|].
  rewrite IH. destruct (existsb (fun k' => key_eqb k' k) (map fst d)); reflexivity.
Qed.

(* one entry per key, in the order of first occurrence *)
Lemma dict_keys_order : forall ps, map fst (dict_of ps) = first_occ (map fst ps).
Proof.
  intros ps. unfold dict_of, first_occ.
  assert (G : forall d, map fst (fold_left (fun d kv => dict_set d (fst kv) (snd kv)) ps d) =
                        fold_left (fun acc k => if existsb (fun k' => key_eqb k' k) acc then acc else acc ++ [k])
                                  (map fst ps) (map fst d)).
  { induction ps as [|[k v] ps IH]; intro d; simpl; [reflexivity|].
    rewrite IH, dict_set_keys. reflexivity. }
  apply (G []).
Qed.
