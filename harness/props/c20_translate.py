"""Fail-closed Python-`ast` -> Gallina translator for ak/short_uuid.py (property C20).

`translate(source_text) -> coq_text` turns the WHOLE module into Coq definitions over the vocabulary of
coq/C20/PyLib.v (one `py_*` definition per Python construct) and the `res` monad of coq/Common/Err.v.  The result is
written to coq/gen/C20_Translated.v on every run (harness/props/c20.py:gen_consts), so coq/C20/TransEq.v (translated
functions = hand model, on all inputs) and the `*_translated` corollaries of coq/C20/Props.v are re-checked against
what the source says NOW.  Anything outside the subset below raises `Unsupported` ("correspondence broken").

Supported subset (everything else raises):
  module level   docstring; `import uuid`; `NAME = <pure expression>` (each name once); `def` without decorators,
                 defaults, *args/**kwargs, nested functions, recursion, global/nonlocal
  types          int -> Z, bool, str -> list Z (code points; a character is a str of length 1), list[T], dict[K, V]
                 (K in int/str) as association list, tuples (only built and taken apart), uuid.UUID objects (abstract
                 type of the `uuid_lib` record), "any object" for the parameters of the API functions declared so in
                 ENTRY (case split PyStr / PyOther at function entry; on the PyOther side only isinstance(x, str) is allowed)
  expressions    int/str/bool literals; names; + - * // % divmod unary-; ** and << with a literal non-negative right
                 operand; str + str, str * int, list + list; comparisons == != < <= > >= on int, == != on str/bool,
                 chains of pure comparisons; in / not in over list and dict; and / or / not (short circuit, truthiness
                 of int/str/list); x if c else y; len(str|list); isinstance(x, str|int); seq[i] (negative indices,
                 IndexError), str/list slices [a:b] and [::-1]; dict[k] (KeyError); list.index(x) (ValueError);
                 str.rjust/ljust(w[, fill]), str.strip/lstrip/rstrip(chars), sep.join(iterable); list(it), dict(it);
                 list/generator/dict comprehensions with ONE `for`, pure element and pure `if`s; iterables: str, list,
                 reversed(it), enumerate(it[, start]), range(a[, b]), zip(a, b); calls of the module's own functions;
                 uuid.UUID(int=e), uuid.UUID(e) with e a str, e.int on a UUID
  statements     assignment to a name / tuple of names, augmented assignment to a name, if/elif/else, pass, assert,
                 return <expr>, raise Class[(harmless message)] [from name], bare raise in a handler,
                 try/except Class | (Class, ...) [as name] (no else/finally), while (no else/break/continue/return
                 inside) -> Fixpoint on `fuel` with `Err Hang` when it runs out, for over an iterable (same limits) ->
                 structural Fixpoint on the list of items
  exceptions     ValueError KeyError IndexError TypeError AssertionError AttributeError (and LookupError, Exception
                 in except clauses); ZeroDivisionError of // % divmod is the unnamed OtherErr and can only be caught
                 by `except Exception`
Every translated function takes `(L : uuid_lib) (fuel : nat)` first, whether it needs them or not.
"""
import ast
import re
import sys

ENTRY = {  # parameter types of the API functions (the helpers' types are inferred from their call sites)
    "uuid_from_short_str": ["obj"],
    "uuid_to_short_str": ["uuid"],
    "uuid_from_str": ["str"],
}
ENTRY_RET = {"uuid_from_short_str": "uuid", "uuid_to_short_str": "str", "uuid_from_str": "uuid"}
PREFIX = "T_"      # translated module-level names
VPREFIX = "v_"     # translated local names

EXC_RAISE = {"ValueError": "ValueErr", "KeyError": "KeyErr", "IndexError": "IndexErr", "TypeError": "TypeErr",
             "AssertionError": "AssertErr", "AttributeError": "AttrErr"}
EXC_CATCH = dict({k: [v] for k, v in EXC_RAISE.items()},
                 LookupError=["KeyErr", "IndexErr"],
                 Exception=["ValueErr", "KeyErr", "IndexErr", "AssertErr", "AttrErr", "TypeErr", "OtherErr"])
IDENT = re.compile(r"^[A-Za-z_][A-Za-z0-9_]*$")
# names whose builtin meaning the translator relies on: the module must not rebind them
RESERVED = {"len", "divmod", "isinstance", "list", "dict", "reversed", "enumerate", "range", "zip", "str", "int",
            "uuid", "True", "False", "None"} | set(EXC_CATCH)


class Unsupported(Exception):
    """the source leaves the supported subset"""


class Impure(Exception):
    """internal: an expression that may raise occurs where only a pure one can be translated"""


def bad(node, why):
    line = getattr(node, "lineno", "?")
    raise Unsupported(f"ak/short_uuid.py line {line}: {why} [{type(node).__name__}]")


def ind(text, n=2):
    return "\n".join((" " * n + l) if l else l for l in text.split("\n"))


def zlit(v):
    return str(v) if v >= 0 else f"({v})"


def strlit(s):
    return "([] : list Z)" if not s else "[" + "; ".join(str(ord(c)) for c in s) + "]"


def coq_type(t):
    if t == "int":
        return "Z"
    if t == "bool":
        return "bool"
    if t == "str":
        return "list Z"
    if t == "uuid":
        return "UUID L"
    if t == "obj":
        return "pyobj"
    if isinstance(t, tuple) and t[0] == "list":
        return f"list ({coq_type(t[1])})"
    if isinstance(t, tuple) and t[0] == "dict":
        return f"list ({coq_type(t[1])} * {coq_type(t[2])})"
    if isinstance(t, tuple) and t[0] == "tuple":
        return "(" + " * ".join(coq_type(x) for x in t[1]) + ")"
    raise Unsupported(f"no Coq type for {t}")


def eqb_for(t, node):
    if t == "int":
        return "Z.eqb"
    if t == "str":
        return "py_str_eqb"
    if t == "bool":
        return "Bool.eqb"
    bad(node, f"equality on values of type {t}")


def tuple_pat(names):
    if not names:
        return "_"
    if len(names) == 1:
        return names[0]
    return "'(" + ", ".join(names) + ")"


def tuple_term(names):
    if not names:
        return "tt"
    if len(names) == 1:
        return names[0]
    return "(" + ", ".join(names) + ")"


def assigned_names(stmts):
    out = []

    def tgt(t):
        if isinstance(t, ast.Name):
            out.append(t.id)
        elif isinstance(t, (ast.Tuple, ast.List)):
            for x in t.elts:
                tgt(x)

    for n in stmts:
        for s in ast.walk(n):
            if isinstance(s, ast.Assign):
                for t in s.targets:
                    tgt(t)
            elif isinstance(s, (ast.AugAssign, ast.AnnAssign, ast.For)):
                tgt(s.target)
            elif isinstance(s, ast.ExceptHandler) and s.name:
                out.append(s.name)
            elif isinstance(s, ast.NamedExpr):
                tgt(s.target)
    return out


def loaded_names(nodes):
    return {n.id for top in nodes for n in ast.walk(top) if isinstance(n, ast.Name)}


def falls_through(stmts):
    if not stmts:
        return True
    last = stmts[-1]
    if isinstance(last, (ast.Return, ast.Raise)):
        return False
    if isinstance(last, ast.If):
        return falls_through(last.body) or falls_through(last.orelse)
    return True


def contains(stmts, kinds):
    return any(isinstance(n, kinds) for top in stmts for n in ast.walk(top))


class Ctl:
    """how `return` is rendered in the block being translated"""

    def __init__(self, fn, ret, handler_var=None):
        self.fn, self.ret, self.handler_var = fn, ret, handler_var

    def with_handler(self, var):
        return Ctl(self.fn, self.ret, var)


class Fn:
    """translation of one function"""

    def __init__(self, mod, node, ptypes):
        self.mod, self.node, self.ptypes = mod, node, ptypes
        self.name = node.name
        self.aux = []        # loop Fixpoints, in order
        self.ntmp = 0
        self.nloop = 0
        self.nver = 0
        self.rtype = None

    # ---------------------------------------------------------------- helpers
    def fresh(self, hint="t"):
        self.ntmp += 1
        return f"{hint}{self.ntmp}"

    def setvar(self, env, name, ty, node):
        if not IDENT.match(name):
            bad(node, f"identifier {name!r}")
        if name in self.mod.module_names:
            bad(node, f"local name {name} shadows a module-level name")
        self.nver += 1
        env2 = dict(env)
        env2[name] = (ty, self.nver)
        return env2

    def note_ret(self, ty, node):
        if self.rtype is None:
            self.rtype = ty
        elif self.rtype != ty:
            bad(node, f"function returns both {self.rtype} and {ty}")

    def bind(self, comp, ty, k, po, node):
        if po:
            raise Impure(f"line {getattr(node, 'lineno', '?')}: expression may raise")
        x = self.fresh()
        return f"bind ({comp}) (fun {x} =>\n{k(x, ty)})"

    def pure(self, e, env):
        box = []

        def k(t, ty):
            box.append((t, ty))
            return "<HOLE>"
        out = self.expr(e, env, k, True)
        if out != "<HOLE>" or len(box) != 1:
            bad(e, "internal: pure expression was wrapped")
        return box[0]

    def pure_or_unsupported(self, e, env, what):
        try:
            return self.pure(e, env)
        except Impure as ex:
            bad(e, f"{what} must not be able to raise ({ex})")

    # ---------------------------------------------------------------- expressions
    def exprs(self, es, env, k, po):
        """evaluate left to right; k([(term, type)])"""
        def go(i, acc):
            if i == len(es):
                return k(acc)
            return self.expr(es[i], env, lambda t, ty: go(i + 1, acc + [(t, ty)]), po)
        return go(0, [])

    def cond(self, e, env, k, po=False):
        """expression in a boolean position -> k(bool term, 'bool')"""
        if isinstance(e, ast.BoolOp):
            return self.boolop(e, list(e.values), env, k, po, False)

        def conv(t, ty):
            if ty == "bool":
                return k(t, "bool")
            if ty == "int":
                return k(f"(py_truthy_int {t})", "bool")
            if ty == "str" or (isinstance(ty, tuple) and ty[0] == "list"):
                return k(f"(py_truthy_list {t})", "bool")
            bad(e, f"truth value of {ty}")
        return self.expr(e, env, conv, po)

    def expr(self, e, env, k, po=False):
        if isinstance(e, ast.Constant):
            v = e.value
            if v is True or v is False:
                return k("true" if v else "false", "bool")
            if isinstance(v, int):
                return k(zlit(v), "int")
            if isinstance(v, str):
                return k(strlit(v), "str")
            bad(e, f"literal {v!r}")
        if isinstance(e, ast.Name):
            if e.id in env:
                ty = env[e.id][0]
                if ty in ("other", "exc"):
                    bad(e, f"use of {e.id}, which is not a str here")
                return k(VPREFIX + e.id, ty)
            if e.id in self.mod.consts:
                return k(PREFIX + e.id, self.mod.consts[e.id])
            bad(e, f"name {e.id} is not a local variable or module constant defined before")
        if isinstance(e, ast.Tuple):
            return self.exprs(e.elts, env, lambda xs: k("(" + ", ".join(t for t, _ in xs) + ")",
                                                        ("tuple", tuple(ty for _, ty in xs))), po)
        if isinstance(e, ast.BinOp):
            return self.exprs([e.left, e.right], env, lambda xs: self.binop(e, xs[0], xs[1], k, po), po)
        if isinstance(e, ast.UnaryOp):
            if isinstance(e.op, ast.Not):
                def neg(t, _):
                    return k({"true": "false", "false": "true"}.get(t, f"(negb {t})"), "bool")
                return self.cond(e.operand, env, neg, po)
            if isinstance(e.op, ast.USub):
                def minus(t, ty):
                    if ty != "int":
                        bad(e, f"unary minus on {ty}")
                    return k(f"(- {t})", "int")
                return self.expr(e.operand, env, minus, po)
            bad(e, "unary operator")
        if isinstance(e, ast.BoolOp):
            return self.boolop(e, list(e.values), env, k, po, True)
        if isinstance(e, ast.Compare):
            return self.compare(e, env, k, po)
        if isinstance(e, ast.IfExp):
            return self.ifexp(e, env, k, po)
        if isinstance(e, ast.Subscript):
            return self.subscript(e, env, k, po)
        if isinstance(e, ast.Attribute):
            def attr(t, ty):
                if ty == "uuid" and e.attr == "int":
                    return k(f"(UUID_int L {t})", "int")
                bad(e, f"attribute .{e.attr} of {ty}")
            if isinstance(e.value, ast.Name) and e.value.id == "uuid" and e.value.id not in env:
                bad(e, "uuid.<name> outside a call of uuid.UUID")
            return self.expr(e.value, env, attr, po)
        if isinstance(e, ast.Call):
            return self.call(e, env, k, po)
        if isinstance(e, (ast.ListComp, ast.GeneratorExp, ast.DictComp)):
            return self.comprehension(e, env, k, po)
        bad(e, "expression form")

    def binop(self, e, a, b, k, po):
        (x, tx), (y, ty) = a, b
        op = e.op
        if tx == "int" and ty == "int":
            if isinstance(op, ast.Add):
                return k(f"({x} + {y})", "int")
            if isinstance(op, ast.Sub):
                return k(f"({x} - {y})", "int")
            if isinstance(op, ast.Mult):
                return k(f"({x} * {y})", "int")
            if isinstance(op, ast.FloorDiv):
                return self.bind(f"py_floordiv {x} {y}", "int", k, po, e)
            if isinstance(op, ast.Mod):
                return self.bind(f"py_mod {x} {y}", "int", k, po, e)
            if isinstance(op, (ast.Pow, ast.LShift)):
                r = e.right
                if not (isinstance(r, ast.Constant) and isinstance(r.value, int) and not isinstance(r.value, bool)
                        and 0 <= r.value <= 4096):
                    bad(e, "** and << need a literal right operand in 0..4096")
                return k(f"({x} ^ {y})" if isinstance(op, ast.Pow) else f"(Z.shiftl {x} {y})", "int")
            bad(e, "integer operator")
        if isinstance(op, ast.Add) and tx == ty and (tx == "str" or (isinstance(tx, tuple) and tx[0] == "list")):
            return k(f"({x} ++ {y})", tx)
        if isinstance(op, ast.Mult) and tx == "str" and ty == "int":
            return k(f"(py_str_mul {x} {y})", "str")
        if isinstance(op, ast.Mult) and tx == "int" and ty == "str":
            return k(f"(py_str_mul {y} {x})", "str")
        bad(e, f"operator on {tx} and {ty}")

    def boolop(self, e, values, env, k, po, strict):
        """strict: the value of `a or b` is used as a value, where Python yields one of the OPERANDS:
        only bool operands are translated then; in a boolean position truthiness is enough"""
        is_or = isinstance(e.op, ast.Or)
        first, rest = values[0], values[1:]

        def operand(x, kk, po_):
            if not strict:
                return self.cond(x, env, kk, po_)

            def only_bool(t, ty):
                if ty != "bool":
                    bad(e, f"`and` / `or` used as a value with an operand of type {ty}")
                return kk(t, ty)
            return self.expr(x, env, only_bool, po_)
        if not rest:
            return operand(first, k, po)

        def k1(a, _):
            if a == ("true" if is_or else "false"):
                return k(a, "bool")           # short circuit: the rest is never evaluated
            if a == ("false" if is_or else "true"):
                return self.boolop(e, rest, env, k, po, strict)
            try:
                box = []
                out = self.boolop(e, rest, env, lambda t, ty: (box.append(t), "<HOLE>")[1], True, strict)
                if out != "<HOLE>":
                    bad(e, "internal: boolean operand was wrapped")
                b = box[0]
                return k(f"({a} || {b})" if is_or else f"({a} && {b})", "bool")
            except Impure:
                if po:
                    raise
                inner = self.boolop(e, rest, env, lambda t, ty: f"Ok {t}", False, strict)
                x = self.fresh()
                comp = f"if {a} then Ok true else\n{ind(inner)}" if is_or else f"if {a} then\n{ind(inner)}\nelse Ok false"
                return f"bind ({comp}) (fun {x} =>\n{k(x, 'bool')})"
        return operand(first, k1, po)

    def cmp1(self, e, op, a, b):
        (x, tx), (y, ty) = a, b
        if isinstance(op, (ast.In, ast.NotIn)):
            if isinstance(ty, tuple) and ty[0] == "list" and ty[1] == tx:
                t = f"(py_in {eqb_for(tx, e)} {x} {y})"
            elif isinstance(ty, tuple) and ty[0] == "dict" and ty[1] == tx:
                t = f"(py_dict_has {eqb_for(tx, e)} {y} {x})"
            else:
                bad(e, f"`in` on {tx} and {ty}")
            return t if isinstance(op, ast.In) else f"(negb {t})"
        if tx != ty:
            bad(e, f"comparison of {tx} with {ty}")
        if isinstance(op, (ast.Eq, ast.NotEq)):
            t = f"({eqb_for(tx, e)} {x} {y})"
            return t if isinstance(op, ast.Eq) else f"(negb {t})"
        if tx != "int":
            bad(e, f"ordering on {tx}")
        if isinstance(op, ast.Lt):
            return f"({x} <? {y})"
        if isinstance(op, ast.LtE):
            return f"({x} <=? {y})"
        if isinstance(op, ast.Gt):
            return f"({y} <? {x})"
        if isinstance(op, ast.GtE):
            return f"({y} <=? {x})"
        bad(e, "comparison operator")

    def compare(self, e, env, k, po):
        if len(e.ops) == 1:
            return self.exprs([e.left, e.comparators[0]], env,
                              lambda xs: k(self.cmp1(e, e.ops[0], xs[0], xs[1]), "bool"), po)
        operands = [self.pure_or_unsupported(x, env, "an operand of a chained comparison") for x in [e.left] + e.comparators]
        parts = [self.cmp1(e, op, operands[i], operands[i + 1]) for i, op in enumerate(e.ops)]
        return k("(" + " && ".join(parts) + ")", "bool")

    def ifexp(self, e, env, k, po):
        def k1(c, _):
            if c == "true":
                return self.expr(e.body, env, k, po)
            if c == "false":
                return self.expr(e.orelse, env, k, po)
            try:
                (a, ta), (b, tb) = self.pure(e.body, env), self.pure(e.orelse, env)
                if ta != tb:
                    bad(e, f"branches of a conditional expression have types {ta} and {tb}")
                return k(f"(if {c} then {a} else {b})", ta)
            except Impure:
                if po:
                    raise
            tys = []
            a = self.expr(e.body, env, lambda t, ty: (tys.append(ty), f"Ok {t}")[1], False)
            b = self.expr(e.orelse, env, lambda t, ty: (tys.append(ty), f"Ok {t}")[1], False)
            if tys[0] != tys[1]:
                bad(e, f"branches of a conditional expression have types {tys[0]} and {tys[1]}")
            x = self.fresh()
            return f"bind (if {c} then\n{ind(a)}\nelse\n{ind(b)}) (fun {x} =>\n{k(x, tys[0])})"
        return self.cond(e.test, env, k1, po)

    def subscript(self, e, env, k, po):
        sl = e.slice
        if isinstance(sl, ast.Slice):
            def with_value(v, tv):
                if not (tv == "str" or (isinstance(tv, tuple) and tv[0] == "list")):
                    bad(e, f"slice of {tv}")
                if sl.step is not None:
                    st = sl.step
                    if (isinstance(st, ast.UnaryOp) and isinstance(st.op, ast.USub) and isinstance(st.operand, ast.Constant)
                            and st.operand.value == 1 and sl.lower is None and sl.upper is None):
                        return k(f"(rev {v})", tv)
                    bad(e, "slice with a step (only [::-1] is supported)")
                bounds = [b for b in (sl.lower, sl.upper) if b is not None]

                def with_bounds(xs):
                    xs = list(xs)
                    for _, tb in xs:
                        if tb != "int":
                            bad(e, f"slice bound of type {tb}")
                    lo = f"(Some {xs.pop(0)[0]})" if sl.lower is not None else "None"
                    hi = f"(Some {xs.pop(0)[0]})" if sl.upper is not None else "None"
                    return k(f"(py_slice {v} {lo} {hi})", tv)
                return self.exprs(bounds, env, with_bounds, po)
            return self.expr(e.value, env, with_value, po)

        def with_both(xs):
            (v, tv), (i, ti) = xs
            if tv == "str" and ti == "int":
                return self.bind(f"py_str_get {v} {i}", "str", k, po, e)
            if isinstance(tv, tuple) and tv[0] == "list" and ti == "int":
                return self.bind(f"py_list_get {v} {i}", tv[1], k, po, e)
            if isinstance(tv, tuple) and tv[0] == "dict" and ti == tv[1]:
                return self.bind(f"py_dict_get {eqb_for(ti, e)} {v} {i}", tv[2], k, po, e)
            bad(e, f"subscript of {tv} with {ti}")
        return self.exprs([e.value, sl], env, with_both, po)

    def iterable(self, e, env, k, po):
        """k(term : list T, T)"""
        if isinstance(e, ast.Call) and isinstance(e.func, ast.Name) and e.func.id not in env and not e.keywords:
            f, args = e.func.id, e.args
            if f == "reversed" and len(args) == 1:
                return self.iterable(args[0], env, lambda t, ty: k(f"(rev {t})", ty), po)
            if f == "enumerate" and len(args) in (1, 2):
                def enum(t, ty):
                    if len(args) == 1:
                        return k(f"(py_enumerate_from 0 {t})", ("tuple", ("int", ty)))

                    def with_start(s, ts):
                        if ts != "int":
                            bad(e, "enumerate start")
                        return k(f"(py_enumerate_from {s} {t})", ("tuple", ("int", ty)))
                    return self.expr(args[1], env, with_start, po)
                return self.iterable(args[0], env, enum, po)
            if f == "range" and len(args) in (1, 2):
                def rng(xs):
                    if any(ty != "int" for _, ty in xs):
                        bad(e, "range bounds")
                    lo, hi = ("0", xs[0][0]) if len(xs) == 1 else (xs[0][0], xs[1][0])
                    return k(f"(py_range {lo} {hi})", "int")
                return self.exprs(args, env, rng, po)
            if f == "zip" and len(args) == 2:
                return self.iterable(args[0], env, lambda a, ta: self.iterable(
                    args[1], env, lambda b, tb: k(f"(combine {a} {b})", ("tuple", (ta, tb))), po), po)

        def plain(t, ty):
            if ty == "str":
                return k(f"(py_chars {t})", "str")
            if isinstance(ty, tuple) and ty[0] == "list":
                return k(t, ty[1])
            bad(e, f"iteration over {ty}")
        return self.expr(e, env, plain, po)

    def target_pattern(self, tgt, ty, env, node):
        """-> (coq pattern without the leading quote, env')"""
        if isinstance(tgt, ast.Name):
            if tgt.id in env:
                bad(node, f"loop / comprehension variable {tgt.id} re-uses an existing name")
            return VPREFIX + tgt.id, self.setvar(env, tgt.id, ty, node)
        if isinstance(tgt, ast.Tuple) and isinstance(ty, tuple) and ty[0] == "tuple" and len(ty[1]) == len(tgt.elts):
            pats = []
            for x, tx in zip(tgt.elts, ty[1]):
                p, env = self.target_pattern(x, tx, env, node)
                pats.append(p)
            return "(" + ", ".join(pats) + ")", env
        bad(node, f"target does not match items of type {ty}")

    def comprehension(self, e, env, k, po):
        if len(e.generators) != 1 or e.generators[0].is_async:
            bad(e, "comprehension with several `for`")
        g = e.generators[0]

        def with_iter(it, telt):
            pat, env2 = self.target_pattern(g.target, telt, env, e)
            fun = f"fun '{pat}" if pat.startswith("(") else f"fun {pat}"
            for c in g.ifs:
                ct, cty = self.pure_or_unsupported(c, env2, "a comprehension condition")
                if cty != "bool":
                    bad(c, "comprehension condition must be a bool")
                it = f"(filter ({fun} => {ct}) {it})"
            if isinstance(e, ast.DictComp):
                (a, ta) = self.pure_or_unsupported(e.key, env2, "a comprehension element")
                (b, tb) = self.pure_or_unsupported(e.value, env2, "a comprehension element")
                eqb_for(ta, e)
                return k(f"(map ({fun} => ({a}, {b})) {it})", ("dict", ta, tb))
            (a, ta) = self.pure_or_unsupported(e.elt, env2, "a comprehension element")
            return k(f"(map ({fun} => {a}) {it})", ("list", ta))
        return self.iterable(g.iter, env, with_iter, po)

    def call(self, e, env, k, po):
        f = e.func
        if isinstance(f, ast.Name) and f.id not in env:
            name = f.id
            if name in self.mod.funcs:
                if e.keywords:
                    bad(e, "keyword arguments")
                return self.exprs(e.args, env, lambda xs: self.call_own(e, name, xs, k, po), po)
            if e.keywords:
                bad(e, "keyword arguments")
            if name == "len" and len(e.args) == 1:
                def ln(t, ty):
                    if ty == "str" or (isinstance(ty, tuple) and ty[0] == "list"):
                        return k(f"(py_len {t})", "int")
                    bad(e, f"len of {ty}")
                return self.expr(e.args[0], env, ln, po)
            if name == "divmod" and len(e.args) == 2:
                def dm(xs):
                    if [ty for _, ty in xs] != ["int", "int"]:
                        bad(e, "divmod of non-integers")
                    return self.bind(f"py_divmod {xs[0][0]} {xs[1][0]}", ("tuple", ("int", "int")), k, po, e)
                return self.exprs(e.args, env, dm, po)
            if name == "isinstance" and len(e.args) == 2:
                cls = e.args[1]
                if not (isinstance(cls, ast.Name) and cls.id in ("str", "int") and cls.id not in env):
                    bad(e, "isinstance with a class other than str / int")
                a = e.args[0]
                if isinstance(a, ast.Name) and a.id in env and env[a.id][0] == "other":
                    if cls.id != "str":
                        bad(e, "isinstance(<unknown object>, int)")
                    return k("false", "bool")

                def inst(t, ty):
                    if ty in ("uuid", "obj"):
                        bad(e, f"isinstance on {ty}")
                    yes = (cls.id == "str" and ty == "str") or (cls.id == "int" and ty in ("int", "bool"))
                    return k("true" if yes else "false", "bool")
                return self.expr(a, env, inst, po)
            if name == "list" and len(e.args) == 1:
                return self.iterable(e.args[0], env, lambda t, ty: k(t, ("list", ty)), po)
            if name == "dict" and len(e.args) == 1:
                def dct(t, ty):
                    if not (isinstance(ty, tuple) and ty[0] == "tuple" and len(ty[1]) == 2):
                        bad(e, "dict() of something that is not an iterable of pairs")
                    eqb_for(ty[1][0], e)
                    return k(t, ("dict", ty[1][0], ty[1][1]))
                return self.iterable(e.args[0], env, dct, po)
            bad(e, f"call of {name}")
        if isinstance(f, ast.Attribute):
            if isinstance(f.value, ast.Name) and f.value.id == "uuid" and "uuid" not in env and self.mod.imports_uuid:
                if f.attr != "UUID":
                    bad(e, f"uuid.{f.attr}")
                if len(e.args) == 0 and len(e.keywords) == 1 and e.keywords[0].arg == "int":
                    def of_int(t, ty):
                        if ty != "int":
                            bad(e, f"uuid.UUID(int=<{ty}>)")
                        return self.bind(f"UUID_of_int L {t}", "uuid", k, po, e)
                    return self.expr(e.keywords[0].value, env, of_int, po)
                if len(e.args) == 1 and not e.keywords:
                    def of_str(t, ty):
                        if ty != "str":
                            bad(e, f"uuid.UUID(<{ty}>)")
                        return self.bind(f"UUID_of_str L {t}", "uuid", k, po, e)
                    return self.expr(e.args[0], env, of_str, po)
                bad(e, "uuid.UUID with arguments other than (str) or (int=...)")
            if e.keywords:
                bad(e, "keyword arguments")
            meth = f.attr
            if meth == "join" and len(e.args) == 1:
                def join(sep, tsep):
                    if tsep != "str":
                        bad(e, f".join on {tsep}")

                    def joined(it, telt):
                        if telt != "str":
                            bad(e, f"join of items of type {telt}")
                        return k(f"(py_join {sep} {it})", "str")
                    return self.iterable(e.args[0], env, joined, po)
                return self.expr(f.value, env, join, po)

            def method(xs):
                (r, tr), args = xs[0], xs[1:]
                targs = [ty for _, ty in args]
                a = [t for t, _ in args]
                if tr == "str" and meth in ("rjust", "ljust") and targs in (["int"], ["int", "str"]):
                    fill = a[1] if len(a) == 2 else "[32]"
                    return self.bind(f"py_{meth} {r} {a[0]} {fill}", "str", k, po, e)
                if tr == "str" and meth in ("strip", "lstrip", "rstrip") and targs == ["str"]:
                    return k(f"(py_{meth} {r} {a[0]})", "str")
                if isinstance(tr, tuple) and tr[0] == "list" and meth == "index" and targs == [tr[1]]:
                    return self.bind(f"py_list_index {eqb_for(tr[1], e)} {r} {a[0]}", "int", k, po, e)
                bad(e, f"method .{meth} of {tr} with arguments {targs}")
            return self.exprs([f.value] + list(e.args), env, method, po)
        bad(e, "call")

    def call_own(self, e, name, xs, k, po):
        ptypes = self.mod.signature(name, [ty for _, ty in xs], e)
        if len(ptypes) != len(xs):
            bad(e, f"{name} called with {len(xs)} arguments")
        args = []
        for (t, ty), pt in zip(xs, ptypes):
            if pt == "obj" and ty == "str":
                args.append(f"(PyStr {t})")
            elif pt == ty:
                args.append(t)
            else:
                bad(e, f"{name} called with {ty} where {pt} is expected")
        rtype = self.mod.function(name, e)
        return self.bind(" ".join([PREFIX + name, "L", "fuel"] + args), rtype, k, po, e)

    # ---------------------------------------------------------------- statements
    def assign(self, tgt, t, ty, env, cont, node):
        if isinstance(tgt, ast.Name):
            env2 = self.setvar(env, tgt.id, ty, node)
            return f"let {VPREFIX}{tgt.id} := {t} in\n{cont(env2)}"
        if isinstance(tgt, ast.Tuple) and all(isinstance(x, ast.Name) for x in tgt.elts):
            names = [x.id for x in tgt.elts]
            if not (isinstance(ty, tuple) and ty[0] == "tuple" and len(ty[1]) == len(names)) or len(set(names)) != len(names):
                bad(node, f"cannot unpack {ty} into {names}")
            env2 = env
            for n, tn in zip(names, ty[1]):
                env2 = self.setvar(env2, n, tn, node)
            return f"let '({', '.join(VPREFIX + n for n in names)}) := {t} in\n{cont(env2)}"
        bad(node, "assignment target")

    def harmless_message(self, args, env):
        for a in args:
            if isinstance(a, ast.Constant):
                continue
            def known(n):
                return isinstance(n, ast.Name) and (n.id in env or n.id in self.mod.module_names)
            if known(a):
                continue
            if isinstance(a, ast.JoinedStr) and all(
                    isinstance(v, ast.Constant) or (isinstance(v, ast.FormattedValue) and known(v.value)
                                                    and v.format_spec is None) for v in a.values):
                continue
            bad(a, "exception argument that is not a literal, a name or an f-string over names")

    def block(self, stmts, env, k, ctl):
        if not stmts:
            return k(env)
        s, rest = stmts[0], stmts[1:]

        def cont(env2):
            return self.block(rest, env2, k, ctl)

        if isinstance(s, ast.Expr) and isinstance(s.value, ast.Constant) and isinstance(s.value.value, str):
            return cont(env)
        if isinstance(s, ast.Pass):
            return cont(env)
        if isinstance(s, ast.Assign):
            if len(s.targets) != 1:
                bad(s, "chained assignment")
            return self.expr(s.value, env, lambda t, ty: self.assign(s.targets[0], t, ty, env, cont, s))
        if isinstance(s, ast.AugAssign):
            if not isinstance(s.target, ast.Name):
                bad(s, "augmented assignment target")
            load = ast.copy_location(ast.Name(id=s.target.id, ctx=ast.Load()), s)
            value = ast.copy_location(ast.BinOp(left=load, op=s.op, right=s.value), s)
            def aug(t, ty):
                if ty != "int" and ty != "str":
                    bad(s, f"augmented assignment on {ty} (mutates the object in place)")
                return self.assign(s.target, t, ty, env, cont, s)
            return self.expr(value, env, aug)
        if isinstance(s, ast.If):
            def branch(c, _):
                if c == "true":
                    return self.block(s.body, env, cont, ctl)
                if c == "false":
                    return self.block(s.orelse, env, cont, ctl)
                a = self.block(s.body, env, cont, ctl)
                b = self.block(s.orelse, env, cont, ctl)
                return f"if {c} then\n{ind(a)}\nelse\n{ind(b)}"
            return self.cond(s.test, env, branch)
        if isinstance(s, ast.Assert):
            if s.msg is not None:
                self.harmless_message([s.msg], env)
            return self.cond(s.test, env, lambda c, _: f"if {c} then\n{ind(cont(env))}\nelse Err AssertErr")
        if isinstance(s, ast.Return):
            if s.value is None:
                bad(s, "return without a value")
            return self.expr(s.value, env, lambda t, ty: ctl.ret(t, ty, s))
        if isinstance(s, ast.Raise):
            if s.exc is None:
                if ctl.handler_var is None:
                    bad(s, "bare raise outside a handler")
                return f"Err {ctl.handler_var}"
            exc = s.exc
            args = []
            if isinstance(exc, ast.Call) and not exc.keywords:
                exc, args = exc.func, exc.args
            if not (isinstance(exc, ast.Name) and exc.id in EXC_RAISE and exc.id not in env):
                bad(s, "raise of something that is not one of " + ", ".join(EXC_RAISE))
            self.harmless_message(args, env)
            if s.cause is not None and not isinstance(s.cause, (ast.Name, ast.Constant)):
                bad(s, "raise ... from <expression>")
            return f"Err {EXC_RAISE[exc.id]}"
        if isinstance(s, ast.Try):
            return self.try_(s, env, cont, ctl)
        if isinstance(s, ast.While):
            return self.loop(s, env, cont, ctl)
        if isinstance(s, ast.For):
            return self.loop(s, env, cont, ctl)
        bad(s, "statement form")

    def try_(self, s, env, cont, ctl):
        if s.orelse or s.finalbody or not s.handlers:
            bad(s, "try with else / finally / without handlers")
        has_ret = contains(s.body, ast.Return)
        falls = falls_through(s.body)
        ver0 = self.nver
        state = {}

        def k_body(env_end):
            names = sorted([n for n in env_end if env_end[n][1] > ver0], key=lambda n: env_end[n][1])
            types = [env_end[n][0] for n in names]
            if state and (state["names"], state["types"]) != (names, types):
                bad(s, "the paths through the try body define different variables")
            state.update(names=names, types=types)
            t = tuple_term([VPREFIX + n for n in names])
            return f"Ok (Next {t})" if has_ret else f"Ok {t}"

        def ret_body(t, ty, node):
            self.note_ret(ty, node)
            return f"Ok (Return {t})" if falls else f"Ok {t}"

        body = self.block(s.body, env, k_body, Ctl(self, ret_body, ctl.handler_var))
        arms = []
        r = self.fresh("r")
        if has_ret:
            arms.append((f"Ok (Return {r})" if falls else f"Ok {r}", ctl.ret(r, self.rtype, s)))
        if falls and state:
            env2 = env
            for n, tn in zip(state["names"], state["types"]):
                env2 = self.setvar(env2, n, tn, s)
            pat = tuple_pat([VPREFIX + n for n in state["names"]]).lstrip("'")
            arms.append((f"Ok (Next {pat})" if has_ret else f"Ok {pat}", cont(env2)))
        ev = self.fresh("e")
        chain = f"Err {ev}"
        for h in reversed(s.handlers):
            if h.type is None:
                bad(h, "bare except")
            classes = [h.type] if isinstance(h.type, ast.Name) else list(h.type.elts) if isinstance(h.type, ast.Tuple) else None
            if classes is None or not all(isinstance(c, ast.Name) and c.id in EXC_CATCH and c.id not in env for c in classes):
                bad(h, "except clause names a class outside " + ", ".join(EXC_CATCH))
            codes = []
            for c in classes:
                codes += [x for x in EXC_CATCH[c.id] if x not in codes]
            env_h = self.setvar(env, h.name, "exc", h) if h.name else env
            hb = self.block(h.body, env_h, cont, ctl.with_handler(ev))
            chain = f"if py_catches [{'; '.join(codes)}] {ev} then\n{ind(hb)}\nelse\n{ind(chain)}"
        arms.append((f"Err {ev}", chain))
        return "match (\n" + ind(body) + "\n) with\n" + "\n".join(f"| {p} =>\n{ind(b, 4)}" for p, b in arms) + "\nend"

    def loop(self, s, env, cont, ctl):
        is_for = isinstance(s, ast.For)
        if s.orelse:
            bad(s, "loop with else")
        if contains(s.body, (ast.Return, ast.Break, ast.Continue)):
            bad(s, "return / break / continue inside a loop")
        assigned = set(assigned_names(s.body))
        by_ver = sorted(env, key=lambda n: env[n][1])
        state = [n for n in by_ver if n in assigned]
        used = loaded_names(s.body + ([] if is_for else [s.test]))
        params = [n for n in by_ver if n in used and n not in state]
        for n in params + state:
            if env[n][0] in ("other", "exc"):
                bad(s, f"{n} (not a str) is used in a loop")
        self.nloop += 1
        lname = f"{PREFIX}{self.name}_loop{self.nloop}"
        env_in = {n: env[n] for n in params + state}
        sterm = tuple_term([VPREFIX + n for n in state])
        stype = coq_type(("tuple", tuple(env[n][0] for n in state))) if len(state) != 1 else coq_type(env[state[0]][0])
        if not state:
            stype = "unit"
        binders = "".join(f" ({VPREFIX}{n} : {coq_type(env[n][0])})" for n in params + state)

        def again(items):
            def k_body(env_end):
                for n in state:
                    if env_end[n][0] != env[n][0]:
                        bad(s, f"{n} changes its type inside the loop")
                return " ".join([lname, "L", "fuel"] + items + [VPREFIX + n for n in params + state])
            return k_body

        def no_ret(t, ty, node):
            bad(node, "return inside a loop")
        lctl = Ctl(self, no_ret, ctl.handler_var)

        def after(start_args):
            env2 = env
            for n in state:
                env2 = self.setvar(env2, n, env[n][0], s)
            pat = tuple_pat([VPREFIX + n for n in state])
            return f"bind ({' '.join([lname, 'L', 'fuel'] + start_args + [VPREFIX + n for n in params + state])}) (fun {pat} =>\n{cont(env2)})"

        if not is_for:
            body = self.cond(s.test, env_in, lambda c, _:
                             f"if {c} then\n{ind(self.block(s.body, env_in, again([]), lctl))}\nelse Ok {sterm}")
            self.aux.append(
                f"Fixpoint {lname} (L : uuid_lib) (fuel : nat){binders} {{struct fuel}} : res ({stype}) :=\n"
                f"  match fuel with\n  | O => Err Hang\n  | S fuel =>\n{ind(body, 4)}\n  end.")
            return after([])

        for n in assigned_names([ast.Assign(targets=[s.target], value=None)]):
            if n in env:
                bad(s, f"loop variable {n} re-uses an existing name")

        def with_iter(it, telt):
            pat, env_body = self.target_pattern(s.target, telt, env_in, s)
            body = self.block(s.body, env_body, again(["items"]), lctl)
            self.aux.append(
                f"Fixpoint {lname} (L : uuid_lib) (fuel : nat) (items : list ({coq_type(telt)})){binders} {{struct items}} : res ({stype}) :=\n"
                f"  match items with\n  | [] => Ok {sterm}\n  | {pat} :: items =>\n{ind(body, 4)}\n  end.")
            return after([it])
        return self.iterable(s.iter, env, with_iter, False)

    # ---------------------------------------------------------------- the function
    def translate(self):
        node = self.node
        a = node.args
        if (node.decorator_list or a.vararg or a.kwarg or a.kwonlyargs or a.defaults or a.kw_defaults or a.posonlyargs
                or isinstance(node, ast.AsyncFunctionDef)):
            bad(node, "decorators / defaults / *args / **kwargs / keyword-only parameters")
        if contains(node.body, (ast.FunctionDef, ast.AsyncFunctionDef, ast.Lambda, ast.ClassDef, ast.Global, ast.Nonlocal,
                                ast.Yield, ast.YieldFrom, ast.Await, ast.With, ast.Delete, ast.Import, ast.ImportFrom)):
            bad(node, "nested def / lambda / class / global / yield / with / del / import inside a function")
        names = [x.arg for x in a.args]
        if len(names) != len(self.ptypes) or len(set(names)) != len(names):
            bad(node, f"{self.name} has {len(names)} parameters, {len(self.ptypes)} expected")
        env = {}
        for n, t in zip(names, self.ptypes):
            env = self.setvar(env, n, t, node)

        def ret(t, ty, nd):
            self.note_ret(ty, nd)
            return f"Ok {t}"

        def off_end(env_end):
            bad(node, f"{self.name} may end without return (returns None)")

        def split(todo, env):
            if not todo:
                return self.block(node.body, env, off_end, Ctl(self, ret))
            p = todo[0]
            e1, e2 = dict(env), dict(env)
            e1[p] = ("str", env[p][1])
            e2[p] = ("other", env[p][1])
            return (f"match {VPREFIX}{p} with\n| PyStr {VPREFIX}{p} =>\n{ind(split(todo[1:], e1), 4)}\n"
                    f"| PyOther =>\n{ind(split(todo[1:], e2), 4)}\nend")
        body = split([n for n, t in zip(names, self.ptypes) if t == "obj"], env)
        if self.rtype is None:
            bad(node, f"{self.name} never returns a value")
        binders = "".join(f" ({VPREFIX}{n} : {coq_type(t)})" for n, t in zip(names, self.ptypes))
        text = "\n\n".join(self.aux + [
            f"Definition {PREFIX}{self.name} (L : uuid_lib) (fuel : nat){binders} : res ({coq_type(self.rtype)}) :=\n{ind(body)}."])
        return text, self.rtype


class Module:
    def __init__(self, source, entry=None):
        self.entry = entry or ENTRY
        try:
            self.tree = ast.parse(source)
        except SyntaxError as e:
            raise Unsupported(f"ak/short_uuid.py does not parse: {e}")
        self.consts = {}          # name -> type (defined so far)
        self.const_defs = []
        self.funcs = {}
        self.imports_uuid = False
        self.sigs = dict(self.entry)
        self.done = {}            # name -> return type
        self.in_progress = []
        self.func_defs = []
        self.module_names = set()

    def signature(self, name, arg_types, node):
        if name in self.sigs:
            return self.sigs[name]
        if any(t in ("other", "exc") for t in arg_types):
            bad(node, f"{name} called with an argument that is not a str")
        self.sigs[name] = list(arg_types)
        return self.sigs[name]

    def function(self, name, node):
        if name in self.done:
            return self.done[name]
        if name in self.in_progress:
            bad(node, f"recursive call of {name}")
        self.in_progress.append(name)
        text, rtype = Fn(self, self.funcs[name], self.sigs[name]).translate()
        self.in_progress.pop()
        self.func_defs.append(text)
        self.done[name] = rtype
        return rtype

    def run(self):
        body = self.tree.body
        for n in body:
            if isinstance(n, (ast.FunctionDef, ast.AsyncFunctionDef)):
                self.module_names.add(n.name)
            elif isinstance(n, ast.Assign):
                self.module_names |= set(assigned_names([n]))
        clash = sorted(self.module_names & RESERVED)
        if clash:
            raise Unsupported(f"ak/short_uuid.py rebinds {', '.join(clash)} at module level")
        self.module_names.add("uuid")
        const_fn = Fn(self, ast.parse("def _module_(): pass").body[0], [])
        for i, n in enumerate(body):
            if isinstance(n, ast.Expr) and isinstance(n.value, ast.Constant) and isinstance(n.value.value, str):
                continue
            if isinstance(n, ast.Import):
                if len(n.names) == 1 and n.names[0].name == "uuid" and n.names[0].asname is None:
                    self.imports_uuid = True
                    continue
                bad(n, "import other than `import uuid`")
            if isinstance(n, ast.Assign):
                if len(n.targets) != 1 or not isinstance(n.targets[0], ast.Name):
                    bad(n, "module-level assignment target")
                name = n.targets[0].id
                if name in self.consts or name in self.funcs or not IDENT.match(name):
                    bad(n, f"{name} is bound twice at module level")
                try:
                    term, ty = const_fn.pure(n.value, {})
                except Impure as ex:
                    bad(n, f"module-level initialiser may raise ({ex})")
                if ty in ("uuid", "obj") or (isinstance(ty, tuple) and ty[0] == "tuple"):
                    bad(n, f"module constant of type {ty}")
                self.const_defs.append(f"Definition {PREFIX}{name} : {coq_type(ty)} :=\n  {term}.")
                self.consts[name] = ty
                continue
            if isinstance(n, ast.FunctionDef):
                if n.name in self.funcs or n.name in self.consts:
                    bad(n, f"{n.name} is bound twice at module level")
                if not IDENT.match(n.name):
                    bad(n, "function name")
                self.funcs[n.name] = n
                continue
            bad(n, "module-level statement")
        if not self.imports_uuid:
            raise Unsupported("ak/short_uuid.py does not `import uuid`")
        # a function body sees every module constant: all of them must be defined before any call can happen,
        # which holds because module level contains no calls of the module's own functions (checked by `pure`)
        for name in self.entry:
            if name not in self.funcs:
                raise Unsupported(f"API function {name} is missing")
        for name in self.entry:
            rt = self.function(name, self.funcs[name])
            if self.entry is not SELFTEST_ENTRY and rt != ENTRY_RET.get(name, rt):
                bad(self.funcs[name], f"{name} returns {rt}, {ENTRY_RET[name]} expected")
        for name, node in self.funcs.items():
            if name not in self.done:
                bad(node, f"{name} is never called from the API functions (parameter types unknown)")
        sig_lines = [f"   {n}({', '.join(self.sigs[n])}) -> {self.done[n]}" for n in self.funcs]
        header = ("(* generated from ak/short_uuid.py by harness/props/c20_translate.py -- do not edit.\n"
                  "   Python-level signatures:\n" + "\n".join(sig_lines) + " *)\n"
                  "From Coq Require Import ZArith List Bool.\n"
                  "From AK Require Import Common.Err C20.PyLib.\n"
                  "Import ListNotations.\nOpen Scope Z_scope.\n\n"
                  "Definition translation_available : bool := true.\n\n")
        return header + "\n\n".join(self.const_defs + self.func_defs) + "\n"


def translate(source, entry=None):
    return Module(source, entry).run()


def stub(reason):
    """what is written to coq/gen/C20_Translated.v when the source leaves the subset: the API functions with their
    types and no content, and the flag that makes coq/C20/TransEq.v fail at its first lemma and coq/C20/Run.v compare
    the hand model alone (instead of a stale translation of some other text)"""
    reason = reason.replace("*)", "* )").replace("(*", "( *")
    return ("(* generated by harness/props/c20_translate.py -- do not edit.\n"
            "   ak/short_uuid.py is OUTSIDE the translator's subset: " + reason + " *)\n"
            "From Coq Require Import ZArith List Bool.\n"
            "From AK Require Import Common.Err C20.PyLib.\n"
            "Import ListNotations.\nOpen Scope Z_scope.\n\n"
            "Definition translation_available : bool := false.\n\n"
            "Definition T_uuid_from_short_str (L : uuid_lib) (fuel : nat) (v : pyobj) : res (UUID L) := Err OtherErr.\n"
            "Definition T_uuid_to_short_str (L : uuid_lib) (fuel : nat) (v : UUID L) : res (list Z) := Err OtherErr.\n"
            "Definition T_uuid_from_str (L : uuid_lib) (fuel : nat) (v : list Z) : res (UUID L) := Err OtherErr.\n")


# ---------------------------------------------------------------------------------------------------------
# self test of the translator + coq/C20/PyLib.v (not part of bin/check; `python -m harness.props.c20_translate --selftest`):
# a module that exercises the supported constructs is translated, the translated functions are evaluated by
# coqc (vm_compute) and compared with what CPython does on the same arguments (value or exception class).
SELFTEST_SRC = """
import uuid
_T = list("abc")
_D = dict((c, i) for i, c in enumerate(_T + _T))
_E = {c: i * 2 for i, c in enumerate(_T, 5) if i != 6}
_N = 3

def f_arith(a, b):
    q, r = divmod(a, b)
    return q * 1000 + r * 10 + a // b - a % b + (a ** 2) + (1 << 3) - (-a)

def f_index(s, i):
    return s[i] + _T[i]

def f_slice(s, i, j):
    return s[i:j] + "|" + s[i:] + "|" + s[:j] + "|" + s[::-1]

def f_strip(s, c):
    return s.strip(c) + "|" + s.lstrip(c) + "|" + s.rstrip(c)

def f_just(s, n):
    return s.rjust(n, "*") + s.ljust(n, "-") + s.rjust(n) + s * n + n * s

def f_dict(s):
    return _D[s] * 10 + _E[s]

def f_try(s, i):
    try:
        x = _D[s]
        y = _T[i]
        if x > 4:
            return 100
    except KeyError:
        return -1
    except (IndexError, ValueError) as err:
        raise TypeError("x") from err
    return x + len(y)

def f_try2(s):
    try:
        assert len(s) > 1, "short"
        n = _T.index(s[1])
    except LookupError:
        n = -5
    except Exception:
        raise
    return n

def f_bool(a, b):
    if a > 0 and 10 // a > b or not b:
        return 1
    ok = a == b or 7 % a == 0
    return 0 if ok else 2

def f_loop(n):
    total = 0
    i = 0
    while i < n:
        for j in range(i, n):
            total += j * (1 if j % 2 else -1)
        i += 1
    return total

def f_join(s):
    t = "-".join(reversed(s)) + "".join(c + c for c in s if c != "a")
    for k, (c, d) in enumerate(zip(s, s[1:])):
        if c in _T and d not in _D and 0 <= k < _N:
            t += c + d
    return t

def f_uuid(n):
    u = uuid.UUID(int=n)
    return u.int + 1

def f_call(s, i):
    return f_dict(s) + f_loop(i)
"""
SELFTEST_ENTRY = {"f_arith": ["int", "int"], "f_index": ["str", "int"], "f_slice": ["str", "int", "int"],
                  "f_strip": ["str", "str"], "f_just": ["str", "int"], "f_dict": ["str"], "f_try": ["str", "int"],
                  "f_try2": ["str"], "f_bool": ["int", "int"], "f_loop": ["int"], "f_join": ["str"], "f_uuid": ["int"],
                  "f_call": ["str", "int"]}


def selftest(workdir="/tmp/c20_translate_selftest"):
    import itertools
    import os
    import subprocess
    from harness.lib import sx as SX
    coq = os.path.join(os.path.dirname(os.path.dirname(os.path.dirname(os.path.abspath(__file__)))), "coq")
    ints = [-7, -3, -1, 0, 1, 2, 3, 5, 10]
    strs = ["", "a", "b", "c", "d", "ab", "abc", "xxabxx", "cabbage", "é\U0001f600a"]
    args = {"int": ints, "str": strs}
    ns = {}
    exec(SELFTEST_SRC, ns)
    text = translate(SELFTEST_SRC, SELFTEST_ENTRY)
    lines, want = [], []
    for f, ptypes in SELFTEST_ENTRY.items():
        rstr = None
        for vals in itertools.product(*[args[t] for t in ptypes]):
            if f == "f_just" and vals[1] > 5:
                continue
            try:
                r = ns[f](*vals)
                exp = SX.ok(r) if isinstance(r, int) else SX.ok(SX.s(r))
                rstr = isinstance(r, str)
            except Exception as e:  # noqa
                exp = SX.err("OtherError" if isinstance(e, (ZeroDivisionError, OverflowError)) else SX.exc_name(e))
            want.append((f, vals, SX.dumps(exp)))
        enc = "sx_str" if rstr else "SZ"
        for ff, vals, _ in [w for w in want if w[0] == f]:
            a = " ".join(SX.cZ(v) if isinstance(v, int) else SX.cstr(v) for v in vals)
            lines.append(f"sx_res {enc} ({PREFIX}{f} L0 40 {a})")
    os.makedirs(workdir, exist_ok=True)
    with open(os.path.join(workdir, "SelfTest.v"), "w") as fh:
        fh.write(text)
        fh.write("From AK Require Import Common.Sx.\nFrom Coq Require Import String.\nOpen Scope Z_scope.\n"
                 "Definition L0 : uuid_lib := {| UUID := Z; UUID_of_int := fun n => if (0 <=? n) && (n <? 2 ^ 128) then Ok n else Err ValueErr;\n"
                 "  UUID_of_str := fun _ => Err ValueErr; UUID_int := fun u => u |}.\n"
                 "Set Printing Width 1000000.\nSet Printing Depth 1000000.\n"
                 + "".join("Eval vm_compute in (show_lines [\n" + ";\n".join(lines[i:i + 100]) + "\n]).\n"
                           for i in range(0, len(lines), 100)))
    p = subprocess.run(["timeout", "600", "coqc", "-R", coq, "AK", "-top", "SelfTest", "SelfTest.v"], cwd=workdir,
                       capture_output=True, text=True)
    if p.returncode != 0:
        print(p.stdout[-3000:], p.stderr[-3000:])
        return 1
    got = []
    for chunk in re.findall(r'=\s*"(.*?)"\s*:\s*string', p.stdout, re.S):
        got += chunk.split("\n")[:-1]
    bad_ = 0
    for (f, vals, exp), g in zip(want, got):
        if exp.strip() != g.strip():
            bad_ += 1
            if bad_ <= 20:
                print(f"MISMATCH {f}{vals}: python {exp}   coq {g}")
    print(f"selftest: {len(want)} calls of {len(SELFTEST_ENTRY)} functions compared, {bad_} mismatches")
    return 1 if bad_ or len(got) != len(want) else 0


if __name__ == "__main__":
    if sys.argv[1:2] == ["--selftest"]:
        sys.exit(selftest())
    sys.stdout.write(translate(open(sys.argv[1]).read()))
