(* LLP/Build.v -- model of the LLParser constructor pipeline (plain productions)
   and of parse() on a token list.  No proofs in this file. *)
From Coq Require Import ZArith List Bool.
From AK Require Export Common.Sx Common.Err LLP.Base LLP.Factor LLP.Table LLP.RecCheck LLP.Parse.
Import ListNotations.

Record parser := mkParser {
  p_start : sym;
  p_terminals : list sym;      (* with $END$ *)
  p_grammar : grammar;         (* factorized prods_map *)
  p_sfxs : list sym;           (* _suffix_symbols *)
  p_tables : tables;
}.

(* LLParser.__init__ for plain productions whose symbols are all known
   (the GrammarError checks of _verify_grammar_structure_part1 are outside the model).
   The constructor's two name assertions come first: no terminal and not the start
   symbol may contain '__' (reserved for helper symbols). *)
Definition build (ug : list (sym * list (list sym))) (terminals : list sym) (smart : bool) (start : sym)
  : res parser :=
  if existsb has_dunder terminals || has_dunder start then Err AssertErr else
  bind (factorize ug terminals smart) (fun '(g, sfxs) =>
    let terms := terminals ++ [END_TOKEN] in
    let T := make_tables g terms start in
    bind (rec_check g terms (t_nulls T)) (fun _ =>
      Ok (mkParser start terms g sfxs T))).

Definition p_parse (p : parser) (fuel : nat) (toks : list token) : res tree :=
  parse (fun s => mem s (p_terminals p)) (table_get (p_tables p)) (p_sfxs p) toks fuel (p_start p).

(* ---- observation encoders ---- *)
Fixpoint sx_tree (t : tree) : sx :=
  match t with
  | Leaf n v _ => SL [SZ 0; sx_str n; sx_str v]
  | Node n ch _ => SL [SZ 1; sx_str n; SL (map sx_tree ch)]
  end.

Definition sx_pos (p : pos) : sx := SL [SZ (fst p); SZ (snd p)].
Definition sx_span (s : span) : sx := SL [sx_pos (fst s); sx_pos (snd s)].
Fixpoint sx_tree_sp (t : tree) : sx :=
  match t with
  | Leaf n v sp => SL [SZ 0; sx_str n; sx_str v; sx_span sp]
  | Node n ch sp => SL [SZ 1; sx_str n; SL (map sx_tree_sp ch); sx_span sp]
  end.

Definition sx_rule (r : rule) : sx := SL [sx_str (rsym r); sx_list sx_str (rprod r); SZ (rsort r)].
Definition sx_grammar (g : grammar) : sx := sx_list (fun kv => SL [sx_str (fst kv); sx_list sx_rule (snd kv)]) g.
Definition sx_setmap (m : setmap) : sx :=
  sx_list (fun kv => SL [sx_str (fst kv); sx_list sx_str (sort_syms (snd kv))]) m.

Definition mk_toks (l : list (sym * list Z)) : list token :=
  map (fun nv => mkTok (fst nv) (snd nv) (0, 0)%Z (0, 0)%Z) l ++ [mkTok END_TOKEN [] (0, 0)%Z (0, 0)%Z].
