(* C12/Spec.v -- the vocabulary of the theorems in C12/Props.v: what a cell may
   show, where the marks of a line are, what a column width should be.
   Definitions only, no proofs. *)
From Coq Require Import ZArith List Bool Arith.
From AK Require Import Common.Sx Common.Err gen.C12_Consts C12.Model.
Import ListNotations.

(* the full text padded to width w *)
Definition pad (al : align) (t : str) (w : nat) : str :=
  let f := w - length t in
  match al with
  | ALeft => t ++ spaces f
  | ARight => spaces f ++ t
  | ACenter => spaces (f / 2) ++ t ++ spaces (f - f / 2)
  end.

(* a prefix of the text followed by dots, w characters in all *)
Definition truncate_dots (t : str) (w : nat) : str :=
  let d := Nat.min dots_max w in firstn (w - d) t ++ repeat c_dot d.

(* what a cell of width w shows of the text t *)
Definition shown (al : align) (t : str) (w : nat) : str :=
  if length t <=? w then pad al t w else truncate_dots t w.

(* position of the j-th '+' of the border (0 <= j <= number of columns) *)
Definition offset (ws : list nat) (j : nat) : nat := sum_nat (firstn j ws) + j.

(* n characters of l from position a *)
Definition slice (a n : nat) (l : str) : str := firstn n (skipn a l).

Definition in_bounds (c : col) (w : nat) : Prop := col_min c <= w <= col_max c.

(* the width a column should get: the longest of title and visible cells, clipped to [min, max] *)
Definition want_width (fields : list field) (c : col) (recs : list (list cell)) : nat :=
  Nat.min (col_max c)
          (fold_left Nat.max (map (cell_len fields c) recs) (Nat.max (col_min c) (title_width (col_field fields c)))).

(* the inputs the constructor / printer accept *)
Definition mods_ok (t : table) : bool :=
  forallb (fun c => mod_ok (f_kind (col_field (t_fields t) c)) (c_mod c))
          (match t_cols t with Some l => l | None => default_cols (t_fields t) end).

Definition titles_ok (t : table) : bool :=
  negb (existsb (fun c => match title_lines (col_field (t_fields t) c) with [] => true | _ => false end) (columns t)).

Definition dummy_col : col := mkCol 0 MNone false None.

(* the full text a cell wants to show, and its alignment *)
Definition cell_full (fields : list field) (c : col) (r : list cell) : str :=
  concat (fst (cell_desired fields c r)).

Definition cell_align (fields : list field) (c : col) (r : list cell) : align :=
  snd (cell_desired fields c r).

(* the full text of an enum cell per modifier *)
Definition enum_full (e : enum_t) (m : fmod) (v : cell) : str :=
  match enum_entry e v with
  | None => v_text v
  | Some (name, val_len) =>
      match m with
      | MVal => v_text v
      | MName => name
      | _ => spaces (val_len - length (v_text v)) ++ v_text v ++ [c_space] ++ name
      end
  end.

(* value of a decimal numeral *)
Fixpoint dec_value (s : str) (acc : nat) : nat :=
  match s with
  | [] => acc
  | c :: r => dec_value r (10 * acc + Z.to_nat (c - 48))
  end.

