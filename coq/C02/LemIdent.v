(* C02/LemIdent.v -- when is the factorization the identity?  If no two adjacent
   alternatives of a symbol start with the same symbol (and the keys are distinct
   and contain no '__'), _factorize_productions returns the user's productions
   unchanged and no suffix symbol, for both smart_factorization values. *)
From Coq Require Import ZArith List Bool Lia.
From AK Require Import Common.Err LLP.Base LLP.Factor LLP.Table LLP.Build.
From AK Require Import C02.Model C02.LemBase C02.LemReject.
Import ListNotations.

(* adjacent rules have different first symbols (two adjacent empty productions count as equal) *)
Fixpoint adj_distinct (rules : list rule) : bool :=
  match rules with
  | [] => true
  | r :: rest =>
      match rest with
      | [] => true
      | r2 :: _ => negb (osym_eqb (start_of r2) (start_of r)) && adj_distinct rest
      end
  end.

Definition no_common_prefix (ug : list (sym * list (list sym))) : bool :=
  forallb (fun kv => adj_distinct (snd kv)) (create_productions ug 0).

Lemma split_aux_singletons : forall rules r,
  adj_distinct (r :: rules) = true ->
  split_chunks_aux rules [r] (start_of r) = [r] :: map (fun x => [x]) rules.
Proof.
  induction rules as [|r2 rules IH]; intros r H.
  - reflexivity.
  - simpl in H. apply andb_true_iff in H. destruct H as [H1 H2]. apply negb_true_iff in H1.
    simpl. rewrite H1. simpl. f_equal. apply IH. exact H2.
Qed.

Lemma split_chunks_singletons : forall rules, adj_distinct rules = true ->
  split_chunks rules = map (fun x => [x]) rules.
Proof.
  intros [|r rules] H; [reflexivity|].
  unfold split_chunks. simpl split_chunks_aux.
  destruct (osym_eqb (start_of r) None); simpl; apply split_aux_singletons; exact H.
Qed.

Lemma factorize_list_singletons : forall f s rules, adj_distinct rules = true ->
  factorize_list (S f) s rules = Ok (rules, [], []).
Proof.
  intros f s rules H. simpl. rewrite (split_chunks_singletons rules H). clear H.
  generalize 0%Z as gid.
  induction rules as [|r rules IH]; intro gid; [reflexivity|].
  simpl. simpl in IH. rewrite IH. reflexivity.
Qed.

Lemma factorize_all_identity : forall g, forallb (fun kv => adj_distinct (snd kv)) g = true ->
  factorize_all g = Ok (g, []).
Proof.
  induction g as [|[s rules] g IH]; intro H; [reflexivity|].
  simpl in H. apply andb_true_iff in H. destruct H as [H1 H2].
  cbn [factorize_all]. rewrite (factorize_list_singletons _ s rules H1). cbn [bind]. rewrite (IH H2). reflexivity.
Qed.

Lemma smart_rules_nil : forall g terminals rr,
  smart_rules g terminals [] rr = (map Keep rr, []).
Proof.
  intros g terminals rr. unfold smart_rules.
  match goal with |- fold_left ?F0 rr _ = _ => remember F0 as F eqn:EF end.
  assert (HF : forall acc rem r, F (acc, rem) r = (acc ++ [Keep r], rem)).
  { intros acc rem r. subst F. cbv beta iota.
    destruct (rprod r) as [|a [|b [|c p]]]; try reflexivity.
    replace (mem b []) with false by reflexivity. rewrite andb_false_r. reflexivity. }
  assert (G : forall acc rem, fold_left F rr (acc, rem) = (acc ++ map Keep rr, rem)).
  { clear EF. induction rr as [|r rr IH]; intros acc rem; simpl.
    - rewrite app_nil_r. reflexivity.
    - rewrite HF, IH, <- app_assoc. reflexivity. }
  apply (G [] []).
Qed.

Lemma filter_all_true : forall {A} (f : A -> bool) l, (forall x, f x = true) -> filter f l = l.
Proof.
  intros A f l H. induction l as [|x l IH]; [reflexivity|].
  cbn [filter]. rewrite H, IH. reflexivity.
Qed.

Lemma gremove_nil : forall g : grammar, gremove g [] = g.
Proof. intro g. unfold gremove. apply filter_all_true. intro x. reflexivity. Qed.

Lemma smart_pass_nil : forall g terminals, smart_pass g terminals [] = (g, []).
Proof.
  intros g terminals. unfold smart_pass.
  match goal with |- (let '(g', rem) := fold_left ?F0 ?order _ in _) = _ =>
    remember F0 as F eqn:EF; remember order as ord end.
  assert (HF : forall rem s, F (g, rem) s = (g, rem)).
  { intros rem s. subst F. cbv beta iota zeta. rewrite smart_rules_nil.
    rewrite map_length, Nat.eqb_refl, app_nil_r. reflexivity. }
  assert (G : forall rem, fold_left F ord (g, rem) = (g, rem)).
  { clear EF Heqord. induction ord as [|s ord IH]; intro rem; simpl; auto. rewrite HF. apply IH. }
  rewrite (G []). rewrite gremove_nil. reflexivity.
Qed.

Lemma create_productions_keys : forall ug n, gkeys (create_productions ug n) = map fst ug.
Proof.
  induction ug as [|[s prods] ug IH]; intro n; [reflexivity|].
  simpl. destruct (mk_rules s prods n) as [rs n']. unfold gkeys in *. simpl. rewrite IH. reflexivity.
Qed.

(* no symbol name of the user's grammar contains the reserved '__' *)
Definition no_reserved_names (ug : list (sym * list (list sym))) : bool :=
  negb (existsb has_dunder (map fst ug)) &&
  negb (existsb (fun kv => existsb (existsb has_dunder) (snd kv)) ug).

Theorem factorize_identity : forall ug terminals smart,
  no_reserved_names ug = true ->
  nodup_syms (map fst ug) = true ->
  no_common_prefix ug = true ->
  factorize ug terminals smart = Ok (ugram ug, []).
Proof.
  intros ug terminals smart H1 H2 H3. unfold factorize.
  unfold no_reserved_names in H1. apply andb_true_iff in H1. destruct H1 as [H1a H1b].
  apply negb_true_iff in H1a. apply negb_true_iff in H1b.
  match goal with |- (if ?c then _ else _) = _ => assert (Ec : c = false) end.
  { apply orb_false_iff. split; assumption. }
  rewrite Ec.
  unfold no_common_prefix in H3. rewrite (factorize_all_identity _ H3). simpl.
  rewrite create_productions_keys. rewrite H2. simpl.
  destruct smart; [rewrite smart_pass_nil|]; reflexivity.
Qed.

Theorem build_identity : forall ug terminals smart start p,
  build ug terminals smart start = Ok p ->
  no_reserved_names ug = true ->
  nodup_syms (map fst ug) = true ->
  no_common_prefix ug = true ->
  p_grammar p = ugram ug /\ p_sfxs p = [].
Proof.
  intros ug terminals smart start p HB H1 H2 H3.
  destruct (build_fields _ _ _ _ _ HB) as [HF _].
  rewrite (factorize_identity ug terminals smart H1 H2 H3) in HF. inversion HF. auto.
Qed.
