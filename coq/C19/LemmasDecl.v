(* C19/LemmasDecl.v -- the declaration syntax '!name:parent,parent':
   parse_decl inverts the obvious rendering of a structured declaration. *)
From Coq Require Import ZArith List Bool Lia.
From AK Require Import gen.C19_Consts C19.Model C19.Lemmas C19.LemmasOps C19.LemmasParse.
Import ListNotations.
Open Scope Z_scope.

Fixpoint join (sep : Z) (l : list str) : str :=
  match l with
  | [] => []
  | x :: r => match r with [] => x | _ => x ++ sep :: join sep r end
  end.

Definition render (d : decl) : str :=
  (if d_internal d then [ch_bang] else []) ++ d_name d ++
  match d_parents d with [] => [] | ps => ch_colon :: join ch_comma ps end.

(* a name as it can be written in a declaration *)
Definition plain_name (s : str) : Prop :=
  s <> [] /\ ~ In ch_colon s /\ hd 0 s <> ch_bang.
Definition plain_parent (p : str) : Prop :=
  p <> [] /\ ~ In ch_comma p /\ strip p = p.
Definition plain_decl (d : decl) : Prop :=
  plain_name (d_name d) /\ Forall plain_parent (d_parents d) /\ NoDup (d_parents d).

Lemma split_first_none sep s : ~ In sep s -> split_first sep s = None.
Proof.
  induction s as [|c r IH]; intros H; cbn [split_first]; [reflexivity|].
  destruct (Z.eqb_spec c sep) as [->|N]; [exfalso; apply H; left; reflexivity|].
  rewrite IH; [reflexivity|]. intros I. apply H. right. exact I.
Qed.

Lemma split_first_app sep a b : ~ In sep a -> split_first sep (a ++ sep :: b) = Some (a, b).
Proof.
  induction a as [|c r IH]; intros H; cbn [split_first app].
  - rewrite Z.eqb_refl. reflexivity.
  - destruct (Z.eqb_spec c sep) as [->|N]; [exfalso; apply H; left; reflexivity|].
    rewrite IH; [reflexivity|]. intros I. apply H. right. exact I.
Qed.

Lemma split_all_one sep s : ~ In sep s -> split_all sep s = [s].
Proof.
  induction s as [|c r IH]; intros H; cbn [split_all]; [reflexivity|].
  destruct (Z.eqb_spec c sep) as [->|N]; [exfalso; apply H; left; reflexivity|].
  rewrite IH; [reflexivity|]. intros I. apply H. right. exact I.
Qed.

Lemma split_all_app sep a b : ~ In sep a -> split_all sep (a ++ sep :: b) = a :: split_all sep b.
Proof.
  induction a as [|c r IH]; intros H; cbn [split_all app].
  - rewrite Z.eqb_refl. reflexivity.
  - destruct (Z.eqb_spec c sep) as [->|N]; [exfalso; apply H; left; reflexivity|].
    rewrite IH; [reflexivity|]. intros I. apply H. right. exact I.
Qed.

Lemma split_all_join sep ps :
  ps <> [] -> Forall (fun p => ~ In sep p) ps -> split_all sep (join sep ps) = ps.
Proof.
  induction ps as [|x r IH]; intros Hn F; [congruence|].
  inversion F as [|y l Hx Fr]. subst. cbn [join]. destruct r as [|y r].
  - apply split_all_one. exact Hx.
  - rewrite split_all_app by exact Hx. rewrite IH; [reflexivity|discriminate|exact Fr].
Qed.

Lemma dedup_acc_nodup l : forall seen,
  NoDup l -> (forall x, In x l -> ~ In x seen) -> dedup_acc seen l = l.
Proof.
  induction l as [|x r IH]; intros seen ND D; cbn [dedup_acc]; [reflexivity|].
  inversion ND as [|y l' Hx NDr]. subst.
  assert (mem x seen = false) as -> by (apply mem_false; apply D; left; reflexivity).
  rewrite IH; [reflexivity|exact NDr|].
  intros y Hy [<-|I]; [contradiction|]. apply (D y); [right; exact Hy|exact I].
Qed.

Lemma filter_all {A} (f : A -> bool) l : (forall x, In x l -> f x = true) -> filter f l = l.
Proof.
  induction l as [|x r IH]; intros H; cbn [filter]; [reflexivity|].
  rewrite (H x) by (left; reflexivity). rewrite IH; [reflexivity|]. intros y Hy. apply H. right. exact Hy.
Qed.

Lemma parse_decl_render_l d : plain_decl d -> parse_decl (render d) = d.
Proof.
  destruct d as [name internal ps]. intros ((Hne & Hcol & Hbang) & F & ND). cbn [d_name d_parents d_internal] in *.
  assert (~ In ch_colon ((if internal then [ch_bang] else []) ++ name)) as Hc.
  { intros I. apply in_app_or in I as [I|I]; [|contradiction].
    destruct internal; [destruct I as [I|[]]; discriminate|destruct I]. }
  assert (forall cmd, cmd = (if internal then [ch_bang] else []) ++ name ->
          (match cmd with c :: _ => c =? ch_bang | [] => false end) = internal /\
          (if internal then tl cmd else cmd) = name) as Hcmd.
  { intros cmd ->. destruct internal; cbn [app tl]; [split; reflexivity|].
    destruct name as [|c r]; [congruence|]. cbn [hd] in Hbang. split; [|reflexivity].
    apply Z.eqb_neq. exact Hbang. }
  unfold parse_decl, render. cbn [d_name d_parents d_internal].
  destruct ps as [|p ps].
  - rewrite app_nil_r, (split_first_none _ _ Hc). cbn [fst snd].
    destruct (Hcmd _ eq_refl) as (-> & ->). reflexivity.
  - rewrite app_assoc, (split_first_app _ _ _ Hc). cbn [fst snd].
    destruct (Hcmd _ eq_refl) as (-> & ->).
    rewrite split_all_join; [|discriminate|eapply Forall_impl; [|exact F]; intros q (_ & H & _); exact H].
    assert (map strip (p :: ps) = p :: ps) as ->.
    { rewrite <- (map_id (p :: ps)) at 2. apply map_ext_in. intros q Hq.
      rewrite Forall_forall in F. apply (F q Hq). }
    assert (filter (fun q : str => negb (is_nil q)) (p :: ps) = p :: ps) as ->.
    { apply filter_all. intros q Hq. rewrite Forall_forall in F.
      destruct (F q Hq) as (Hq' & _). destruct q; [congruence|reflexivity]. }
    unfold dedup. rewrite dedup_acc_nodup; [reflexivity|exact ND|intros x _ []].
Qed.

Lemma map_parse_render ds : Forall plain_decl ds -> map parse_decl (map render ds) = ds.
Proof.
  induction 1 as [|d r H _ IH]; cbn [map]; [reflexivity|]. rewrite parse_decl_render_l by exact H. rewrite IH. reflexivity.
Qed.

Lemma init_rendered_l ds dflt :
  ds <> [] -> Forall plain_decl ds -> wf ds ->
  exists st d, init_multicmd (map render ds) dflt = Ret (st, d) /\ build ds = Ret st.
Proof.
  intros Hn P W. destruct (init_ok_l (map render ds) dflt) as (st & d & E & B).
  - destruct ds; [congruence|discriminate].
  - rewrite map_parse_render by exact P. exact W.
  - rewrite map_parse_render in B by exact P. eauto.
Qed.
