(* C16/Instr.v -- instruction set of the request-id program.  The list
   [impl_prog] in gen/C16_Consts.v is generated from the AST of
   _HttpConnImpl.do_request / _generate_request_id (ak/conn_http.py): one
   instruction per access to state shared between threads, in program order.
   No proofs in this file. *)
Inductive instr : Type :=
| ICheck                 (* do_request: `if self._cur_req_id is not None` + `not any(name.lower() == KEY for name in headers)` *)
| IAcquire               (* `with self._reqid_generator_guard:` entry *)
| IRelease               (* ... exit *)
| ILoad (r : nat)        (* local r := self._cur_req_id *)
| IStoreSucc (r : nat)   (* self._cur_req_id := local r + 1 *)
| IEmit (r : nat)        (* headers[KEY] = format(local r); Request handed to the opener *)
| IPass.                 (* Request handed to the opener with the caller's headers *)

(* what a wrapper connection stores as its conn_impl (read from _HttpConnBase.__init__) *)
Inductive impl_rule : Type := RShareParent | ROwnImpl.
