(* C09/LemmasSeq.v -- colored texts are mutable: a text that was extended step by step
   (+= chunk / str / list / other text, copied, rendered in between) is the same chunk list
   as the text built at once from the pieces of its history; hence everything Lemmas.v
   proves about chtext_of holds in every reachable state of every text. *)
From Coq Require Import ZArith List Bool Lia.
From AK Require Import Common.Sx Common.Err gen.C09_Consts C09.Model C09.Term C09.Spec C09.Seq C09.Run C09.Lemmas.
Import ListNotations.
Open Scope Z_scope.

(* ================================================================== *)
(* 1. _append_chunk on a built text = building with one more part       *)

Definition optl (cur : option chunk) : list chunk := match cur with Some l => [l] | None => [] end.

Lemma append_last_ne xs c : append_last xs c <> [].
Proof.
  destruct xs as [|l [|y r]]; cbn [append_last]; [discriminate| |discriminate].
  destruct (str_eqb _ _); discriminate.
Qed.

Lemma append_last_cons l y r c : append_last (l :: y :: r) c = l :: append_last (y :: r) c.
Proof. reflexivity. Qed.

Lemma norm_some_ne cs : forall l, norm (Some l) cs <> [].
Proof.
  induction cs as [|c cs IH]; intros l; cbn [norm]; [discriminate|].
  destruct (c_text c) as [|z t]; [apply IH|]. destruct (str_eqb _ _); [apply IH|discriminate].
Qed.

Lemma append_last_norm cs : forall cur c, c_text c <> [] ->
  append_last (norm cur cs) c = norm cur (cs ++ [c]).
Proof.
  induction cs as [|d cs IH]; intros cur c Hc.
  - cbn [app norm]. destruct (c_text c) as [|z t] eqn:Et; [congruence|]. rewrite <- Et.
    destruct cur as [l|]; cbn [append_last]; [|reflexivity].
    destruct (str_eqb (c_prefix c) (c_prefix l)); reflexivity.
  - cbn [app norm]. destruct (c_text d) as [|z t] eqn:Et; [apply IH; exact Hc|]. rewrite <- Et.
    destruct cur as [l|]; [|apply IH; exact Hc].
    destruct (str_eqb (c_prefix d) (c_prefix l)); [apply IH; exact Hc|].
    destruct (norm (Some d) cs) as [|y ys] eqn:En; [exfalso; exact (norm_some_ne cs d En)|].
    rewrite append_last_cons, <- En, IH by exact Hc. reflexivity.
Qed.

Lemma norm_snoc_empty cs : forall cur c, c_text c = [] -> norm cur (cs ++ [c]) = norm cur cs.
Proof.
  induction cs as [|d cs IH]; intros cur c Hc.
  - cbn [app norm]. rewrite Hc. reflexivity.
  - cbn [app norm]. destruct (c_text d) as [|z t]; [apply IH; exact Hc|].
    destruct cur as [l|]; [|apply IH; exact Hc].
    destruct (str_eqb _ _); [apply IH; exact Hc|]. rewrite IH by exact Hc. reflexivity.
Qed.

Lemma append_chunk_ne X c : c_text c <> [] -> append_chunk X c = append_last X c.
Proof. unfold append_chunk. destruct (c_text c); [congruence|reflexivity]. Qed.

Lemma append_chunk_empty X c : c_text c = [] -> append_chunk X c = X.
Proof. unfold append_chunk. intros ->. reflexivity. Qed.

Lemma append_chunk_norm cs cur c : append_chunk (norm cur cs) c = norm cur (cs ++ [c]).
Proof.
  destruct (c_text c) as [|z t] eqn:Et.
  - rewrite append_chunk_empty, norm_snoc_empty by exact Et. reflexivity.
  - rewrite append_chunk_ne by (rewrite Et; discriminate). apply append_last_norm. rewrite Et. discriminate.
Qed.

(* x += [parts]: the text built from the old and the new parts together *)
Lemma iadd_norm ds : forall cs cur, iadd (norm cur cs) ds = norm cur (cs ++ ds).
Proof.
  unfold iadd. induction ds as [|d ds IH]; intros cs cur; cbn [fold_left].
  - rewrite app_nil_r. reflexivity.
  - rewrite append_chunk_norm, IH, <- app_assoc. reflexivity.
Qed.

(* ================================================================== *)
(* 2. x += other_text: adding the chunks of a built text = adding its parts *)

Lemma append_last_twice X : forall l d, c_prefix d = c_prefix l ->
  append_last (append_last X l) d = append_last X (merge l d).
Proof.
  induction X as [|L X IH]; intros l d E.
  - cbn [append_last]. rewrite E, str_eqb_refl. reflexivity.
  - destruct X as [|y r].
    + cbn [append_last]. change (c_prefix (merge l d)) with (c_prefix l).
      destruct (str_eqb (c_prefix l) (c_prefix L)) eqn:E1.
      * apply str_eqb_eq in E1. cbn [append_last]. unfold merge. cbn [c_prefix c_text c_suffix].
        rewrite E, E1, str_eqb_refl, app_assoc. reflexivity.
      * cbn [append_last]. rewrite E, str_eqb_refl. reflexivity.
    + rewrite !append_last_cons.
      destruct (append_last (y :: r) l) as [|u us] eqn:En; [exfalso; exact (append_last_ne _ _ En)|].
      rewrite append_last_cons, <- En, IH by exact E. reflexivity.
Qed.

Definition cur_ne (cur : option chunk) : Prop :=
  match cur with Some l => c_text l <> [] | None => True end.

Lemma iadd_norm_r ds : forall X cur, cur_ne cur -> iadd X (norm cur ds) = iadd X (optl cur ++ ds).
Proof.
  induction ds as [|d ds IH]; intros X cur Hc.
  - cbn [norm]. destruct cur; cbn [optl]; rewrite ?app_nil_r; reflexivity.
  - cbn [norm]. destruct (c_text d) as [|z t] eqn:Et.
    + rewrite IH by exact Hc. unfold iadd. rewrite !fold_left_app. cbn [fold_left].
      rewrite append_chunk_empty by exact Et. reflexivity.
    + rewrite <- Et. assert (c_text d <> []) as Hd by (rewrite Et; discriminate).
      destruct cur as [l|].
      * cbn [cur_ne] in Hc. destruct (str_eqb (c_prefix d) (c_prefix l)) eqn:Ep.
        -- apply str_eqb_eq in Ep. fold (merge l d).
           assert (c_text (merge l d) <> []) as Hm.
           { unfold merge. cbn [c_text]. intros H. apply app_eq_nil in H. tauto. }
           rewrite IH by exact Hm. cbn [optl app]. unfold iadd. cbn [fold_left]. f_equal.
           rewrite !append_chunk_ne by assumption. symmetry. apply append_last_twice. exact Ep.
        -- pose proof (IH (append_chunk X l) (Some d) Hd) as H. unfold iadd in *.
           cbn [optl app fold_left] in *. exact H.
      * exact (IH X (Some d) Hd).
Qed.

Lemma iadd_texts cs ds : iadd (chtext_of cs) (chtext_of ds) = chtext_of (cs ++ ds).
Proof. unfold chtext_of. rewrite iadd_norm_r by exact I. cbn [optl app]. apply iadd_norm. Qed.

Lemma iadd_parts cs ds : iadd (chtext_of cs) ds = chtext_of (cs ++ ds).
Proof. apply iadd_norm. Qed.

(* CHText(other) *)
Lemma copy_text cs : iadd [] (chtext_of cs) = chtext_of cs.
Proof. change (@nil chunk) with (chtext_of []) at 1. rewrite iadd_texts. reflexivity. Qed.

(* ================================================================== *)
(* 3. the machine: every text is the text built at once from its history *)

Lemma map_upd {A B} (f : A -> B) v l : forall i, map f (upd i v l) = upd i (f v) (map f l).
Proof.
  induction l as [|x l IH]; intros i; [destruct i; reflexivity|].
  destruct i; cbn [upd map]; [reflexivity|]. rewrite IH. reflexivity.
Qed.

Lemma nth_text_of pieces hs i : nth i (map (text_of pieces) hs) [] = text_of pieces (nth i hs []).
Proof. change (@nil chunk) with (text_of pieces []). apply map_nth. Qed.

Lemma step_inv pieces o hs :
  step_text pieces o (map (text_of pieces) hs) = map (text_of pieces) (step_hist o hs).
Proof.
  destruct o; cbn [step_text step_hist]; try reflexivity; rewrite map_upd, ?nth_text_of; f_equal;
    unfold text_of, sel.
  - rewrite map_app. apply iadd_parts.
  - rewrite map_app. apply iadd_texts.
  - apply copy_text.
  - rewrite copy_text, map_app. apply iadd_parts.
  - change (iadd [] [nth p pieces no_chunk]) with (iadd (chtext_of []) [nth p pieces no_chunk]).
    rewrite iadd_parts, iadd_texts. reflexivity.
Qed.

Lemma seq_inv pieces ops : forall hs,
  exec_texts pieces ops (map (text_of pieces) hs) = map (text_of pieces) (hist ops hs).
Proof.
  unfold exec_texts, hist. induction ops as [|o ops IH]; intros hs; cbn [fold_left]; [reflexivity|].
  rewrite step_inv. apply IH.
Qed.

Lemma empty_texts pieces n : map (text_of pieces) (repeat [] n) = repeat [] n.
Proof. induction n as [|n IH]; [reflexivity|]. cbn [repeat map]. rewrite IH. reflexivity. Qed.

Lemma seq_incremental_l pieces ops n :
  exec_texts pieces ops (repeat [] n) = map (text_of pieces) (hist ops (repeat [] n)).
Proof. rewrite <- (empty_texts pieces n) at 1. apply seq_inv. Qed.

Lemma seq_text_l pieces ops n i :
  nth i (exec_texts pieces ops (repeat [] n)) [] = text_of pieces (nth i (hist ops (repeat [] n)) []).
Proof. rewrite seq_incremental_l. apply nth_text_of. Qed.

(* ================================================================== *)
(* 4. the property in every reachable state                             *)

Lemma nth_P {A} (P : A -> Prop) l d : Forall P l -> P d -> forall n, P (nth n l d).
Proof.
  intros Hl Hd n. destruct (nth_in_or_default n l d) as [H| ->]; [|exact Hd].
  rewrite Forall_forall in Hl. apply Hl. exact H.
Qed.

Lemma Forall2_nth {A B} (R : A -> B -> Prop) l1 l2 d1 d2 :
  Forall2 R l1 l2 -> R d1 d2 -> forall n, R (nth n l1 d1) (nth n l2 d2).
Proof.
  intros H Hd. induction H as [|x y l1 l2 Hxy _ IH]; intros n; destruct n; cbn [nth]; auto.
Qed.

Lemma nil_esc_free : esc_free [].
Proof. constructor. Qed.

Lemma sel_ok pieces h : Forall someok pieces -> Forall someok (sel no_chunk pieces h).
Proof.
  intros H. unfold sel. apply Forall_forall. intros c Hc. apply in_map_iff in Hc as [p [<- _]].
  apply nth_P; [exact H|]. exists dflt. apply plain_wfc. exact nil_esc_free.
Qed.

Lemma build_texts items : forall cs, build items = Ok cs ->
  Forall2 (fun it c => c_text c = snd it) items cs.
Proof.
  induction items as [|[o t] items IH]; intros cs E.
  - injection E as <-. constructor.
  - cbn [build] in E. destruct o as [a|].
    + destruct (make a false) as [ps|e]; [|discriminate].
      destruct (build items) as [cs'|e]; [|discriminate]. cbn [bind] in E. injection E as <-.
      constructor; [reflexivity|apply IH; reflexivity].
    + destruct (build items) as [cs'|e]; [|discriminate]. cbn [bind] in E. injection E as <-.
      constructor; [reflexivity|apply IH; reflexivity].
Qed.

Definition no_item : option fmtargs * list Z := (None, []).

(* strip_render / no_bleed for the text built from the pieces with indices h *)
Lemma text_of_render items pieces h : Forall ok_part items -> build items = Ok pieces ->
  let x := text_of pieces h in
  strip (chtext_str x) = plain_text x /\
  plain_text x = flat_map (fun p => snd (nth p items no_item)) h /\
  fst (term (chtext_str x)) = t0.
Proof.
  intros H E x.
  pose proof (norm_ok _ (sel_ok pieces h (build_ok items H pieces E)) None I) as Hn.
  fold (chtext_of (sel no_chunk pieces h)) in Hn. fold (text_of pieces h) in Hn. fold x in Hn.
  split; [|split].
  - unfold strip. rewrite <- (app_nil_r (chtext_str _)). rewrite (strip_chunks _ Hn). apply app_nil_r.
  - unfold x, text_of, chtext_of. rewrite plain_norm. cbn [opttext app]. unfold sel.
    pose proof (build_texts items pieces E) as HF. clear Hn x.
    induction h as [|p h IHh]; [reflexivity|]. cbn [map flat_map]. rewrite IHh. f_equal.
    exact (Forall2_nth _ _ _ no_item no_chunk HF eq_refl p).
  - apply run_chunks. exact Hn.
Qed.

(* valid parts, with the attributes each was asked for *)
Lemma build_valid2 items : Forall valid_part items ->
  exists ann, build items = Ok (map fst ann) /\ Forall wfc ann /\
              Forall2 (fun it pa => snd pa = req (fst it) /\ c_text (fst pa) = snd it) items ann.
Proof.
  induction 1 as [|[o t] items [Ht Ho] _ [ann [E [Hw Hs]]]]; [exists []; repeat split; constructor|].
  cbn [fst snd] in *. destruct o as [a|].
  - destruct (make_valid a _ _ (valid_fmt_args a Ho)) as [p [s [Em [Hp _]]]].
    exists ((fmt_call (p, s) t, req (Some a)) :: ann). cbn [build map fst]. rewrite Em, E. cbn [bind].
    split; [reflexivity|]. split.
    + constructor; [|exact Hw]. split; [exact Hp|exact Ht].
    + constructor; [split; reflexivity|exact Hs].
  - exists ((plain_chunk t, dflt) :: ann). cbn [build map fst]. rewrite E. cbn [bind].
    split; [reflexivity|]. split.
    + constructor; [|exact Hw]. apply plain_wfc. exact Ht.
    + constructor; [split; reflexivity|exact Hs].
Qed.

Definition want_shown (items : list (option fmtargs * list Z)) (h : list nat) : list shown :=
  flat_map (fun p => paint (req (fst (nth p items no_item))) (snd (nth p items no_item))) h.

Lemma text_of_shows items : Forall valid_part items ->
  exists pieces, build items = Ok pieces /\
    forall h, term (chtext_str (text_of pieces h)) = (t0, want_shown items h).
Proof.
  intros H. destruct (build_valid2 items H) as [ann [E [Hw HF]]]. exists (map fst ann). split; [exact E|].
  intros h. set (d := (no_chunk, dflt)).
  assert (wfc d) as Hd by (apply plain_wfc; exact nil_esc_free).
  assert (Forall wfc (sel d ann h)) as Hsel.
  { unfold sel. apply Forall_forall. intros c Hc. apply in_map_iff in Hc as [p [<- _]].
    apply nth_P; assumption. }
  assert (map fst (sel d ann h) = sel no_chunk (map fst ann) h) as Em.
  { unfold sel. rewrite map_map. apply map_ext. intros p. change no_chunk with (fst d). symmetry. apply map_nth. }
  pose proof (norm_run _ Hsel None I) as Hr. cbn [option_map optpaint app] in Hr.
  unfold term, text_of, chtext_of. rewrite <- Em, Hr. f_equal.
  unfold shown_of, want_shown, sel. clear Hsel Em Hr.
  induction h as [|p h IHh]; [reflexivity|]. cbn [map flat_map]. rewrite IHh. f_equal.
  assert (snd d = req (fst no_item) /\ c_text (fst d) = snd no_item) as Hdd by (split; reflexivity).
  destruct (Forall2_nth _ _ _ no_item d HF Hdd p) as [-> ->]. reflexivity.
Qed.
