(* C02/Model.v -- executable definitions used by the C02 statements and by the
   correspondence entry point, on top of the shared parser model coq/LLP
   (LLP/Table.v is the model of _get_nullables, _calc_first_sets,
   _calc_follow_sets, _make_llone_table, is_ambiguous).  No proofs in this file. *)
From Coq Require Import ZArith List Bool.
From AK Require Export Common.Err LLP.Base LLP.Table.
Import ListNotations.

Fixpoint nodupb (l : list sym) : bool :=
  match l with
  | [] => true
  | x :: r => negb (mem x r) && nodupb r
  end.

(* the shape every grammar accepted by LLParser.__init__ has
   (_verify_grammar_structure_part1 + dict keys):
   keys are distinct and are not terminals, the rules stored under a key carry
   that key, every symbol of a production is a terminal or a key, the start
   symbol is a key and $END$ is among the terminals *)
Definition wf_rule (g : grammar) (terms : list sym) (k : sym) (r : rule) : bool :=
  sym_eqb (rsym r) k && forallb (fun s => mem s terms || mem s (gkeys g)) (rprod r).

Definition wf_grammar (g : grammar) (terms : list sym) (start : sym) : bool :=
  nodupb (gkeys g)
  && forallb (fun k => negb (mem k terms)) (gkeys g)
  && forallb (fun kv => forallb (wf_rule g terms (fst kv)) (snd kv)) g
  && mem start (gkeys g)
  && mem END_TOKEN terms.

(* derivation trees without positions: what TElement.signature() shows *)
Inductive dtree : Type :=
| DLeaf (name : sym) (value : list Z)
| DNode (name : sym) (children : list dtree).

Fixpoint erase (t : tree) : dtree :=
  match t with
  | Leaf n v _ => DLeaf n v
  | Node n ch _ => DNode n (map erase ch)
  end.

Fixpoint leaves (t : tree) : list (sym * list Z) :=
  match t with
  | Leaf n v _ => [(n, v)]
  | Node _ ch _ => flat_map leaves ch
  end.

(* a parse tree all of whose inner nodes are productions of g and whose leaves
   are terminals (the conclusion of C01's parse_sound, relative to g) *)
Fixpoint vtree (g : grammar) (terms : list sym) (t : tree) : Prop :=
  match t with
  | Leaf n _ _ => mem n terms = true
  | Node n ch _ =>
      mem n terms = false /\
      (exists r, In r (grules g n) /\ rprod r = map tree_name ch) /\
      (fix all (l : list tree) : Prop :=
         match l with [] => True | c :: r => vtree g terms c /\ all r end) ch
  end.

(* the table as a function, as LLP/Parse.v wants it *)
Definition tbl_fun (T : tables) : sym -> sym -> list rule := table_get T.

(* all (nt, tok) pairs of the grammar's keys and the terminals *)
Definition all_cells (T : tables) : list (sym * sym) :=
  flat_map (fun kv => map (fun tok => (fst kv, tok)) (t_terminals T)) (t_grammar T).

(* diagnostics for the thorough tier: the internal sets in canonical order *)
Definition diag_table (T : tables) : list (sym * sym * list Z) :=
  flat_map (fun nt => flat_map (fun tok =>
      match table_get T nt tok with
      | [] => []
      | rs => [(nt, tok, map rsort rs)]
      end) (sort_syms (t_terminals T))) (sort_syms (gkeys (t_grammar T))).
