(* C02/LemTok.v -- C02's language clause for parsers built with a tokenizer configuration and
   used on texts (C02/SessionTok.v): the token sequence of a text is what the tokenizer
   delivers minus the tokens named in skip_tokens; what skip_tokens=None / an explicit
   (possibly empty) collection mean; soundness (imported from C01: parse_text_sound) and the
   partial completeness (ll1_complete_build) over that token sequence; programs. *)
From Coq Require Import ZArith List Bool Lia.
From AK Require Import Common.Err LLP.Base LLP.Factor LLP.Table LLP.Parse LLP.Build.
From AK Require C01.Spec C01.Run C01.Lemmas C01.Props C01.RunTok C01.LemmasTok C01.PropsTok
  gen.C04_Consts C04.Model C04.LemmasConc.
From AK Require Import C02.Model C02.Spec C02.LemBase C02.LemTable C02.LemParse C02.LemReject
  C02.Session C02.SessionTok C02.LemSession.
Import ListNotations.

(* ---------------- the skip set ---------------- *)
Lemma skipset_explicit : forall cfg l, t_skipset cfg (Some l) = l.
Proof. reflexivity. Qed.

Lemma skipset_default : forall cfg,
  t_skipset cfg None = filter (fun s => mem s (C04.Model.cfg_terminals cfg)) gen.C04_Consts.default_skip.
Proof. reflexivity. Qed.

Lemma drop_nothing : forall toks, C04.Model.drop_skipped [] toks = toks.
Proof.
  intro toks. unfold C04.Model.drop_skipped. induction toks as [|t r IH]; cbn [filter]; [reflexivity|].
  cbn [mem negb]. rewrite IH. reflexivity.
Qed.

(* skip_tokens = an EMPTY collection: every token of the text belongs to the token sequence *)
Lemma tokens_skip_nothing : forall cfg text,
  t_tokens cfg (Some []) text =
  match C04.Model.cfg_tokenize cfg (C04.Model.tok_lines (C04.Model.IStr text)) with
  | C04.Model.LOk toks => Ok toks
  | C04.Model.LErr _ _ _ => Err LexicalErr
  | C04.Model.LHang => Err Hang
  end.
Proof.
  intros cfg text. unfold t_tokens, C01.RunTok.text_tokens. rewrite skipset_explicit.
  destruct (C04.Model.cfg_tokenize cfg _); try reflexivity. rewrite drop_nothing. reflexivity.
Qed.

(* the token sequence is the tokenizer's output filtered by the skip set, whatever the set *)
Lemma tokens_filtered : forall cfg skip text toks,
  t_tokens cfg skip text = Ok toks ->
  exists all, C04.Model.cfg_tokenize cfg (C04.Model.tok_lines (C04.Model.IStr text)) = C04.Model.LOk all /\
    toks = filter (fun t => negb (mem (tname t) (t_skipset cfg skip))) all.
Proof.
  intros cfg skip text toks H. unfold t_tokens, C01.RunTok.text_tokens in H.
  destruct (C04.Model.cfg_tokenize cfg _) as [all| |]; try discriminate.
  exists all. split; [reflexivity|]. inversion H. reflexivity.
Qed.

(* parse(text) = the main loop on the token sequence of the text *)
Lemma t_parse_tokens : forall cfg skip p k text,
  t_parse cfg skip p k text None = bind (t_tokens cfg skip text) (fun toks => p_parse p k toks).
Proof. reflexivity. Qed.

Lemma t_build_inv : forall cfg skip ug start w p,
  t_build cfg skip ug start w = Ok p ->
  build ug (C04.Model.cfg_terminals cfg) w start = Ok p /\
  subset (t_skipset cfg skip) (C04.Model.cfg_terminals cfg) = true.
Proof. intros cfg skip ug start w p H. exact (C01.LemmasTok.build_cfg_inv cfg skip ug w start p H). Qed.

(* ---------------- soundness over the token sequence of the text ---------------- *)
Lemma tok_pair_same : forall l, map C01.Spec.tok_pair l = map tok_pair l.
Proof. reflexivity. Qed.

Theorem parse_text_deriv_l : forall cfg skip ug start w p k text t,
  C04.LemmasConc.lexicon_ok (C04.Model.c_lex cfg) ->
  mem END_TOKEN (C04.Model.cfg_terminals cfg) = false ->
  t_build cfg skip ug start w = Ok p ->
  t_parse cfg skip p k text None = Ok t ->
  exists body e,
    t_tokens cfg skip text = Ok (body ++ [e]) /\ tname e = END_TOKEN /\
    (forall b, In b body -> mem (tname b) (t_skipset cfg skip) = false) /\
    Deriv (ugram ug) (p_terminals p) start (erase t) (map tok_pair body).
Proof.
  intros cfg skip ug start w p k text t Hlex Hend HB HP.
  destruct (C01.PropsTok.parse_text_sound cfg skip ug w start p k text None t Hlex Hend HB HP)
    as [all [pe [Htok [_ [Hname [Hvalid [_ [Hkinds Hleaves]]]]]]]].
  destruct (t_build_inv _ _ _ _ _ _ HB) as [HB' Hsub].
  set (sk := t_skipset cfg skip) in *.
  exists (filter (fun tk => negb (mem (tname tk) sk)) all), (mkTok END_TOKEN [] pe pe).
  split; [|split; [reflexivity|split]].
  - unfold t_tokens, C01.RunTok.text_tokens. fold sk. rewrite Htok.
    rewrite C01.LemmasTok.drop_skipped_app, C01.LemmasTok.drop_skipped_end; [reflexivity|].
    intro Hin. apply (C01.LemmasTok.subset_In _ _ _ Hsub) in Hin.
    apply mem_In in Hin. rewrite Hin in Hend. discriminate.
  - intros b Hb. apply filter_In in Hb as [_ Hb]. apply negb_true_iff in Hb. exact Hb.
  - pose proof (vtree_deriv (ugram ug) (p_terminals p) t (valid_vtree ug (p_terminals p) t Hvalid Hkinds)) as D.
    cbn [C01.LemmasTok.call_root] in Hname. rewrite Hname in D.
    destruct (build_fields _ _ _ _ _ HB') as [_ [_ [Hs _]]]. rewrite Hs in D.
    rewrite <- leaves_same in D. unfold sk in Hleaves. rewrite Hleaves in D. exact D.
Qed.

Lemma app_tail_inj : forall (A : Type) (a b : list A) x y, a ++ [x] = b ++ [y] -> a = b /\ x = y.
Proof. intros A a b x y H. apply app_inj_tail in H. exact H. Qed.

(* a text whose token sequence is no sentence of the USER's grammar is never accepted *)
Theorem ll1_reject_text_l : forall cfg skip ug start w p k text body e t,
  C04.LemmasConc.lexicon_ok (C04.Model.c_lex cfg) ->
  mem END_TOKEN (C04.Model.cfg_terminals cfg) = false ->
  t_build cfg skip ug start w = Ok p ->
  t_tokens cfg skip text = Ok (body ++ [e]) ->
  ~ in_language (ugram ug) (p_terminals p) start (map tok_pair body) ->
  t_parse cfg skip p k text None <> Ok t.
Proof.
  intros cfg skip ug start w p k text body e t Hlex Hend HB HT Hnot HP.
  destruct (parse_text_deriv_l cfg skip ug start w p k text t Hlex Hend HB HP) as [body' [e' [HT' [_ [_ D]]]]].
  rewrite HT in HT'. inversion HT' as [E]. apply app_tail_inj in E as [-> _].
  apply Hnot. exists (erase t). exact D.
Qed.

(* ---------------- completeness (partial, as ll1_complete_partial) over the token sequence ---------------- *)
Theorem ll1_complete_text_l : forall cfg skip ug start w p text body e d,
  t_build cfg skip ug start w = Ok p ->
  p_sfxs p = [] ->
  wf_grammar (p_grammar p) (p_terminals p) (p_start p) = true ->
  is_ambiguous (p_tables p) = false ->
  t_tokens cfg skip text = Ok (body ++ [e]) -> tname e = END_TOKEN ->
  Deriv (p_grammar p) (p_terminals p) start d (map tok_pair body) ->
  exists k0, forall k, (k0 <= k)%nat ->
    exists t, t_parse cfg skip p k text None = Ok t /\ erase t = d.
Proof.
  intros cfg skip ug start w p text body e d HB Hs Hwf HA HT He HD.
  destruct (t_build_inv _ _ _ _ _ _ HB) as [HB' _].
  destruct (ll1_complete_build ug _ w start p body e d HB' Hs Hwf HA He HD) as [k0 K].
  exists k0. intros k Hk. destruct (K k Hk) as [t [P E]]. exists t. split; [|exact E].
  rewrite t_parse_tokens, HT. exact P.
Qed.

(* ---------------- programs: an object answers the same at every moment ---------------- *)
Lemma mt_parse_same : forall cfg skip p k text s, fst (mt_parse cfg skip p k text s) = p.
Proof. reflexivity. Qed.

Lemma mt_parse_result : forall cfg skip p k text s,
  snd (mt_parse cfg skip p k text s) = t_parse cfg skip p k text s.
Proof. reflexivity. Qed.

Section S.
  Variable cfg : lexcfg.
  Variable skip : option (list sym).
  Variable ug : list (sym * list (list sym)).
  Variable start : sym.
  Variable fuel : nat.
  Variable texts : list (list Z).

  Notation do_op_t := (do_op_t cfg skip ug start fuel texts).
  Notation session_t := (session_t cfg skip ug start fuel texts).
  Notation t_build := (t_build cfg skip ug start).
  Notation fresh_obj_t := (fresh_obj_t cfg skip ug start).
  Notation fresh_world_t := (fresh_world_t cfg skip ug start).
  Notation fresh_obs_t := (fresh_obs_t cfg skip ug start fuel texts).
  Notation slot_ok_t := (slot_ok_t cfg skip ug start).
  Notation world_ok_t := (world_ok_t cfg skip ug start).

  Lemma fresh_get_t : forall w, get_obj fresh_world_t w = fresh_obj_t w.
  Proof. intros [|]; reflexivity. Qed.

  Lemma slot_set_t : forall W w v x, (x = None \/ x = fresh_obj_t w) -> slot_ok_t W v -> slot_ok_t (set_obj W w x) v.
  Proof.
    intros W w v x Hx Hv. unfold SessionTok.slot_ok_t in *.
    destruct (Bool.bool_dec v w) as [->|Hne].
    - rewrite get_set_same. exact Hx.
    - assert (v = negb w) as -> by (destruct v, w; try reflexivity; exfalso; apply Hne; reflexivity).
      rewrite get_set_other. exact Hv.
  Qed.

  Lemma world_set_t : forall W w x, (x = None \/ x = fresh_obj_t w) -> world_ok_t W -> world_ok_t (set_obj W w x).
  Proof. intros W w x Hx [H1 H2]. split; apply slot_set_t; auto. Qed.

  Lemma do_op_t_world : forall W o, world_ok_t W -> world_ok_t (fst (do_op_t W o)).
  Proof.
    intros W o HW. destruct o as [w|w|w i|w i s]; cbn [SessionTok.do_op_t].
    - destruct (t_build w) as [p|e] eqn:B; cbn [fst]; apply world_set_t; auto.
      right. unfold SessionTok.fresh_obj_t. rewrite B. reflexivity.
    - destruct (get_obj W w) as [p|] eqn:G; cbn [fst]; auto.
      unfold m_is_ambiguous. cbn [fst]. rewrite <- G, set_get_id. exact HW.
    - destruct (get_obj W w) as [p|] eqn:G; cbn [fst]; auto.
      destruct (nth_error texts i) as [tx|]; cbn [fst]; auto.
      unfold mt_parse. cbn [fst]. rewrite <- G, set_get_id. exact HW.
    - destruct (get_obj W w) as [p|] eqn:G; cbn [fst]; auto.
      destruct (nth_error texts i) as [tx|]; cbn [fst]; auto.
      unfold mt_parse. cbn [fst]. rewrite <- G, set_get_id. exact HW.
  Qed.

  Lemma do_op_t_obs : forall W o, world_ok_t W -> snd (do_op_t W o) = BNone \/ snd (do_op_t W o) = fresh_obs_t o.
  Proof.
    intros W o [H0 H1]. unfold SessionTok.fresh_obs_t.
    assert (HS : forall w, get_obj W w = None \/ get_obj W w = get_obj fresh_world_t w).
    { intro w. rewrite fresh_get_t. destruct w; [exact H1|exact H0]. }
    destruct o as [w|w|w i|w i s]; cbn [SessionTok.do_op_t].
    - right. destruct (t_build w); reflexivity.
    - destruct (HS w) as [E|E]; rewrite E; [left; reflexivity|].
      right. destruct (get_obj fresh_world_t w); reflexivity.
    - destruct (HS w) as [E|E]; rewrite E; [left; reflexivity|].
      right. destruct (get_obj fresh_world_t w); [|reflexivity].
      destruct (nth_error texts i); reflexivity.
    - destruct (HS w) as [E|E]; rewrite E; [left; reflexivity|].
      right. destruct (get_obj fresh_world_t w); [|reflexivity].
      destruct (nth_error texts i); reflexivity.
  Qed.

  Lemma session_t_history_independent_from : forall ops W, world_ok_t W ->
    Forall2 (fun o b => b = BNone \/ b = fresh_obs_t o) ops (session_t W ops).
  Proof.
    induction ops as [|o r IH]; intros W HW; cbn [SessionTok.session_t]; [constructor|].
    pose proof (do_op_t_obs W o HW) as HO. pose proof (do_op_t_world W o HW) as HW'.
    destruct (do_op_t W o) as [W' b]. cbn [fst snd] in *. constructor; auto.
  Qed.

  Lemma no_objects_ok_t : world_ok_t no_objects.
  Proof. split; left; reflexivity. Qed.

  Lemma session_t_history_independent_l : forall ops,
    Forall2 (fun o b => b = BNone \/ b = fresh_obs_t o) ops (session_t no_objects ops).
  Proof. intro ops. apply session_t_history_independent_from. apply no_objects_ok_t. Qed.

  Lemma session_t_w_eq : forall ops W,
    session_t_w cfg skip ug start fuel texts W ops = (session_t W ops, final_world_t cfg skip ug start fuel texts W ops).
  Proof.
    induction ops as [|o r IH]; intro W;
      cbn [SessionTok.session_t_w SessionTok.session_t SessionTok.final_world_t]; [reflexivity|].
    destruct (do_op_t W o) as [W' b]. cbn [fst]. rewrite IH. reflexivity.
  Qed.

  Lemma final_world_t_ok_from : forall ops W, world_ok_t W -> world_ok_t (final_world_t cfg skip ug start fuel texts W ops).
  Proof.
    induction ops as [|o r IH]; intros W HW; cbn [SessionTok.final_world_t]; [exact HW|].
    apply IH. apply do_op_t_world. exact HW.
  Qed.

  Lemma final_world_t_fresh_l : forall ops w p,
    get_obj (final_world_t cfg skip ug start fuel texts no_objects ops) w = Some p ->
    t_build w = Ok p.
  Proof.
    intros ops w p G. pose proof (final_world_t_ok_from ops no_objects no_objects_ok_t) as [H0 H1].
    assert (H : get_obj (final_world_t cfg skip ug start fuel texts no_objects ops) w = None \/
                get_obj (final_world_t cfg skip ug start fuel texts no_objects ops) w = fresh_obj_t w)
      by (destruct w; [exact H1|exact H0]).
    destruct H as [H|H]; rewrite H in G; [discriminate|].
    unfold SessionTok.fresh_obj_t in G. destruct (t_build w); inversion G. reflexivity.
  Qed.

  Lemma fresh_obs_t_amb : forall w p, t_build w = Ok p ->
    fresh_obs_t (OAmb w) = BAmb (is_ambiguous (p_tables p)).
  Proof.
    intros w p B. unfold SessionTok.fresh_obs_t. cbn [SessionTok.do_op_t]. rewrite fresh_get_t.
    unfold SessionTok.fresh_obj_t. rewrite B. reflexivity.
  Qed.

  Lemma fresh_obs_t_parse : forall w i p tx, t_build w = Ok p ->
    nth_error texts i = Some tx ->
    fresh_obs_t (OParse w i) = BParse (t_parse cfg skip p fuel tx None).
  Proof.
    intros w i p tx B I. unfold SessionTok.fresh_obs_t. cbn [SessionTok.do_op_t]. rewrite fresh_get_t.
    unfold SessionTok.fresh_obj_t. rewrite B, I. reflexivity.
  Qed.

  Lemma fresh_obs_t_parse_from : forall w i s p tx, t_build w = Ok p ->
    nth_error texts i = Some tx ->
    fresh_obs_t (OParseFrom w i s) = BParse (t_parse cfg skip p fuel tx (Some s)).
  Proof.
    intros w i s p tx B I. unfold SessionTok.fresh_obs_t. cbn [SessionTok.do_op_t]. rewrite fresh_get_t.
    unfold SessionTok.fresh_obj_t. rewrite B, I. reflexivity.
  Qed.

  Lemma is_ambiguous_any_moment_t_l : forall ops n w b p,
    t_build w = Ok p ->
    nth_error ops n = Some (OAmb w) ->
    nth_error (session_t no_objects ops) n = Some (BAmb b) ->
    b = is_ambiguous (p_tables p).
  Proof.
    intros ops n w b p B Ho Hb.
    pose proof (Forall2_nth _ _ _ _ _ n _ _ (session_t_history_independent_l ops) Ho Hb) as [H|H].
    - discriminate.
    - rewrite (fresh_obs_t_amb w p B) in H. inversion H. reflexivity.
  Qed.

  Lemma parse_text_any_moment_l : forall ops n w i tx r p,
    t_build w = Ok p ->
    nth_error texts i = Some tx ->
    nth_error ops n = Some (OParse w i) ->
    nth_error (session_t no_objects ops) n = Some (BParse r) ->
    r = t_parse cfg skip p fuel tx None.
  Proof.
    intros ops n w i tx r p B I Ho Hb.
    pose proof (Forall2_nth _ _ _ _ _ n _ _ (session_t_history_independent_l ops) Ho Hb) as [H|H].
    - discriminate.
    - rewrite (fresh_obs_t_parse w i p tx B I) in H. inversion H. reflexivity.
  Qed.

  Lemma parse_text_from_any_moment_l : forall ops n w i s tx r p,
    t_build w = Ok p ->
    nth_error texts i = Some tx ->
    nth_error ops n = Some (OParseFrom w i s) ->
    nth_error (session_t no_objects ops) n = Some (BParse r) ->
    r = t_parse cfg skip p fuel tx (Some s).
  Proof.
    intros ops n w i s tx r p B I Ho Hb.
    pose proof (Forall2_nth _ _ _ _ _ n _ _ (session_t_history_independent_l ops) Ho Hb) as [H|H].
    - discriminate.
    - rewrite (fresh_obs_t_parse_from w i s p tx B I) in H. inversion H. reflexivity.
  Qed.
End S.
