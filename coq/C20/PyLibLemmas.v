(* C20/PyLibLemmas.v -- kept for the imports of coq/C20: the lemmas live in Common/PyLibLemmas.v. *)
From AK Require Export Common.PyLibLemmas.
