(* C17/Model.v -- executable model of the layered http connections of
   ak/conn_http.py (RequestArguments, adapters, _HttpConnBase wrappers,
   _HttpConnImpl.do_request: request assembly AND the response path -- opener
   answer, raw_response, decoding, the process_response loop, the returned
   value) and ak/mcaller_http.py (MCallerHttp.__init__, clone, get_conn with
   the per-caller cache of prefixed connections).

   The property is about aliasing, so mutable python objects are cells of a
   HEAP addressed by references: adapter lists (conn.adapters, lists passed
   by the caller), header dicts (the caller's and the copy made by
   RequestArguments), params dicts and data objects.  Immutable parts of a
   connection object (parent, impl, the adapters it was constructed with) are
   kept by value in [connv]; its identity is the reference of its own adapter
   list.  Literal keys / prefixes / clauses are regenerated from the source on
   every run (gen/C17_Consts.v).  No proofs in this file. *)
From Coq Require Import ZArith List Bool.
From AK Require Import Common.Sx Common.Err gen.C17_Consts C17.Codec.
Import ListNotations.
Open Scope Z_scope.

Notation ref := nat.
Local Notation "x >>= f" := (bind x f) (at level 50, left associativity).

(* ------------------------------------------------------------------ *)
(* values                                                               *)

(* RequestAdapter objects (immutable).  ATag is the harness's own subclass of
   RequestAdapter: process_req_args appends chr(k) to header 'X-Tag',
   process_response records k and returns Marked(k, value) (it makes "applied
   exactly once, in which order" observable on both paths). *)
Inductive adapter :=
| APrefix (p : str)                       (* RequestAdapterAddPathPrefix *)
| ABasic (login pass : str)               (* BAuthConn.Adapter *)
| AClient (name cid secret : str)         (* ClientAuthConn.Adapter *)
| AToken (tok : str)                      (* TokenAuthConn.Adapter *)
| ATag (k : Z).

(* header values: str, bytes, or a generated request id (value not modelled) *)
Inductive hval := HStr (s : str) | HBytes (b : list Z) | HGenId.

Notation dict := (list (str * hval)).

(* the `data` argument: bytes / str / anything else (json.dumps result and
   truthiness of the object are supplied by the harness) *)
Inductive body := BBytes (b : list Z) | BStr (s : str) | BJson (dumped : str) (truthy : bool).

Inductive cell :=
| CAdapters (l : list adapter)
| CHeaders (d : dict)
| CParams (p : list (str * str))
| CBody (b : body).

Notation heap := (list cell).

Definition hget (h : heap) (r : ref) : option cell := nth_error h r.

Fixpoint hset (h : heap) (r : ref) (c : cell) : heap :=
  match h, r with
  | [], _ => []
  | _ :: t, O => c :: t
  | x :: t, S r' => x :: hset t r' c
  end.

Definition alloc (h : heap) (c : cell) : heap * ref := (h ++ [c], length h).

(* python dict: membership, lookup, item assignment (existing key keeps its place) *)
Fixpoint dict_mem (k : str) (d : dict) : bool :=
  match d with
  | [] => false
  | (k', _) :: r => str_eqb k' k || dict_mem k r
  end.
Fixpoint dict_get (k : str) (d : dict) : option hval :=
  match d with
  | [] => None
  | (k', v) :: r => if str_eqb k' k then Some v else dict_get k r
  end.
Fixpoint dict_set (k : str) (v : hval) (d : dict) : dict :=
  match d with
  | [] => [(k, v)]
  | (k', v') :: r => if str_eqb k' k then (k', v) :: r else (k', v') :: dict_set k v r
  end.

(* connection objects *)
Inductive connv :=
| Impl (addr : str) (send_ids : bool) (lref : ref)                 (* _HttpConnImpl; lref: its dummy [] *)
| Wrap (is_http : bool) (own : list adapter) (parent : connv) (lref : ref).
         (* _HttpConnBase subclass instance; own = adapters given at construction,
            lref = the list object self.adapters *)

Definition conn_lref (c : connv) : ref :=
  match c with Impl _ _ r => r | Wrap _ _ _ r => r end.
Fixpoint conn_root (c : connv) : str * bool :=          (* self.conn_impl: (address, send ids) *)
  match c with Impl a s _ => (a, s) | Wrap _ _ p _ => conn_root p end.
Definition conn_is_http (c : connv) : bool :=
  match c with Impl _ _ _ => false | Wrap b _ _ _ => b end.

(* ------------------------------------------------------------------ *)
(* adapters: process_req_args on (path, headers dict)                   *)

Definition x_tag : str := [88; 45; 84; 97; 103].     (* 'X-Tag' (harness adapter) *)
Definition slash : Z := 47.

Definition join_prefix (p path : str) : str :=
  (* suffix_path = req_args.path
     if suffix_path and suffix_path.startswith('/') and self.prefix.endswith('/'): suffix_path = suffix_path[1:] *)
  p ++ (if nonempty path && starts_with slash path && ends_with slash p then tl path else path).

Definition auth_value (a : adapter) : option (str * str * hval) :=   (* (assert key, set key, value) *)
  match a with
  | ABasic l p => Some (basic_assert_key, basic_set_key, HBytes (basic_prefix ++ b64 (utf8 (l ++ basic_sep ++ p))))
  | AClient _ i s => Some (client_assert_key, client_set_key, HBytes (client_prefix ++ b64 (utf8 (i ++ client_sep ++ s))))
  | AToken t => Some (token_assert_key, token_set_key, HStr (token_prefix ++ t))
  | _ => None
  end.

Definition adapter_pre (a : adapter) (pd : str * dict) : res (str * dict) :=
  let '(path, d) := pd in
  match a with
  | APrefix p => Ok (join_prefix p path, d)
  | ATag k =>
      match dict_get x_tag d with
      | None => Ok (path, dict_set x_tag (HStr [k]) d)
      | Some (HStr s) => Ok (path, dict_set x_tag (HStr (s ++ [k])) d)
      | Some _ => Err TypeErr                      (* bytes + str *)
      end
  | _ =>
      match auth_value a with
      | Some (ak, sk, v) =>
          if dict_mem ak d then Err AssertErr      (* assert 'Authorization' not in req_args.headers *)
          else Ok (path, dict_set sk v d)
      | None => Ok (path, d)
      end
  end.

(* RequestArguments object: fields by value except the headers dict (a cell) *)
Record rargs := { r_path : str; r_hdr : ref }.

(* adapter.process_req_args(req_args): reads / writes req_args.headers through the reference *)
Definition process_req_args (a : adapter) (h : heap) (ra : rargs) : heap * res rargs :=
  match hget h (r_hdr ra) with
  | Some (CHeaders d) =>
      match adapter_pre a (r_path ra, d) with
      | Ok (p', d') => (hset h (r_hdr ra) (CHeaders d'), Ok {| r_path := p'; r_hdr := r_hdr ra |})
      | Err e => (h, Err e)
      end
  | _ => (h, Err OtherErr)
  end.

Fixpoint apply_adapters (ads : list adapter) (h : heap) (ra : rargs) : heap * res rargs :=
  match ads with
  | [] => (h, Ok ra)
  | a :: r =>
      match process_req_args a h ra with
      | (h', Ok ra') => apply_adapters r h' ra'
      | (h', Err e) => (h', Err e)
      end
  end.

(* ------------------------------------------------------------------ *)
(* the response path (conn_http.py:178-203)                             *)

(* the answer of the (substitute) opener: status code, body bytes, and -- an
   oracle value supplied by the harness, as json.dumps is for bodies -- the
   canonical json.dumps(json.loads(text), sort_keys=True) of the body text
   (None: json.loads raises).  The Content-Type of the response is an input of
   the generated cases that the code never looks at, hence not a field. *)
Record response := { r_code : Z; r_body : list Z; r_json : option str }.

(* what a request returns to its caller *)
Inductive rval :=
| RText (s : str)                   (* a python str; the code only ever returns '' this way (empty body) *)
| RJson (js : str)                  (* json.loads(text), as its canonical json text *)
| RRaw (code : Z) (body : list Z)   (* raw_response=True: the response object itself (response.data = body) *)
| RMark (k : Z) (v : rval).         (* TagAdapter.process_response: Marked(k, v) *)

(* bytes.decode('utf-8') as python does it: strict (continuation bytes, overlong forms, surrogates and
   code points above 0x10FFFF are refused); None = UnicodeDecodeError *)
Definition is_cont (b : Z) : bool := (128 <=? b) && (b <=? 191).
Fixpoint utf8_strict (fuel : nat) (l : list Z) : option str :=
  match fuel with
  | O => match l with [] => Some [] | _ => None end
  | S f =>
    match l with
    | [] => Some []
    | a :: r =>
      if (a <? 0) then None
      else if a <? 128 then option_map (cons a) (utf8_strict f r)
      else if a <? 194 then None
      else if a <? 224 then
        match r with
        | b :: r' => if is_cont b then option_map (cons ((a - 192) * 64 + (b - 128))) (utf8_strict f r') else None
        | _ => None
        end
      else if a <? 240 then
        match r with
        | b :: c :: r' =>
            let cp := (a - 224) * 4096 + (b - 128) * 64 + (c - 128) in
            if is_cont b && is_cont c && (2048 <=? cp) && negb ((55296 <=? cp) && (cp <=? 57343))
            then option_map (cons cp) (utf8_strict f r') else None
        | _ => None
        end
      else if a <? 245 then
        match r with
        | b :: c :: d :: r' =>
            let cp := (a - 240) * 262144 + (b - 128) * 4096 + (c - 128) * 64 + (d - 128) in
            if is_cont b && is_cont c && is_cont d && (65536 <=? cp) && (cp <=? 1114111)
            then option_map (cons cp) (utf8_strict f r') else None
        | _ => None
        end
      else None
    end
  end.
Definition decode_utf8 (l : list Z) : option str := utf8_strict (length l) l.

(* `self.opener.open(request)`: urllib raises HTTPError for error statuses (the substitute opener: >= 400);
   do_request logs and re-raises it (class HTTPError: none of Common/Err's names, hence OtherErr) *)
Definition opener_open (resp : response) : res response :=
  if 400 <=? r_code resp then Err OtherErr else Ok resp.

(* if not raw_response: ret_val = response.data.decode('utf-8'); if ret_val: ret_val = json.loads(ret_val)
   else: ret_val = response *)
Definition response_base (raw : bool) (resp : response) : res rval :=
  if raw then Ok (RRaw (r_code resp) (r_body resp))
  else match decode_utf8 (r_body resp) with
       | None => Err ValueErr                               (* UnicodeDecodeError *)
       | Some [] => Ok (RText [])
       | Some (_ :: _) => match r_json resp with
                          | Some js => Ok (RJson js)
                          | None => Err ValueErr            (* json.JSONDecodeError *)
                          end
       end.

(* adapter.process_response(ret_val): RequestAdapter's default returns the value as is (the four adapters of
   conn_http.py do not override it); the harness's TagAdapter wraps it *)
Definition adapter_post (a : adapter) (v : rval) : rval :=
  match a with ATag k => RMark k v | _ => v end.

(* for adapter in adapters[::-1]: ret_val = adapter.process_response(ret_val)
   (resp_reversed = false models a loop over `adapters`) *)
Definition post_loop (ads : list adapter) (v : rval) : rval :=
  fold_left (fun v a => adapter_post a v) (if resp_reversed then rev ads else ads) v.

(* everything behind the Request: the opener's answer, decoding, the processors -- raw or not *)
Definition respond (ads : list adapter) (raw : bool) (resp : response) : res rval :=
  opener_open resp >>= fun r =>
  response_base raw r >>= fun b =>
  Ok (post_loop ads b).

(* ------------------------------------------------------------------ *)
(* _HttpConnImpl.do_request                                             *)

Record captured := {               (* the urllib Request handed to the opener + processing order of the response *)
  q_url : str;
  q_method : str;
  q_headers : dict;                (* Request.headers: keys capitalize()d, later value wins *)
  q_data : option (list Z);
  q_resp : list Z                  (* tags of the adapters in the order process_response ran *)
}.

Definition body_truthy (b : option body) : bool :=
  match b with
  | None => false
  | Some (BBytes x) => nonempty x
  | Some (BStr s) => nonempty s
  | Some (BJson _ t) => t
  end.

Definition tag_of (a : adapter) : list Z := match a with ATag k => [k] | _ => [] end.

(* urllib.request.Request(headers=...): for key, value in headers.items(): self.headers[key.capitalize()] = value *)
Definition request_headers (d : dict) : dict :=
  fold_left (fun acc kv => dict_set (capitalize (fst kv)) (snd kv) acc) d [].

(* the test in front of `headers['X-Request-ID'] = self._generate_request_id()`:
   `'X-Request-ID' not in headers` (reqid_ci = false) or
   `not any(name.lower() == 'x-request-id' for name in headers)` (reqid_ci = true; header names are ASCII here) *)
Definition has_reqid (d : dict) : bool :=
  if reqid_ci then existsb (fun kv => str_eqb (map low (fst kv)) reqid_test_key) d
  else dict_mem reqid_test_key d.

(* everything behind the adapter loop; [d] is the content of req_args.headers,
   returns the final content of that dict and the Request *)
Definition assemble (addr : str) (send_ids : bool) (ads : list adapter) (path : str) (meth : option str)
           (params : option (list (str * str))) (data : option body) (d : dict) : dict * captured :=
  let path1 := match params with
               | Some p => if nonempty p then path ++ [63] ++ urlencode p else path
               | None => path
               end in
  let path2 := if negb (ends_with slash addr) && negb (starts_with slash path1) then slash :: path1 else path1 in
  let url := addr ++ path2 in
  let d1 := if send_ids then (if has_reqid d then d else dict_set reqid_set_key HGenId d) else d in
  let m := match meth with
           | None => if body_truthy data then meth_with_data else meth_without_data
           | Some s => if nonempty s then upper s
                       else if body_truthy data then meth_with_data else meth_without_data
           end in
  let '(d2, rd) := match data with
                   | None => (d1, None)
                   | Some (BBytes b) => (d1, Some b)
                   | Some (BStr s) => (d1, Some (utf8 s))
                   | Some (BJson js _) =>
                       (if dict_mem ctype_test_key d1 then d1 else dict_set ctype_set_key (HStr ctype_val) d1,
                        Some (utf8 js))
                   end in
  (d2, {| q_url := url; q_method := m; q_headers := request_headers d2; q_data := rd;
          q_resp := flat_map tag_of (if resp_reversed then rev ads else ads) |}).

(* arguments of a request as the caller passes them: references to the caller's objects *)
Record reqargs := {
  a_path : str;
  a_meth : option str;
  a_params : option ref;
  a_data : option ref;
  a_headers : option ref;
  a_raw : bool;                (* raw_response *)
  a_resp : response            (* what the opener will answer (environment of the call) *)
}.

Definition read_params (h : heap) (r : option ref) : res (option (list (str * str))) :=
  match r with
  | None => Ok None
  | Some r => match hget h r with Some (CParams p) => Ok (Some p) | _ => Err OtherErr end
  end.
Definition read_body (h : heap) (r : option ref) : res (option body) :=
  match r with
  | None => Ok None
  | Some r => match hget h r with Some (CBody b) => Ok (Some b) | _ => Err OtherErr end
  end.

(* RequestArguments.__init__: self.headers = headers.copy() if headers else {}
   (hdr_copy = false models the variant `headers if headers else {}`) *)
Definition init_headers (h : heap) (hdrs : option ref) : res (heap * ref) :=
  match hdrs with
  | None => Ok (alloc h (CHeaders []))
  | Some r =>
      match hget h r with
      | Some (CHeaders d) =>
          if nonempty d then (if hdr_copy then Ok (alloc h (CHeaders d)) else Ok (h, r))
          else Ok (alloc h (CHeaders []))
      | _ => Err OtherErr
      end
  end.

Definition do_request (h : heap) (addr : str) (send_ids : bool) (ads : list adapter) (q : reqargs)
  : heap * res (captured * rval) :=
  match init_headers h (a_headers q) with
  | Err e => (h, Err e)
  | Ok (h0, hr) =>
      match apply_adapters ads h0 {| r_path := a_path q; r_hdr := hr |} with
      | (h1, Err e) => (h1, Err e)
      | (h1, Ok ra) =>
          match read_params h1 (a_params q), read_body h1 (a_data q), hget h1 (r_hdr ra) with
          | Ok params, Ok data, Some (CHeaders d) =>
              let '(d', cap) := assemble addr send_ids ads (r_path ra) (a_meth q) params data d in
              (hset h1 (r_hdr ra) (CHeaders d'),
               respond ads (a_raw q) (a_resp q) >>= fun v => Ok (cap, v))
          | _, _, _ => (h1, Err OtherErr)
          end
      end
  end.

(* conn.get/post/... : self.conn_impl.do_request(self.adapters, path, "GET", ...) *)
Definition conn_request (h : heap) (c : connv) (q : reqargs) : heap * res (captured * rval) :=
  match hget h (conn_lref c) with
  | Some (CAdapters ads) => let '(addr, sids) := conn_root c in do_request h addr sids ads q
  | _ => (h, Err OtherErr)
  end.

(* ------------------------------------------------------------------ *)
(* construction of connections                                          *)

(* _HttpConnBase.__init__ with a parent connection: self.adapters = self.own_adapters + self.parent_conn.adapters *)
Definition mk_wrap (h : heap) (is_http : bool) (own : list adapter) (parent : connv) : res (heap * connv) :=
  match hget h (conn_lref parent) with
  | Some (CAdapters pl) =>
      let '(h', r) := alloc h (CAdapters (own ++ pl)) in Ok (h', Wrap is_http own parent r)
  | _ => Err OtherErr
  end.

(* _HttpConnImpl(address, _send_request_ids): self.adapters = [] *)
Definition mk_impl (h : heap) (addr : str) (send_ids : bool) : heap * connv :=
  let '(h', r) := alloc h (CAdapters []) in (h', Impl addr send_ids r).

Definition strip_slash (a : str) : str :=        (* if address.endswith('/'): address = address[:-1] *)
  if ends_with slash a then removelast a else a.

(* ------------------------------------------------------------------ *)
(* programs                                                             *)

Record callerv := {
  m_map : list (str * str);           (* _HTTP_PREFIX_MAP of its class *)
  m_conn : connv;                     (* self.http_conn *)
  m_cache : list (str * connv)        (* self._mc_conns_by_prefix (mutable) *)
}.

Record state := {
  heap_of : heap;
  cobjs : list ref;                   (* objects created by the caller, in creation order *)
  conns : list connv;                 (* connection objects the program can name *)
  callers : list callerv              (* method callers, in creation order *)
}.

Definition init : state := {| heap_of := []; cobjs := []; conns := []; callers := [] |}.

Inductive conn_data :=
| CDAddr (a : str)                          (* conn_data is an address string *)
| CDArgs (a : str) (send_ids : bool)        (* list / tuple / dict of _HttpConnImpl arguments *)
| CDConn (i : nat).                         (* another connection *)

Inductive adarg := ADNone | ADSingle (a : adapter) | ADList (o : nat).   (* o: index of a caller list object *)

Inductive wrapspec :=
| WHttp (ad : adarg)                        (* HttpConn(conn_data, adapters=...) *)
| WBasic (l p : str)
| WClient (n i s : str)
| WToken (t : str).

Inductive meth := MVerb (i : nat) | MRaw (m : option str).   (* get/post/put/delete/patch | conn_impl.do_request(conn.adapters, path, m, ...) *)

Record reqspec := {
  s_meth : meth;
  s_path : str;
  s_params : option nat;      (* indices of caller objects *)
  s_data : option nat;
  s_headers : option nat;
  s_raw : bool;
  s_resp : response
}.

Inductive op :=
| ONewList (l : list adapter)
| ONewHeaders (d : dict)
| ONewParams (p : list (str * str))
| ONewBody (b : body)
| OConn (w : wrapspec) (cd : conn_data)
| OCaller (pmap : list (str * str)) (cd : conn_data)     (* Cls(address or connection); its http_conn becomes nameable *)
| OClone (m : nat) (ad : adarg)                          (* callers[m].clone(...) *)
| ORequest (c : nat) (q : reqspec)
| OCall (m : nat) (comps : option (list str)) (q : reqspec)   (* wrapper method: self.get_conn().<verb>(...) *)
| OAddAdapter (c : nat) (a : adapter).

(* a request observes the Request handed to the opener and the value returned to the caller *)
Inductive obsv := OUnit | OReq (c : captured) (v : rval).

Definition upd_heap (st : state) (h : heap) : state :=
  {| heap_of := h; cobjs := cobjs st; conns := conns st; callers := callers st |}.

Definition new_cobj (st : state) (c : cell) : state :=
  let '(h, r) := alloc (heap_of st) c in
  {| heap_of := h; cobjs := cobjs st ++ [r]; conns := conns st; callers := callers st |}.

Definition cobj_ref (st : state) (o : option nat) : res (option ref) :=
  match o with
  | None => Ok None
  | Some i => match nth_error (cobjs st) i with Some r => Ok (Some r) | None => Err OtherErr end
  end.

Definition resolve (st : state) (q : reqspec) : res reqargs :=
  match s_meth q with
  | MVerb i => match nth_error verbs i with Some v => Ok (Some v) | None => Err OtherErr end
  | MRaw m => Ok m
  end >>= fun m =>
  cobj_ref st (s_params q) >>= fun p =>
  cobj_ref st (s_data q) >>= fun d =>
  cobj_ref st (s_headers q) >>= fun hd =>
  Ok {| a_path := s_path q; a_meth := m; a_params := p; a_data := d; a_headers := hd;
        a_raw := s_raw q; a_resp := s_resp q |}.

(* the `adapters` argument -> python list value *)
Definition adarg_list (st : state) (ad : adarg) : res (list adapter) :=
  match ad with
  | ADNone => Ok []
  | ADSingle a => Ok [a]
  | ADList o =>
      match nth_error (cobjs st) o with
      | Some r => match hget (heap_of st) r with Some (CAdapters l) => Ok l | _ => Err OtherErr end
      | None => Err OtherErr
      end
  end.

(* conn_data -> parent connection (creating the _HttpConnImpl when it is an address) *)
Definition parent_of (st : state) (cd : conn_data) : res (heap * connv) :=
  match cd with
  | CDAddr a => Ok (mk_impl (heap_of st) (strip_slash a) true)
  | CDArgs a s => Ok (mk_impl (heap_of st) a s)
  | CDConn i => match nth_error (conns st) i with Some c => Ok (heap_of st, c) | None => Err OtherErr end
  end.

Definition own_of (st : state) (w : wrapspec) : res (bool * list adapter) :=
  match w with
  | WHttp ad => bind (adarg_list st ad) (fun l => Ok (true, l))
  | WBasic l p => Ok (false, [ABasic l p])
  | WClient n i s => Ok (false, [AClient n i s])
  | WToken t => Ok (false, [AToken t])
  end.

Definition map_get (k : str) (m : list (str * str)) : option str :=
  match find (fun kv => str_eqb (fst kv) k) m with Some kv => Some (snd kv) | None => None end.
Definition cache_get (k : str) (m : list (str * connv)) : option connv :=
  match find (fun kv => str_eqb (fst kv) k) m with Some kv => Some (snd kv) | None => None end.

Definition set_caller (st : state) (i : nat) (m : callerv) (h : heap) : state :=
  {| heap_of := h; cobjs := cobjs st; conns := conns st;
     callers := firstn i (callers st) ++ m :: skipn (S i) (callers st) |}.

(* MCallerHttp.get_conn for a wrapper method declared with components [comps] *)
Definition get_conn (h : heap) (m : callerv) (comps : option (list str)) : res (heap * callerv * connv) :=
  match comps with
  | None => Ok (h, m, m_conn m)
  | Some cs =>
      match filter (fun c => match map_get c (m_map m) with Some _ => true | None => false end) cs with
      | [c] =>
          match map_get c (m_map m) with
          | None => Err OtherErr
          | Some prefix =>
              match cache_get prefix (m_cache m) with
              | Some conn => Ok (h, m, conn)
              | None =>
                  (if nonempty prefix then mk_wrap h true [APrefix prefix] (m_conn m)
                   else Ok (h, m_conn m)) >>= fun hc =>
                  let '(h', conn) := hc in
                  Ok (h', {| m_map := m_map m; m_conn := m_conn m; m_cache := m_cache m ++ [(prefix, conn)] |}, conn)
              end
          end
      | _ => Err AssertErr                       (* assert len(matching_components) == 1 *)
      end
  end.

(* MCallerHttp.__init__(address): a HttpConn is used as is, anything else is wrapped in HttpConn(address) *)
Definition caller_conn (st : state) (cd : conn_data) : res (heap * connv) :=
  bind (parent_of st cd) (fun hp =>
    let '(h, p) := hp in
    match cd with
    | CDConn _ => if conn_is_http p then Ok (h, p) else mk_wrap h true [] p
    | _ => mk_wrap h true [] p
    end).

(* MCallerHttp.clone: the list / single test (clone_wraps_nonlist = false models the inverted test:
   a list becomes [[...]] and _HttpConnBase.__init__ fails with AttributeError on a.AUTH_TYPE) *)
Definition clone_adapters (st : state) (ad : adarg) : res (list adapter) :=
  match ad with
  | ADList _ => if clone_wraps_nonlist then adarg_list st ad else Err AttrErr
  | _ => adarg_list st ad
  end.

Definition step (st : state) (o : op) : state * res obsv :=
  match o with
  | ONewList l => (new_cobj st (CAdapters l), Ok OUnit)
  | ONewHeaders d => (new_cobj st (CHeaders d), Ok OUnit)
  | ONewParams p => (new_cobj st (CParams p), Ok OUnit)
  | ONewBody b => (new_cobj st (CBody b), Ok OUnit)
  | OConn w cd =>
      match bind (own_of st w) (fun bo => bind (parent_of st cd) (fun hp =>
              mk_wrap (fst hp) (fst bo) (snd bo) (snd hp))) with
      | Ok (h, c) => ({| heap_of := h; cobjs := cobjs st; conns := conns st ++ [c]; callers := callers st |}, Ok OUnit)
      | Err e => (st, Err e)
      end
  | OCaller pmap cd =>
      match caller_conn st cd with
      | Ok (h, c) =>
          ({| heap_of := h; cobjs := cobjs st; conns := conns st ++ [c];
              callers := callers st ++ [{| m_map := pmap; m_conn := c; m_cache := [] |}] |}, Ok OUnit)
      | Err e => (st, Err e)
      end
  | OClone i ad =>
      match nth_error (callers st) i with
      | None => (st, Err OtherErr)
      | Some m =>
          match bind (clone_adapters st ad) (fun l => mk_wrap (heap_of st) true l (m_conn m)) with
          | Ok (h, c) =>
              ({| heap_of := h; cobjs := cobjs st; conns := conns st ++ [c];
                  callers := callers st ++ [{| m_map := m_map m; m_conn := c; m_cache := [] |}] |}, Ok OUnit)
          | Err e => (st, Err e)
          end
      end
  | ORequest i q =>
      match nth_error (conns st) i, resolve st q with
      | Some c, Ok ra =>
          let '(h, r) := conn_request (heap_of st) c ra in
          (upd_heap st h, match r with Ok (cap, v) => Ok (OReq cap v) | Err e => Err e end)
      | _, _ => (st, Err OtherErr)
      end
  | OCall i comps q =>
      match nth_error (callers st) i, resolve st q with
      | Some m, Ok ra =>
          match get_conn (heap_of st) m comps with
          | Err e => (st, Err e)
          | Ok (h, m', c) =>
              let '(h', r) := conn_request h c ra in
              (set_caller st i m' h', match r with Ok (cap, v) => Ok (OReq cap v) | Err e => Err e end)
          end
      | _, _ => (st, Err OtherErr)
      end
  | OAddAdapter i a =>
      (* self.adapters.append(adapter) *)
      match nth_error (conns st) i with
      | Some c =>
          match hget (heap_of st) (conn_lref c) with
          | Some (CAdapters l) => (upd_heap st (hset (heap_of st) (conn_lref c) (CAdapters (l ++ [a]))), Ok OUnit)
          | _ => (st, Err OtherErr)
          end
      | None => (st, Err OtherErr)
      end
  end.

Fixpoint run_ops (st : state) (ops : list op) : state * list (res obsv) :=
  match ops with
  | [] => (st, [])
  | o :: r =>
      let '(st1, x) := step st o in
      let '(st2, xs) := run_ops st1 r in
      (st2, x :: xs)
  end.
