(* C14/Lemmas.v -- the statements of Props.v, proved from the invariant lemmas. *)
From Coq Require Import ZArith List Bool Lia.
From AK Require Import Common.Sx Common.Err C14.Model C14.LemBase C14.LemSpec C14.LemLoop C14.LemHist.
Import ListNotations.
Open Scope Z_scope.

Lemma builtin_has_default : has_key dflt_id (flatten builtin_config) = true.
Proof. vm_compute. reflexivity. Qed.

Lemma builtin_valid : valid (flatten builtin_config).
Proof.
  unfold valid. apply Forall_forall. intros it Hit.
  assert (forallb (fun it => match parse_init_str (snd it) with Ok _ => true | Err _ => false end)
                  (flatten builtin_config) = true) as H by (vm_compute; reflexivity).
  rewrite forallb_forall in H. specialize (H _ Hit).
  destruct (parse_init_str (snd it)) as [d|]; [eauto|discriminate].
Qed.

(* the registry after a history: exists, and is `good` for the union of the descriptions *)
Lemma history_good nc h :
  valid_hops h -> acyclic (union_hops [] h) ->
  exists c, run_hops (conf0 nc) h = Ok c /\ good nc (union_hops [] h) c.
Proof.
  intros Hv Hac. destruct (hops_spec nc h [] (conf0 nc) (good0 nc) Hv Hac) as (c & Hr & Hg & _).
  exists c. split; assumption.
Qed.

Lemma resolve_correct_l nc h :
  valid_hops h -> acyclic (union_hops [] h) ->
  exists c, run_hops (conf0 nc) h = Ok c /\
    map fst (c_map c) = map fst (union_hops [] h) /\
    (forall id r, resolves (union_hops [] h) id r <-> resolved_entry nc c id r) /\
    (forall id e, incomplete (union_hops [] h) id -> lookup id (c_map c) = Some e -> e_fmt e = None) /\
    (forall id, spec_color nc (union_hops [] h) id (get_color c id)).
Proof.
  intros Hv Hac. destruct (history_good nc h Hv Hac) as (c & Hr & Hg).
  exists c. split; [exact Hr|]. split; [exact (proj1 (proj1 (proj2 (proj2 Hg))))|]. split; [|split].
  - intros id r. apply good_resolved_iff. exact Hg.
  - intros id e Hi Le. eapply good_unresolved; eauto.
  - intros id. destruct Hg as (Hnc & W & HI & Hs & Hc). apply get_color_spec; assumption.
Qed.

Lemma acyclic_same S1 S2 : (forall i, lookup i S1 = lookup i S2) -> acyclic S1 -> acyclic S2.
Proof. intros E. apply acyclic_mono. intros i d H. rewrite E. exact H. Qed.

Lemma order_independent_l nc h1 h2 :
  valid_hops h1 -> valid_hops h2 ->
  (forall id, lookup id (union_hops [] h1) = lookup id (union_hops [] h2)) ->
  acyclic (union_hops [] h1) ->
  exists c1 c2, run_hops (conf0 nc) h1 = Ok c1 /\ run_hops (conf0 nc) h2 = Ok c2 /\
                forall id, get_color c1 id = get_color c2 id.
Proof.
  intros V1 V2 E A1. pose proof (acyclic_same _ _ E A1) as A2.
  destruct (resolve_correct_l nc h1 V1 A1) as (c1 & R1 & _ & _ & _ & G1).
  destruct (resolve_correct_l nc h2 V2 A2) as (c2 & R2 & _ & _ & _ & G2).
  exists c1, c2. split; [exact R1|]. split; [exact R2|].
  intros id. eapply spec_color_fun; eauto.
Qed.

(* how a description explains a resolved value *)
Definition explains (S : dset) (d : descr) (r : rdescr) : Prop :=
  match d_parent d with
  | None => r = root_res d
  | Some p => exists rp, resolves S p rp /\ r = child_res d rp
  end.

Lemma resolves_explains S id d r : lookup id S = Some d -> resolves S id r -> explains S d r.
Proof.
  intros L R. unfold explains. inversion R as [? d0 L0 P0|? d0 p0 rp0 L0 P0 R0]; subst;
    assert (d0 = d) by congruence; subst; rewrite P0; eauto.
Qed.

Lemma explicit_wins_l nc b0 rest :
  valid_hops (HReg b0 :: rest) -> acyclic (union_hops [] (HReg b0 :: rest)) ->
  exists c, run_hops (conf0 nc) (HReg b0 :: rest) = Ok c /\
    forall id d, lookup id (union_add [] b0) = Some d ->
      lookup id (union_hops [] (HReg b0 :: rest)) = Some d /\
      (exists e, lookup id (c_map c) = Some e /\ e_parent e = d_parent d) /\
      (forall r, resolved_entry nc c id r -> explains (union_hops [] (HReg b0 :: rest)) d r).
Proof.
  intros Hv Hac. destruct (history_good nc _ Hv Hac) as (c & Hr & Hg).
  exists c. split; [exact Hr|]. intros id d L0.
  assert (lookup id (union_hops [] (HReg b0 :: rest)) = Some d) as L.
  { cbn [union_hops]. apply extends_union_hops. exact L0. }
  split; [exact L|]. split.
  - destruct Hg as (Hnc & W & HI & Hs & Hc). destruct (Inv_lookup_m _ _ _ _ _ HI L) as [e Le].
    exists e. split; [exact Le|]. exact (proj1 (proj2 HI _ _ _ L Le)).
  - intros r Hre. apply (good_resolved_iff nc _ c id r Hg) in Hre. eapply resolves_explains; eauto.
Qed.

Lemma later_registration_completes_l nc h b :
  valid_hops (h ++ [HReg b]) -> acyclic (union_hops [] (h ++ [HReg b])) ->
  exists c c', run_hops (conf0 nc) h = Ok c /\ add_new_items c b = Ok c' /\
    run_hops (conf0 nc) (h ++ [HReg b]) = Ok c' /\
    (* formatters that were resolved before are untouched *)
    (forall id e, lookup id (c_map c) = Some e -> e_fmt e <> None -> lookup id (c_map c') = Some e) /\
    (* every chain that is complete now is resolved, with the value the final set demands *)
    (forall id r, resolves (union_hops [] (h ++ [HReg b])) id r -> resolved_entry nc c' id r) /\
    (* and nothing else is *)
    (forall id e, incomplete (union_hops [] (h ++ [HReg b])) id -> lookup id (c_map c') = Some e -> e_fmt e = None).
Proof.
  intros Hv Hac. rewrite union_hops_app in Hac. cbn [union_hops] in Hac.
  apply Forall_app in Hv as [Hv1 Hv2]. inversion Hv2 as [|? ? Hvb _]; subst.
  assert (acyclic (union_hops [] h)) as Hac1.
  { eapply acyclic_mono; [apply extends_union_add|exact Hac]. }
  destruct (history_good nc h Hv1 Hac1) as (c & Hr & Hg).
  destruct (add_new_items_spec nc _ c b Hg Hvb Hac) as (c' & Ha & Hg' & Hm).
  exists c, c'. split; [exact Hr|]. split; [exact Ha|].
  rewrite run_hops_app, Hr, union_hops_app. cbn [bind run_hops union_hops]. rewrite Ha. cbn [bind].
  split; [reflexivity|]. split; [exact Hm|]. split.
  - intros id r R. apply (good_resolved_iff nc _ c' id r Hg'). exact R.
  - intros id e Hi Le. eapply good_unresolved; eauto.
Qed.

Lemma spec_color_nocolor S id f : spec_color true S id f -> f = [].
Proof. intros [(r & _ & ->)|[_ ->]]; reflexivity. Qed.

Lemma no_color_plain_l h :
  valid_hops h -> acyclic (union_hops [] h) ->
  exists c, run_hops (conf0 true) h = Ok c /\
    (forall id, get_color c id = []) /\ snd (get_palette c) = map (fun _ => []) accessors.
Proof.
  intros Hv Hac. destruct (history_good true h Hv Hac) as (c & Hr & Hg).
  assert (forall id, get_color c id = []) as G.
  { intros id. destruct Hg as (Hnc & W & HI & Hs & Hc).
    eapply spec_color_nocolor. apply get_color_spec; eauto. }
  exists c. split; [exact Hr|]. split; [exact G|].
  rewrite (get_palette_current true _ c Hg). apply map_ext. exact G.
Qed.

Lemma palette_current_l nc h :
  valid_hops h -> acyclic (union_hops [] h) ->
  exists c, run_hops (conf0 nc) h = Ok c /\
    snd (get_palette c) = map (get_color c) accessors /\
    (forall id, get_color (fst (get_palette c)) id = get_color c id).
Proof.
  intros Hv Hac. destruct (history_good nc h Hv Hac) as (c & Hr & Hg).
  exists c. split; [exact Hr|]. split; [eapply get_palette_current; eauto|].
  intros id. apply get_color_map. apply get_palette_map.
Qed.

(* ------------------------------------------------------------------ order / batching, flatten *)
From AK Require Import C14.LemFlat.
From AK Require Export C14.LemPlain.
From Coq Require Import Permutation.

Lemma order_independent_perm_l nc h1 h2 :
  valid_hops h1 -> Permutation (items_of h1) (items_of h2) -> NoDup (map fst (items_of h1)) ->
  acyclic (union_hops [] h1) ->
  exists c1 c2, run_hops (conf0 nc) h1 = Ok c1 /\ run_hops (conf0 nc) h2 = Ok c2 /\
                forall id, get_color c1 id = get_color c2 id.
Proof.
  intros V1 P Hnd A1. destruct (union_perm h1 h2 V1 P Hnd) as [V2 E].
  apply order_independent_l; assumption.
Qed.

(* ------------------------------------------------------------------ deciding the hypotheses on concrete histories *)
Definition validb (items : batch) : bool :=
  forallb (fun it => match parse_init_str (snd it) with Ok _ => true | Err _ => false end) items.

Lemma validb_valid items : validb items = true -> valid items.
Proof.
  unfold validb, valid. rewrite forallb_forall, Forall_forall. intros H it Hit. specialize (H _ Hit).
  destruct (parse_init_str (snd it)) as [d|]; [eauto|discriminate].
Qed.

Definition valid_hopsb (h : list hop) : bool :=
  forallb (fun o => match o with HReg items => validb items | HPal => true end) h.

Lemma valid_hopsb_valid h : valid_hopsb h = true -> valid_hops h.
Proof.
  unfold valid_hopsb, valid_hops. rewrite forallb_forall, Forall_forall. intros H o Ho. specialize (H _ Ho).
  destruct o; [apply validb_valid; exact H|exact I].
Qed.

Fixpoint chain_ends (S : dset) (fuel : nat) (a : str) : bool :=
  match fuel with
  | O => false
  | Datatypes.S n =>
      match lookup a S with
      | None => true
      | Some d => match d_parent d with None => true | Some p => chain_ends S n p end
      end
  end.

Definition acyclicb (S : dset) : bool := forallb (chain_ends S (Datatypes.S (length S))) (map fst S).

Lemma cycle_never_ends S n : forall a, reach S a a -> chain_ends S n a = false.
Proof.
  induction n as [|n IH]; intros a R; cbn [chain_ends]; [reflexivity|].
  assert (exists p, step S a p /\ reach S p p) as (p & (d & L & P) & Rp).
  { inversion R as [? ? H|? b ? H1 H2]; subst.
    - exists a. split; [exact H|exact R].
    - exists b. split; [exact H1|]. eapply reach_snoc; eauto. }
  rewrite L, P. apply IH. exact Rp.
Qed.

Lemma acyclicb_sound S : acyclicb S = true -> acyclic S.
Proof.
  unfold acyclicb. rewrite forallb_forall. intros H a R.
  assert (In a (map fst S)) as Hin.
  { inversion R as [? ? (d & L & _)|? ? ? (d & L & _) _]; subst; eapply lookup_In_keys; eauto. }
  specialize (H _ Hin). rewrite cycle_never_ends in H by exact R. discriminate.
Qed.
