(* C03/Spec.v -- the specification side of C03: what "some symbol can reach
   itself again without consuming a token" means, as inductive definitions that
   do not mention the algorithm.  Everything is relative to a function
   [R : sym -> list rule] giving the productions of a symbol ([] for a
   terminal): [grules g] for a grammar [g], or [xrules g start] when the
   parser's initial production  $START$ -> start $END$  is included.
   No proofs of properties of the code in this file. *)
From Coq Require Import ZArith List Bool.
From AK Require Import Common.Err LLP.Base.
Import ListNotations.

Section Rel.
  Variable R : sym -> list rule.

  (* s =>* empty *)
  Inductive Nullable : sym -> Prop :=
  | Nullable_rule : forall A r, In r (R A) -> Forall Nullable (rprod r) -> Nullable A.

  (* A |> B : B can be the next symbol expanded after A without a token in
     between:  A -> pre B post  with every symbol of pre nullable.
     [N] is the notion of nullable used (the inductive one below). *)
  Definition lstep_gen (N : sym -> Prop) (A B : sym) : Prop :=
    exists r pre post, In r (R A) /\ rprod r = pre ++ B :: post /\ Forall N pre.

  Definition lstep : sym -> sym -> Prop := lstep_gen Nullable.

  (* |>+ *)
  Inductive lpath_gen (N : sym -> Prop) : sym -> sym -> Prop :=
  | lpath_one : forall A B, lstep_gen N A B -> lpath_gen N A B
  | lpath_cons : forall A B C, lstep_gen N A B -> lpath_gen N B C -> lpath_gen N A C.

  Definition lpath : sym -> sym -> Prop := lpath_gen Nullable.

  Definition left_recursive : Prop := exists A, lpath A A.
End Rel.

(* the productions the parse loop works with: those of the (factorized)
   grammar plus the initial production  $START$ -> start $END$  that
   LLParser.parse puts on the stack (LLP/Parse.v:init_stack) *)
Definition init_rule (start : sym) : rule := mkRule INIT_SYM [start; END_TOKEN] (-1)%Z.
Definition xrules (g : grammar) (start : sym) (s : sym) : list rule :=
  if sym_eqb s INIT_SYM then [init_rule start] else grules g s.

(* what _verify_grammar_structure_part1 (outside the model) has established
   when the recursion check runs: no production for a terminal or $END$ ... *)
Definition terminals_have_no_rules (g : grammar) (terms : list sym) : Prop :=
  forall t, mem t terms = true -> grules g t = [].
(* ... and every symbol used in a production is a terminal or has an entry in prods_map *)
Definition symbols_known (g : grammar) (terms : list sym) : Prop :=
  forall k r s, In r (grules g k) -> In s (rprod r) -> mem s terms = true \/ In s (gkeys g).

(* the list handed to the check as [nullables] is exactly the nullable symbols *)
Definition nulls_exact (g : grammar) (nulls : list sym) : Prop :=
  forall s, mem s nulls = true <-> Nullable (grules g) s.

(* everything _verify_grammar_structure_part1 and the tokenizer guarantee about
   the (factorized) grammar [g], the terminal set [terms] (with $END$) and the
   start symbol when the recursion check and parse run *)
Definition part1_ok (g : grammar) (terms : list sym) (start : sym) : Prop :=
  terminals_have_no_rules g terms /\ symbols_known g terms /\ NoDup (gkeys g) /\
  ~ In INIT_SYM (gkeys g) /\ mem INIT_SYM terms = false /\ mem END_TOKEN terms = true /\
  In start (gkeys g).

(* the same as an executable check (C03.Run evaluates it on every generated grammar) *)
Fixpoint nodupb (l : list sym) : bool :=
  match l with
  | [] => true
  | x :: r => negb (mem x r) && nodupb r
  end.

Definition part1_okb (g : grammar) (terms : list sym) (start : sym) : bool :=
  forallb (fun t => negb (mem t (gkeys g))) terms
  && forallb (fun kv => forallb (fun r => forallb (fun s => mem s terms || mem s (gkeys g)) (rprod r)) (snd kv)) g
  && nodupb (gkeys g)
  && negb (mem INIT_SYM (gkeys g)) && negb (mem INIT_SYM terms) && mem END_TOKEN terms
  && mem start (gkeys g).
