(* C03/LemmasParse.v -- invariant of the parse loop (LLP/Parse.v:step) that
   ties the stack to the relation |> of C03/Spec.v, and the spine bound:
   the stack elements that start at the same token position form a |> path,
   so without left recursion there are at most as many of them as there are
   symbols with productions; hence the stack depth is bounded. *)
From Coq Require Import ZArith List Bool Lia Arith.
From AK Require Import Common.Err LLP.Base LLP.Parse C03.Spec C03.LemmasRC.
Import ListNotations.
Open Scope nat_scope.

Section ParseInv.
  Variable R : sym -> list rule.            (* productions, incl. $START$ -> start $END$ *)
  Variable is_term : sym -> bool.
  Variable table : sym -> sym -> list rule.
  Variable sfxs : list sym.
  Variable toks : list token.
  Variable start : sym.

  Notation N := (Nullable R).
  Notation stepP := (step is_term table sfxs toks).

  (* every parse table entry is a production of its symbol *)
  Hypothesis table_sub : forall A t r, In r (table A t) -> In r (R A).
  Hypothesis init_in : In (init_rule start) (R INIT_SYM).

  (* ---- static invariant of a stack (head = top) ---- *)
  Definition frame_wf (f : frame) : Prop :=
    fstart f <= fcur f /\ fcur f <= length toks /\
    falts f <> [] /\ Forall (fun r => In r (R (fsym f))) (falts f) /\
    length (fvals f) <= length (cur_prod f) /\
    (fcur f = fstart f -> Forall N (firstn (length (fvals f)) (cur_prod f))).

  Fixpoint pchain (st : list frame) : Prop :=
    match st with
    | child :: rest =>
        match rest with
        | par :: _ =>
            nth_error (cur_prod par) (length (fvals par)) = Some (fsym child) /\
            fstart child = fcur par /\ pchain rest
        | [] => True
        end
    | [] => True
    end.

  Definition PINV (st : list frame) : Prop := Forall frame_wf st /\ pchain st.

  Lemma PINV_tail : forall f rest, PINV (f :: rest) -> PINV rest.
  Proof.
    intros f rest [Hw Hc]. inversion Hw; subst. split; auto.
    destruct rest as [|p r]; simpl in *; auto. tauto.
  Qed.

  Lemma PINV_init : PINV (init_stack start).
  Proof.
    unfold init_stack. split; [|simpl; auto]. constructor; [|constructor].
    unfold frame_wf, cur_prod. cbn [fstart fcur falts fvals fsym].
    split; [lia|]. split; [lia|]. split; [discriminate|]. split.
    - constructor; [|constructor]. exact init_in.
    - split; [simpl; lia|]. intros _. simpl. constructor.
  Qed.

  Lemma cur_prod_head : forall f r more, falts f = r :: more -> cur_prod f = rprod r.
  Proof. intros f r more H. unfold cur_prod. rewrite H. reflexivity. Qed.

  (* a completed element that consumed no token stands for a nullable symbol *)
  Lemma complete_empty_nullable : forall f r more, frame_wf f -> falts f = r :: more ->
    length (fvals f) = length (rprod r) -> fcur f = fstart f -> N (fsym f).
  Proof.
    intros f r more [_ [_ [_ [Hin [_ Hn]]]]] Ha Hl He.
    rewrite Ha in Hin. inversion Hin; subst.
    apply Nullable_rule with r; auto.
    specialize (Hn He). rewrite (cur_prod_head f r more Ha) in Hn.
    rewrite Hl, firstn_all in Hn. exact Hn.
  Qed.

  Lemma rollback_PINV : forall st st', PINV st -> rollback st = Some st' -> PINV st'.
  Proof.
    induction st as [|f rest IH]; intros st' I Hr; simpl in Hr; [discriminate|].
    destruct (falts f) as [|r0 [|r1 more]] eqn:Ha.
    - apply IH; auto. eapply PINV_tail; eauto.
    - apply IH; auto. eapply PINV_tail; eauto.
    - inversion Hr; subst st'. clear Hr. destruct I as [Hw Hc].
      inversion Hw as [|? ? Hwf Hwr]; subst.
      destruct Hwf as [H1 [H2 [H3 [H4 [H5 H6]]]]].
      split.
      + constructor; auto. unfold frame_wf, cur_prod. cbn [fstart fcur falts fvals fsym].
        split; [lia|]. split; [lia|]. split; [discriminate|]. split.
        * rewrite Ha in H4. inversion H4; auto.
        * split; [simpl; lia|]. intros _. simpl. constructor.
      + destruct rest as [|p rest']; simpl in *; auto.
  Qed.

  Lemma step_PINV : forall st st', PINV st -> stepP st = Running st' -> PINV st'.
  Proof.
    intros st st' I Hstep. destruct st as [|top rest]; [discriminate|].
    unfold step in Hstep.
    destruct (falts top) as [|cur more] eqn:Halts; [discriminate|].
    pose proof I as [Hw Hc]. inversion Hw as [|? ? Hwt Hwr]; subst.
    pose proof (cur_prod_head top cur more Halts) as Hcp.
    destruct (Nat.eqb (length (fvals top)) (length (rprod cur))) eqn:Hfull.
    - (* production matched *)
      apply Nat.eqb_eq in Hfull. destruct rest as [|par rest'].
      + repeat match type of Hstep with
               | match ?x with _ => _ end = _ => destruct x; try discriminate
               end.
      + inversion Hstep; subst st'. clear Hstep.
        simpl in Hc. destruct Hc as [Hsym [Hst Hc']].
        inversion Hwr as [|? ? Hwp Hwr']; subst.
        pose proof Hwt as [T1 [T2 [T3 [T4 [T5 T6]]]]].
        destruct Hwp as [P1 [P2 [P3 [P4 [P5 P6]]]]].
        assert (Hlt : length (fvals par) < length (cur_prod par)) by (apply nth_error_Some; congruence).
        split.
        * constructor; auto. unfold frame_wf, next_matched, cur_prod.
          cbn [fstart fcur falts fvals fsym]. fold (cur_prod par).
          split; [lia|]. split; [lia|]. split; [auto|]. split; [auto|].
          rewrite app_length. simpl. split; [lia|].
          intro He. replace (length (fvals par) + 1) with (S (length (fvals par))) by lia.
          rewrite (firstn_snoc_nth _ _ _ _ Hsym). apply Forall_app. split.
          -- apply P6. lia.
          -- constructor; [|constructor].
             eapply complete_empty_nullable; eauto. lia.
        * destruct rest' as [|pp rest'']; simpl in *; auto.
    - destruct (nth_error toks (fcur top)) as [tk|] eqn:Htk.
      2:{ destruct (nth_error (rprod cur) (length (fvals top))); discriminate. }
      destruct (nth_error (rprod cur) (length (fvals top))) as [cs|] eqn:Hcs; [|discriminate].
      pose proof Hwt as [T1 [T2 [T3 [T4 [T5 T6]]]]].
      assert (Htl : fcur top < length toks) by (apply nth_error_Some; congruence).
      assert (Hvl : length (fvals top) < length (rprod cur)) by (apply nth_error_Some; congruence).
      destruct (is_term cs).
      + destruct (sym_eqb (tname tk) cs).
        * (* token matched *)
          inversion Hstep; subst st'. clear Hstep. split.
          -- constructor; auto. unfold frame_wf, next_matched, cur_prod.
             cbn [fstart fcur falts fvals fsym]. rewrite Halts.
             split; [lia|]. split; [lia|]. split; [discriminate|]. split; [rewrite <- Halts; auto|].
             rewrite app_length. simpl. split; [lia|]. intro He. lia.
          -- destruct rest as [|p rest']; simpl in *; auto.
        * destruct (rollback (top :: rest)) as [st2|] eqn:Hrb; [|discriminate].
          inversion Hstep; subst st'. eapply rollback_PINV; eauto.
      + destruct (table cs (tname tk)) as [|r0 prods] eqn:Htab.
        * destruct (rollback (top :: rest)) as [st2|] eqn:Hrb; [|discriminate].
          inversion Hstep; subst st'. eapply rollback_PINV; eauto.
        * (* expansion *)
          inversion Hstep; subst st'. clear Hstep. split.
          -- constructor; auto. unfold frame_wf, cur_prod. cbn [fstart fcur falts fvals fsym].
             split; [lia|]. split; [lia|]. split; [discriminate|]. split.
             ++ apply Forall_forall. intros r Hr. apply (table_sub cs (tname tk)). rewrite Htab. exact Hr.
             ++ split; [simpl; lia|]. intros _. simpl. constructor.
          -- simpl. split; [|split]; auto. rewrite Hcp. exact Hcs.
  Qed.

  (* ---- reachable stacks ---- *)
  Inductive reach : list frame -> Prop :=
  | reach_init : reach (init_stack start)
  | reach_step : forall st st', reach st -> stepP st = Running st' -> reach st'.

  Lemma reach_PINV : forall st, reach st -> PINV st.
  Proof. intros st H. induction H; [apply PINV_init|eapply step_PINV; eauto]. Qed.

  (* ---- the spine ---- *)
  Lemma frame_has_rules : forall f, frame_wf f -> R (fsym f) <> [].
  Proof.
    intros f [_ [_ [H3 [H4 _]]]] E. destruct (falts f) as [|r more]; [congruence|].
    inversion H4; subst. rewrite E in H1. contradiction.
  Qed.

  (* a stack element that starts where the element below it starts was
     reached from that one without consuming a token *)
  Lemma adj_lstep : forall c p rest, PINV (c :: p :: rest) -> fstart p = fstart c ->
    lstep R (fsym p) (fsym c).
  Proof.
    intros c p rest [Hw Hc] He. simpl in Hc. destruct Hc as [Hsym [Hst _]].
    inversion Hw as [|? ? _ Hw']; subst. inversion Hw' as [|? ? Hp _]; subst.
    destruct Hp as [P1 [P2 [P3 [P4 [P5 P6]]]]].
    destruct (falts p) as [|r more] eqn:Ha; [congruence|].
    pose proof (cur_prod_head p r more Ha) as Hcp. rewrite Hcp in *.
    exists r, (firstn (length (fvals p)) (rprod r)), (skipn (S (length (fvals p))) (rprod r)).
    split; [|split].
    - inversion P4; auto.
    - apply nth_error_split'; auto.
    - apply P6. lia.
  Qed.

  Fixpoint plinked (l : list frame) : Prop :=
    match l with
    | c :: rest =>
        match rest with
        | p :: _ => lstep R (fsym p) (fsym c) /\ plinked rest
        | [] => True
        end
    | [] => True
    end.

  Lemma plinked_path : forall l c, plinked (c :: l) -> forall x, In x l -> lpath R (fsym x) (fsym c).
  Proof.
    induction l as [|p rest IH]; intros c Hl x Hin; [contradiction|].
    simpl in Hl. destruct Hl as [St Hl'].
    destruct Hin as [<-|Hin].
    - apply lpath_one; auto.
    - eapply lpath_snoc; [|exact St]. apply IH; auto.
  Qed.

  Lemma plinked_nodup : forall l, ~ left_recursive R -> plinked l -> NoDup (map fsym l).
  Proof.
    induction l as [|c rest IH]; intros Hn Hl; simpl; [constructor|].
    constructor.
    - intro Hin. apply in_map_iff in Hin. destruct Hin as [x [Hx Hin]].
      apply Hn. exists (fsym c). rewrite <- Hx at 1. eapply plinked_path; eauto.
    - apply IH; auto. destruct rest as [|p r]; simpl in *; auto. tauto.
  Qed.

  (* the elements at the top of the stack that start at position p *)
  Fixpoint seg (p : nat) (st : list frame) : list frame :=
    match st with
    | [] => []
    | f :: rest => if Nat.eqb (fstart f) p then f :: seg p rest else []
    end.

  Lemma seg_incl : forall p st f, In f (seg p st) -> In f st.
  Proof.
    induction st as [|a st IH]; simpl; intros f H; [contradiction|].
    destruct (Nat.eqb (fstart a) p); [|contradiction]. destruct H; auto.
  Qed.

  Lemma seg_linked : forall p st, PINV st -> plinked (seg p st).
  Proof.
    induction st as [|f rest IH]; intro I; simpl; auto.
    destruct (Nat.eqb (fstart f) p) eqn:E; simpl; auto.
    pose proof (IH (PINV_tail _ _ I)) as IH'.
    destruct rest as [|f2 rest']; simpl; auto.
    destruct (Nat.eqb (fstart f2) p) eqn:E2; simpl; auto.
    split.
    - apply Nat.eqb_eq in E. apply Nat.eqb_eq in E2. apply (adj_lstep f f2 rest' I). lia.
    - simpl in IH'. rewrite E2 in IH'. exact IH'.
  Qed.

  (* all the symbols that have productions *)
  Variable U : list sym.
  Hypothesis U_all : forall s, R s <> [] -> In s U.

  Lemma seg_length : forall p st, PINV st -> ~ left_recursive R -> length (seg p st) <= length U.
  Proof.
    intros p st I Hn. rewrite <- (map_length fsym).
    apply NoDup_incl_length.
    - apply plinked_nodup; auto. apply seg_linked; auto.
    - intros s Hs. apply in_map_iff in Hs. destruct Hs as [f [<- Hf]].
      apply U_all. apply frame_has_rules. destruct I as [Hw _].
      rewrite Forall_forall in Hw. apply Hw. eapply seg_incl; eauto.
  Qed.

  Definition top_start (st : list frame) : nat := match st with f :: _ => fstart f | [] => 0 end.

  Lemma depth_seg : forall st, PINV st -> ~ left_recursive R ->
    length st <= length U * top_start st + length (seg (top_start st) st).
  Proof.
    induction st as [|f rest IH]; intros I Hn; simpl; [lia|].
    rewrite Nat.eqb_refl. simpl.
    pose proof (PINV_tail _ _ I) as I'. specialize (IH I' Hn).
    destruct rest as [|f2 rest']; simpl in *; [lia|].
    destruct I as [Hw Hc]. destruct Hc as [_ [Hst _]].
    inversion Hw as [|? ? _ Hw']; subst. inversion Hw' as [|? ? Hf2 _]; subst.
    destruct Hf2 as [F1 _].
    rewrite Nat.eqb_refl in IH. simpl in IH.
    destruct (Nat.eqb (fstart f2) (fstart f)) eqn:E.
    - apply Nat.eqb_eq in E. rewrite E in IH. simpl. lia.
    - apply Nat.eqb_neq in E. assert (fstart f2 < fstart f) by lia.
      pose proof (seg_length (fstart f2) (f2 :: rest') I' Hn) as H0. simpl in H0.
      rewrite Nat.eqb_refl in H0. simpl in H0. simpl. nia.
  Qed.

  (* the depth of the stack is bounded *)
  Lemma depth_bound : forall st, PINV st -> ~ left_recursive R ->
    length st <= length U * S (length toks).
  Proof.
    intros st I Hn. pose proof (depth_seg st I Hn) as H.
    pose proof (seg_length (top_start st) st I Hn) as H2.
    assert (top_start st <= length toks).
    { destruct st as [|f rest]; simpl; [lia|]. destruct I as [Hw _]. inversion Hw; subst.
      destruct H3 as [A [B _]]. lia. }
    nia.
  Qed.

  (* ---- spine bound on the whole stack: the elements starting at position p ---- *)
  Lemma starts_below : forall f rest, PINV (f :: rest) -> forall x, In x rest -> fstart x <= fstart f.
  Proof.
    intros f rest. revert f. induction rest as [|f2 rest IH]; intros f I x Hin; [contradiction|].
    pose proof I as [Hw Hc]. simpl in Hc. destruct Hc as [_ [Hst _]].
    inversion Hw as [|? ? _ Hw']; subst. inversion Hw' as [|? ? Hf2 _]; subst.
    destruct Hf2 as [F1 _].
    destruct Hin as [<-|Hin]; [lia|].
    pose proof (IH f2 (PINV_tail _ _ I) x Hin). lia.
  Qed.

  Definition at_pos (p : nat) (st : list frame) : list frame := filter (fun f => Nat.eqb (fstart f) p) st.

  Lemma at_pos_is_seg : forall p st, PINV st -> exists suf, PINV suf /\ at_pos p st = seg p suf.
  Proof.
    induction st as [|f rest IH]; intro I.
    - exists []. split; auto.
    - pose proof (PINV_tail _ _ I) as I'. unfold at_pos. simpl.
      destruct (Nat.eqb (fstart f) p) eqn:E.
      + exists (f :: rest). split; auto. simpl. rewrite E. f_equal.
        (* below f: either the next element also starts at p, or nothing does *)
        clear IH. revert f I E I'. induction rest as [|f2 rest' IH2]; intros f I E I'; simpl; auto.
        destruct (Nat.eqb (fstart f2) p) eqn:E2.
        * f_equal. apply (IH2 f2); auto. eapply PINV_tail; eauto.
        * apply Nat.eqb_eq in E. apply Nat.eqb_neq in E2.
          pose proof (starts_below f (f2 :: rest') I f2 (or_introl eq_refl)).
          assert (Hlt : fstart f2 < p) by lia.
          assert (Hall : forall x, In x rest' -> Nat.eqb (fstart x) p = false).
          { intros x Hx. pose proof (starts_below f2 rest' I' x Hx). apply Nat.eqb_neq. lia. }
          clear - Hall. induction rest' as [|a r IHr]; simpl; auto.
          rewrite (Hall a (or_introl eq_refl)). apply IHr. intros x Hx. apply Hall. right; auto.
      + destruct (IH I') as [suf [Hs He]]. exists suf. split; auto.
  Qed.

  Lemma spine_bound_l : forall st p, reach st -> ~ left_recursive R ->
    plinked (at_pos p st) /\ NoDup (map fsym (at_pos p st)) /\ length (at_pos p st) <= length U.
  Proof.
    intros st p Hr Hn. pose proof (reach_PINV st Hr) as I.
    destruct (at_pos_is_seg p st I) as [suf [Is He]]. rewrite He.
    split; [apply seg_linked; auto|]. split.
    - apply plinked_nodup; auto. apply seg_linked; auto.
    - apply seg_length; auto.
  Qed.
End ParseInv.
