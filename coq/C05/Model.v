(* C05/Model.v -- executable model of the production templates of
   ak/llparser.py and of the default cleanup:

     ListProds      __init__ / complete_init / gen_productions /
                    transform_t_elem / _parse_tail_t_elem      (llparser.py:872-1124)
     MapProds       the same five + _parse_kv_pair              (llparser.py:1127-1344)
     ProdSequence   gen_productions                             (llparser.py:851-869)
     LLParser._process_seq_telement (in-parse flattening)       (llparser.py:1987-2014)
     StdCleanuper.make / _make_squash_data / _cleanup           (llparser.py:2453-2585)
   (line numbers of /repo HEAD 3e213c0)

   Symbols are their names ([sym] = list of code points, LLP/Base.v).
   [rt] is a TElement tree as LLParser.parse(..., do_cleanup=False) returns it,
   [cv] a python value as found in TElement.value after cleanup.  The in-place
   mutation of _cleanup is modelled functionally: cleaning a subtree returns
   the new (name, _is_leaf, value) of its root and the 'no squash' flag.
   AssertionError / TypeError are data ([res]).  No proofs in this file. *)
From Coq Require Import ZArith List Bool.
From AK Require Import Common.Sx Common.Err LLP.Base gen.C05_Consts.
Import ListNotations.
Open Scope Z_scope.

(* ------------------------------------------------------------------ *)
(* small helpers                                                       *)

Definition is_some {A} (o : option A) : bool := match o with Some _ => true | None => false end.

Fixpoint opt_cat {A} (l : list (option A)) : list A :=     (* tuple(s for s in l if s is not None) *)
  match l with
  | [] => []
  | Some a :: r => a :: opt_cat r
  | None :: r => opt_cat r
  end.

Fixpoint syms_eqb (a b : list sym) : bool :=
  match a, b with
  | [], [] => true
  | x :: a', y :: b' => sym_eqb x y && syms_eqb a' b'
  | _, _ => false
  end.

(* ProdsTemplate._find_index: list.index, None when absent *)
Fixpoint find_index (l : list sym) (s : sym) : option nat :=
  match l with
  | [] => None
  | x :: r => if sym_eqb x s then Some O
              else match find_index r s with Some i => Some (S i) | None => None end
  end.

Fixpoint all_ok {A} (l : list (res A)) : res (list A) :=
  match l with
  | [] => Ok []
  | Ok a :: r => match all_ok r with Ok r' => Ok (a :: r') | Err e => Err e end
  | Err e :: _ => Err e
  end.

(* ------------------------------------------------------------------ *)
(* signatures: TElemSignature -> (position of item, position of tail)   *)

Notation sig := (sym * list sym)%type.
Notation sigmap := (list ((sym * list sym) * (option nat * option nat))).

Definition sig_eqb (a b : sig) : bool := sym_eqb (fst a) (fst b) && syms_eqb (snd a) (snd b).

(* dict(...) from a sequence of pairs: a repeated key keeps its first
   position and takes the later value *)
Fixpoint sig_set (m : sigmap) (k : sig) (v : option nat * option nat) : sigmap :=
  match m with
  | [] => [(k, v)]
  | (k', v') :: r => if sig_eqb k' k then (k', v) :: r else (k', v') :: sig_set r k v
  end.

Fixpoint sig_get (m : sigmap) (k : sig) : option (option nat * option nat) :=
  match m with
  | [] => None
  | (k', v) :: r => if sig_eqb k' k then Some v else sig_get r k
  end.

(* _make_expected_signature: [a], [b] are the two symbols whose positions are recorded *)
Definition make_sig (symbol a b : sym) (prod : list (option sym)) : sig * (option nat * option nat) :=
  let p := opt_cat prod in ((symbol, p), (find_index p a, find_index p b)).

Definition make_sigs (symbol a b : sym) (prods : list (list (option sym))) : sigmap :=
  fold_left (fun m p => let e := make_sig symbol a b p in sig_set m (fst e) (snd e)) prods [].

Definition sig_prods (m : sigmap) : list (list sym) := map (fun e => snd (fst e)) m.

(* ------------------------------------------------------------------ *)
(* ListProds                                                           *)

Record lopts := mkL {
  lo_open : option sym; lo_item : sym; lo_delim : option sym; lo_close : option sym;
  lo_afd : bool; lo_opt : bool }.

(* ListProds.__init__: the assertions and the defaults of the two keyword arguments *)
Definition list_ctor (open : option sym) (item : sym) (delim close : option sym)
           (afd opt : option bool) : res lopts :=
  if negb (Bool.eqb (is_some open) (is_some close)) then Err AssertErr else
  let afd' := match afd with None => is_some delim && is_some open | Some b => b end in
  if afd' && negb (is_some delim && is_some open) then Err AssertErr else
  match opt with
  | Some b => if is_some open then Ok (mkL open item delim close afd' b) else Err AssertErr
  | None => Ok (mkL open item delim close afd' false)
  end.

Record ltempl := mkLT {
  lt_o : lopts; lt_res : sym; lt_tail : sym; lt_sigs : sigmap; lt_tsigs : sigmap }.

(* ListProds.complete_init *)
Definition list_init (result : sym) (o : lopts) : ltempl :=
  let has_br := is_some (lo_open o) in
  let has_sep := is_some (lo_delim o) in
  let tail := if has_br || has_sep then result ++ sfx_tail else result in
  let lp0 := [[lo_open o; lo_close o];
              [lo_open o; Some (lo_item o); Some tail; lo_close o]] in
  let lp1 := if has_br then lp0 else rev lp0 in
  let lp := if lo_opt o then lp1 ++ [[]] else lp1 in
  let tp := if sym_eqb tail result then lp
            else if lo_afd o
                 then [[lo_delim o; Some (lo_item o); Some tail]; [lo_delim o]; []]
                 else [[lo_delim o; Some (lo_item o); Some tail]; []] in
  mkLT o result tail (make_sigs result (lo_item o) tail lp) (make_sigs tail (lo_item o) tail tp).

Notation prods := (list (sym * list (list sym))).

(* ListProds.gen_productions *)
Definition list_gen (T : ltempl) : prods :=
  (lt_res T, sig_prods (lt_sigs T)) ::
  (if sym_eqb (lt_tail T) (lt_res T) then [] else [(lt_tail T, sig_prods (lt_tsigs T))]).

(* ------------------------------------------------------------------ *)
(* MapProds                                                            *)

Record mopts := mkM {
  mo_open : option sym; mo_key : sym; mo_assign : sym; mo_val : sym; mo_delim : sym;
  mo_close : option sym; mo_opt : bool; mo_afd : bool }.

(* MapProds.__init__ (allow_final_delimiter defaults to True and is not validated) *)
Definition map_ctor (open : option sym) (key : sym) (assign : option sym) (val : sym)
           (delim close : option sym) (opt afd : option bool) : res mopts :=
  if negb (Bool.eqb (is_some open) (is_some close)) then Err AssertErr else
  match assign, delim with
  | Some a, Some d =>
      let afd' := match afd with None => true | Some b => b end in
      match opt with
      | Some b => if is_some open then Ok (mkM open key a val d close b afd') else Err AssertErr
      | None => Ok (mkM open key a val d close false afd')
      end
  | _, _ => Err AssertErr
  end.

Record mtempl := mkMT {
  mt_o : mopts; mt_res : sym; mt_pair : sym; mt_tail : sym;
  mt_sigs : sigmap; mt_tsigs : sigmap; mt_kv : sig }.

(* MapProds.complete_init *)
Definition map_init (result : sym) (o : mopts) : mtempl :=
  let pair := result ++ sfx_kv_pair in
  let tail := result ++ sfx_kv_tail in
  let mp0 := [[mo_open o; mo_close o]; [mo_open o; Some pair; Some tail; mo_close o]] in
  let mp := if mo_opt o then mp0 ++ [[]] else mp0 in
  let tp := if mo_afd o
            then [[Some (mo_delim o); Some pair; Some tail]; [Some (mo_delim o)]; []]
            else [[Some (mo_delim o); Some pair; Some tail]; []] in
  mkMT o result pair tail (make_sigs result pair tail mp) (make_sigs tail pair tail tp)
       (pair, [mo_key o; mo_assign o; mo_val o]).

(* MapProds.gen_productions *)
Definition map_gen (T : mtempl) : prods :=
  [(mt_res T, sig_prods (mt_sigs T)); (mt_tail T, sig_prods (mt_tsigs T)); (mt_pair T, [snd (mt_kv T)])].

(* ------------------------------------------------------------------ *)
(* ProdSequence (AnyTokenExcept items are not modelled)                 *)

Definition seq_elem_name (result : sym) : sym := result ++ sfx_element.

Definition seq_gen (result : sym) (syms : list sym) : prods :=
  [(result, [[seq_elem_name result; result]; []]);
   (seq_elem_name result, map (fun s => [s]) syms)].

(* ------------------------------------------------------------------ *)
(* trees and values                                                    *)

(* TElement as returned by parse(do_cleanup=False) *)
Inductive rt : Type :=
| RTok (n : sym) (v : list Z)        (* matched token: value str, leaf *)
| RNull (n : sym)                    (* empty production: value None, leaf *)
| RNode (n : sym) (ch : list rt)     (* value = list of TElement, not a leaf *)
| RSeq (n : sym) (ch : list rt).     (* flattened ProdSequence: value = list of TElement, _is_leaf = True *)

Definition rname (t : rt) : sym :=
  match t with RTok n _ => n | RNull n => n | RNode n _ => n | RSeq n _ => n end.

(* TElement.signature(): a leaf has no child names *)
Definition rsig (t : rt) : sig :=
  match t with RNode n ch => (n, map rname ch) | _ => (rname t, []) end.

(* python values found in TElement.value after the cleanup *)
Inductive cv : Type :=
| CNone
| CStr (s : list Z)
| CList (l : list cv)
| CDict (l : list (cv * cv))                 (* insertion ordered *)
| CElem (n : sym) (leaf : bool) (v : cv).    (* a TElement: name, _is_leaf, value *)

Record te := mkTe { te_name : sym; te_leaf : bool; te_val : cv }.
Definition te_cv (t : te) : cv := CElem (te_name t) (te_leaf t) (te_val t).

(* an untouched subtree seen as a python value *)
Fixpoint embed (t : rt) : te :=
  match t with
  | RTok n v => mkTe n true (CStr v)
  | RNull n => mkTe n true CNone
  | RNode n ch => mkTe n false (CList (map (fun c => te_cv (embed c)) ch))
  | RSeq n ch => mkTe n true (CList (map (fun c => te_cv (embed c)) ch))
  end.

(* `x.value if x.is_leaf() else x` *)
Definition item_value (t : te) : cv := if te_leaf t then te_val t else te_cv t.

(* ------------------------------------------------------------------ *)
(* python dict(pairs)                                                  *)

Fixpoint str_eqb (a b : list Z) : bool :=
  match a, b with
  | [], [] => true
  | x :: a', y :: b' => Z.eqb x y && str_eqb a' b'
  | _, _ => false
  end.

(* list and dict keys are unhashable (TypeError) *)
Definition hashable (k : cv) : bool :=
  match k with CList _ | CDict _ => false | _ => true end.

(* == on hashable keys: str by content, None is None, a TElement only equals
   itself (no __eq__) and every TElement object occurs once *)
Definition key_eqb (a b : cv) : bool :=
  match a, b with
  | CNone, CNone => true
  | CStr x, CStr y => str_eqb x y
  | _, _ => false
  end.

Fixpoint dict_set (d : list (cv * cv)) (k v : cv) : list (cv * cv) :=
  match d with
  | [] => [(k, v)]
  | (k', v') :: r => if key_eqb k' k then (k', v) :: r else (k', v') :: dict_set r k v
  end.

Definition py_dict (pairs : list (cv * cv)) : res (list (cv * cv)) :=
  fold_left (fun acc kv =>
               match acc with
               | Err e => Err e
               | Ok d => if hashable (fst kv) then Ok (dict_set d (fst kv) (snd kv)) else Err TypeErr
               end) pairs (Ok []).

(* ------------------------------------------------------------------ *)
(* the cleanup                                                         *)

Inductive tmpl := TL (T : ltempl) | TM (T : mtempl).

Record env := mkEnv {
  e_tmpl : list (sym * tmpl);     (* cleanuper.prod_templates (ProdSequence is not in it) *)
  e_choice : list sym;            (* choice_symbols *)
  e_keep : list sym;              (* keep_symbols, start symbol included *)
  e_squash : list sym;            (* squash_symbols *)
  e_seqclean : bool }.            (* does _cleanup descend into the elements of a sequence leaf *)

Fixpoint tmpl_get (l : list (sym * tmpl)) (s : sym) : option tmpl :=
  match l with
  | [] => None
  | (k, v) :: r => if sym_eqb k s then Some v else tmpl_get r s
  end.

(* what is asked of a subtree *)
Inductive mode :=
| MClean (for_container for_choice : bool)   (* StdCleanuper._cleanup *)
| MLTail (T : ltempl)                        (* ListProds._parse_tail_t_elem *)
| MKvTail (T : mtempl)                       (* MapProds._parse_kv_tail *)
| MKvPair (T : mtempl).                      (* MapProds._parse_kv_pair *)

Inductive out :=
| OTe (t : te) (no_squash : bool)
| OItems (l : list te)
| OPairs (l : list (cv * cv)).

Definition wrong : res out := Err OtherErr.    (* a mode/result mismatch: not reachable *)

Definition get_te (r : res out) : res te :=
  match r with Ok (OTe t _) => Ok t | Ok _ => Err OtherErr | Err e => Err e end.
Definition get_items (r : res out) : res (list te) :=
  match r with Ok (OItems l) => Ok l | Ok _ => Err OtherErr | Err e => Err e end.
Definition get_pairs (r : res out) : res (list (cv * cv)) :=
  match r with Ok (OPairs l) => Ok l | Ok _ => Err OtherErr | Err e => Err e end.

(* the tail of transform_t_elem: trailing None of a list that allows a final
   delimiter, single None of a bracket-less list *)
Definition is_cnone (v : cv) : bool := match v with CNone => true | _ => false end.

Definition list_post (o : lopts) (vals : list cv) : list cv :=
  match vals with
  | [] => []
  | v0 :: _ =>
      if is_cnone (last vals CNone) && lo_afd o then removelast vals
      else if negb (is_some (lo_open o)) && Nat.eqb (length vals) 1 && is_cnone v0 then []
      else vals
  end.

(* children addressed by a recorded position; [rs] are the children's
   pending computations.  The positions come from the matched signature, so
   an index is never out of range. *)
Definition at_pos (rs : list (mode -> res out)) (p : option nat) (m : mode) : option (res out) :=
  match p with
  | None => None
  | Some i => match nth_error rs i with Some f => Some (f m) | None => Some (Err IndexErr) end
  end.

(* item child followed by the items of the tail child (shared by
   transform_t_elem and _parse_tail_t_elem) *)
Definition list_collect (T : ltempl) (rs : list (mode -> res out)) (pos : option nat * option nat)
  : res (list te) :=
  match (match at_pos rs (fst pos) (MClean true false) with
         | None => Ok []
         | Some r => match get_te r with Ok t => Ok [t] | Err e => Err e end
         end) with
  | Err e => Err e
  | Ok first =>
      match at_pos rs (snd pos) (MLTail T) with
      | None => Ok first
      | Some r => match get_items r with Ok l => Ok (first ++ l) | Err e => Err e end
      end
  end.

Definition map_collect (T : mtempl) (rs : list (mode -> res out)) (pos : option nat * option nat)
  : res (list (cv * cv)) :=
  match (match at_pos rs (fst pos) (MKvPair T) with
         | None => Ok []
         | Some r => get_pairs r
         end) with
  | Err e => Err e
  | Ok first =>
      match at_pos rs (snd pos) (MKvTail T) with
      | None => Ok first
      | Some r => match get_pairs r with Ok l => Ok (first ++ l) | Err e => Err e end
      end
  end.

Definition is_rnull (t : rt) : bool := match t with RNull _ => true | _ => false end.

Section Cleanup.
  Variable E : env.

  (* squash decision of _cleanup for a squashable symbol with its single (cleaned) child *)
  Definition squash (n : sym) (fc fch : bool) (child : te) (cns : bool) : te * bool :=
    let keep_parent := fch || mem n (e_keep E) in
    let keep_child := cns || mem (te_name child) (e_keep E) in
    if keep_parent && keep_child then (mkTe n false (CList [te_cv child]), true)
    else if keep_child || fc then (child, cns)
    else (mkTe n (te_leaf child) (te_val child), keep_parent).

  Fixpoint cl (t : rt) (m : mode) {struct t} : res out :=
    let rs : list (mode -> res out) :=
      match t with
      | RNode _ ch => map (fun c => cl c) ch
      | RSeq _ ch => map (fun c => cl c) ch
      | _ => []
      end in
    match m with
    | MClean fc fch =>
        match tmpl_get (e_tmpl E) (rname t) with
        | Some (TL T) =>
            (* ListProds.transform_t_elem *)
            match sig_get (lt_sigs T) (rsig t) with
            | None => Err AssertErr
            | Some pos =>
                if lo_opt (lt_o T) && is_rnull t then Ok (OTe (embed t) fch)
                else match list_collect T rs pos with
                     | Err e => Err e
                     | Ok items =>
                         Ok (OTe (mkTe (rname t) true (CList (list_post (lt_o T) (map item_value items)))) fch)
                     end
            end
        | Some (TM T) =>
            (* MapProds.transform_t_elem *)
            match sig_get (mt_sigs T) (rsig t) with
            | None => Err AssertErr
            | Some pos =>
                if mo_opt (mt_o T) && is_rnull t then Ok (OTe (embed t) fch)
                else match map_collect T rs pos with
                     | Err e => Err e
                     | Ok pairs =>
                         match py_dict pairs with
                         | Err e => Err e
                         | Ok d => Ok (OTe (mkTe (rname t) true (CDict d)) fch)
                         end
                     end
            end
        | None =>
            match t with
            | RTok _ _ | RNull _ => Ok (OTe (embed t) fch)
            | RSeq n _ =>
                (* a leaf: returned as it is (e_seqclean = false, the code as anchored);
                   with e_seqclean the elements are cleaned one by one *)
                if e_seqclean E then
                  match all_ok (map (fun f => get_te (f (MClean false false))) rs) with
                  | Err e => Err e
                  | Ok cs => Ok (OTe (mkTe n true (CList (map te_cv cs))) fch)
                  end
                else Ok (OTe (embed t) fch)
            | RNode n _ =>
                let fch' := mem n (e_choice E) in
                match all_ok (map (fun f => match f (MClean false fch') with
                                            | Ok (OTe c ns) => Ok (c, ns)
                                            | Ok _ => Err OtherErr
                                            | Err e => Err e
                                            end) rs) with
                | Err e => Err e
                | Ok [] => Ok (OTe (mkTe n false CNone) fch)
                | Ok cs =>
                    if mem n (e_squash E) then
                      match cs with
                      | [(child, cns)] => let r := squash n fc fch child cns in Ok (OTe (fst r) (snd r))
                      | _ => Err AssertErr
                      end
                    else Ok (OTe (mkTe n false (CList (map (fun c => te_cv (fst c)) cs))) fch)
                end
            end
        end
    | MLTail T =>
        match sig_get (lt_tsigs T) (rsig t) with
        | None => Err AssertErr
        | Some pos => match list_collect T rs pos with Ok l => Ok (OItems l) | Err e => Err e end
        end
    | MKvTail T =>
        match sig_get (mt_tsigs T) (rsig t) with
        | None => Err AssertErr
        | Some pos => match map_collect T rs pos with Ok l => Ok (OPairs l) | Err e => Err e end
        end
    | MKvPair T =>
        if sig_eqb (rsig t) (mt_kv T) then
          match at_pos rs (Some 0%nat) (MClean true false), at_pos rs (Some 2%nat) (MClean true false) with
          | Some rk, Some rv =>
              match get_te rk with
              | Err e => Err e
              | Ok k => match get_te rv with
                        | Err e => Err e
                        | Ok v => Ok (OPairs [(item_value k, item_value v)])
                        end
              end
          | _, _ => wrong
          end
        else Err AssertErr
    end.

  (* StdCleanuper.cleanup(root): the root afterwards *)
  Definition cleanup (t : rt) : res te := get_te (cl t (MClean false false)).
End Cleanup.

(* ------------------------------------------------------------------ *)
(* in-parse flattening of sequences                                    *)

(* LLParser._process_seq_telement on a completed element of a sequence
   symbol whose children are already processed *)
Definition process_seq (n : sym) (t : rt) : res rt :=
  match t with
  | RNull _ => Ok (RSeq n [])
  | RNode _ [item; tail] =>
      if sym_eqb (rname tail) n then
        match tail, item with
        | RSeq _ s, RNode _ [x] => Ok (RSeq n (x :: s))
        | _, _ => Err AssertErr       (* shapes the generated productions exclude *)
        end
      else Err AssertErr
  | _ => Err AssertErr
  end.

(* the parse loop completes inner elements first: post-order *)
Fixpoint flatten (seqs : list sym) (t : rt) : res rt :=
  match t with
  | RNode n ch =>
      match all_ok (map (flatten seqs) ch) with
      | Err e => Err e
      | Ok ch' => if mem n seqs then process_seq n (RNode n ch') else Ok (RNode n ch')
      end
  | RNull n => if mem n seqs then process_seq n t else Ok t
  | _ => Ok t
  end.

(* ------------------------------------------------------------------ *)
(* a grammar as given to the LLParser constructor                      *)

Inductive pspec :=
| PPlain (alts : list (list sym))
| PList (open : option sym) (item : sym) (delim close : option sym) (afd opt : option bool)
| PMap (open : option sym) (key : sym) (assign : option sym) (val : sym) (delim close : option sym)
       (opt afd : option bool)
| PSeq (syms : list sym).

Notation gspec := (list (sym * pspec)).

Inductive ptempl := QPlain (alts : list (list sym)) | QList (T : ltempl) | QMap (T : mtempl) | QSeq (syms : list sym).

Definition init_spec (n : sym) (p : pspec) : res ptempl :=
  match p with
  | PPlain a => Ok (QPlain a)
  | PList o i d c afd opt =>
      match list_ctor o i d c afd opt with Ok lo => Ok (QList (list_init n lo)) | Err e => Err e end
  | PMap o k a v d c opt afd =>
      match map_ctor o k a v d c opt afd with Ok mo => Ok (QMap (map_init n mo)) | Err e => Err e end
  | PSeq s => Ok (QSeq s)
  end.

Definition spec_prods (n : sym) (q : ptempl) : prods :=
  match q with
  | QPlain a => [(n, a)]
  | QList T => list_gen T
  | QMap T => map_gen T
  | QSeq s => seq_gen n s
  end.

Definition init_grammar (g : gspec) : res (list (sym * ptempl)) :=
  all_ok (map (fun e => match init_spec (fst e) (snd e) with
                        | Ok q => Ok (fst e, q) | Err x => Err x end) g).

(* _create_productions: the original productions map *)
Definition grammar_prods (g : list (sym * ptempl)) : prods :=
  flat_map (fun e => spec_prods (fst e) (snd e)) g.

(* StdCleanuper._make_squash_data on the original productions (no symbol has
   two equal productions, so factorization introduces no short production) *)
Definition short_prod (p : list sym) : bool := Nat.leb (length p) 1.
Definition squash_syms (P : prods) : list sym :=
  map fst (filter (fun e => forallb short_prod (snd e)) P).
Definition choice_syms (P : prods) : list sym :=
  map fst (filter (fun e => forallb short_prod (snd e) &&
                            Nat.ltb 1 (length (filter (fun p => Nat.eqb (length p) 1) (snd e)))) P).

Definition grammar_env (g : list (sym * ptempl)) (keep : list sym) (start : sym) (seqclean : bool) : env :=
  let P := grammar_prods g in
  mkEnv (flat_map (fun e => match snd e with
                            | QList T => [(fst e, TL T)]
                            | QMap T => [(fst e, TM T)]
                            | _ => [] end) g)
        (choice_syms P) (keep ++ [start]) (squash_syms P) seqclean.

Definition seq_syms (g : list (sym * ptempl)) : list sym :=
  flat_map (fun e => match snd e with QSeq _ => [fst e] | _ => [] end) g.

(* ------------------------------------------------------------------ *)
(* vocabulary of the theorems: derivation trees of generated            *)
(* productions, template frontier, yield (definitions only)             *)

Fixpoint plookup (P : prods) (n : sym) : option (list (list sym)) :=
  match P with
  | [] => None
  | (k, v) :: r => if sym_eqb k n then Some v else plookup r n
  end.

Definition is_nil {A} (l : list A) : bool := match l with [] => true | _ => false end.

(* [t] is a derivation tree with respect to the productions [P]: an element
   named by a symbol of [P] is empty for an empty production or an inner
   element whose children spell one of the symbol's productions; an element of
   any other name (a symbol defined elsewhere, a token) is not constrained *)
Fixpoint valid (P : prods) (t : rt) : bool :=
  match plookup P (rname t) with
  | None => true
  | Some alts =>
      match t with
      | RNull _ => existsb (syms_eqb []) alts
      | RNode _ ch => negb (is_nil ch) && existsb (syms_eqb (map rname ch)) alts && forallb (valid P) ch
      | _ => false
      end
  end.

(* the maximal subtrees of symbols that [P] does not define, in source order *)
Fixpoint frontier (P : prods) (t : rt) : list rt :=
  match plookup P (rname t) with
  | None => [t]
  | Some _ => match t with RNode _ ch => flat_map (frontier P) ch | _ => [] end
  end.

(* names of the matched tokens, in source order *)
Fixpoint yield (t : rt) : list sym :=
  match t with
  | RTok n _ => [n]
  | RNull _ => []
  | RNode _ ch => flat_map yield ch
  | RSeq _ ch => flat_map yield ch
  end.

Definition is_tok (t : rt) : bool := match t with RTok _ _ => true | _ => false end.


(* every subtree named by a template symbol is a derivation tree of the
   productions generated for that template (checked on the implementation's
   trees by the correspondence run: the hypothesis of the denotation theorems) *)
Fixpoint subtrees (t : rt) : list rt :=
  t :: match t with RNode _ ch | RSeq _ ch => flat_map subtrees ch | _ => [] end.

Fixpoint spec_get (g : list (sym * ptempl)) (s : sym) : option ptempl :=
  match g with
  | [] => None
  | (k, v) :: r => if sym_eqb k s then Some v else spec_get r s
  end.

Definition templates_valid (with_seq : bool) (g : list (sym * ptempl)) (t : rt) : bool :=
  forallb (fun s => match spec_get g (rname s) with
                    | Some (QList T) => valid (list_gen T) s
                    | Some (QMap T) => valid (map_gen T) s
                    | Some (QSeq syms) => if with_seq then valid (seq_gen (rname s) syms) s else true
                    | _ => true
                    end) (subtrees t).

(* ------------------------------------------------------------------ *)
(* one parser object used for several calls                            *)

(* The cleanuper of a parser object (templates, choice / keep / squash symbols)
   is made once by the LLParser constructor from the constructor's arguments.
   A call parse(text, start_symbol_name=..) / cleanup(tree) hands it the raw
   tree [raw] the parse loop built for THAT call and gets the cleaned root; the
   state that the next call sees is the state before the call: no argument of a
   call (start symbol, do_cleanup) and no parsed text is remembered. *)
Definition call_step (E : env) (raw : rt) : env * res te := (E, cleanup E raw).

Fixpoint run_calls (E : env) (raws : list rt) : list (res te) :=
  match raws with
  | [] => []
  | r :: rest => let st := call_step E r in snd st :: run_calls (fst st) rest
  end.

(* ------------------------------------------------------------------ *)
(* read-only entry points between the calls                            *)

(* Besides parse()/cleanup() a parser object has entry points that only report:
   print_detailed_descr() / ParserSummary.gen_detailed_descr(),
   StdCleanuper.gen_detailed_descr(), is_ambiguous(), str()/repr() of the parser,
   of its templates and production rules, reading the public tables
   (parse_table, prods_map, terminals, prod_templates), the text of a raised
   ParsingError, the printers and finders of a returned TElement.  The parser
   value of the model is immutable: such a step [HLook what] (what = which
   entry point, only a label) returns nothing and leaves the state as it is. *)
Inductive hop :=
| HCall (raw : rt)          (* parse(..) / cleanup(..): the raw tree of that call *)
| HLook (what : Z).         (* a read-only entry point *)

Definition hop_step (E : env) (o : hop) : env * option (res te) :=
  match o with
  | HCall r => let st := call_step E r in (fst st, Some (snd st))
  | HLook _ => (E, None)
  end.

Fixpoint run_ops (E : env) (ops : list hop) : list (option (res te)) :=
  match ops with
  | [] => []
  | o :: rest => let st := hop_step E o in snd st :: run_ops (fst st) rest
  end.

Fixpoint calls_of (ops : list hop) : list rt :=
  match ops with
  | [] => []
  | HCall r :: rest => r :: calls_of rest
  | HLook _ :: rest => calls_of rest
  end.
