(* C04/LemmasBig.v -- round 4: statements whose point is that NOTHING depends on the magnitude of a
   line / column number or on what the first character of the text is.  get_orig_text takes the
   one-line branch for EVERY pair of positions on one line (the seeded change C04-m7 compared the two
   line numbers by object identity, which coincides with equality up to 256 only); a str is tokenized
   as the list of its rstrip()ped lines, the first line included: no character is removed in front
   (the seeded change C04-m8 dropped a leading U+FEFF on the str path). *)
From Coq Require Import ZArith List Bool Lia.
From AK Require Import Common.Err LLP.Base LLP.Parse gen.C04_Consts C04.Model C04.LemmasText.
Import ListNotations.
Open Scope Z_scope.

Lemma orig_text_one_line_l : forall lines l c0 c1,
  (l < length lines)%nat -> (c0 <= c1)%nat -> (c1 <= length (nth l lines []))%nat ->
  get_orig_text lines (P l c0, P l c1) = Ok (slice (nth l lines []) c0 c1)
  /\ length (slice (nth l lines []) c0 c1) = (c1 - c0)%nat.
Proof.
  intros lines l c0 c1 H1 H2 H3. split.
  - rewrite got_valid; try lia. unfold region. rewrite Nat.eqb_refl. reflexivity.
  - unfold slice. rewrite firstn_length, skipn_length. lia.
Qed.

Lemma str_is_its_stripped_lines_l : forall s,
  tok_lines (IStr s) = tok_lines (ILines (map rstrip (split_nl s)))
  /\ Forall2 prefix_of (tok_lines (IStr s)) (orig_lines (IStr s))
  /\ exists l0 rest, split_nl s = l0 :: rest /\ tok_lines (IStr s) = rstrip l0 :: map rstrip rest.
Proof.
  intros s. split; [reflexivity|]. split; [apply tok_orig_prefix|].
  cbn [tok_lines]. destruct (split_nl s) as [|l0 rest] eqn:E.
  - destruct s as [|c r]; cbn [split_nl] in E; [discriminate|].
    destruct (c =? 10); [discriminate|]. destruct (split_nl r); discriminate.
  - exists l0, rest. split; reflexivity.
Qed.
