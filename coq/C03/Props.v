(* C03/Props.v -- the property theorems, nothing else.
   C03  Left-recursive grammars are rejected; accepted grammars always terminate.

   Models: LLP/RecCheck.v (LLParser._verify_grammar_structure_part2),
   LLP/Table.v:nullables (_get_nullables), LLP/Parse.v (main loop of parse),
   LLP/Build.v (constructor pipeline).  Specification: C03/Spec.v
     Nullable R s        s =>* empty                     (inductive)
     lstep R A B         A |> B :  A -> pre B post, pre all nullable
     lpath R A B         |>+
     left_recursive R    exists A, A |>+ A
   with R = grules g (productions of the factorized grammar g, [] for terminals).
   [part1_ok g terms start] = what _verify_grammar_structure_part1 and the
   tokenizer guarantee before the check runs (terminals have no productions,
   every production symbol is a terminal or a key, keys distinct, $START$ is
   neither key nor terminal, $END$ is a terminal, the start symbol is a key);
   part1 itself is outside the model, C03.Run evaluates [part1_okb] on every
   generated grammar. *)
From Coq Require Import ZArith List Bool Lia.
From AK Require Import Common.Err LLP.Base LLP.Factor LLP.Table LLP.RecCheck LLP.Parse LLP.Build
     C03.Spec C03.LemmasRC C03.LemmasParse C03.LemmasTerm C03.LemmasInst C03.LemmasNull C03.Run.
Import ListNotations.
Open Scope nat_scope.

(* ------------------------------------------------------------------ 1. the recursion check *)

(* The check never raises for a grammar without a cycle: whatever the order
   [order] in which the outer loop visits the symbols (the code uses
   sorted(prods_map), i.e. name order), whatever list [nulls] it is given as
   long as every member is nullable. *)
Theorem reccheck_sound : forall g terms nulls order,
  terminals_have_no_rules g terms -> symbols_known g terms -> NoDup (gkeys g) ->
  (forall s, mem s nulls = true -> Nullable (grules g) s) ->
  rc_outer g nulls order terms = Err GrammarRec -> left_recursive (grules g).
Proof. intros g terms nulls order H1 H2 H3. exact (outer_sound g terms nulls H1 H2 H3 order). Qed.
Print Assumptions reccheck_sound.

(* Every left-recursive grammar is rejected, for EVERY visiting order that
   contains all the keys (in particular every assignment of names), provided
   [nulls] contains every nullable symbol. *)
Theorem reccheck_complete : forall g terms nulls order,
  terminals_have_no_rules g terms -> symbols_known g terms -> NoDup (gkeys g) ->
  (forall s, Nullable (grules g) s -> mem s nulls = true) ->
  (forall s, In s (gkeys g) -> In s order) ->
  left_recursive (grules g) -> rc_outer g nulls order terms = Err GrammarRec.
Proof.
  intros g terms nulls order H1 H2 H3 Hc Hord Hlr.
  destruct (outer_total g terms nulls H1 H2 H3 order) as [E|E]; auto.
  exfalso. exact (outer_complete g terms nulls H1 H2 H3 order Hc Hord E Hlr).
Qed.
Print Assumptions reccheck_complete.

(* The step budget of the model's loop (rc_fuel g) is never exhausted and no
   impossible state is reached: the outcome is Ok or GrammarIsRecursive. *)
Theorem reccheck_total : forall g terms nulls order,
  terminals_have_no_rules g terms -> symbols_known g terms -> NoDup (gkeys g) ->
  rc_outer g nulls order terms = Ok tt \/ rc_outer g nulls order terms = Err GrammarRec.
Proof. intros g terms nulls order H1 H2 H3. exact (outer_total g terms nulls H1 H2 H3 order). Qed.
Print Assumptions reccheck_total.

(* exactness for every visiting order *)
Theorem reccheck_exact : forall g terms nulls order,
  terminals_have_no_rules g terms -> symbols_known g terms -> NoDup (gkeys g) ->
  nulls_exact g nulls ->
  (forall s, In s (gkeys g) -> In s order) ->
  (rc_outer g nulls order terms = Err GrammarRec <-> left_recursive (grules g)) /\
  (rc_outer g nulls order terms = Ok tt <-> ~ left_recursive (grules g)).
Proof. intros g terms nulls order H1 H2 H3. exact (outer_exact g terms nulls H1 H2 H3 order). Qed.
Print Assumptions reccheck_exact.

(* the list computed by _get_nullables is exact *)
Theorem nullables_exact : forall g, NoDup (gkeys g) -> nulls_exact g (nullables g).
Proof. exact nullables_exact_l. Qed.
Print Assumptions nullables_exact.

(* the check as the constructor calls it: name-sorted order, computed nullables *)
Theorem rec_check_exact : forall g terms start,
  part1_ok g terms start ->
  (rec_check g terms (nullables g) = Err GrammarRec <-> left_recursive (grules g)) /\
  (rec_check g terms (nullables g) = Ok tt <-> ~ left_recursive (grules g)).
Proof.
  intros g terms start [H1 [H2 [H3 _]]].
  apply (rec_check_exact_l g terms (nullables g) H1 H2 H3). apply nullables_exact_l; auto.
Qed.
Print Assumptions rec_check_exact.

(* the constructor (LLP/Build.v:build): once the factorization has produced g,
   GrammarIsRecursive is raised exactly for left-recursive g and a parser is
   returned exactly for the others.  (That g is left-recursive iff the user's
   grammar is, is NOT proved: it is tested by the oracle on the user's grammar.) *)
Theorem build_exact : forall ug terminals smart start g sfxs,
  existsb has_dunder terminals || has_dunder start = false ->      (* the constructor's own name assertions pass *)
  factorize ug terminals smart = Ok (g, sfxs) ->
  part1_ok g (terminals ++ [END_TOKEN]) start ->
  (build ug terminals smart start = Err GrammarRec <-> left_recursive (grules g)) /\
  ((exists p, build ug terminals smart start = Ok p) <-> ~ left_recursive (grules g)).
Proof.
  intros ug terminals smart start g sfxs Hd Hf P1.
  destruct (rec_check_exact g (terminals ++ [END_TOKEN]) start P1) as [E1 E2].
  unfold build. rewrite Hd, Hf. cbn [bind]. cbn [t_nulls make_tables].
  destruct (rec_check g (terminals ++ [END_TOKEN]) (nullables g)) as [[]|e] eqn:E; cbn [bind].
  - split; split; intro H.
    + discriminate.
    + exfalso. apply (proj1 E2); auto.
    + apply E2; auto.
    + eexists; reflexivity.
  - split; split; intro H.
    + inversion H; subst. apply E1; auto.
    + f_equal. apply E1 in H. congruence.
    + destruct H as [p Hp]. discriminate.
    + exfalso. apply (proj2 E2) in H. discriminate.
Qed.
Print Assumptions build_exact.

(* ------------------------------------------------------------------ 2. termination of parse *)

(* Spine bound.  In every stack the loop can reach, the elements that start at
   the same token position p (= the expansions made since the last token match,
   with only empty completions in between) form a |> path read from the bottom,
   carry pairwise different symbols and are at most #keys + 1 (the +1 is
   $START$).  Stated for the productions xrules g start = g's productions plus
   $START$ -> start $END$. *)
Theorem spine_bound : forall (T : tables) terms start sfxs toks st p,
  part1_ok (t_grammar T) terms start ->
  ~ left_recursive (grules (t_grammar T)) ->
  reach (fun s => mem s terms) (table_get T) sfxs toks start st ->
  plinked (xrules (t_grammar T) start) (at_pos p st) /\
  NoDup (map fsym (at_pos p st)) /\
  length (at_pos p st) <= S (length (gkeys (t_grammar T))).
Proof. intros T terms start sfxs toks st p P1 Hn Hr. exact (spine_concrete T terms start sfxs toks P1 Hn st p Hr). Qed.
Print Assumptions spine_bound.

(* hence the stack never grows beyond (#keys + 1) * (#tokens + 1) elements *)
Theorem stack_depth_bound : forall (T : tables) terms start sfxs toks st,
  part1_ok (t_grammar T) terms start ->
  ~ left_recursive (grules (t_grammar T)) ->
  reach (fun s => mem s terms) (table_get T) sfxs toks start st ->
  length st <= S (length (gkeys (t_grammar T))) * S (length toks).
Proof.
  intros T terms start sfxs toks st P1 Hn Hr.
  pose proof (reach_PINV (xrules (t_grammar T) start) (fun s => mem s terms) (table_get T) sfxs toks start
                (table_sub_x T terms start P1) (init_in_x T start) st Hr) as I.
  exact (depth_bound (xrules (t_grammar T) start) (fun s => mem s terms) toks start (Ux T) (Ux_all T start) st I
           (not_lr_x T terms start P1 Hn)).
Qed.
Print Assumptions stack_depth_bound.

(* parse terminates: 2^k loop iterations suffice, with the explicit k below
   (B^(D+1), B = max_alts*(max_len+1)+1, D = (#keys+1)*(#tokens+1)) *)
Theorem parse_terminates : forall (T : tables) terms start sfxs toks,
  part1_ok (t_grammar T) terms start ->
  ~ left_recursive (grules (t_grammar T)) ->
  exists k,
    k <= (max_alts (t_grammar T) * (max_len (t_grammar T) + 1) + 1)
           ^ S (S (length (gkeys (t_grammar T))) * S (length toks)) /\
    (forall st', run_pow (fun s => mem s terms) (table_get T) sfxs toks k (init_stack start) <> Running st') /\
    parse (fun s => mem s terms) (table_get T) sfxs toks k start <> Err Hang.
Proof.
  intros T terms start sfxs toks P1 Hn. exists (parse_bound T start toks). split; [|split].
  - exact (parse_bound_le T start toks).
  - exact (parse_halts T terms start sfxs toks P1 Hn).
  - exact (parse_no_hang T terms start sfxs toks P1 Hn).
Qed.
Print Assumptions parse_terminates.

(* for every grammar the constructor accepts, parse returns a tree or raises a
   parsing error on every input *)
Theorem accepted_parse_terminates : forall ug terminals smart start p,
  build ug terminals smart start = Ok p ->
  part1_ok (p_grammar p) (p_terminals p) start ->
  forall toks, exists k, p_parse p k toks <> Err Hang.
Proof.
  intros ug terminals smart start p Hb P1 toks.
  unfold build in Hb. destruct (existsb has_dunder terminals || has_dunder start); [discriminate|].
  destruct (factorize ug terminals smart) as [[g sfxs]|e] eqn:Hf; cbn [bind] in Hb; [|discriminate].
  cbn [t_nulls make_tables] in Hb.
  destruct (rec_check g (terminals ++ [END_TOKEN]) (nullables g)) as [[]|e] eqn:E; cbn [bind] in Hb; [|discriminate].
  inversion Hb; subst p. clear Hb. cbn [p_grammar p_terminals] in P1.
  assert (Hn : ~ left_recursive (grules g)).
  { apply (proj2 (rec_check_exact g (terminals ++ [END_TOKEN]) start P1)). exact E. }
  destruct (parse_terminates (make_tables g (terminals ++ [END_TOKEN]) start) (terminals ++ [END_TOKEN]) start sfxs toks P1 Hn)
    as [k [_ [_ Hk]]].
  exists k. unfold p_parse. cbn [p_terminals p_tables p_sfxs p_start]. exact Hk.
Qed.
Print Assumptions accepted_parse_terminates.

(* ------------------------------------------------------------------ 3. non-vacuity *)

(* E -> B ; A -> eps | y ; B -> A B x | x  (A = the argument; the witness of the
   defect repaired by e00f232: with A visited before B the old code accepted it) *)
Definition witness (a : sym) : list (sym * list (list sym)) :=
  [([69%Z], [[[66%Z]]]); (a, [[]; [[121%Z]]]); ([66%Z], [[a; [66%Z]; [120%Z]]; [[120%Z]]])].
Definition fg_of (ug : list (sym * list (list sym))) (terminals : list sym) : grammar :=
  match factorize ug terminals false with Ok (g, _) => g | Err _ => [] end.
Definition xy : list sym := [[120%Z]; [121%Z]].

(* the current model raises GrammarIsRecursive for it under both namings *)
Example witness_rejected_both_namings :
  ctor_outcome (witness [65%Z]) xy false [69%Z] = Err GrammarRec /\
  ctor_outcome (witness [90%Z]) xy false [69%Z] = Err GrammarRec.
Proof. vm_compute. split; reflexivity. Qed.
Print Assumptions witness_rejected_both_namings.

(* ... it satisfies the hypotheses of the theorems and IS left-recursive by the
   inductive definition: B |> B through the nullable A *)
Example witness_is_left_recursive :
  part1_ok (fg_of (witness [65%Z]) xy) (xy ++ [END_TOKEN]) [69%Z] /\
  left_recursive (grules (fg_of (witness [65%Z]) xy)).
Proof.
  split.
  - apply part1_okb_ok. vm_compute. reflexivity.
  - exists [66%Z]. apply lpath_one.
    exists (mkRule [66%Z] [[65%Z]; [66%Z]; [120%Z]] 3%Z), [[65%Z]], [[120%Z]].
    split; [|split].
    + vm_compute. left. reflexivity.
    + reflexivity.
    + constructor; [|constructor].
      apply Nullable_rule with (mkRule [65%Z] [] 1%Z).
      * vm_compute. left. reflexivity.
      * constructor.
Qed.
Print Assumptions witness_is_left_recursive.

(* the same shape with a terminal in front of the recursive symbol
   (B -> A x B | x): hypotheses hold, not left-recursive, accepted, and the
   termination theorem applies to it with a nullable symbol present *)
Definition harmless : list (sym * list (list sym)) :=
  [([69%Z], [[[66%Z]]]); ([65%Z], [[]; [[121%Z]]]); ([66%Z], [[[65%Z]; [120%Z]; [66%Z]]; [[120%Z]]])].

Example harmless_accepted :
  part1_ok (fg_of harmless xy) (xy ++ [END_TOKEN]) [69%Z] /\
  ~ left_recursive (grules (fg_of harmless xy)) /\
  mem [65%Z] (nullables (fg_of harmless xy)) = true /\
  (exists p, build harmless xy false [69%Z] = Ok p).
Proof.
  assert (P1 : part1_ok (fg_of harmless xy) (xy ++ [END_TOKEN]) [69%Z]).
  { apply part1_okb_ok. vm_compute. reflexivity. }
  split; [exact P1|]. split; [|split].
  - apply (proj2 (rec_check_exact _ _ _ P1)). vm_compute. reflexivity.
  - vm_compute. reflexivity.
  - destruct (build harmless xy false [69%Z]) as [p|e] eqn:E.
    + exists p. reflexivity.
    + exfalso. revert E. vm_compute. discriminate.
Qed.
Print Assumptions harmless_accepted.

(* a reachable stack with two elements starting at the same position (E and B
   expanded before any token is matched): the spine bound is not vacuous *)
Example spine_nonvacuous :
  let g := fg_of harmless xy in
  let T := make_tables g (xy ++ [END_TOKEN]) [69%Z] in
  let toks := mk_toks [([121%Z], [121%Z]); ([120%Z], [120%Z]); ([120%Z], [120%Z])] in
  exists st, run_pow (fun s => mem s (xy ++ [END_TOKEN])) (table_get T) [] toks 1 (init_stack [69%Z]) = Running st /\
             length (at_pos 0 st) = 3.
Proof. vm_compute. eexists. split; reflexivity. Qed.
Print Assumptions spine_nonvacuous.

(* ------------------------------------------------------------------ 4. histories of constructor calls *)

(* A session = constructor calls made one after another in one process
   (C03.Run.Session; the harness passes the same productions object edited in
   place, equal copies, objects sharing their lists, re-created objects).  In
   the model a call has no access to earlier calls, so call k raises
   GrammarIsRecursive exactly when ITS factorized grammar is left-recursive,
   whatever was constructed before; that the implementation behaves like the
   model on such histories is what the Session correspondence cases compare. *)
Theorem session_exact : forall terminals calls k ug smart start inputs g sfxs,
  nth_error calls k = Some (ug, smart, start, inputs) ->
  existsb has_dunder terminals || has_dunder start = false ->
  factorize ug terminals smart = Ok (g, sfxs) ->
  part1_ok g (terminals ++ [END_TOKEN]) start ->
  (nth_error (session_outcomes terminals calls) k = Some (Err GrammarRec) <-> left_recursive (grules g)) /\
  (nth_error (session_outcomes terminals calls) k = Some (Ok tt) <-> ~ left_recursive (grules g)).
Proof.
  intros terminals calls k ug smart start inputs g sfxs Hk Hd Hf P1.
  destruct (build_exact ug terminals smart start g sfxs Hd Hf P1) as [E1 E2].
  unfold session_outcomes. rewrite (map_nth_error _ _ _ Hk). unfold ctor_outcome.
  destruct (build ug terminals smart start) as [p|e] eqn:E.
  - split; split; intro H.
    + discriminate.
    + apply E1 in H. discriminate.
    + apply E2. exists p. reflexivity.
    + reflexivity.
  - split; split; intro H.
    + inversion H; subst. apply E1. reflexivity.
    + apply E1 in H. congruence.
    + discriminate.
    + apply E2 in H. destruct H as [p Hp]. discriminate.
Qed.
Print Assumptions session_exact.

(* accepted, then the left-recursive variant, then the accepted grammar again *)
Example session_nonvacuous :
  session_outcomes xy [(harmless, false, [69%Z], []); (witness [65%Z], false, [69%Z], []); (harmless, false, [69%Z], [])]
  = [Ok tt; Err GrammarRec; Ok tt].
Proof. vm_compute. reflexivity. Qed.
Print Assumptions session_nonvacuous.
